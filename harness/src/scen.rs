//! Scenario interpreter: drives real `h3::server` / `h3::client` objects over SimQuic.
//!
//! `conn <role> <cfg> <op>…` — after every op the executor runs to quiescence.  Output: the
//! trace of completed API calls in order, then `|`, then what the simulated peer saw.
//!
//! cfg (comma separated): g0|g1 grease, mfs=<n>, wt=<0|1>, ec=<0|1>, dg=<0|1>, wts=<n>,
//!   seed=<n> executor order seed, uc=<n>/bc=<n> initial uni/bidi stream credit,
//!   wc=<n> initial write credit of every stream h3 writes on (default unlimited),
//!   rxhalt=1 once a receive call (rr rd rb rm rt rda) of a request task has answered an error, the later
//!   receive calls of that task are not made and answer `skipped` (the documented receive pattern ends with
//!   an error: C07, reading R-07); send calls go on  (default off),
//!   ev=1 log what h3 does on the transport into the trace, in order: w<sid>:<hex> fin<sid> rst<sid>:<c>
//!   stop<sid>:<c> close:<c>  (default off)
//! peer ops: o<sid> open; s<sid>:<hex> deliver chunk; f<sid> FIN; r<sid>:<code> RESET;
//!   x<sid>:<code> STOP_SENDING; C<code> application close; T timeout;
//!   gu<n> / gb<n> grant stream credit; gw<sid>:<n> grant write credit; cw<sid>:<n> set it
//!   #<text> annotation for the model side, ignored here
//!   !<site>[<target>][@<skip>]:<err> arm a transport fault (sim.rs `parse_fault`): the next call (after
//!   `skip` more) of `ou` poll_open_send / `ob` poll_open_bidi (target = ordinal of the stream to be opened),
//!   `sd` send_data / `pr` poll_ready / `pf` poll_finish / `rd` poll_data (target = stream id), `au`
//!   poll_accept_recv / `ab` poll_accept_bidi answers `C<code>` ApplicationClose, `T` Timeout, `I`
//!   InternalError, `U` Undefined (connection errors, sticky: the connection has failed), `X<code>`
//!   StreamTerminated or `K` Unknown (stream errors); `!pf<sid>:P`: that poll_finish answers `Pending` once.
//!   With faults the summary ends with `fired=[labels]`.
//!   cfg hold=1: `builder.build(conn)` is not called at the start but by the api op `conn.B` / `drv.B`
//!   cfg ops=1: every op of the script is logged into the trace as `@<op>` before it is applied, and (with
//!   ev=1) a fault that fires as `!<label>`: the trace is then the complete interleaved history
//! api ops: <task>.<cmd>  (tasks: conn, drv, snd, q<sid>, q<sid>s); `conn.U` / `drv.U` list and drain the
//!   WebTransport uni streams accepted so far (`<session>:<hex>:<open|fin|rst<c>>,…`); <task>.kill drops
//!   the task's future, <task>.kill? does the same but tolerates a task that does not exist (any more)
//!   WebTransport (server, after `conn.WT`): `conn.sid|ob[:<session>]|ou[:<session>]|ab|au|dgs:<hex>|dgr`; peer datagram
//!   `d:<hex>`; `dq:<mode>` what the transport answers to `send_datagram` (ok | na | tl | max=<n> | C<code> | T | I | U; C18);
//!   `conn.dgs` / `drv.dgs:<stream id>:<hex>[,<hex>…]` and `conn.dgr` / `drv.dgr[:<n>]` on a plain server / client connection
//!   (h3-datagram `server.rs` / `client.rs`; one sender / reader per op; `dgs` answers ok | not-available | too-large |
//!   err:conn:<class> per payload); one task `w<sid>` per opened / accepted stream: `rd` one poll_data, `ra` poll_data to the end, `wr:<hex>`
//!   poll_send, `fi` poll_finish; the `AsyncRead` / `AsyncWrite` faces (added for C19):
//!   `rf:<n1>,<n2>,…[:<calls>]` / `rt:…` read through futures / tokio `poll_read` with caller buffers of these sizes
//!   (cycling) to the end or for <calls> completed calls → `data:<hex>:n=<bytes per call>:<end|more|err:rterm:<c>|err:conn>`;
//!   `rff:…` / `rtf:…` the same in FILL mode (added for C06): every buffer is filled to its end by as many calls as that
//!   takes, `read_exact`-style - tokio: ONE `ReadBuf` kept across the calls (so calls start with a partly filled buffer),
//!   futures: the unfilled sub-slice `&mut buf[filled..]`;
//!   `sp` BidiStream::split (send half → task `w<sid>s`); `sd:<hex>` send_data(Frame::Data) + poll_ready;
//!   `wf:<hex>` / `wt:<hex>` write all through futures / tokio `poll_write`, then `poll_flush` → `ok:n=<bytes per call>`;
//!   `cl` futures poll_close, `sh` tokio poll_shutdown, `rst:<code>` reset, `ss:<code>` stop_sending
//!   stream commands: `rda` = recv_data until it answers `end` or an error (each answer one `rd=`
//!   entry); a trailing `!` on a stream command (`rr!`, `rd!`, `rda!`, `rt!`, …) ends the task when
//!   that call answers with an error (later commands then answer `no-task`)
#![allow(dead_code)]
use crate::exec::*;
use crate::sim::*;
use crate::util::*;
use bytes::{Buf, Bytes};
use futures_util::future::{select, Either};
use h3::error::{Code, ConnectionError, LocalError, StreamError};
use h3::quic::ConnectionErrorIncoming;
use http::{HeaderMap, HeaderName, HeaderValue};
use std::cell::RefCell;
use std::collections::BTreeMap;
use std::rc::Rc;

type SrvStream = h3::server::RequestStream<SimStream, Bytes>;
type CliStream = h3::client::RequestStream<SimStream, Bytes>;

#[derive(Clone)]
pub struct Ctx {
    /// task-name prefix (`""` for a single endpoint, `c.` / `s.` in two-endpoint runs)
    pub prefix: String,
    pub trace: Trace,
    pub spawner: SpawnRef,
    pub inflight: Rc<RefCell<BTreeMap<String, String>>>,
    pub net: NetRef,
}

impl Ctx {
    fn log(&self, task: &str, op: &str, res: String) {
        self.inflight.borrow_mut().remove(task);
        self.trace.borrow_mut().push(format!("{}.{}={}", task, op, res));
    }
    /// did the last completed call of `task` answer with an error?
    fn last_failed(&self, task: &str) -> bool {
        let p = format!("{}.", task);
        self.trace.borrow().iter().rev().find(|e| e.starts_with(&p)).map(|e| e.contains("=err:")).unwrap_or(false)
    }
    /// did the last completed call of `task` report an error anywhere in its answer (`rm=body:…:err:…` too)?
    fn last_has_err(&self, task: &str) -> bool {
        let p = format!("{}.", task);
        self.trace.borrow().iter().rev().find(|e| e.starts_with(&p)).map(|e| e.contains("err:")).unwrap_or(false)
    }
    fn rxhalt(&self) -> bool {
        self.net.borrow().rxhalt
    }
    fn begin(&self, task: &str, op: &str) {
        self.inflight.borrow_mut().insert(task.to_string(), op.to_string());
    }
}

pub fn code_name(c: Code) -> String {
    format!("{:?}", c)
}

pub fn render_conn_err(e: &ConnectionError) -> String {
    match e {
        ConnectionError::Local { error: LocalError::Application { code, .. } } => format!("local:{}", code_name(*code)),
        ConnectionError::Local { .. } => "local:closing".into(),
        ConnectionError::Remote(ConnectionErrorIncoming::ApplicationClose { error_code }) => format!("remote:app:{}", error_code),
        ConnectionError::Remote(ConnectionErrorIncoming::Timeout) => "remote:timeout".into(),
        ConnectionError::Remote(ConnectionErrorIncoming::InternalError(_)) => "remote:internal".into(),
        ConnectionError::Remote(_) => "remote:undefined".into(),
        ConnectionError::Timeout => "timeout".into(),
        _ => "other".into(),
    }
}

/// the variant of `SendDatagramError` with its class and code (added for C18)
pub fn render_dgram_send_err(e: &h3_datagram::datagram_handler::SendDatagramError) -> String {
    use h3_datagram::datagram_handler::SendDatagramError as E;
    match e {
        E::NotAvailable { .. } => "not-available".into(),
        E::TooLarge { .. } => "too-large".into(),
        E::ConnectionError { 0: c, .. } => format!("err:conn:{}", render_conn_err(c)),
        _ => "err:other".into(),
    }
}

/// `send_datagram` for every payload of `<hex>[,<hex>…]` through ONE sender, answers joined by `,`
fn dgram_send_all<H: h3_datagram::quic_traits::SendDatagram<Bytes>>(
    mut snd: h3_datagram::datagram_handler::DatagramSender<H, Bytes>,
    arg: &str,
) -> String {
    let mut out = Vec::new();
    for h in arg.split(',') {
        out.push(match snd.send_datagram(Bytes::from(parse_hex(h).unwrap_or_default())) {
            Ok(()) => "ok".to_string(),
            Err(e) => render_dgram_send_err(&e),
        });
    }
    out.join(",")
}

/// `<sid>:<hex>[,<hex>…]` of the `dgs` op of a plain connection task
fn dgram_sid_arg(arg: &str) -> Option<(h3::quic::StreamId, &str)> {
    let (sid, rest) = arg.split_once(':')?;
    let sid = h3::quic::StreamId::try_from(sid.parse::<u64>().ok()?).ok()?;
    Some((sid, rest))
}

/// `read_datagram` `<n>` times (default once) through ONE reader: `dg:<sid>:<hex>` each, joined by `,`; stops at an error
async fn dgram_read_all<H: h3_datagram::quic_traits::RecvDatagram>(
    mut rd: h3_datagram::datagram_handler::DatagramReader<H>,
    arg: &str,
) -> String
where
    H::Buffer: Buf,
{
    let n = arg.parse::<usize>().unwrap_or(1).max(1);
    let mut out = Vec::new();
    for _ in 0..n {
        match rd.read_datagram().await {
            Ok(d) => {
                let mut p = d.payload().chunk().to_vec();
                if p.len() != d.payload().remaining() {
                    p.clear();
                    p.extend_from_slice(b"non-contiguous");
                }
                out.push(format!("dg:{}:{}", d.stream_id().into_inner(), to_hex(&p)))
            }
            Err(e) => {
                out.push(render_stream_err(&e));
                break;
            }
        }
    }
    out.join(",")
}

pub fn render_stream_err(e: &StreamError) -> String {
    match e {
        StreamError::StreamError { code, .. } => format!("err:stream:{}", code_name(*code)),
        StreamError::RemoteTerminate { code } => format!("err:rterm:{}", code.value()),
        StreamError::ConnectionError(c) => format!("err:conn:{}", render_conn_err(c)),
        StreamError::HeaderTooBig { actual_size, max_size } => format!("err:toobig:{}:{}", actual_size, max_size),
        StreamError::RemoteClosing => "err:rclosing".into(),
        StreamError::Undefined(_) => "err:undefined".into(),
        _ => "err:other".into(),
    }
}

/// header map canonical form: sorted by name, per-name order kept; values in hex
pub fn render_headers(h: &HeaderMap) -> String {
    let mut names: Vec<&HeaderName> = h.keys().collect();
    names.sort_by(|a, b| a.as_str().cmp(b.as_str()));
    let mut parts = Vec::new();
    for n in names {
        for v in h.get_all(n) {
            parts.push(format!("{}={}", n.as_str(), to_hex(v.as_bytes())));
        }
    }
    if parts.is_empty() {
        "-".into()
    } else {
        parts.join(";")
    }
}

/// `name=hexvalue;name=hexvalue` -> HeaderMap (append, so duplicates are kept in order)
pub fn parse_headers(s: &str) -> Option<HeaderMap> {
    let mut h = HeaderMap::new();
    if s == "-" || s.is_empty() {
        return Some(h);
    }
    for kv in s.split(';') {
        let (k, v) = kv.split_once('=')?;
        let name = HeaderName::from_bytes(k.as_bytes()).ok()?;
        let val = HeaderValue::from_bytes(&parse_hex(v)?).ok()?;
        h.append(name, val);
    }
    Some(h)
}

fn data_result<B: Buf>(r: Result<Option<B>, StreamError>) -> String {
    match r {
        Ok(Some(mut b)) => format!("data:{}", to_hex(&b.copy_to_bytes(b.remaining()))),
        Ok(None) => "end".into(),
        Err(e) => render_stream_err(&e),
    }
}

fn trailers_result(r: Result<Option<HeaderMap>, StreamError>) -> String {
    match r {
        Ok(Some(h)) => format!("trailers:{}", render_headers(&h)),
        Ok(None) => "none".into(),
        Err(e) => render_stream_err(&e),
    }
}

fn unit_result(r: Result<(), StreamError>) -> String {
    match r {
        Ok(()) => "ok".into(),
        Err(e) => render_stream_err(&e),
    }
}

fn parse_code(s: &str) -> Code {
    Code::from(s.parse::<u64>().unwrap_or(0))
}

// ------------------------------------------------------------------ server side

/// commands shared by server and client request streams (after the message head)
macro_rules! stream_cmd {
    ($ctx:expr, $name:expr, $st:expr, $cmd:expr) => {{
        let ctx = &$ctx;
        let name: &str = &$name;
        let cmd: &str = &$cmd;
        let (op, arg) = cmd.split_once(':').unwrap_or((cmd, ""));
        match op {
            "rd" => {
                ctx.begin(name, "rd");
                let r = data_result($st.recv_data().await);
                ctx.log(name, "rd", r);
            }
            // the documented pattern: recv_data until it answers None (or an error)
            "rb" => {
                ctx.begin(name, "rb");
                let mut body = Vec::new();
                let r = loop {
                    match $st.recv_data().await {
                        Ok(Some(mut b)) => body.extend_from_slice(&b.copy_to_bytes(b.remaining())),
                        Ok(None) => break format!("body:{}", to_hex(&body)),
                        Err(e) => break format!("body:{}:{}", to_hex(&body), render_stream_err(&e)),
                    }
                };
                ctx.log(name, "rb", r);
            }
            // the whole documented receive pattern: body until None, then (only after a clean
            // end of body) the trailers
            "rm" => {
                ctx.begin(name, "rm");
                let mut body = Vec::new();
                let r = loop {
                    match $st.recv_data().await {
                        Ok(Some(mut b)) => body.extend_from_slice(&b.copy_to_bytes(b.remaining())),
                        Ok(None) => break Ok(()),
                        Err(e) => break Err(render_stream_err(&e)),
                    }
                };
                let out = match r {
                    Err(e) => format!("body:{}:{}", to_hex(&body), e),
                    Ok(()) => format!("body:{}:{}", to_hex(&body), trailers_result($st.recv_trailers().await)),
                };
                ctx.log(name, "rm", out);
            }
            "rt" => {
                ctx.begin(name, "rt");
                let r = trailers_result($st.recv_trailers().await);
                ctx.log(name, "rt", r);
            }
            // the documented body loop: recv_data until it answers `end` or an error
            // (every answer is logged as one `rd=` entry)
            "rda" => loop {
                ctx.begin(name, "rd");
                let r = data_result($st.recv_data().await);
                let more = r.starts_with("data:");
                ctx.log(name, "rd", r);
                if !more {
                    break;
                }
            },
            "sd" => {
                ctx.begin(name, "sd");
                let b = parse_hex(arg).unwrap_or_default();
                let r = unit_result($st.send_data(Bytes::from(b)).await);
                ctx.log(name, "sd", r);
            }
            "st" => {
                ctx.begin(name, "st");
                let h = parse_headers(arg).unwrap_or_default();
                let r = unit_result($st.send_trailers(h).await);
                ctx.log(name, "st", r);
            }
            "fi" => {
                ctx.begin(name, "fi");
                let r = unit_result($st.finish().await);
                ctx.log(name, "fi", r);
            }
            "ss" => {
                $st.stop_sending(parse_code(arg));
                ctx.log(name, "ss", "ok".into());
            }
            "rs" => {
                $st.stop_stream(parse_code(arg));
                ctx.log(name, "rs", "ok".into());
            }
            _ => ctx.log(name, op, "bad-cmd".into()),
        }
    }};
}

fn is_recv_cmd(op: &str) -> bool {
    matches!(op, "rr" | "rd" | "rb" | "rm" | "rt" | "rda")
}

async fn server_stream_task(name: String, mut st: SrvStream, mb: Mailbox, ctx: Ctx) {
    let mut rx_failed = false;
    loop {
        let cmd = NextCmd(mb.clone()).await;
        // `<cmd>!`: the task ends when this call answers with an error (documented call pattern)
        let (cmd, halt) = match cmd.strip_suffix('!') {
            Some(c) => (c.to_string(), true),
            None => (cmd, false),
        };
        let (op, arg) = cmd.split_once(':').unwrap_or((&cmd, ""));
        if ctx.rxhalt() && is_recv_cmd(op) && rx_failed {
            ctx.log(&name, op, "skipped".into());
            continue;
        }
        let recv_cmd = is_recv_cmd(op);
        match op {
            "dr" => {
                ctx.log(&name, "dr", "ok".into());
                return;
            }
            "sp" => {
                let (send, recv) = st.split();
                let sname = format!("{}s", name);
                let smb: Mailbox = Default::default();
                ctx.spawner.spawn(sname.clone(), smb.clone(), Box::pin(server_stream_task(sname, send, smb, ctx.clone())));
                st = recv;
                ctx.log(&name, "sp", "ok".into());
            }
            "sr" => {
                ctx.begin(&name, "sr");
                let (status, hdrs) = arg.split_once(':').unwrap_or((arg, "-"));
                let mut resp = http::Response::new(());
                *resp.status_mut() = http::StatusCode::from_u16(status.parse().unwrap_or(200)).unwrap_or(http::StatusCode::OK);
                *resp.headers_mut() = parse_headers(hdrs).unwrap_or_default();
                let r = unit_result(st.send_response(resp).await);
                ctx.log(&name, "sr", r);
            }
            _ => stream_cmd!(ctx, name, st, cmd),
        }
        if recv_cmd && ctx.last_has_err(&name) {
            rx_failed = true;
        }
        if halt && ctx.last_failed(&name) {
            return;
        }
    }
}

fn render_request(req: &http::Request<()>) -> String {
    let proto = req.extensions().get::<h3::ext::Protocol>().map(|p| p.as_str().to_string()).unwrap_or_else(|| "-".into());
    format!("ok:{}:{}:{}:{}", req.method(), to_hex(req.uri().to_string().as_bytes()), proto, render_headers(req.headers()))
}

async fn server_request_task(name: String, resolver: h3::server::RequestResolver<SimConn, Bytes>, mb: Mailbox, ctx: Ctx) {
    // phase 1: the resolver
    let st = loop {
        let cmd = NextCmd(mb.clone()).await;
        match cmd.as_str() {
            "dr" => {
                ctx.log(&name, "dr", "ok".into());
                return;
            }
            "res" | "res!" => {
                ctx.begin(&name, "res");
                match resolver.resolve_request().await {
                    Ok((req, st)) => {
                        ctx.log(&name, "res", render_request(&req));
                        break st;
                    }
                    Err(e) => {
                        ctx.log(&name, "res", render_stream_err(&e));
                        return;
                    }
                }
            }
            other => ctx.log(&name, other.trim_end_matches('!'), "bad-cmd".into()),
        }
    };
    server_stream_task(name, st, mb, ctx).await
}

fn accept_result(name: &str, ctx: &Ctx, r: Result<Option<h3::server::RequestResolver<SimConn, Bytes>>, ConnectionError>) -> bool {
    match r {
        Ok(Some(resolver)) => {
            let sid = resolver.frame_stream.id().into_inner();
            let rname = format!("{}q{}", ctx.prefix, sid);
            let rmb: Mailbox = Default::default();
            ctx.spawner.spawn(rname.clone(), rmb.clone(), Box::pin(server_request_task(rname, resolver, rmb, ctx.clone())));
            ctx.log(name, "A", format!("req:{}", sid));
            true
        }
        Ok(None) => {
            ctx.log(name, "A", "none".into());
            false
        }
        Err(e) => {
            ctx.log(name, "A", format!("err:{}", render_conn_err(&e)));
            false
        }
    }
}

/// `U`: take every WebTransport uni stream the connection has accepted so far (in order) and drain
/// what is buffered/available on it: `<session id>:<hex>:<open|fin|rst<code>>,…` or `-`
fn drain_wt_uni(acc: &mut h3::connection::AcceptedStreams<SimConn, Bytes>) -> String {
    use h3::quic::{RecvStream, StreamErrorIncoming};
    let mut parts = Vec::new();
    for (sid, mut st) in acc.wt_uni_streams.drain(..) {
        let id: String = format!("{:?}", sid).chars().filter(|c| c.is_ascii_digit()).collect();
        let mut data = Vec::new();
        let w = futures_util::task::noop_waker();
        let mut cx = std::task::Context::from_waker(&w);
        let end = loop {
            match st.poll_data(&mut cx) {
                std::task::Poll::Pending => break "open".to_string(),
                std::task::Poll::Ready(Ok(Some(mut b))) => data.extend_from_slice(&b.copy_to_bytes(b.remaining())),
                std::task::Poll::Ready(Ok(None)) => break "fin".to_string(),
                std::task::Poll::Ready(Err(StreamErrorIncoming::StreamTerminated { error_code })) => break format!("rst{}", error_code),
                std::task::Poll::Ready(Err(_)) => break "err".to_string(),
            }
        };
        parts.push(format!("{}:{}:{}", id, to_hex(&data), end));
    }
    if parts.is_empty() {
        "-".into()
    } else {
        parts.join(",")
    }
}

/// cfg `hold=1`: the builder call is part of the scenario (`<task>.B`), so that transport faults can be
/// armed before it; `D` ends the task without a connection.  false = the task ends
async fn wait_for_build(name: &str, mb: &Mailbox, ctx: &Ctx) -> bool {
    if !ctx.net.borrow().hold {
        return true;
    }
    loop {
        let cmd = NextCmd(mb.clone()).await;
        match cmd.as_str() {
            "B" => return true,
            "D" => {
                ctx.log(name, "D", "ok".into());
                return false;
            }
            other => ctx.log(name, other.split(':').next().unwrap_or(""), "bad-cmd".into()),
        }
    }
}

async fn server_conn_task(builder: h3::server::Builder, mb: Mailbox, ctx: Ctx) {
    let name = format!("{}conn", ctx.prefix);
    if !wait_for_build(&name, &mb, &ctx).await {
        return;
    }
    ctx.begin(&name, "build");
    let mut conn = match builder.build::<SimConn, Bytes>(SimConn { net: ctx.net.clone() }).await {
        Ok(c) => {
            ctx.log(&name, "build", "ok".into());
            c
        }
        Err(e) => {
            ctx.log(&name, "build", format!("err:{}", render_conn_err(&e)));
            return;
        }
    };
    let mut looping = false;
    loop {
        let cmd = if looping {
            // accept loop, interruptible by a command
            ctx.begin(&name, "A");
            let next = {
                let acc = Box::pin(conn.accept());
                let nxt = Box::pin(NextCmd(mb.clone()));
                match select(acc, nxt).await {
                    Either::Left((r, _)) => Err(r),
                    Either::Right((c, _)) => Ok(c),
                }
            };
            match next {
                Err(r) => {
                    looping = accept_result(&name, &ctx, r);
                    continue;
                }
                Ok(c) => {
                    ctx.inflight.borrow_mut().remove(&name);
                    c
                }
            }
        } else {
            NextCmd(mb.clone()).await
        };
        let (op, arg) = cmd.split_once(':').unwrap_or((&cmd, ""));
        match op {
            "A" => {
                ctx.begin(&name, "A");
                let r = conn.accept().await;
                accept_result(&name, &ctx, r);
            }
            "AL" => looping = true,
            "AS" => looping = false,
            "S" => {
                ctx.begin(&name, "S");
                let r = conn.shutdown(arg.parse().unwrap_or(0)).await;
                ctx.log(&name, "S", match r {
                    Ok(()) => "ok".into(),
                    Err(e) => format!("err:{}", render_conn_err(&e)),
                });
            }
            "U" => {
                let r = drain_wt_uni(conn.inner.accepted_streams_mut());
                ctx.log(&name, "U", r);
            }
            // datagrams on a plain connection (h3-datagram `server.rs`, added for C18):
            // dgs:<stream id>:<hex>[,<hex>…]   dgr[:<n>]
            "dgs" => {
                use h3_datagram::datagram_handler::HandleDatagramsExt;
                let r = match dgram_sid_arg(arg) {
                    Some((sid, rest)) => dgram_send_all(conn.get_datagram_sender(sid), rest),
                    None => "bad-cmd".into(),
                };
                ctx.log(&name, "dgs", r);
            }
            "dgr" => {
                use h3_datagram::datagram_handler::HandleDatagramsExt;
                ctx.begin(&name, "dgr");
                let r = dgram_read_all(conn.get_datagram_reader(), arg).await;
                ctx.log(&name, "dgr", r);
            }
            "D" => {
                ctx.log(&name, "D", "ok".into());
                return;
            }
            // accept the next request, resolve it and accept it as a WebTransport session;
            // the session takes the connection over
            "WT" => {
                ctx.begin(&name, "WT");
                let resolver = match conn.accept().await {
                    Ok(Some(r)) => r,
                    Ok(None) => {
                        ctx.log(&name, "WT", "none".into());
                        continue;
                    }
                    Err(e) => {
                        ctx.log(&name, "WT", format!("err:{}", render_conn_err(&e)));
                        continue;
                    }
                };
                let sid = resolver.frame_stream.id().into_inner();
                let (req, st) = match resolver.resolve_request().await {
                    Ok(x) => x,
                    Err(e) => {
                        ctx.log(&name, "WT", format!("res:{}:{}", sid, render_stream_err(&e)));
                        continue;
                    }
                };
                match h3_webtransport::server::WebTransportSession::accept(req, st, conn).await {
                    Ok(sess) => {
                        ctx.log(&name, "WT", format!("ok:connect={}:session={}", sid, session_num(&sess.session_id())));
                        return wt_session_task(sess, mb, ctx).await;
                    }
                    Err(e) => {
                        ctx.log(&name, "WT", format!("accept:{}:{}", sid, render_stream_err(&e)));
                        return;
                    }
                }
            }
            _ => ctx.log(&name, op, "bad-cmd".into()),
        }
    }
}

// ------------------------------------------------------------------ WebTransport (server)

type WtSession = h3_webtransport::server::WebTransportSession<SimConn, Bytes>;

fn session_num(s: &h3::webtransport::SessionId) -> String {
    // the number is crate-private: take it from the Debug rendering `SessionId(<n>)`
    format!("{:?}", s).chars().filter(|c| c.is_ascii_digit()).collect()
}

/// `<n1>,<n2>,…[:<calls>]`: caller buffer sizes (used cyclically; none given = 4096) and an optional
/// bound on the number of completed `poll_read` calls
fn parse_sizes(arg: &str) -> (Vec<usize>, Option<usize>) {
    let (sz, calls) = match arg.split_once(':') {
        Some((a, b)) => (a, b.parse::<usize>().ok()),
        None => (arg, None),
    };
    let mut sizes: Vec<usize> = sz.split(',').filter_map(|x| x.parse::<usize>().ok()).collect();
    if sizes.is_empty() {
        sizes.push(4096);
    }
    (sizes, calls)
}

fn render_quic_stream_err(e: &h3::quic::StreamErrorIncoming) -> String {
    match e {
        h3::quic::StreamErrorIncoming::StreamTerminated { error_code } => format!("err:rterm:{}", error_code),
        _ => "err:conn".into(),
    }
}

/// the `std::io::Error` the `AsyncRead`/`AsyncWrite` impls answer with wraps the transport's error
fn render_io_err(e: &std::io::Error) -> String {
    match e.get_ref().and_then(|x| x.downcast_ref::<h3::quic::StreamErrorIncoming>()) {
        Some(q) => render_quic_stream_err(q),
        None => format!("err:io:{:?}", e.kind()),
    }
}

fn join_counts(c: &[usize]) -> String {
    if c.is_empty() {
        "-".into()
    } else {
        c.iter().map(|x| x.to_string()).collect::<Vec<_>>().join(",")
    }
}

/// read loop of an application that uses `poll_read` with its own buffers: every completed call
/// contributes the bytes it reported; `Ok(0)` / nothing filled is the end of the stream.  The buffer is
/// pre-filled with a marker and everything behind the reported length must still be the marker.
macro_rules! wt_read {
    ($s:expr, $tokio_face:expr, $sizes:expr, $calls:expr) => {{
        let mut all: Vec<u8> = Vec::new();
        let mut counts: Vec<usize> = Vec::new();
        let mut i = 0usize;
        let end = loop {
            if let Some(m) = $calls {
                if i >= m {
                    break "more".to_string();
                }
            }
            let n = $sizes[i % $sizes.len()];
            i += 1;
            let mut buf = vec![0xa5u8; n];
            let r: std::io::Result<usize> = if $tokio_face {
                let mut rb = tokio::io::ReadBuf::new(&mut buf);
                match std::future::poll_fn(|cx| tokio::io::AsyncRead::poll_read(std::pin::Pin::new(&mut *$s), cx, &mut rb)).await {
                    Ok(()) => Ok(rb.filled().len()),
                    Err(e) => Err(e),
                }
            } else {
                std::future::poll_fn(|cx| futures_util::io::AsyncRead::poll_read(std::pin::Pin::new(&mut *$s), cx, &mut buf)).await
            };
            match r {
                Ok(0) => break "end".to_string(),
                Ok(k) if k > n => break format!("err:overrun:{}", k),
                Ok(k) => {
                    if buf[k..].iter().any(|b| *b != 0xa5) {
                        break "err:scribble".to_string();
                    }
                    all.extend_from_slice(&buf[..k]);
                    counts.push(k);
                }
                Err(e) => break render_io_err(&e),
            }
        };
        format!("data:{}:n={}:{}", to_hex(&all), join_counts(&counts), end)
    }};
}

/// read loop of an application that FILLS each of its buffers (`read_exact`, `read_buf` on a partly filled
/// buffer): the calls go on with what is left of the same buffer until it is full, then the next buffer is taken.
/// tokio face: one `ReadBuf` lives across those calls, so `poll_read` sees `filled() > 0`; futures face: the
/// unfilled sub-slice.  Same answer format as `wt_read!` (`n=` lists the bytes of every completed CALL).
macro_rules! wt_read_fill {
    ($s:expr, $tokio_face:expr, $sizes:expr, $calls:expr) => {{
        let mut all: Vec<u8> = Vec::new();
        let mut counts: Vec<usize> = Vec::new();
        let mut i = 0usize;
        let mut done = 0usize;
        let end = 'outer: loop {
            let n = $sizes[i % $sizes.len()].max(1);
            i += 1;
            let mut buf = vec![0xa5u8; n];
            let mut filled = 0usize;
            let mut fin: Option<String> = None;
            if $tokio_face {
                let mut rb = tokio::io::ReadBuf::new(&mut buf);
                while rb.remaining() > 0 {
                    if let Some(m) = $calls {
                        if done >= m {
                            fin = Some("more".to_string());
                            break;
                        }
                    }
                    let before = rb.filled().len();
                    match std::future::poll_fn(|cx| tokio::io::AsyncRead::poll_read(std::pin::Pin::new(&mut *$s), cx, &mut rb)).await {
                        Ok(()) => {
                            let k = rb.filled().len() - before;
                            if k == 0 {
                                fin = Some("end".to_string());
                                break;
                            }
                            counts.push(k);
                            done += 1;
                        }
                        Err(e) => {
                            fin = Some(render_io_err(&e));
                            break;
                        }
                    }
                }
                filled = rb.filled().len();
            } else {
                while filled < n {
                    if let Some(m) = $calls {
                        if done >= m {
                            fin = Some("more".to_string());
                            break;
                        }
                    }
                    match std::future::poll_fn(|cx| futures_util::io::AsyncRead::poll_read(std::pin::Pin::new(&mut *$s), cx, &mut buf[filled..])).await {
                        Ok(0) => {
                            fin = Some("end".to_string());
                            break;
                        }
                        Ok(k) if k > n - filled => {
                            fin = Some(format!("err:overrun:{}", k));
                            break;
                        }
                        Ok(k) => {
                            filled += k;
                            counts.push(k);
                            done += 1;
                        }
                        Err(e) => {
                            fin = Some(render_io_err(&e));
                            break;
                        }
                    }
                }
            }
            if buf[filled..].iter().any(|b| *b != 0xa5) {
                break 'outer "err:scribble".to_string();
            }
            all.extend_from_slice(&buf[..filled]);
            if let Some(f) = fin {
                break 'outer f;
            }
        };
        format!("data:{}:n={}:{}", to_hex(&all), join_counts(&counts), end)
    }};
}

/// `write_all` + `flush` of an application that uses `poll_write` directly
macro_rules! wt_write {
    ($s:expr, $tokio_face:expr, $data:expr) => {{
        let mut off = 0usize;
        let mut counts: Vec<usize> = Vec::new();
        let res = loop {
            if off >= $data.len() {
                break "ok".to_string();
            }
            let r = if $tokio_face {
                std::future::poll_fn(|cx| tokio::io::AsyncWrite::poll_write(std::pin::Pin::new(&mut *$s), cx, &$data[off..])).await
            } else {
                std::future::poll_fn(|cx| futures_util::io::AsyncWrite::poll_write(std::pin::Pin::new(&mut *$s), cx, &$data[off..])).await
            };
            match r {
                Ok(0) => break "err:zero".to_string(),
                Ok(k) if off + k > $data.len() => break format!("err:overrun:{}", k),
                Ok(k) => {
                    off += k;
                    counts.push(k);
                }
                Err(e) => break render_io_err(&e),
            }
        };
        let res = if res == "ok" {
            let f = if $tokio_face {
                std::future::poll_fn(|cx| tokio::io::AsyncWrite::poll_flush(std::pin::Pin::new(&mut *$s), cx)).await
            } else {
                std::future::poll_fn(|cx| futures_util::io::AsyncWrite::poll_flush(std::pin::Pin::new(&mut *$s), cx)).await
            };
            match f {
                Ok(()) => res,
                Err(e) => render_io_err(&e),
            }
        } else {
            res
        };
        format!("{}:n={}", res, join_counts(&counts))
    }};
}

macro_rules! wt_close {
    ($s:expr, $tokio_face:expr) => {{
        if $tokio_face {
            std::future::poll_fn(|cx| tokio::io::AsyncWrite::poll_shutdown(std::pin::Pin::new(&mut *$s), cx)).await
        } else {
            std::future::poll_fn(|cx| futures_util::io::AsyncWrite::poll_close(std::pin::Pin::new(&mut *$s), cx)).await
        }
    }};
}

enum WtStream {
    Bidi(h3_webtransport::stream::BidiStream<SimStream, Bytes>),
    Send(h3_webtransport::stream::SendStream<SimStream, Bytes>),
    Recv(h3_webtransport::stream::RecvStream<SimStream, Bytes>),
}

async fn wt_stream_task(name: String, mut st: WtStream, mb: Mailbox, ctx: Ctx) {
    use h3::quic::{RecvStream as _, SendStream as _, SendStreamUnframed as _};
    use std::future::poll_fn;
    loop {
        let cmd = NextCmd(mb.clone()).await;
        let (op, arg) = cmd.split_once(':').unwrap_or((&cmd, ""));
        match op {
            "dr" => {
                ctx.log(&name, "dr", "ok".into());
                return;
            }
            "rd" => {
                ctx.begin(&name, "rd");
                let r = match &mut st {
                    WtStream::Bidi(s) => Some(poll_fn(|cx| s.poll_data(cx)).await),
                    WtStream::Recv(s) => Some(poll_fn(|cx| s.poll_data(cx)).await),
                    WtStream::Send(_) => None,
                };
                let out = match r {
                    None => "bad-cmd".to_string(),
                    Some(Ok(Some(mut b))) => format!("data:{}", to_hex(&b.copy_to_bytes(b.remaining()))),
                    Some(Ok(None)) => "end".into(),
                    Some(Err(h3::quic::StreamErrorIncoming::StreamTerminated { error_code })) => format!("err:rterm:{}", error_code),
                    Some(Err(_)) => "err:conn".into(),
                };
                ctx.log(&name, "rd", out);
            }
            // read until the end of the stream (or an error): all bytes, concatenated
            "ra" => {
                ctx.begin(&name, "ra");
                let mut all = Vec::new();
                let out = loop {
                    let r = match &mut st {
                        WtStream::Bidi(s) => poll_fn(|cx| s.poll_data(cx)).await,
                        WtStream::Recv(s) => poll_fn(|cx| s.poll_data(cx)).await,
                        WtStream::Send(_) => break "bad-cmd".to_string(),
                    };
                    match r {
                        Ok(Some(mut b)) => all.extend_from_slice(&b.copy_to_bytes(b.remaining())),
                        Ok(None) => break format!("data:{}:end", to_hex(&all)),
                        Err(h3::quic::StreamErrorIncoming::StreamTerminated { error_code }) => {
                            break format!("data:{}:err:rterm:{}", to_hex(&all), error_code)
                        }
                        Err(_) => break format!("data:{}:err:conn", to_hex(&all)),
                    }
                };
                ctx.log(&name, "ra", out);
            }
            "wr" => {
                ctx.begin(&name, "wr");
                let mut buf = Bytes::from(parse_hex(arg).unwrap_or_default());
                let mut res = "ok".to_string();
                while buf.has_remaining() {
                    let r = match &mut st {
                        WtStream::Bidi(s) => poll_fn(|cx| s.poll_send(cx, &mut buf)).await,
                        WtStream::Send(s) => poll_fn(|cx| s.poll_send(cx, &mut buf)).await,
                        WtStream::Recv(_) => {
                            res = "bad-cmd".into();
                            break;
                        }
                    };
                    if let Err(e) = r {
                        res = match e {
                            h3::quic::StreamErrorIncoming::StreamTerminated { error_code } => format!("err:rterm:{}", error_code),
                            _ => "err:conn".into(),
                        };
                        break;
                    }
                }
                ctx.log(&name, "wr", res);
            }
            "fi" => {
                ctx.begin(&name, "fi");
                let r = match &mut st {
                    WtStream::Bidi(s) => poll_fn(|cx| s.poll_finish(cx)).await.is_ok(),
                    WtStream::Send(s) => poll_fn(|cx| s.poll_finish(cx)).await.is_ok(),
                    WtStream::Recv(_) => false,
                };
                ctx.log(&name, "fi", if r { "ok".into() } else { "err".into() });
            }
            // ---- C19: the `AsyncRead` / `AsyncWrite` faces of WebTransport streams
            // rf:<n1>,<n2>,…[:<calls>]  read through futures `AsyncRead::poll_read` with caller buffers of
            // the given sizes (cycling) until EOF / an error / <calls> completed calls;  rt: the same
            // through tokio `AsyncRead::poll_read`.  Answer: data:<hex>:n=<bytes per call>:<end|more|err:…>
            "rf" | "rt" => {
                ctx.begin(&name, op);
                let (sizes, calls) = parse_sizes(arg);
                let out = match &mut st {
                    WtStream::Bidi(s) => wt_read!(s, op == "rt", sizes, calls),
                    WtStream::Recv(s) => wt_read!(s, op == "rt", sizes, calls),
                    WtStream::Send(_) => "bad-cmd".to_string(),
                };
                ctx.log(&name, op, out);
            }
            // rff / rtf: the same in FILL mode - every caller buffer is filled to its end by as many calls as it takes
            // (tokio: one `ReadBuf` across the calls, i.e. calls with a partly filled buffer; futures: the sub-slice)
            "rff" | "rtf" => {
                ctx.begin(&name, op);
                let (sizes, calls) = parse_sizes(arg);
                let out = match &mut st {
                    WtStream::Bidi(s) => wt_read_fill!(s, op == "rtf", sizes, calls),
                    WtStream::Recv(s) => wt_read_fill!(s, op == "rtf", sizes, calls),
                    WtStream::Send(_) => "bad-cmd".to_string(),
                };
                ctx.log(&name, op, out);
            }
            // sp: `BidiStream::split`; this task keeps the receive half, the send half becomes task w<id>s
            "sp" => {
                st = match st {
                    WtStream::Bidi(s) => {
                        let (send, recv) = h3::quic::BidiStream::split(s);
                        let sname = format!("{}s", name);
                        let smb: Mailbox = Default::default();
                        ctx.spawner.spawn(
                            sname.clone(),
                            smb.clone(),
                            Box::pin(wt_stream_task(sname, WtStream::Send(send), smb, ctx.clone())),
                        );
                        ctx.log(&name, "sp", "ok".into());
                        WtStream::Recv(recv)
                    }
                    other => {
                        ctx.log(&name, "sp", "bad-cmd".into());
                        other
                    }
                };
            }
            // sd:<hex>  `send_data(Frame::Data(bytes))` then `poll_ready` until done (what `SendStream<B>`
            // offers on a WebTransport stream: the bytes go out as an HTTP/3 DATA frame)
            "sd" => {
                ctx.begin(&name, "sd");
                let frame = h3::proto::frame::Frame::Data(Bytes::from(parse_hex(arg).unwrap_or_default()));
                let r = match &mut st {
                    WtStream::Bidi(s) => match s.send_data(frame) {
                        Ok(()) => Some(poll_fn(|cx| s.poll_ready(cx)).await),
                        Err(e) => Some(Err(e)),
                    },
                    WtStream::Send(s) => match s.send_data(frame) {
                        Ok(()) => Some(poll_fn(|cx| s.poll_ready(cx)).await),
                        Err(e) => Some(Err(e)),
                    },
                    WtStream::Recv(_) => None,
                };
                ctx.log(&name, "sd", match r {
                    None => "bad-cmd".into(),
                    Some(Ok(())) => "ok".into(),
                    Some(Err(e)) => render_quic_stream_err(&e),
                });
            }
            // wf:<hex> / wt:<hex>  write all of the bytes through futures / tokio `AsyncWrite::poll_write`
            // (called again with the rest until everything is taken), then `poll_flush`.
            // Answer: ok:n=<bytes taken per call> or <err>:n=<…>
            "wf" | "wt" => {
                ctx.begin(&name, op);
                let data = parse_hex(arg).unwrap_or_default();
                let out = match &mut st {
                    WtStream::Bidi(s) => wt_write!(s, op == "wt", data),
                    WtStream::Send(s) => wt_write!(s, op == "wt", data),
                    WtStream::Recv(_) => "bad-cmd".to_string(),
                };
                ctx.log(&name, op, out);
            }
            // cl: futures `AsyncWrite::poll_close`; sh: tokio `AsyncWrite::poll_shutdown`
            "cl" | "sh" => {
                ctx.begin(&name, op);
                let tokio_face = op == "sh";
                let r = match &mut st {
                    WtStream::Bidi(s) => Some(wt_close!(s, tokio_face)),
                    WtStream::Send(s) => Some(wt_close!(s, tokio_face)),
                    WtStream::Recv(_) => None,
                };
                ctx.log(&name, op, match r {
                    None => "bad-cmd".into(),
                    Some(Ok(())) => "ok".into(),
                    Some(Err(e)) => render_io_err(&e),
                });
            }
            // rst:<code>  `SendStream::reset`;  ss:<code>  `RecvStream::stop_sending`
            "rst" => {
                let c = arg.parse::<u64>().unwrap_or(0);
                let ok = match &mut st {
                    WtStream::Bidi(s) => {
                        s.reset(c);
                        true
                    }
                    WtStream::Send(s) => {
                        s.reset(c);
                        true
                    }
                    WtStream::Recv(_) => false,
                };
                ctx.log(&name, "rst", if ok { "ok".into() } else { "bad-cmd".into() });
            }
            "ss" => {
                let c = arg.parse::<u64>().unwrap_or(0);
                let ok = match &mut st {
                    WtStream::Bidi(s) => {
                        s.stop_sending(c);
                        true
                    }
                    WtStream::Recv(s) => {
                        s.stop_sending(c);
                        true
                    }
                    WtStream::Send(_) => false,
                };
                ctx.log(&name, "ss", if ok { "ok".into() } else { "bad-cmd".into() });
            }
            _ => ctx.log(&name, op, "bad-cmd".into()),
        }
    }
}

fn spawn_wt(ctx: &Ctx, id: u64, st: WtStream) {
    let name = format!("{}w{}", ctx.prefix, id);
    let mb: Mailbox = Default::default();
    ctx.spawner.spawn(name.clone(), mb.clone(), Box::pin(wt_stream_task(name, st, mb, ctx.clone())));
}

async fn wt_session_task(sess: WtSession, mb: Mailbox, ctx: Ctx) {
    use h3::quic::{RecvStream as _, SendStream as _};
    use h3_webtransport::server::AcceptedBi;
    let name = format!("{}conn", ctx.prefix);
    let pick = |arg: &str, sess: &WtSession| -> h3::webtransport::SessionId {
        match arg.parse::<u64>() {
            Ok(n) => h3::webtransport::SessionId::try_from(n).unwrap_or(sess.session_id()),
            Err(_) => sess.session_id(),
        }
    };
    loop {
        let cmd = NextCmd(mb.clone()).await;
        let (op, arg) = cmd.split_once(':').unwrap_or((&cmd, ""));
        match op {
            "D" => {
                ctx.log(&name, "D", "ok".into());
                return;
            }
            "sid" => ctx.log(&name, "sid", session_num(&sess.session_id())),
            "ab" => {
                ctx.begin(&name, "ab");
                let r = match sess.accept_bi().await {
                    Ok(Some(AcceptedBi::BidiStream(sid, st))) => {
                        let id = st.recv_id().into_inner();
                        spawn_wt(&ctx, id, WtStream::Bidi(st));
                        format!("bidi:session={}:stream={}", session_num(&sid), id)
                    }
                    Ok(Some(AcceptedBi::Request(req, st))) => {
                        let id = st.id().into_inner();
                        let qname = format!("{}q{}", ctx.prefix, id);
                        let qmb: Mailbox = Default::default();
                        ctx.spawner.spawn(qname.clone(), qmb.clone(), Box::pin(server_stream_task(qname, st, qmb, ctx.clone())));
                        format!("req:{}:{}", id, render_request(&req))
                    }
                    Ok(None) => "none".into(),
                    Err(e) => render_stream_err(&e),
                };
                ctx.log(&name, "ab", r);
            }
            "au" => {
                ctx.begin(&name, "au");
                let r = match sess.accept_uni().await {
                    Ok(Some((sid, st))) => {
                        let id = st.recv_id().into_inner();
                        spawn_wt(&ctx, id, WtStream::Recv(st));
                        format!("uni:session={}:stream={}", session_num(&sid), id)
                    }
                    Ok(None) => "none".into(),
                    Err(e) => format!("err:{}", render_conn_err(&e)),
                };
                ctx.log(&name, "au", r);
            }
            "ob" => {
                ctx.begin(&name, "ob");
                let r = match sess.open_bi(pick(arg, &sess)).await {
                    Ok(st) => {
                        let id = st.send_id().into_inner();
                        spawn_wt(&ctx, id, WtStream::Bidi(st));
                        format!("ok:{}", id)
                    }
                    Err(e) => render_stream_err(&e),
                };
                ctx.log(&name, "ob", r);
            }
            "ou" => {
                ctx.begin(&name, "ou");
                let r = match sess.open_uni(pick(arg, &sess)).await {
                    Ok(st) => {
                        let id = st.send_id().into_inner();
                        spawn_wt(&ctx, id, WtStream::Send(st));
                        format!("ok:{}", id)
                    }
                    Err(e) => render_stream_err(&e),
                };
                ctx.log(&name, "ou", r);
            }
            // dgs:<hex>[,<hex>…]  one sender, one `send_datagram` per payload; the answer names the
            // `SendDatagramError` variant with class and code (C18; it used to be `ok|err`)
            "dgs" => {
                let r = dgram_send_all(sess.datagram_sender(), arg);
                ctx.log(&name, "dgs", r);
            }
            // dgr[:<n>]  one reader, n reads (default 1)
            "dgr" => {
                ctx.begin(&name, "dgr");
                let r = dgram_read_all(sess.datagram_reader(), arg).await;
                ctx.log(&name, "dgr", r);
            }
            _ => ctx.log(&name, op, "bad-cmd".into()),
        }
    }
}

// ------------------------------------------------------------------ client side

async fn client_stream_task(name: String, mut st: CliStream, mb: Mailbox, ctx: Ctx) {
    let mut rx_failed = false;
    loop {
        let cmd = NextCmd(mb.clone()).await;
        let (cmd, halt) = match cmd.strip_suffix('!') {
            Some(c) => (c.to_string(), true),
            None => (cmd, false),
        };
        let (op, _arg) = cmd.split_once(':').unwrap_or((&cmd, ""));
        if ctx.rxhalt() && is_recv_cmd(op) && rx_failed {
            ctx.log(&name, op, "skipped".into());
            continue;
        }
        let recv_cmd = is_recv_cmd(op);
        match op {
            "dr" => {
                ctx.log(&name, "dr", "ok".into());
                return;
            }
            "sp" => {
                let (send, recv) = st.split();
                let sname = format!("{}s", name);
                let smb: Mailbox = Default::default();
                ctx.spawner.spawn(sname.clone(), smb.clone(), Box::pin(client_stream_task(sname, send, smb, ctx.clone())));
                st = recv;
                ctx.log(&name, "sp", "ok".into());
            }
            "rr" => {
                ctx.begin(&name, "rr");
                let r = match st.recv_response().await {
                    Ok(resp) => format!("ok:{}:{}", resp.status().as_u16(), render_headers(resp.headers())),
                    Err(e) => render_stream_err(&e),
                };
                ctx.log(&name, "rr", r);
            }
            _ => stream_cmd!(ctx, name, st, cmd),
        }
        if recv_cmd && ctx.last_has_err(&name) {
            rx_failed = true;
        }
        if halt && ctx.last_failed(&name) {
            return;
        }
    }
}

async fn client_send_task(snd: h3::client::SendRequest<SimOpen, Bytes>, mb: Mailbox, ctx: Ctx) {
    let name = format!("{}snd", ctx.prefix);
    client_send_task_named(name, snd, mb, ctx, std::rc::Rc::new(std::cell::Cell::new(1))).await
}

/// `count`: `SendRequest` handles made so far on this connection (the clones are the tasks `snd2`, `snd3`, …)
fn client_send_task_named(
    name: String,
    mut snd: h3::client::SendRequest<SimOpen, Bytes>,
    mb: Mailbox,
    ctx: Ctx,
    count: std::rc::Rc<std::cell::Cell<usize>>,
) -> std::pin::Pin<Box<dyn std::future::Future<Output = ()>>> {
    Box::pin(async move {
    loop {
        let cmd = NextCmd(mb.clone()).await;
        let (op, arg) = cmd.split_once(':').unwrap_or((&cmd, ""));
        match op {
            "dr" => {
                ctx.log(&name, "dr", "ok".into());
                return;
            }
            // `SendRequest::clone`: the clone becomes the task `snd<k>` (C14: every handle carries a COPY of `send_grease_frame`)
            "cl" => {
                count.set(count.get() + 1);
                let cname = format!("{}snd{}", ctx.prefix, count.get());
                let cmb: Mailbox = Default::default();
                let fut = client_send_task_named(cname.clone(), snd.clone(), cmb.clone(), ctx.clone(), count.clone());
                ctx.spawner.spawn(cname.clone(), cmb, fut);
                ctx.log(&name, "cl", format!("ok:{}", cname));
            }
            // R:<method>:<uri hex>:<headers>
            "R" => {
                ctx.begin(&name, "R");
                let mut it = arg.splitn(3, ':');
                let method = it.next().unwrap_or("GET");
                let uri = String::from_utf8(parse_hex(it.next().unwrap_or("-")).unwrap_or_default()).unwrap_or_default();
                let hdrs = it.next().unwrap_or("-");
                let mut req = http::Request::new(());
                // `CONNECT+webtransport`: extended CONNECT with a :protocol
                let (method, proto) = method.split_once('+').map(|(m, p)| (m, Some(p))).unwrap_or((method, None));
                let built = (|| {
                    if let Some(p) = proto {
                        req.extensions_mut().insert(p.parse::<h3::ext::Protocol>().ok()?);
                    }
                    *req.method_mut() = http::Method::from_bytes(method.as_bytes()).ok()?;
                    *req.uri_mut() = uri.parse::<http::Uri>().ok()?;
                    *req.headers_mut() = parse_headers(hdrs)?;
                    Some(())
                })();
                if built.is_none() {
                    ctx.log(&name, "R", "bad-request-value".into());
                    continue;
                }
                match snd.send_request(req).await {
                    Ok(st) => {
                        let sid = st.id().into_inner();
                        let qname = format!("{}q{}", ctx.prefix, sid);
                        let qmb: Mailbox = Default::default();
                        ctx.spawner.spawn(qname.clone(), qmb.clone(), Box::pin(client_stream_task(qname, st, qmb, ctx.clone())));
                        ctx.log(&name, "R", format!("req:{}", sid));
                    }
                    Err(e) => ctx.log(&name, "R", render_stream_err(&e)),
                }
            }
            _ => ctx.log(&name, op, "bad-cmd".into()),
        }
    }
    })
}

async fn client_conn_task(mut builder: h3::client::Builder, mb: Mailbox, ctx: Ctx) {
    let name = format!("{}drv", ctx.prefix);
    if !wait_for_build(&name, &mb, &ctx).await {
        return;
    }
    ctx.begin(&name, "build");
    let conn = SimConn { net: ctx.net.clone() };
    let opener = SimOpen { net: ctx.net.clone() };
    let (mut drv, snd) = match builder.build::<SimConn, SimOpen, Bytes>(conn).await {
        Ok(x) => {
            ctx.log(&name, "build", "ok".into());
            x
        }
        Err(e) => {
            ctx.log(&name, "build", format!("err:{}", render_conn_err(&e)));
            return;
        }
    };
    let _ = opener;
    let smb: Mailbox = Default::default();
    ctx.spawner.spawn(format!("{}snd", ctx.prefix), smb.clone(), Box::pin(client_send_task(snd, smb, ctx.clone())));
    let mut driving = false;
    loop {
        let cmd = if driving {
            ctx.begin(&name, "W");
            let next = {
                let w = Box::pin(drv.wait_idle());
                let nxt = Box::pin(NextCmd(mb.clone()));
                match select(w, nxt).await {
                    Either::Left((r, _)) => Err(r),
                    Either::Right((c, _)) => Ok(c),
                }
            };
            match next {
                Err(e) => {
                    ctx.log(&name, "W", format!("err:{}", render_conn_err(&e)));
                    driving = false;
                    continue;
                }
                Ok(c) => {
                    ctx.inflight.borrow_mut().remove(&name);
                    c
                }
            }
        } else {
            NextCmd(mb.clone()).await
        };
        let (op, arg) = cmd.split_once(':').unwrap_or((&cmd, ""));
        match op {
            // datagrams on the client's connection (h3-datagram `client.rs`, added for C18):
            // dgs:<stream id>:<hex>[,<hex>…]   dgr[:<n>]
            "dgs" => {
                use h3_datagram::datagram_handler::HandleDatagramsExt;
                let r = match dgram_sid_arg(arg) {
                    Some((sid, rest)) => dgram_send_all(drv.get_datagram_sender(sid), rest),
                    None => "bad-cmd".into(),
                };
                ctx.log(&name, "dgs", r);
            }
            "dgr" => {
                use h3_datagram::datagram_handler::HandleDatagramsExt;
                ctx.begin(&name, "dgr");
                let r = dgram_read_all(drv.get_datagram_reader(), arg).await;
                ctx.log(&name, "dgr", r);
            }
            "W" => driving = true,
            "WS" => driving = false,
            "S" => {
                ctx.begin(&name, "S");
                let r = drv.shutdown(0).await;
                ctx.log(&name, "S", match r {
                    Ok(()) => "ok".into(),
                    Err(e) => format!("err:{}", render_conn_err(&e)),
                });
            }
            "U" => {
                let r = drain_wt_uni(drv.inner.accepted_streams_mut());
                ctx.log(&name, "U", r);
            }
            "D" => {
                ctx.log(&name, "D", "ok".into());
                return;
            }
            _ => ctx.log(&name, op, "bad-cmd".into()),
        }
    }
}

// ------------------------------------------------------------------ the interpreter

pub struct Cfg {
    pub grease: bool,
    pub mfs: Option<u64>,
    pub wt: bool,
    pub ec: bool,
    pub dg: bool,
    pub wts: Option<u64>,
    pub seed: u64,
    pub uc: usize,
    pub bc: usize,
    pub wc: usize,
    pub ev: bool,
    pub hold: bool,
    pub ops: bool,
    pub rxhalt: bool,
}

pub fn parse_cfg(s: &str) -> Option<Cfg> {
    let mut c = Cfg { grease: false, mfs: None, wt: false, ec: false, dg: false, wts: None, seed: 0, uc: UNLIMITED, bc: UNLIMITED, wc: UNLIMITED, ev: false, hold: false, ops: false, rxhalt: false };
    for t in s.split(',') {
        if t == "-" || t.is_empty() {
            continue;
        }
        if t == "g0" {
            c.grease = false
        } else if t == "g1" {
            c.grease = true
        } else if let Some((k, v)) = t.split_once('=') {
            match k {
                "mfs" => c.mfs = Some(v.parse().ok()?),
                "wt" => c.wt = v == "1",
                "ec" => c.ec = v == "1",
                "dg" => c.dg = v == "1",
                "wts" => c.wts = Some(v.parse().ok()?),
                "seed" => c.seed = v.parse().ok()?,
                "uc" => c.uc = v.parse().ok()?,
                "bc" => c.bc = v.parse().ok()?,
                "wc" => c.wc = v.parse().ok()?,
                "ev" => c.ev = v == "1",
                "hold" => c.hold = v == "1",
                "ops" => c.ops = v == "1",
                "rxhalt" => c.rxhalt = v == "1",
                _ => return None,
            }
        } else {
            return None;
        }
    }
    Some(c)
}

pub struct Run {
    pub exec: Exec,
    pub ctx: Ctx,
    /// second endpoint of a two-endpoint run (then `ctx` is the client, `peer` the server)
    pub peer: Option<Ctx>,
    /// relay progress per (direction, stream): bytes moved, fin/reset/stop already relayed
    pub relayed: BTreeMap<(bool, u64), (usize, bool, bool, bool)>,
}

/// spawn the connection task of one endpoint on `exec`'s spawner
fn spawn_endpoint(exec: &Exec, role: &str, cfg: &Cfg, prefix: &str, trace: Trace) -> Option<Ctx> {
    let server = role == "server";
    let net = Net::new(server);
    {
        let mut n = net.borrow_mut();
        n.uni_credit = cfg.uc;
        n.bidi_credit = cfg.bc;
        n.default_tx_credit = cfg.wc;
        n.hold = cfg.hold;
        n.log_ops = cfg.ops;
        n.rxhalt = cfg.rxhalt;
    }
    let ctx = Ctx { prefix: prefix.to_string(), trace, spawner: exec.spawner.clone(), inflight: Default::default(), net };
    if cfg.ev {
        ctx.net.borrow_mut().events = Some(ctx.trace.clone());
    }
    let mb: Mailbox = Default::default();
    if server {
        let mut b = h3::server::builder();
        b.send_grease(cfg.grease);
        if let Some(m) = cfg.mfs {
            b.max_field_section_size(m);
        }
        b.enable_webtransport(cfg.wt);
        b.enable_extended_connect(cfg.ec);
        b.enable_datagram(cfg.dg);
        if let Some(m) = cfg.wts {
            b.max_webtransport_sessions(m);
        }
        ctx.spawner.spawn(format!("{}conn", prefix), mb.clone(), Box::pin(server_conn_task(b, mb, ctx.clone())));
    } else if role == "client" {
        let mut b = h3::client::builder();
        b.send_grease(cfg.grease);
        if let Some(m) = cfg.mfs {
            b.max_field_section_size(m);
        }
        b.enable_extended_connect(cfg.ec);
        b.enable_datagram(cfg.dg);
        ctx.spawner.spawn(format!("{}drv", prefix), mb.clone(), Box::pin(client_conn_task(b, mb, ctx.clone())));
    } else {
        return None;
    }
    Some(ctx)
}

pub fn start(role: &str, cfg: &Cfg) -> Option<Run> {
    let exec = Exec::new(cfg.seed);
    let ctx = spawn_endpoint(&exec, role, cfg, "", Default::default())?;
    let mut run = Run { exec, ctx, peer: None, relayed: Default::default() };
    run.exec.run();
    Some(run)
}

/// two real endpoints, a client (`c.` tasks) and a server (`s.` tasks), joined by a relay that
/// moves bytes only when the script says so
pub fn start2(ccfg: &Cfg, scfg: &Cfg) -> Option<Run> {
    let exec = Exec::new(ccfg.seed);
    let trace: Trace = Default::default();
    let c = spawn_endpoint(&exec, "client", ccfg, "c.", trace.clone())?;
    let s = spawn_endpoint(&exec, "server", scfg, "s.", trace)?;
    let mut run = Run { exec, ctx: c, peer: Some(s), relayed: Default::default() };
    run.exec.run();
    Some(run)
}

impl Run {
    /// one op; returns false on a malformed op
    pub fn op(&mut self, op: &str) -> bool {
        if self.ctx.net.borrow().log_ops {
            self.ctx.trace.borrow_mut().push(format!("@{}", op));
        }
        let ok = self.apply(op);
        self.exec.run();
        ok
    }

    fn apply(&mut self, op: &str) -> bool {
        // `#…` is an annotation for the Lean model (e.g. `#fs:<hex>`, the field section the next
        // header-sending call is expected to produce); the real code does not look at it
        if op.starts_with('#') {
            return true;
        }
        // two-endpoint runs: task names are `c.<task>` / `s.<task>`
        let split = if self.peer.is_some() && (op.starts_with("c.") || op.starts_with("s.")) {
            op[2..].split_once('.').map(|(t, c)| (&op[..2 + t.len()], c))
        } else {
            op.split_once('.')
        };
        if let Some((task, cmd)) = split {
            if task.chars().next().map(|c| c.is_ascii_lowercase()).unwrap_or(false) && !task.contains(':') {
                if cmd == "kill" {
                    return self.exec.kill(task);
                }
                // like `kill`, but a task that does not exist (any more) is not a malformed op
                if cmd == "kill?" {
                    if !self.exec.kill(task) {
                        self.ctx.trace.borrow_mut().push(format!("{}.kill?=no-task", task));
                    }
                    return true;
                }
                if !self.exec.post(task, cmd) {
                    self.ctx.trace.borrow_mut().push(format!("{}.{}=no-task", task, cmd.split(':').next().unwrap_or("").trim_end_matches('!')));
                }
                return true;
            }
        }
        let (net, op) = if self.peer.is_some() {
            // `c:<peer op>` / `s:<peer op>` act on one endpoint's transport (credit grants, faults)
            if let Some(rest) = op.strip_prefix("c:") {
                (self.ctx.net.clone(), rest)
            } else if let Some(rest) = op.strip_prefix("s:") {
                (self.peer.as_ref().unwrap().net.clone(), rest)
            } else {
                return self.relay(op);
            }
        } else {
            (self.ctx.net.clone(), op)
        };
        let mut n = net.borrow_mut();
        let num = |s: &str| s.parse::<u64>().ok();
        let b = op.as_bytes();
        match b.first() {
            Some(b'o') => num(&op[1..]).map(|id| n.peer_open(id)).is_some(),
            Some(b's') => {
                let Some((id, h)) = op[1..].split_once(':') else { return false };
                let (Some(id), Some(bytes)) = (num(id), parse_hex(h)) else { return false };
                if bytes.is_empty() {
                    return false;
                }
                n.peer_send(id, Rx::Chunk(Bytes::from(bytes)));
                true
            }
            Some(b'f') => num(&op[1..]).map(|id| n.peer_send(id, Rx::Fin)).is_some(),
            Some(b'r') => {
                let Some((id, c)) = op[1..].split_once(':') else { return false };
                let (Some(id), Some(c)) = (num(id), num(c)) else { return false };
                n.peer_send(id, Rx::Reset(c));
                true
            }
            Some(b'x') => {
                let Some((id, c)) = op[1..].split_once(':') else { return false };
                let (Some(id), Some(c)) = (num(id), num(c)) else { return false };
                n.peer_stop(id, c);
                true
            }
            // dq:<mode>  what the transport answers to `send_datagram` from now on (sim.rs `DgMode`, added for C18)
            Some(b'd') if op.starts_with("dq:") => match parse_dg_mode(&op[3..]) {
                Some(m) => {
                    n.dgram_send_mode = m;
                    true
                }
                None => false,
            },
            Some(b'd') if op.starts_with("d:") => match parse_hex(&op[2..]) {
                Some(bytes) => {
                    n.peer_datagram(Bytes::from(bytes));
                    true
                }
                None => false,
            },
            // cw<sid>:<n> set the write credit of a stream to exactly n
            Some(b'c') if op.starts_with("cw") => {
                let Some((id, k)) = op[2..].split_once(':') else { return false };
                let (Some(id), Some(k)) = (num(id), num(k)) else { return false };
                n.set_write_credit(id, k as usize);
                true
            }
            // !<site>[<target>][@<skip>]:<err> arm a transport fault
            Some(b'!') => match parse_fault(&op[1..]) {
                Some(f) => {
                    n.faults.push(f);
                    n.fault_seen = true;
                    true
                }
                None => false,
            },
            Some(b'C') => num(&op[1..]).map(|c| n.fail(ConnectionErrorIncoming::ApplicationClose { error_code: c })).is_some(),
            Some(b'T') if op == "T" => {
                n.fail(ConnectionErrorIncoming::Timeout);
                true
            }
            Some(b'g') if op.len() > 2 => match b[1] {
                b'u' => num(&op[2..]).map(|k| n.grant_streams(k as usize, 0)).is_some(),
                b'b' => num(&op[2..]).map(|k| n.grant_streams(0, k as usize)).is_some(),
                b'w' => {
                    let Some((id, k)) = op[2..].split_once(':') else { return false };
                    let (Some(id), Some(k)) = (num(id), num(k)) else { return false };
                    n.grant_write(id, k as usize);
                    true
                }
                _ => false,
            },
            _ => false,
        }
    }

    /// two-endpoint relay ops: `><sid>:<k>` move up to k bytes of stream sid client→server
    /// (`<` for server→client; k = `*` everything), then FIN/RESET if all bytes are through;
    /// `>x<sid>` / `<x<sid>` relay a STOP_SENDING; `>>` / `<<` everything on every stream, whole;
    /// `>~<seed>` / `<~<seed>` everything, in random pieces of 1..7 bytes.
    fn relay(&mut self, op: &str) -> bool {
        let to_server = match op.as_bytes().first() {
            Some(b'>') => true,
            Some(b'<') => false,
            _ => return false,
        };
        let (src, dst) = if to_server {
            (self.ctx.net.clone(), self.peer.as_ref().unwrap().net.clone())
        } else {
            (self.peer.as_ref().unwrap().net.clone(), self.ctx.net.clone())
        };
        let rest = &op[1..];
        let ids: Vec<u64> = src.borrow().streams.keys().cloned().collect();
        let mut plan: Vec<(u64, usize, bool)> = Vec::new(); // (sid, max bytes, stop?)
        let mut pieces = 0u64;
        if rest == ">" || rest == "<" {
            for id in ids {
                plan.push((id, usize::MAX, false));
            }
        } else if let Some(seed) = rest.strip_prefix('~') {
            pieces = seed.parse::<u64>().unwrap_or(1) | 1;
            for id in ids {
                plan.push((id, usize::MAX, false));
            }
        } else if let Some(id) = rest.strip_prefix('x') {
            match id.parse::<u64>() {
                Ok(id) => plan.push((id, 0, true)),
                Err(_) => return false,
            }
        } else {
            let Some((id, k)) = rest.split_once(':') else { return false };
            let Ok(id) = id.parse::<u64>() else { return false };
            let k = if k == "*" { usize::MAX } else { match k.parse::<usize>() { Ok(k) => k, Err(_) => return false } };
            plan.push((id, k, false));
        }
        for (id, max, stop) in plan {
            // which side initiated `id`? only streams the source can send on are relayed
            let initiated_by_client = id & 1 == 0;
            let uni = id & 2 != 0;
            if uni && (initiated_by_client != to_server) {
                continue;
            }
            let key = (to_server, id);
            let mut st = *self.relayed.get(&key).unwrap_or(&(0, false, false, false));
            let (bytes, fin, reset, stop_code) = {
                let n = src.borrow();
                match n.streams.get(&id) {
                    Some(s) => (s.tx[st.0..].to_vec(), s.tx_fin, s.tx_reset, s.stop_sending),
                    None => continue,
                }
            };
            if stop {
                // the source asked the other side to stop sending on `id`
                if let (Some(c), false) = (stop_code, st.3) {
                    dst.borrow_mut().peer_stop(id, c);
                    st.3 = true;
                }
                self.relayed.insert(key, st);
                continue;
            }
            let take = bytes.len().min(max);
            if take > 0 || fin || reset.is_some() {
                let mut d = dst.borrow_mut();
                if !d.streams.contains_key(&id) {
                    d.peer_open(id);
                }
            }
            if take > 0 && !st.2 {
                let mut off = 0;
                while off < take {
                    let k = if pieces == 0 {
                        take - off
                    } else {
                        pieces ^= pieces << 13;
                        pieces ^= pieces >> 7;
                        pieces ^= pieces << 17;
                        (1 + (pieces % 7) as usize).min(take - off)
                    };
                    dst.borrow_mut().peer_send(id, Rx::Chunk(Bytes::from(bytes[off..off + k].to_vec())));
                    off += k;
                }
                st.0 += take;
            }
            if take == bytes.len() {
                if let (Some(c), false) = (reset, st.2) {
                    dst.borrow_mut().peer_send(id, Rx::Reset(c));
                    st.2 = true;
                } else if fin && !st.1 && !st.2 {
                    dst.borrow_mut().peer_send(id, Rx::Fin);
                    st.1 = true;
                }
            }
            self.relayed.insert(key, st);
        }
        true
    }

    pub fn summary(&self) -> String {
        if let Some(p) = &self.peer {
            return format!("C[{}] S[{}]", Self::summary_of(&self.ctx), Self::summary_of(p));
        }
        Self::summary_of(&self.ctx)
    }

    fn summary_of(ctx: &Ctx) -> String {
        let n = ctx.net.borrow();
        let mut parts = Vec::new();
        for (id, s) in n.streams.iter() {
            let mut p = format!("{}:tx={}", id, to_hex(&s.tx));
            if s.tx_fin {
                p.push_str(",fin");
            }
            if let Some(c) = s.tx_reset {
                p.push_str(&format!(",rst={}", c));
            }
            if let Some(c) = s.stop_sending {
                p.push_str(&format!(",stop={}", c));
            }
            if s.tx_misuse {
                p.push_str(",MISUSE");
            }
            if s.tx_overlap {
                p.push_str(",OVERLAP");
            }
            if s.writing.is_some() {
                p.push_str(",writing");
            }
            parts.push(p);
        }
        let closed: Vec<String> = n.closed.iter().map(|(c, _)| format!("{}", c)).collect();
        parts.push(format!("closed=[{}]", closed.join(",")));
        if !n.dgram_tx.is_empty() {
            let d: Vec<String> = n.dgram_tx.iter().map(|b| to_hex(b)).collect();
            parts.push(format!("dgrams=[{}]", d.join(",")));
        }
        let pend: Vec<String> = ctx.inflight.borrow().iter().map(|(t, o)| format!("{}.{}", t, o)).collect();
        parts.push(format!("pending=[{}]", pend.join(",")));
        if n.fault_seen {
            parts.push(format!("fired=[{}]", n.fired.join(",")));
        }
        parts.join(" ")
    }

    pub fn output(&self) -> String {
        let t = self.ctx.trace.borrow();
        format!("{} | {}", if t.is_empty() { "-".to_string() } else { t.join(" ") }, self.summary())
    }
}

pub fn handle(w: &[&str]) -> String {
    match w {
        ["e2e", ccfg, scfg, ops @ ..] | ["iso2", ccfg, scfg, ops @ ..] => {
            let (Some(ccfg), Some(scfg)) = (parse_cfg(ccfg), parse_cfg(scfg)) else { return "bad-op".into() };
            guarded(|| {
                let Some(mut run) = start2(&ccfg, &scfg) else { return "bad-op".into() };
                for op in ops {
                    if !run.op(op) {
                        return format!("bad-op:{}", op);
                    }
                }
                run.output()
            })
        }
        [name, role, cfg, ops @ ..] => {
            let Some(cfg) = parse_cfg(cfg) else { return "bad-op".into() };
            // engine `out` (C14) only: the reserved identifiers h3 draws (`fastrand`) are a function of
            // the line (FNV-1a over its tokens), so that a line always replays to the same bytes
            if *name == "out" {
                let mut h: u64 = 0xcbf29ce484222325;
                for t in w {
                    for b in t.bytes().chain(std::iter::once(b' ')) {
                        h = (h ^ b as u64).wrapping_mul(0x100000001b3);
                    }
                }
                fastrand::seed(h);
            }
            guarded(|| {
                let Some(mut run) = start(role, &cfg) else { return "bad-op".into() };
                for op in ops {
                    if !run.op(op) {
                        return format!("bad-op:{}", op);
                    }
                }
                run.output()
            })
        }
        _ => "bad-op".into(),
    }
}
