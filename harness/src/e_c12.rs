//! Engine `hdr` (C12): real `h3::proto::headers::{Header, HeaderError}`, `h3::ext::Protocol` and the
//! real trailers call site `h3::connection::RequestStream::poll_recv_trailers`.
//!
//! Case lines (bytes in hex, `-` = empty, `~` = absent):
//!   hdr req  <fields> <verdicts>      Header::try_from(fields).and_then(into_request_parts)
//!   hdr resp <fields> <verdicts>      Header::try_from(fields).and_then(into_response_parts)
//!   hdr trl  <fields> <verdicts>      fields -> encode_stateless -> HEADERS frame -> in-memory stream
//!                                     -> real poll_recv_trailers (call site included)
//!   hdr srv  <fields> <verdicts>      the same frame as a request on stream 0 of a real server::Connection
//!                                     (private in-memory transport): accept + resolve_request
//!   hdr cli  <fields> <verdicts>      the same frame as the response to a real client's request:
//!                                     send_request + recv_response
//!   hdr sreq <method> <scheme|~> <authority|~> <path|~> <proto|~> <fields>   Header::request(..).into_iter()
//!   hdr sresp <status> <fields>       Header::response(..).into_iter()
//!   hdr strl <fields>                 Header::trailer(..).into_iter()
//!   hdr verdicts <fields>             (generator pre-pass) prints the verdict token for <fields>
//!   hdr wreq <method> <scheme|~> <authority|~> <path|~> <proto|~> <fields>   the same `http::Request` through the real
//!                                     `client::SendRequest::send_request` (private in-memory transport); answer
//!                                     `wire <hex>` = every byte h3 wrote on the request stream (the check's projection
//!                                     has the reference decoder read it: driver op `hdr dec <hex>`), `reject` when the
//!                                     call fails
//!   hdr wresp <status> <fields>       real server: accept + resolve_request + `RequestStream::send_response`; `wire <hex>`
//!   hdr wtrlc <fields>                real client: send_request(GET) + `RequestStream::send_trailers`; `wire <hex>` = the
//!                                     bytes written after the request's own HEADERS frame
//!   hdr wtrls <fields>                real server: … + send_response(200) + `RequestStream::send_trailers`; the same
//!   hdr trlc <fields> <verdicts>      trailers RECEIVED through the public `client::RequestStream::{recv_data, recv_trailers}`
//!                                     (response 200, then the section as a second HEADERS frame, FIN); printed as `trl`
//!   hdr trls <fields> <verdicts>      … through `server::RequestStream::{recv_data, recv_trailers}` (request GET, the section, FIN)
//!
//! <fields> = `[]` or `name=value,name=value*K,...` (`*K` repeats the field K times).
//! <verdicts> = `v[e;e;...]`: what the `http` crate's parsers answer, *called directly* (not through
//! h3), on every pseudo value of the list: `s:<v>=<r>` Scheme, `a:<v>=<r>` Authority, `p:<v>=<r>`
//! PathAndQuery (`<r>` = `!` refused, else the parsed value's `as_str()`), and
//! `u:<s>/<a>/<p>=<s'>/<a'>/<p'>|!` = `Uri::builder()` fed with those parts.  The Lean driver
//! instantiates the model's abstract `Http` parameter by lookup in this table.  `req/resp/trl`
//! recompute the table and answer `bad-verdicts` when the token on the line is not the one the
//! `http` crate gives now (so replay files stay honest).
use crate::c12_sim::{Net, Rx, SimConn};
use crate::util::*;
use bytes::{Bytes, BytesMut};
use h3::error::StreamError;
use h3::ext::Protocol;
use h3::proto::headers::{Header, HeaderError};
use h3::proto::stream::StreamId;
use h3::proto::varint::VarInt;
use h3::qpack::HeaderField;
use h3::quic::{self, StreamErrorIncoming};
use http::header::{HeaderMap, HeaderName, HeaderValue};
use http::uri::{Authority, PathAndQuery, Scheme, Uri};
use http::{Extensions, Method, StatusCode};
use std::cell::RefCell;
use std::collections::VecDeque;
use std::convert::TryFrom;
use std::rc::Rc;
use std::str::FromStr;
use std::sync::Arc;
use std::future::Future;
use std::pin::Pin;
use std::task::{Context, Poll};

type FieldList = Vec<(Vec<u8>, Vec<u8>)>;

const MAX_FIELDS: usize = 200_000;

pub fn parse_fields(tok: &str) -> Option<FieldList> {
    if tok == "[]" {
        return Some(vec![]);
    }
    let mut out = Vec::new();
    for item in tok.split(',') {
        let (item, rep) = match item.split_once('*') {
            Some((a, k)) => (a, k.parse::<usize>().ok()?),
            None => (item, 1),
        };
        let (n, v) = item.split_once('=')?;
        let (n, v) = (parse_hex(n)?, parse_hex(v)?);
        if out.len() + rep > MAX_FIELDS {
            return None;
        }
        for _ in 0..rep {
            out.push((n.clone(), v.clone()));
        }
    }
    Some(out)
}

fn opt_hex(b: Option<&[u8]>) -> String {
    match b {
        None => "~".into(),
        Some(x) => to_hex(x),
    }
}

fn parse_opt(tok: &str) -> Option<Option<Vec<u8>>> {
    if tok == "~" {
        Some(None)
    } else {
        parse_hex(tok).map(Some)
    }
}

fn print_map(m: HeaderMap) -> String {
    let mut out = Vec::new();
    let mut last: Option<HeaderName> = None;
    for (n, v) in m.into_iter() {
        if let Some(n) = n {
            last = Some(n);
        }
        let n = last.as_ref().expect("first item of a group has a name");
        out.push(format!("{}={}", to_hex(n.as_str().as_bytes()), to_hex(v.as_bytes())));
    }
    format!("[{}]", out.join(","))
}

fn kind(e: &HeaderError) -> &'static str {
    match e {
        HeaderError::InvalidHeaderName(_) => "InvalidHeaderName",
        HeaderError::InvalidHeaderValue(_) => "InvalidHeaderValue",
        HeaderError::InvalidRequest(_) => "InvalidRequest",
        HeaderError::MissingMethod => "MissingMethod",
        HeaderError::MissingStatus => "MissingStatus",
        HeaderError::MissingAuthority => "MissingAuthority",
        HeaderError::ContradictedAuthority => "ContradictedAuthority",
    }
}

// ---------------------------------------------------------------- verdicts (http crate, directly)

fn v_scheme(v: &[u8]) -> Option<Vec<u8>> {
    let s = std::str::from_utf8(v).ok()?;
    Scheme::from_str(s).ok().map(|x| x.as_str().as_bytes().to_vec())
}
fn v_authority(v: &[u8]) -> Option<Vec<u8>> {
    let s = std::str::from_utf8(v).ok()?;
    Authority::from_str(s).ok().map(|x| x.as_str().as_bytes().to_vec())
}
fn v_path(v: &[u8]) -> Option<Vec<u8>> {
    let s = std::str::from_utf8(v).ok()?;
    PathAndQuery::from_str(s).ok().map(|x| x.as_str().as_bytes().to_vec())
}
fn v_res(r: &Option<Vec<u8>>) -> String {
    match r {
        None => "!".into(),
        Some(x) => to_hex(x),
    }
}
fn v_uri(s: &Option<Vec<u8>>, a: &[u8], p: &Option<Vec<u8>>) -> String {
    let mut b = Uri::builder();
    if let Some(p) = p {
        b = b.path_and_query(&p[..]);
    }
    if let Some(s) = s {
        b = b.scheme(&s[..]);
    }
    b = b.authority(a);
    match b.build() {
        Err(_) => "!".into(),
        Ok(u) => uri_parts(&u),
    }
}
fn uri_parts(u: &Uri) -> String {
    format!(
        "{}/{}/{}",
        opt_hex(u.scheme_str().map(|x| x.as_bytes())),
        opt_hex(u.authority().map(|x| x.as_str().as_bytes())),
        opt_hex(u.path_and_query().map(|x| x.as_str().as_bytes()))
    )
}

fn push_unique<T: PartialEq>(v: &mut Vec<T>, x: T) {
    if !v.contains(&x) {
        v.push(x);
    }
}

pub fn verdicts(fields: &FieldList) -> String {
    let mut ent: Vec<String> = Vec::new();
    let mut schemes: Vec<Option<Vec<u8>>> = vec![None];
    let mut auths: Vec<Vec<u8>> = Vec::new();
    let mut paths: Vec<Option<Vec<u8>>> = vec![None];
    let mut seen: Vec<(&[u8], &[u8])> = Vec::new();
    for (n, v) in fields {
        let key = (&n[..], &v[..]);
        if seen.contains(&key) {
            continue;
        }
        match &n[..] {
            b":scheme" => {
                let r = v_scheme(v);
                ent.push(format!("s:{}={}", to_hex(v), v_res(&r)));
                if r.is_some() {
                    push_unique(&mut schemes, r);
                }
            }
            b":authority" => {
                let r = v_authority(v);
                let e = format!("a:{}={}", to_hex(v), v_res(&r));
                push_unique(&mut ent, e);
                if let Some(r) = r {
                    push_unique(&mut auths, r);
                }
            }
            b":path" => {
                let r = v_path(v);
                ent.push(format!("p:{}={}", to_hex(v), v_res(&r)));
                if r.is_some() {
                    push_unique(&mut paths, r);
                }
            }
            b"host" => {
                // a Host value reaches `Uri::builder().authority(..)` as it is
                if HeaderValue::from_bytes(v).is_ok() {
                    let r = v_authority(v);
                    let e = format!("a:{}={}", to_hex(v), v_res(&r));
                    push_unique(&mut ent, e);
                    push_unique(&mut auths, v.clone());
                }
            }
            _ => continue,
        }
        seen.push(key);
    }
    if schemes.len() * auths.len() * paths.len() > 512 {
        return "v[overflow]".into();
    }
    for s in &schemes {
        for a in &auths {
            for p in &paths {
                ent.push(format!(
                    "u:{}/{}/{}={}",
                    opt_hex(s.as_deref()),
                    to_hex(a),
                    opt_hex(p.as_deref()),
                    v_uri(s, a, p)
                ));
            }
        }
    }
    format!("v[{}]", ent.join(";"))
}

// ---------------------------------------------------------------- in-memory receive stream

struct FakeRecv {
    chunks: VecDeque<Bytes>,
    stops: Rc<RefCell<Vec<u64>>>,
}

impl quic::RecvStream for FakeRecv {
    type Buf = Bytes;
    fn poll_data(&mut self, _cx: &mut Context<'_>) -> Poll<Result<Option<Bytes>, StreamErrorIncoming>> {
        Poll::Ready(Ok(self.chunks.pop_front()))
    }
    fn stop_sending(&mut self, error_code: u64) {
        self.stops.borrow_mut().push(error_code);
    }
    fn recv_id(&self) -> StreamId {
        StreamId::try_from(0u64).expect("stream id 0")
    }
}

pub fn code_name(c: u64) -> String {
    // names of the codes this engine can meet; anything else is printed numerically
    match c {
        0x100 => "H3_NO_ERROR".into(),
        0x101 => "H3_GENERAL_PROTOCOL_ERROR".into(),
        0x102 => "H3_INTERNAL_ERROR".into(),
        0x105 => "H3_FRAME_UNEXPECTED".into(),
        0x106 => "H3_FRAME_ERROR".into(),
        0x10c => "H3_REQUEST_CANCELLED".into(),
        0x10e => "H3_MESSAGE_ERROR".into(),
        0x200 => "QPACK_DECOMPRESSION_FAILED".into(),
        x => format!("0x{:x}", x),
    }
}

fn stream_error(e: &StreamError) -> String {
    match e {
        StreamError::StreamError { code, .. } => format!("scope=stream code={}", code_name(code.value())),
        StreamError::ConnectionError(_) => "scope=connection".into(),
        StreamError::HeaderTooBig { .. } => "scope=stream header-too-big".into(),
        other => format!("scope=other {}", format!("{:?}", other).split(|c: char| !c.is_alphanumeric()).next().unwrap_or("?")),
    }
}

fn recv_trailers(fields: &FieldList) -> String {
    let hf: Vec<HeaderField> = fields.iter().map(|(n, v)| HeaderField::new(n.clone(), v.clone())).collect();
    let mut block = BytesMut::new();
    if h3::qpack::encode_stateless(&mut block, hf).is_err() {
        return "qpack-encode-failed".into();
    }
    let mut wire = BytesMut::new();
    VarInt::from_u64(1).expect("frame type").encode(&mut wire);
    VarInt::from_u64(block.len() as u64).expect("frame length").encode(&mut wire);
    wire.extend_from_slice(&block);
    let stops = Rc::new(RefCell::new(Vec::new()));
    let fake = FakeRecv { chunks: VecDeque::from(vec![wire.freeze()]), stops: stops.clone() };
    let fs = h3::frame::FrameStream::<FakeRecv, Bytes>::new(h3::stream::BufRecvStream::new(fake));
    let shared = Arc::new(h3::SharedState::default());
    let mut rs = h3::connection::RequestStream::new(fs, (1u64 << 62) - 1, shared, false);
    let waker = futures_util::task::noop_waker();
    let mut cx = Context::from_waker(&waker);
    let r = match rs.poll_recv_trailers(&mut cx) {
        Poll::Pending => return "pending".into(),
        Poll::Ready(r) => r,
    };
    let stops: Vec<String> = stops.borrow().iter().map(|c| code_name(*c)).collect();
    let stops = if stops.is_empty() { "-".to_string() } else { stops.join("+") };
    match r {
        Ok(Some(m)) => format!("ok headers {}", print_map(m)),
        Ok(None) => "none".into(),
        Err(e) => format!("refused {} stop_sending={}", stream_error(&e), stops),
    }
}


// ---------------------------------------------------------------- the other two call sites, over the private in-memory transport

fn drive<F: Future + ?Sized>(f: &mut Pin<Box<F>>) -> Option<F::Output> {
    let w = futures_util::task::noop_waker();
    let mut cx = Context::from_waker(&w);
    for _ in 0..64 {
        if let Poll::Ready(r) = f.as_mut().poll(&mut cx) {
            return Some(r);
        }
    }
    None
}

fn headers_frame(fields: &FieldList) -> Option<Bytes> {
    let hf: Vec<HeaderField> = fields.iter().map(|(n, v)| HeaderField::new(n.clone(), v.clone())).collect();
    let mut block = BytesMut::new();
    h3::qpack::encode_stateless(&mut block, hf).ok()?;
    let mut wire = BytesMut::new();
    VarInt::from_u64(1).ok()?.encode(&mut wire);
    VarInt::from_u64(block.len() as u64).ok()?.encode(&mut wire);
    wire.extend_from_slice(&block);
    Some(wire.freeze())
}

fn opt_code(c: Option<u64>) -> String {
    c.map(code_name).unwrap_or_else(|| "-".into())
}

fn closed(net: &crate::c12_sim::NetRef) -> String {
    let n = net.borrow();
    if n.closed.is_empty() {
        "-".into()
    } else {
        n.closed.iter().map(|(c, _)| code_name(*c)).collect::<Vec<_>>().join("+")
    }
}

/// real `server::Connection::accept` + `RequestResolver::resolve_request` on one request stream
fn server_site(fields: &FieldList) -> String {
    let Some(frame) = headers_frame(fields) else { return "qpack-encode-failed".into() };
    let net = Net::new(true);
    let builder = h3::server::builder();
    let mut f: Pin<Box<dyn Future<Output = _>>> = Box::pin(builder.build::<_, Bytes>(SimConn { net: net.clone() }));
    let Some(Ok(mut conn)) = drive(&mut f) else { return "server-build-failed".into() };
    drop(f);
    {
        let mut n = net.borrow_mut();
        n.peer_open(2);
        n.peer_send(2, Rx::Chunk(Bytes::from_static(&[0x00, 0x04, 0x00])));
        n.peer_open(0);
        n.peer_send(0, Rx::Chunk(frame));
        n.peer_send(0, Rx::Fin);
    }
    let resolver = {
        let mut f = Box::pin(conn.accept());
        match drive(&mut f) {
            Some(Ok(Some(r))) => r,
            Some(Ok(None)) => return "accept-none".into(),
            Some(Err(_)) => return format!("accept-error closed={}", closed(&net)),
            None => return "accept-pending".into(),
        }
    };
    let mut f = Box::pin(resolver.resolve_request());
    let r = match drive(&mut f) {
        Some(r) => r,
        None => return "resolve-pending".into(),
    };
    let (stop, reset) = {
        let n = net.borrow();
        let s = n.streams[&0].borrow();
        (s.stop_sending, s.tx_reset)
    };
    match r {
        Ok((req, _stream)) => {
            let pr = uri_parts(req.uri());
            let pr: Vec<&str> = pr.split('/').collect();
            format!(
                "ok method {} scheme {} authority {} path {} proto {} headers {}",
                to_hex(req.method().as_str().as_bytes()),
                pr[0],
                pr[1],
                pr[2],
                opt_hex(req.extensions().get::<Protocol>().map(|p| p.as_str().as_bytes())),
                print_map(req.headers().clone())
            )
        }
        Err(e) => format!(
            "refused {} stop_sending={} reset={} closed={}",
            stream_error(&e),
            opt_code(stop),
            opt_code(reset),
            closed(&net)
        ),
    }
}

/// real `client::SendRequest::send_request` + `RequestStream::recv_response` on one response
fn client_site(fields: &FieldList) -> String {
    let Some(frame) = headers_frame(fields) else { return "qpack-encode-failed".into() };
    let net = Net::new(false);
    let mut builder = h3::client::builder();
    let mut f: Pin<Box<dyn Future<Output = _>>> = Box::pin(builder.build::<_, _, Bytes>(SimConn { net: net.clone() }));
    let Some(Ok((_conn, mut send))) = drive(&mut f) else { return "client-build-failed".into() };
    drop(f);
    let req = http::Request::builder().method("GET").uri("https://a.com/").body(()).expect("request");
    let mut stream = {
        let mut f = Box::pin(send.send_request(req));
        match drive(&mut f) {
            Some(Ok(s)) => s,
            Some(Err(_)) => return "send-request-failed".into(),
            None => return "send-request-pending".into(),
        }
    };
    {
        let mut n = net.borrow_mut();
        n.peer_send(0, Rx::Chunk(frame));
        n.peer_send(0, Rx::Fin);
    }
    let mut f = Box::pin(stream.recv_response());
    let r = match drive(&mut f) {
        Some(r) => r,
        None => return "recv-response-pending".into(),
    };
    let (stop, reset) = {
        let n = net.borrow();
        let s = n.streams[&0].borrow();
        (s.stop_sending, s.tx_reset)
    };
    match r {
        Ok(resp) => format!("ok status {} headers {}", resp.status().as_u16(), print_map(resp.headers().clone())),
        Err(e) => format!(
            "refused {} stop_sending={} reset={} closed={}",
            stream_error(&e),
            opt_code(stop),
            opt_code(reset),
            closed(&net)
        ),
    }
}


// ---------------------------------------------------------------- the public send calls, and what they write

fn wire(bytes: &[u8]) -> String {
    format!("wire {}", to_hex(bytes))
}

fn get_frame() -> Bytes {
    headers_frame(&vec![
        (b":method".to_vec(), b"GET".to_vec()),
        (b":scheme".to_vec(), b"https".to_vec()),
        (b":authority".to_vec(), b"a.com".to_vec()),
        (b":path".to_vec(), b"/".to_vec()),
    ])
    .expect("request frame")
}

fn ok200_frame() -> Bytes {
    headers_frame(&vec![(b":status".to_vec(), b"200".to_vec())]).expect("response frame")
}

type ClientStream = h3::client::RequestStream<crate::c12_sim::SimStream, Bytes>;
type ServerStream = h3::server::RequestStream<crate::c12_sim::SimStream, Bytes>;

/// a real client and the request stream of `send_request(req)`
fn client_with_request(req: http::Request<()>) -> Result<(crate::c12_sim::NetRef, ClientStream, Box<dyn std::any::Any>), String> {
    let net = Net::new(false);
    let mut builder = h3::client::builder();
    let mut f: Pin<Box<dyn Future<Output = _>>> = Box::pin(builder.build::<_, _, Bytes>(SimConn { net: net.clone() }));
    let Some(Ok((conn, mut send))) = drive(&mut f) else { return Err("client-build-failed".into()) };
    drop(f);
    let stream = {
        let mut f = Box::pin(send.send_request(req));
        match drive(&mut f) {
            Some(Ok(s)) => s,
            Some(Err(_)) => return Err("reject".into()),
            None => return Err("send-request-pending".into()),
        }
    };
    Ok((net, stream, Box::new((conn, send))))
}

/// a real server and the request stream of accept + resolve_request for the peer's bytes on stream 0
fn server_with_request(chunks: Vec<Bytes>) -> Result<(crate::c12_sim::NetRef, ServerStream, Box<dyn std::any::Any>), String> {
    let net = Net::new(true);
    let builder = h3::server::builder();
    let mut f: Pin<Box<dyn Future<Output = _>>> = Box::pin(builder.build::<_, Bytes>(SimConn { net: net.clone() }));
    let Some(Ok(mut conn)) = drive(&mut f) else { return Err("server-build-failed".into()) };
    drop(f);
    {
        let mut n = net.borrow_mut();
        n.peer_open(2);
        n.peer_send(2, Rx::Chunk(Bytes::from_static(&[0x00, 0x04, 0x00])));
        n.peer_open(0);
        for c in chunks {
            n.peer_send(0, Rx::Chunk(c));
        }
        n.peer_send(0, Rx::Fin);
    }
    let resolver = {
        let mut f = Box::pin(conn.accept());
        match drive(&mut f) {
            Some(Ok(Some(r))) => r,
            _ => return Err("accept-failed".into()),
        }
    };
    let mut f = Box::pin(resolver.resolve_request());
    let stream = match drive(&mut f) {
        Some(Ok((_req, stream))) => stream,
        _ => return Err("resolve-failed".into()),
    };
    drop(f);
    Ok((net, stream, Box::new(conn)))
}

fn request_from(method: Method, uri: Uri, map: HeaderMap, ext: Extensions) -> http::Request<()> {
    let mut req = http::Request::new(());
    *req.method_mut() = method;
    *req.uri_mut() = uri;
    *req.headers_mut() = map;
    *req.extensions_mut() = ext;
    req
}

/// `SendRequest::send_request`: everything written on the request stream
fn send_request_site(method: Method, uri: Uri, map: HeaderMap, ext: Extensions) -> String {
    match client_with_request(request_from(method, uri, map, ext)) {
        Ok((net, _stream, _keep)) => {
            let tx = net.borrow().tx(0);
            wire(&tx)
        }
        Err(e) => e,
    }
}

/// `server::RequestStream::send_response`
fn send_response_site(status: StatusCode, map: HeaderMap) -> String {
    let (net, mut stream, _keep) = match server_with_request(vec![get_frame()]) {
        Ok(x) => x,
        Err(e) => return e,
    };
    let mut resp = http::Response::new(());
    *resp.status_mut() = status;
    *resp.headers_mut() = map;
    let mut f = Box::pin(stream.send_response(resp));
    match drive(&mut f) {
        Some(Ok(())) => {}
        Some(Err(_)) => return "send-response-failed".into(),
        None => return "send-response-pending".into(),
    }
    let tx = net.borrow().tx(0);
    wire(&tx)
}

/// `client::RequestStream::send_trailers` / `server::RequestStream::send_trailers`: what is written after the head
fn send_trailers_site(server: bool, map: HeaderMap) -> String {
    if server {
        let (net, mut stream, _keep) = match server_with_request(vec![get_frame()]) {
            Ok(x) => x,
            Err(e) => return e,
        };
        {
            let mut f = Box::pin(stream.send_response(http::Response::new(())));
            if !matches!(drive(&mut f), Some(Ok(()))) {
                return "send-response-failed".into();
            }
        }
        let before = net.borrow().tx(0).len();
        let mut f = Box::pin(stream.send_trailers(map));
        match drive(&mut f) {
            Some(Ok(())) => {}
            Some(Err(_)) => return "send-trailers-failed".into(),
            None => return "send-trailers-pending".into(),
        }
        let tx = net.borrow().tx(0);
        wire(&tx[before..])
    } else {
        let req = http::Request::builder().method("GET").uri("https://a.com/").body(()).expect("request");
        let (net, mut stream, _keep) = match client_with_request(req) {
            Ok(x) => x,
            Err(e) => return e,
        };
        let before = net.borrow().tx(0).len();
        let mut f = Box::pin(stream.send_trailers(map));
        match drive(&mut f) {
            Some(Ok(())) => {}
            Some(Err(_)) => return "send-trailers-failed".into(),
            None => return "send-trailers-pending".into(),
        }
        let tx = net.borrow().tx(0);
        wire(&tx[before..])
    }
}

fn trailers_answer(r: Result<Option<HeaderMap>, StreamError>, net: &crate::c12_sim::NetRef) -> String {
    let stop = net.borrow().streams[&0].borrow().stop_sending;
    match r {
        Ok(Some(m)) => format!("ok headers {}", print_map(m)),
        Ok(None) => "none".into(),
        Err(e) => format!("refused {} stop_sending={}", stream_error(&e), opt_code(stop)),
    }
}

/// trailers received through the PUBLIC wrappers `recv_data` (until `None`) + `recv_trailers` of the client's / the
/// server's request stream
fn recv_trailers_site(server: bool, fields: &FieldList) -> String {
    let Some(frame) = headers_frame(fields) else { return "qpack-encode-failed".into() };
    if server {
        let (net, mut stream, _keep) = match server_with_request(vec![get_frame(), frame]) {
            Ok(x) => x,
            Err(e) => return e,
        };
        loop {
            let mut f = Box::pin(stream.recv_data());
            match drive(&mut f) {
                Some(Ok(Some(_))) => continue,
                Some(Ok(None)) => break,
                Some(Err(_)) => return "recv-data-failed".into(),
                None => return "recv-data-pending".into(),
            }
        }
        let mut f = Box::pin(stream.recv_trailers());
        match drive(&mut f) {
            Some(r) => trailers_answer(r, &net),
            None => "pending".into(),
        }
    } else {
        let req = http::Request::builder().method("GET").uri("https://a.com/").body(()).expect("request");
        let (net, mut stream, _keep) = match client_with_request(req) {
            Ok(x) => x,
            Err(e) => return e,
        };
        {
            let mut n = net.borrow_mut();
            n.peer_send(0, Rx::Chunk(ok200_frame()));
            n.peer_send(0, Rx::Chunk(frame));
            n.peer_send(0, Rx::Fin);
        }
        {
            let mut f = Box::pin(stream.recv_response());
            if !matches!(drive(&mut f), Some(Ok(_))) {
                return "recv-response-failed".into();
            }
        }
        loop {
            let mut f = Box::pin(stream.recv_data());
            match drive(&mut f) {
                Some(Ok(Some(_))) => continue,
                Some(Ok(None)) => break,
                Some(Err(_)) => return "recv-data-failed".into(),
                None => return "recv-data-pending".into(),
            }
        }
        let mut f = Box::pin(stream.recv_trailers());
        match drive(&mut f) {
            Some(r) => trailers_answer(r, &net),
            None => "pending".into(),
        }
    }
}

// ---------------------------------------------------------------- sent side

fn build_map(fields: &FieldList) -> Option<HeaderMap> {
    let mut m = HeaderMap::new();
    for (n, v) in fields {
        let name = HeaderName::from_bytes(n).ok()?;
        if name.as_str().as_bytes() != &n[..] {
            return None; // the caller's name was not lower case; http would have changed it
        }
        let value = HeaderValue::from_bytes(v).ok()?;
        m.try_append(name, value).ok()?;
    }
    Some(m)
}

fn print_sent(h: Header) -> String {
    let items: Vec<String> = h.into_iter().map(|f| format!("{}={}", to_hex(&f.name), to_hex(&f.value))).collect();
    if items.is_empty() {
        "sent []".into()
    } else {
        format!("sent {}", items.join(","))
    }
}

fn build_uri(s: &Option<Vec<u8>>, a: &Option<Vec<u8>>, p: &Option<Vec<u8>>) -> Option<Uri> {
    let mut parts = http::uri::Parts::default();
    if let Some(s) = s {
        parts.scheme = Some(Scheme::try_from(&s[..]).ok()?);
    }
    if let Some(a) = a {
        parts.authority = Some(Authority::try_from(&a[..]).ok()?);
    }
    let u = match p {
        // `https://a.com` has an empty stored path, which no `PathAndQuery` constructor gives
        Some(p) if p.is_empty() => {
            let (s, a) = (parts.scheme.as_ref()?, parts.authority.as_ref()?);
            Uri::try_from(format!("{}://{}", s.as_str(), a.as_str())).ok()?
        }
        Some(p) => {
            parts.path_and_query = Some(PathAndQuery::try_from(&p[..]).ok()?);
            Uri::from_parts(parts).ok()?
        }
        None => Uri::from_parts(parts).ok()?,
    };
    // the case line must describe the value exactly: decomposing it gives the same parts back
    let back = http::uri::Parts::from(u.clone());
    let same = back.scheme.as_ref().map(|x| x.as_str().as_bytes().to_vec()) == *s
        && back.authority.as_ref().map(|x| x.as_str().as_bytes().to_vec()) == *a
        && match (&back.path_and_query, p) {
            (None, None) => true,
            // `as_str()` shows an empty path as "/"; the stored data is what the line carries
            (Some(x), Some(y)) => x.as_str().as_bytes() == &y[..] || (y.is_empty() && x.as_str() == "/"),
            _ => false,
        };
    if same {
        Some(u)
    } else {
        None
    }
}

// ---------------------------------------------------------------- dispatch

pub fn handle(w: &[&str]) -> String {
    match w {
        ["hdr", "verdicts", f] => match parse_fields(f) {
            Some(fs) => verdicts(&fs),
            None => "bad-op".into(),
        },
        ["hdr", op @ ("req" | "resp" | "trl" | "srv" | "cli" | "trlc" | "trls"), f, vt] => {
            let Some(fs) = parse_fields(f) else { return "bad-op".into() };
            if verdicts(&fs) != *vt {
                return "bad-verdicts".into();
            }
            guarded(|| {
                if *op == "trl" {
                    return recv_trailers(&fs);
                }
                if *op == "srv" {
                    return server_site(&fs);
                }
                if *op == "trlc" || *op == "trls" {
                    return recv_trailers_site(*op == "trls", &fs);
                }
                if *op == "cli" {
                    return client_site(&fs);
                }
                let hf: Vec<HeaderField> = fs.iter().map(|(n, v)| HeaderField::new(n.clone(), v.clone())).collect();
                let h = match Header::try_from(hf) {
                    Ok(h) => h,
                    Err(e) => return format!("reject {}", kind(&e)),
                };
                if *op == "req" {
                    match h.into_request_parts() {
                        Err(e) => format!("reject {}", kind(&e)),
                        Ok((m, uri, proto, map)) => {
                            let pr = uri_parts(&uri);
                            let pr: Vec<&str> = pr.split('/').collect();
                            format!(
                                "ok method {} scheme {} authority {} path {} proto {} headers {}",
                                to_hex(m.as_str().as_bytes()),
                                pr[0],
                                pr[1],
                                pr[2],
                                opt_hex(proto.as_ref().map(|p| p.as_str().as_bytes())),
                                print_map(map)
                            )
                        }
                    }
                } else {
                    match h.into_response_parts() {
                        Err(e) => format!("reject {}", kind(&e)),
                        Ok((st, map)) => format!("ok status {} headers {}", st.as_u16(), print_map(map)),
                    }
                }
            })
        }
        ["hdr", op @ ("sreq" | "wreq"), m, s, a, p, pr, f] => {
            let (Some(m), Some(s), Some(a), Some(p), Some(pr), Some(fs)) =
                (parse_hex(m), parse_opt(s), parse_opt(a), parse_opt(p), parse_opt(pr), parse_fields(f))
            else {
                return "bad-op".into();
            };
            guarded(|| {
                let Ok(method) = Method::from_bytes(&m) else { return "unbuildable".into() };
                let Some(uri) = build_uri(&s, &a, &p) else { return "unbuildable".into() };
                let Some(map) = build_map(&fs) else { return "unbuildable".into() };
                let mut ext = Extensions::new();
                if let Some(pr) = pr {
                    let Some(proto) = std::str::from_utf8(&pr).ok().and_then(|x| Protocol::from_str(x).ok()) else {
                        return "unbuildable".into();
                    };
                    ext.insert(proto);
                }
                if *op == "wreq" {
                    return send_request_site(method, uri, map, ext);
                }
                match Header::request(method, uri, map, ext) {
                    Err(e) => format!("reject {}", kind(&e)),
                    Ok(h) => print_sent(h),
                }
            })
        }
        ["hdr", op @ ("sresp" | "wresp"), st, f] => {
            let (Ok(st), Some(fs)) = (st.parse::<u16>(), parse_fields(f)) else { return "bad-op".into() };
            guarded(|| {
                let Ok(status) = StatusCode::from_u16(st) else { return "unbuildable".into() };
                let Some(map) = build_map(&fs) else { return "unbuildable".into() };
                if *op == "wresp" {
                    return send_response_site(status, map);
                }
                print_sent(Header::response(status, map))
            })
        }
        ["hdr", op @ ("strl" | "wtrlc" | "wtrls"), f] => {
            let Some(fs) = parse_fields(f) else { return "bad-op".into() };
            guarded(|| {
                let Some(map) = build_map(&fs) else { return "unbuildable".into() };
                if *op != "strl" {
                    return send_trailers_site(*op == "wtrls", map);
                }
                print_sent(Header::trailer(map))
            })
        }
        _ => "bad-op".into(),
    }
}
