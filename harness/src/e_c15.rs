//! Engines `pint`, `huff`, `pstr`: the real `h3::qpack::{prefix_int, prefix_string}` codecs
//! (crate-private; reached through the `hyperium_h3_verif` re-exports).  The Huffman coder is
//! reached through `prefix_string::{encode, decode}` with the `H` flag set.  `dec` reads from a contiguous
//! cursor, `decm` from a `Buf` of several chunks (`e_c16::Chunks`): both functions are generic over `B: Buf`.
use crate::e_c16::Chunks;
use crate::util::*;
use h3::qpack::verif::{
    prefix_int_decode, prefix_int_encode, prefix_string_decode, prefix_string_encode, PrefixIntError,
    PrefixStringError,
};
use std::io::Cursor;

fn rest_of(c: &Cursor<&[u8]>) -> String {
    let p = c.position() as usize;
    to_hex(&c.get_ref()[p..])
}

fn pint_dec(n: u8, bs: &[u8]) -> String {
    guarded(|| {
        let mut c = Cursor::new(bs);
        match prefix_int_decode(n, &mut c) {
            Ok((f, v)) => format!("ok {} {} {}", f, v, rest_of(&c)),
            Err(PrefixIntError::Overflow) => "err Overflow".into(),
            Err(PrefixIntError::UnexpectedEnd) => "err UnexpectedEnd".into(),
        }
    })
}

/// numbers in a `Debug` rendering, in order (`BitWindow { byte: 1, bit: 7, count: 2 }, 255`)
fn numbers(d: &str) -> Vec<String> {
    let mut out = Vec::new();
    let mut cur = String::new();
    for ch in d.chars() {
        if ch.is_ascii_digit() {
            cur.push(ch);
        } else if !cur.is_empty() {
            out.push(std::mem::take(&mut cur));
        }
    }
    if !cur.is_empty() {
        out.push(cur);
    }
    out
}

/// `MissingBits b b c` / `Unhandled b b c v` (the variants' types are private to the crate)
fn huff_err(d: &str) -> String {
    let kind = if d.contains("MissingBits") {
        "MissingBits"
    } else if d.contains("Unhandled") {
        "Unhandled"
    } else {
        "Other"
    };
    format!("{} {}", kind, numbers(d).join(" "))
}

fn pstr_err(e: &PrefixStringError) -> String {
    match e {
        PrefixStringError::UnexpectedEnd => "err UnexpectedEnd".into(),
        PrefixStringError::Integer(PrefixIntError::Overflow) => "err Integer Overflow".into(),
        PrefixStringError::Integer(PrefixIntError::UnexpectedEnd) => "err Integer UnexpectedEnd".into(),
        PrefixStringError::HuffmanDecoding(h) => format!("err Huffman {}", huff_err(&format!("{:?}", h))),
        PrefixStringError::HuffmanEncoding(_) => "err HuffmanEncoding".into(),
        PrefixStringError::BufSize(_) => "err BufSize".into(),
    }
}

fn pstr_dec(n: u8, bs: &[u8]) -> String {
    guarded(|| {
        let mut c = Cursor::new(bs);
        match prefix_string_decode(n, &mut c) {
            Ok(v) => format!("ok {} {}", to_hex(&v), rest_of(&c)),
            Err(e) => pstr_err(&e),
        }
    })
}

/// `pint dec` on a non-contiguous `Buf` (`chunk()` is the first piece only): same answer format
fn pint_decm(n: u8, mut buf: Chunks) -> String {
    guarded(move || match prefix_int_decode(n, &mut buf) {
        Ok((f, v)) => format!("ok {} {} {}", f, v, to_hex(&buf.drain())),
        Err(PrefixIntError::Overflow) => "err Overflow".into(),
        Err(PrefixIntError::UnexpectedEnd) => "err UnexpectedEnd".into(),
    })
}

/// `pstr dec` on a non-contiguous `Buf`: a string payload may cross a chunk boundary
fn pstr_decm(n: u8, mut buf: Chunks) -> String {
    guarded(move || match prefix_string_decode(n, &mut buf) {
        Ok(v) => format!("ok {} {}", to_hex(&v), to_hex(&buf.drain())),
        Err(e) => pstr_err(&e),
    })
}

/// Huffman-decode `payload` with the real decoder: a string literal with `H = 1`.
fn huff_dec(payload: &[u8]) -> String {
    guarded(|| {
        let mut wire = Vec::with_capacity(payload.len() + 10);
        prefix_int_encode(7, 1, payload.len() as u64, &mut wire);
        wire.extend_from_slice(payload);
        let mut c = Cursor::new(&wire[..]);
        match prefix_string_decode(8, &mut c) {
            Ok(v) => {
                if c.position() as usize != wire.len() {
                    return "harness-error rest".into();
                }
                format!("ok {}", to_hex(&v))
            }
            Err(PrefixStringError::HuffmanDecoding(h)) => format!("err {}", huff_err(&format!("{:?}", h))),
            Err(e) => format!("harness-error {}", pstr_err(&e)),
        }
    })
}

/// Huffman-encode with the real encoder: the payload of the string literal it writes.
fn huff_enc(s: &[u8]) -> Result<Vec<u8>, String> {
    let mut wire = Vec::new();
    prefix_string_encode(8, 0, s, &mut wire).map_err(|e| pstr_err(&e))?;
    let mut c = Cursor::new(&wire[..]);
    let (f, len) = prefix_int_decode(7, &mut c).map_err(|_| "harness-error prefix".to_string())?;
    let p = c.position() as usize;
    if f != 1 || wire.len() - p != len as usize {
        return Err("harness-error prefix".into());
    }
    Ok(wire[p..].to_vec())
}

fn fnv(mut h: u64, s: &str) -> u64 {
    for b in s.bytes().chain(std::iter::once(b'\n')) {
        h = (h ^ b as u64).wrapping_mul(1099511628211);
    }
    h
}

fn payload_of(i: u64) -> Vec<u8> {
    if i < 1 {
        vec![]
    } else if i < 257 {
        vec![(i - 1) as u8]
    } else if i < 65793 {
        let j = i - 257;
        vec![(j / 256) as u8, (j % 256) as u8]
    } else if i < 16843009 {
        let j = i - 65793;
        vec![(j / 65536) as u8, (j / 256 % 256) as u8, (j % 256) as u8]
    } else {
        let j = i - 16843009;
        vec![(j / 16777216 % 256) as u8, (j / 65536 % 256) as u8, (j / 256 % 256) as u8, (j % 256) as u8]
    }
}

pub fn handle(w: &[&str]) -> String {
    match w {
        ["pint", "dec", n, h] => {
            let (Ok(n), Some(bs)) = (n.parse::<u8>(), parse_hex(h)) else { return "bad-op".into() };
            pint_dec(n, &bs)
        }
        // decm: the input as a multi-chunk `Buf`, pieces separated by `,` (the cut positions; none empty)
        ["pint", "decm", n, h] => {
            let (Ok(n), Some(buf)) = (n.parse::<u8>(), Chunks::parse(h)) else { return "bad-op".into() };
            pint_decm(n, buf)
        }
        ["pstr", "decm", n, h] => {
            let (Ok(n), Some(buf)) = (n.parse::<u8>(), Chunks::parse(h)) else { return "bad-op".into() };
            pstr_decm(n, buf)
        }
        ["pint", "enc", n, f, v] => {
            let (Ok(n), Ok(f), Ok(v)) = (n.parse::<u8>(), f.parse::<u8>(), v.parse::<u64>()) else {
                return "bad-op".into();
            };
            guarded(|| {
                let mut buf = Vec::new();
                prefix_int_encode(n, f, v, &mut buf);
                format!("ok {} rt {}", to_hex(&buf), pint_dec(n, &buf))
            })
        }
        ["huff", "dec", h] => {
            let Some(bs) = parse_hex(h) else { return "bad-op".into() };
            huff_dec(&bs)
        }
        // huff decn <hex unit> <count>: a Huffman string literal made of `count` copies of the unit (inputs too long
        // for a case line: the decoder's u32 bit positions, D-06u); answer: `ok len=<decoded bytes>` / `err <kind>`
        // (`err MissingBits`, `err Unhandled`; `err BufSize` = the literal is refused for its length)
        ["huff", "decn", h, n] => {
            let (Some(unit), Ok(n)) = (parse_hex(h), n.parse::<usize>()) else { return "bad-op".into() };
            guarded(|| {
                let mut wire = Vec::with_capacity(unit.len() * n + 10);
                prefix_int_encode(7, 1, (unit.len() * n) as u64, &mut wire);
                wire.extend(unit.iter().cycle().take(unit.len() * n));
                let mut c = Cursor::new(&wire[..]);
                match prefix_string_decode(8, &mut c) {
                    Ok(v) => format!("ok len={}", v.len()),
                    Err(PrefixStringError::HuffmanDecoding(h)) => {
                        huff_err(&format!("{:?}", h)).split(' ').next().map(|k| format!("err {}", k)).unwrap()
                    }
                    Err(e) => pstr_err(&e),
                }
            })
        }
        // huff encn <hex unit> <count>: Huffman-encode `count` copies of the unit with the real encoder, through
        // `prefix_string::encode` (strings too long for a case line: the encoder's u32 positions, D-15e); answer:
        // `ok len=<coded bytes> sum=<sum of the coded bytes> tail=<last <= 4 coded bytes>` / `err HuffmanEncoding`
        ["huff", "encn", h, n] => {
            let (Some(unit), Ok(n)) = (parse_hex(h), n.parse::<usize>()) else { return "bad-op".into() };
            guarded(|| {
                let s: Vec<u8> = unit.iter().cycle().take(unit.len() * n).cloned().collect();
                let mut wire = Vec::new();
                if let Err(e) = prefix_string_encode(8, 0, &s, &mut wire) {
                    return pstr_err(&e);
                }
                drop(s);
                let mut c = Cursor::new(&wire[..]);
                let Ok((f, len)) = prefix_int_decode(7, &mut c) else { return "harness-error prefix".into() };
                let p = c.position() as usize;
                if f != 1 || wire.len() - p != len as usize {
                    return "harness-error prefix".into();
                }
                let body = &wire[p..];
                let sum: u64 = body.iter().map(|b| *b as u64).sum();
                let tail = &body[body.len().saturating_sub(4)..];
                format!("ok len={} sum={} tail={}", body.len(), sum, to_hex(tail))
            })
        }
        ["huff", "enc", h] => {
            let Some(s) = parse_hex(h) else { return "bad-op".into() };
            guarded(|| match huff_enc(&s) {
                Ok(wire) => format!("ok {} rt {}", to_hex(&wire), huff_dec(&wire)),
                Err(e) => e,
            })
        }
        ["huff", "range", lo, hi] => {
            let (Ok(lo), Ok(hi)) = (lo.parse::<u64>(), hi.parse::<u64>()) else { return "bad-op".into() };
            let (mut h, mut ok, mut okbytes, mut missing, mut unhandled) = (14695981039346656037u64, 0u64, 0u64, 0u64, 0u64);
            for i in lo..hi {
                let line = huff_dec(&payload_of(i));
                if let Some(x) = line.strip_prefix("ok ") {
                    ok += 1;
                    okbytes += if x == "-" { 0 } else { x.len() as u64 / 2 };
                } else if line.starts_with("err MissingBits") {
                    missing += 1;
                } else {
                    unhandled += 1;
                }
                h = fnv(h, &line);
            }
            format!(
                "range n={} ok={} okbytes={} missing={} unhandled={} digest={:016x}",
                hi.saturating_sub(lo), ok, okbytes, missing, unhandled, h
            )
        }
        ["pstr", "dec", n, h] => {
            let (Ok(n), Some(bs)) = (n.parse::<u8>(), parse_hex(h)) else { return "bad-op".into() };
            pstr_dec(n, &bs)
        }
        ["pstr", "enc", n, f, h] => {
            let (Ok(n), Ok(f), Some(s)) = (n.parse::<u8>(), f.parse::<u8>(), parse_hex(h)) else {
                return "bad-op".into();
            };
            guarded(|| {
                let mut buf = Vec::new();
                match prefix_string_encode(n, f, &s, &mut buf) {
                    Ok(()) => format!("ok {} rt {}", to_hex(&buf), pstr_dec(n, &buf)),
                    Err(e) => pstr_err(&e),
                }
            })
        }
        _ => "bad-op".into(),
    }
}
