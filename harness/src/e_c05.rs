//! Engine `cell` (C05): the connection error cell of the real code under a scripted
//! interleaving.
//!
//! A case line is
//!   `cell <mode> S1=<err>,<err>.. S2=.. : <label> <label> ..`
//! with `<mode>` = `pce` (the driver calls `ConnectionInner::poll_connection_error` /
//! `handle_connection_error` directly), `acc` (the driver polls the future of
//! `server::Connection::accept`), `clo` (the driver calls `client::Connection::poll_close`) or
//! `idl` (the driver polls the future of `client::Connection::wait_idle`), `<err>` = `I<code>.<tag>` (`InternalConnectionError`),
//! `Qa<code>` (`ApplicationClose`), `Qt` (`Timeout`), `Qi.<tag>` (`InternalError`), `Qu.<tag>`
//! (`Undefined`), and `<label>` = `D.poll | D.pce | D.det:<err> | D.park | D.shut | S<k>` (`D.shut`: the driver calls
//! the real `shutdown()` — mode `pce`: its first statement `check_connection_error` — while it is not inside a poll).
//!
//! Every task runs on its own OS thread against one real `h3::server::Connection` (over the
//! in-memory transport of `sim.rs`) and its real `Arc<SharedState>`; the threads are parked at
//! the pre-emption points of `h3::verif_hooks` and released one step at a time in the order of
//! the labels, so exactly one thread runs at any time and the run is deterministic.
//! Stream handles are `CloseStream` implementors over the connection's `SharedState` (every
//! implementor in h3 uses the trait's default methods, checked by `tools/props/c05.py`).
use crate::sim::{Net, SimConn};
use crate::util::guarded;
use bytes::Bytes;
use h3::error::connection_error_creators::CloseStream;
use h3::error::internal_error::{ErrorOrigin, InternalConnectionError};
use h3::error::{Code, ConnectionError, LocalError, StreamError};
use h3::quic::{ConnectionErrorIncoming, StreamErrorIncoming};
use h3::{ConnectionState, SharedState};
use std::cell::RefCell;
use std::future::Future;
use std::pin::Pin;
use std::sync::atomic::{AtomicBool, Ordering};
use std::sync::{mpsc, Arc, Mutex, Once, OnceLock};
use std::task::{Context, Poll, Wake, Waker};

// ------------------------------------------------------------------ errors

#[derive(Clone, Debug, PartialEq)]
enum Err {
    Internal(u64, u64),
    AppClose(u64),
    Timeout,
    QInternal(u64),
    Undefined(u64),
}

#[derive(Debug)]
struct Tagged(u64);
impl std::fmt::Display for Tagged {
    fn fmt(&self, f: &mut std::fmt::Formatter<'_>) -> std::fmt::Result {
        write!(f, "u{}", self.0)
    }
}
impl std::error::Error for Tagged {}

fn parse_err(s: &str) -> Option<Err> {
    if let Some(r) = s.strip_prefix('I') {
        let (c, t) = r.split_once('.')?;
        return Some(Err::Internal(c.parse().ok()?, t.parse().ok()?));
    }
    if let Some(r) = s.strip_prefix("Qa") {
        return Some(Err::AppClose(r.parse().ok()?));
    }
    if s == "Qt" {
        return Some(Err::Timeout);
    }
    if let Some(r) = s.strip_prefix("Qi.") {
        return Some(Err::QInternal(r.parse().ok()?));
    }
    if let Some(r) = s.strip_prefix("Qu.") {
        return Some(Err::Undefined(r.parse().ok()?));
    }
    None
}

fn quic_of(e: &Err) -> ConnectionErrorIncoming {
    match e {
        Err::AppClose(c) => ConnectionErrorIncoming::ApplicationClose { error_code: *c },
        Err::Timeout => ConnectionErrorIncoming::Timeout,
        Err::QInternal(t) => ConnectionErrorIncoming::InternalError(format!("m{}", t)),
        Err::Undefined(t) => ConnectionErrorIncoming::Undefined(Arc::new(Tagged(*t))),
        Err::Internal(..) => unreachable!(),
    }
}

fn internal_of(c: u64, t: u64) -> InternalConnectionError {
    InternalConnectionError::new(Code::from(c), format!("m{}", t))
}

/// the one error h3 detects itself in the real-future modes of the client (label `D.det:I259.0`)
const SERVER_BIDI: &str = "client received a server-initiated bidirectional stream";

fn tag_of(reason: &str) -> String {
    if reason == SERVER_BIDI {
        return "0".into();
    }
    reason.strip_prefix('m').unwrap_or("?").to_string()
}

fn show_quic(prefix: &str, q: &ConnectionErrorIncoming) -> String {
    match q {
        ConnectionErrorIncoming::ApplicationClose { error_code } => format!("{}a{}", prefix, error_code),
        ConnectionErrorIncoming::Timeout => format!("{}t", prefix),
        ConnectionErrorIncoming::InternalError(r) => format!("{}i.{}", prefix, tag_of(r)),
        ConnectionErrorIncoming::Undefined(e) => {
            format!("{}u.{}", prefix, e.to_string().strip_prefix('u').unwrap_or("?"))
        }
    }
}

/// `L<code>.<tag>` | `Ra<code>` | `Ri.<tag>` | `Ru.<tag>` | `Rt` | `T`
fn show_cerr(e: &ConnectionError) -> String {
    match e {
        ConnectionError::Local { error: LocalError::Application { code, reason, .. }, .. } => {
            format!("L{}.{}", code.value(), tag_of(reason))
        }
        ConnectionError::Local { .. } => "Lclosing".into(),
        ConnectionError::Remote(q) => show_quic("R", q),
        ConnectionError::Timeout => "T".into(),
        _ => "?".into(),
    }
}

fn show_serr(e: &StreamError) -> String {
    match e {
        StreamError::ConnectionError(c) => show_cerr(c),
        _ => "notconn".into(),
    }
}

/// numeric value of a `Code` from its Debug rendering (the field is crate-private there)
fn code_value(dbg: &str) -> Option<u64> {
    if let Some(h) = dbg.strip_prefix("0x") {
        return u64::from_str_radix(h, 16).ok();
    }
    (0..0x400u64).find(|v| format!("{:?}", Code::from(*v)) == dbg)
}

/// `I<code>.<tag>` | `Qa<code>` | ..: the content of the error cell
fn show_origin(e: &ErrorOrigin) -> String {
    match e {
        ErrorOrigin::Internal(i) => {
            // `InternalConnectionError { code: NAME, message: "m7" }`
            let d = format!("{:?}", i);
            let code = d.split("code: ").nth(1).and_then(|r| r.split(',').next()).and_then(code_value);
            let tag = tag_of(d.split("message: \"").nth(1).and_then(|r| r.split('"').next()).unwrap_or("?"));
            match code {
                Some(c) => format!("I{}.{}", c, tag),
                None => "I?".into(),
            }
        }
        ErrorOrigin::Quic(q) => show_quic("Q", q),
    }
}

// ------------------------------------------------------------------ scheduler

#[derive(Clone, Debug, PartialEq)]
enum DOp {
    Poll,
    Pce,
    Det(Err),
    Park,
    /// a `shutdown()` call made while the driver is not inside a poll (mode `pce`: its first
    /// statement, `ConnectionInner::check_connection_error`, called directly)
    Shut,
}

#[derive(Clone, Debug)]
enum Cmd {
    Drv(DOp),
    Str,
    Drain,
}

#[derive(Default)]
struct CtlState {
    grant: Option<usize>,
    cmd: Option<Cmd>,
    stopped: bool,
    report: String,
    drain: bool,
    closes: Vec<(u64, String)>,
}

struct Ctl {
    m: Mutex<CtlState>,
    /// the controller thread (woken by `report`)
    controller: std::thread::Thread,
    /// the task threads (woken by `step`/`drain`); filled in by the controller after spawning
    tasks: Mutex<Vec<std::thread::Thread>>,
}

// Hand-off is by `park`/`unpark`: state is changed under the mutex first, then the one thread
// concerned is unparked; a thread always re-checks the state under the mutex before it parks
// (an `unpark` that comes first makes the next `park` return at once), so no wake-up of the
// harness itself can be lost.
impl Ctl {
    /// task side: block until this task is granted a step
    fn wait_grant(&self, me: usize) -> Cmd {
        let mut spins = 0u32;
        loop {
            {
                let g = self.m.lock().unwrap();
                if g.drain {
                    return Cmd::Drain;
                }
                if g.grant == Some(me) && !g.stopped {
                    return g.cmd.clone().unwrap_or(Cmd::Str);
                }
            }
            // steps last microseconds: look again a few times before going to sleep
            if spins < SPINS {
                spins += 1;
                std::hint::spin_loop();
                continue;
            }
            std::thread::park();
        }
    }
    /// task side: the granted step has ended with this outcome
    fn report(&self, outcome: String, closes: Option<Vec<(u64, String)>>) {
        {
            let mut g = self.m.lock().unwrap();
            if g.drain {
                return;
            }
            g.report = outcome;
            if let Some(c) = closes {
                g.closes = c;
            }
            g.stopped = true;
        }
        self.controller.unpark();
    }
    /// controller side: let `task` run one step and wait for its outcome
    fn step(&self, task: usize, cmd: Cmd) -> String {
        {
            let mut g = self.m.lock().unwrap();
            g.grant = Some(task);
            g.cmd = Some(cmd);
            g.stopped = false;
        }
        if let Some(t) = self.tasks.lock().unwrap().get(task) {
            t.unpark();
        }
        let t0 = std::time::Instant::now();
        let mut spins = 0u32;
        loop {
            {
                let mut g = self.m.lock().unwrap();
                if g.stopped {
                    g.grant = None;
                    return std::mem::take(&mut g.report);
                }
                // a task thread that died (panic inside the code under test) never reports
                if spins >= SPINS && t0.elapsed() > std::time::Duration::from_secs(20) {
                    g.grant = None;
                    return "dead".into();
                }
            }
            if spins < SPINS {
                spins += 1;
                std::hint::spin_loop();
                continue;
            }
            std::thread::park_timeout(std::time::Duration::from_millis(200));
        }
    }
    fn drain(&self) {
        self.m.lock().unwrap().drain = true;
        for t in self.tasks.lock().unwrap().iter() {
            t.unpark();
        }
    }
}

struct Me {
    ctl: Arc<Ctl>,
    id: usize,
    acc: bool,
    rounds: usize,
    net: Option<crate::sim::NetRef>,
}

thread_local! {
    static ME: RefCell<Option<Me>> = const { RefCell::new(None) };
}

fn closes_of(net: &crate::sim::NetRef) -> Vec<(u64, String)> {
    net.borrow().closed.iter().map(|(c, r)| (*c, tag_of(&String::from_utf8_lossy(r)))).collect()
}

/// Stop the calling task thread at a pre-emption point: report `outcome`, wait for the next
/// grant. Threads that do not belong to a running case are not affected.
fn stop_here(outcome: &str) -> Option<Cmd> {
    let (ctl, id, closes) = ME.with(|m| {
        let m = m.borrow();
        let me = m.as_ref()?;
        Some((me.ctl.clone(), me.id, me.net.as_ref().map(closes_of)))
    })?;
    ctl.report(outcome.to_string(), closes);
    Some(ctl.wait_grant(id))
}

fn hook(name: &'static str) {
    let Some((id, acc, rounds)) = ME.with(|m| m.borrow().as_ref().map(|me| (me.id, me.acc, me.rounds))) else {
        return;
    };
    match name {
        "set_conn_error_and_wake:between" if id > 0 => {
            stop_here("set");
        }
        "poll_connection_error:between" if id == 0 => {
            stop_here("mid");
        }
        "poll_connection_error:enter" if id == 0 && acc => {
            // a poll of `accept` runs several `poll_connection_error` calls; each entry is a
            // stop: the first one ends the `poll` step, later ones end the previous call
            ME.with(|m| m.borrow_mut().as_mut().unwrap().rounds += 1);
            stop_here(if rounds == 0 { "poll" } else { "pend" });
        }
        _ => {}
    }
}

static INSTALL: Once = Once::new();

// ------------------------------------------------------------------ worker threads
// Task threads are kept across cases (spawning four OS threads per case costs more than the
// case itself). Worker 0 runs the driver of the current case, worker k stream handle k.

type Job = Box<dyn FnOnce() + Send + 'static>;

struct Pool {
    jobs: Vec<mpsc::Sender<Job>>,
    threads: Vec<std::thread::Thread>,
    done: Mutex<mpsc::Receiver<usize>>,
}

static POOL: OnceLock<Pool> = OnceLock::new();

fn pool(n: usize) -> &'static Pool {
    let p = POOL.get_or_init(|| {
        let (done_tx, done_rx) = mpsc::channel();
        let mut jobs = Vec::new();
        let mut threads = Vec::new();
        for idx in 0..=MAX_HANDLES {
            let (tx, rx) = mpsc::channel::<Job>();
            let done_tx = done_tx.clone();
            let h = std::thread::spawn(move || {
                for job in rx {
                    let _ = std::panic::catch_unwind(std::panic::AssertUnwindSafe(job));
                    ME.with(|m| *m.borrow_mut() = None);
                    let _ = done_tx.send(idx);
                }
            });
            threads.push(h.thread().clone());
            jobs.push(tx);
        }
        Pool { jobs, threads, done: Mutex::new(done_rx) }
    });
    assert!(n <= MAX_HANDLES);
    p
}

const MAX_HANDLES: usize = 8;
const SPINS: u32 = 300;

struct Flag {
    woken: AtomicBool,
    /// generation of the driver poll in progress: every driver poll uses a NEW waker (the driver
    /// may be polled from a different task each time); only a wake through the waker of the
    /// latest poll reaches the task that is parked now
    gen: std::sync::atomic::AtomicU64,
}
static MOVING: AtomicBool = AtomicBool::new(false);

/// `woken`/`parked`/`quiet` and the per-step trace depend on which task a wake reaches; engine
/// `cellmv` compares only what the property speaks about
fn reduce_mv(out: &str) -> String {
    let head = out.split(" | ").next().unwrap_or("");
    let t: Vec<&str> = head.split(' ').collect();
    let mut r = Vec::new();
    let mut i = 0;
    while i < t.len() {
        if matches!(t[i], "woken" | "parked" | "quiet") {
            i += 2;
        } else {
            r.push(t[i]);
            i += 1;
        }
    }
    r.join(" ")
}

struct GenWaker {
    flag: Arc<Flag>,
    gen: u64,
}
impl Wake for GenWaker {
    fn wake(self: Arc<Self>) {
        self.wake_by_ref()
    }
    fn wake_by_ref(self: &Arc<Self>) {
        // engine `cellmv`: the driver is polled from a different task each time, so a wake through
        // the waker of an earlier poll does not reach the task parked now; engine `cell`: one task
        if !MOVING.load(Ordering::SeqCst) || self.flag.gen.load(Ordering::SeqCst) == self.gen {
            self.flag.woken.store(true, Ordering::SeqCst);
        }
    }
}
fn next_waker(flag: &Arc<Flag>) -> Waker {
    let gen = flag.gen.fetch_add(1, Ordering::SeqCst) + 1;
    Waker::from(Arc::new(GenWaker { flag: flag.clone(), gen }))
}

struct Handle {
    shared: Arc<SharedState>,
}
impl ConnectionState for Handle {
    fn shared_state(&self) -> &SharedState {
        &self.shared
    }
}
impl CloseStream for Handle {}

fn raise(h: &mut Handle, e: &Err) -> StreamError {
    match e {
        Err::Internal(c, t) => h.handle_connection_error_on_stream(internal_of(*c, *t)),
        q => h.handle_quic_stream_error(StreamErrorIncoming::ConnectionErrorIncoming { connection_error: quic_of(q) }),
    }
}

fn stream_thread(ctl: Arc<Ctl>, id: usize, shared: Arc<SharedState>, errs: Vec<Err>) {
    ME.with(|m| *m.borrow_mut() = Some(Me { ctl: ctl.clone(), id, acc: false, rounds: 0, net: None }));
    let mut h = Handle { shared };
    for e in errs {
        if let Cmd::Drain = ctl.wait_grant(id) {
            break;
        }
        let r = raise(&mut h, &e);
        ctl.report(format!("E:{}", show_serr(&r)), None);
    }
    ME.with(|m| *m.borrow_mut() = None);
}

fn build_server(net: &crate::sim::NetRef) -> h3::server::Connection<SimConn, Bytes> {
    let mut b = h3::server::builder();
    b.send_grease(false);
    let mut f: Pin<Box<dyn Future<Output = _>>> = Box::pin(b.build::<_, Bytes>(SimConn { net: net.clone() }));
    match crate::sim::poll_settled(&mut f) {
        Poll::Ready(r) => r.expect("server build"),
        Poll::Pending => panic!("server build pending"),
    }
}

/// The driver thread, mode `pce`: every label is one direct call.
fn driver_thread_pce(ctl: Arc<Ctl>, flag: Arc<Flag>, tx: mpsc::Sender<Arc<SharedState>>) {
    let net = Net::new(true);
    let mut conn = build_server(&net);
    let _ = tx.send(conn.inner.shared.clone());
    ME.with(|m| *m.borrow_mut() = Some(Me { ctl: ctl.clone(), id: 0, acc: false, rounds: 0, net: Some(net.clone()) }));
    let mut waker = next_waker(&flag);
    loop {
        let cmd = ctl.wait_grant(0);
        let out = match cmd {
            Cmd::Drain | Cmd::Str => break,
            Cmd::Drv(DOp::Poll) => {
                // the executor consumes the notification when it polls the task; this poll
                // comes with its own waker
                flag.woken.store(false, Ordering::SeqCst);
                waker = next_waker(&flag);
                "poll".to_string()
            }
            Cmd::Drv(DOp::Park) => "park".to_string(),
            Cmd::Drv(DOp::Shut) => match conn.inner.check_connection_error() {
                Ok(()) => "ok".to_string(),
                Err(e) => format!("E:{}", show_cerr(&e)),
            },
            Cmd::Drv(DOp::Pce) => {
                let mut cx = Context::from_waker(&waker);
                match conn.inner.poll_connection_error(&mut cx) {
                    Poll::Pending => "pend".to_string(),
                    Poll::Ready(Ok(())) => "ok".to_string(),
                    Poll::Ready(Err(e)) => format!("E:{}", show_cerr(&e)),
                }
            }
            Cmd::Drv(DOp::Det(e)) => {
                let r = match &e {
                    Err::Internal(c, t) => conn.inner.handle_connection_error(internal_of(*c, *t)),
                    q => conn.inner.handle_connection_error(quic_of(q)),
                };
                format!("E:{}", show_cerr(&r))
            }
        };
        ctl.report(out, Some(closes_of(&net)));
    }
    ME.with(|m| *m.borrow_mut() = None);
}

/// how the driver is run
#[derive(Clone, Copy, PartialEq)]
enum Mode {
    /// direct calls of `poll_connection_error` / `handle_connection_error`
    Pce,
    /// the future of `server::Connection::accept`
    Acc,
    /// `client::Connection::poll_close`, called directly
    Clo,
    /// the future of `client::Connection::wait_idle`
    Idl,
}

fn build_client(net: &crate::sim::NetRef) -> (h3::client::Connection<SimConn, Bytes>, h3::client::SendRequest<crate::sim::SimOpen, Bytes>) {
    let mut b = h3::client::builder();
    b.send_grease(false);
    let mut f: Pin<Box<dyn Future<Output = _>>> =
        Box::pin(b.build::<SimConn, crate::sim::SimOpen, Bytes>(SimConn { net: net.clone() }));
    match crate::sim::poll_settled(&mut f) {
        Poll::Ready(r) => r.expect("client build"),
        Poll::Pending => panic!("client build pending"),
    }
}

/// The transport stops the driver thread inside `poll_accept_bidi` (the last thing a poll of
/// `accept` / `poll_close` / `wait_idle` does on an idle connection): `D.park` makes the transport
/// answer `Pending`, `D.det:<quic error>` makes it fail with that error, and — client only —
/// `D.det:I259.<tag>` makes it hand out a server-initiated bidirectional stream, which h3 itself
/// answers with H3_STREAM_CREATION_ERROR.
fn install_gate(ctl: &Arc<Ctl>, net: &crate::sim::NetRef, client: bool) {
    let ctl2 = ctl.clone();
    let net2 = net.clone();
    net.borrow_mut().accept_bidi_gate = Some(Box::new(move || {
        ctl2.report("pend".to_string(), Some(closes_of(&net2)));
        match ctl2.wait_grant(0) {
            Cmd::Drv(DOp::Det(Err::Internal(259, _))) if client => {
                let mut n = net2.borrow_mut();
                // the waker an earlier poll left at the transport is not the connection's waker:
                // the arrival of the stream must not look like a notification from the error cell
                n.accept_bidi_waker = None;
                n.peer_open(1);
                None
            }
            Cmd::Drv(DOp::Det(e)) if !matches!(e, Err::Internal(..)) => Some(quic_of(&e)),
            _ => None,
        }
    }));
}

/// The driver thread, modes `acc` / `clo` / `idl`: `D.poll` starts one poll of the `accept()`
/// future (of `poll_close`, of the `wait_idle()` future), which runs up to the first
/// `poll_connection_error`; the following `D.pce` labels run it from pre-emption point to
/// pre-emption point; after the last `poll_connection_error` of the poll the transport's
/// `poll_accept_bidi` is reached (see `install_gate`).
fn driver_thread_fut(mode: Mode, ctl: Arc<Ctl>, flag: Arc<Flag>, tx: mpsc::Sender<Arc<SharedState>>) {
    let client = mode != Mode::Acc;
    let net = Net::new(!client);
    enum Drv {
        Server(h3::server::Connection<SimConn, Bytes>),
        // the `SendRequest` is kept to the end of the case: dropping the last one raises
        // H3_NO_ERROR through the error cell
        #[allow(dead_code)]
        Client(h3::client::Connection<SimConn, Bytes>, h3::client::SendRequest<crate::sim::SimOpen, Bytes>),
    }
    let mut drv = if client {
        let (c, s) = build_client(&net);
        Drv::Client(c, s)
    } else {
        Drv::Server(build_server(&net))
    };
    let shared = match &drv {
        Drv::Server(c) => c.inner.shared.clone(),
        Drv::Client(c, _) => c.inner.shared.clone(),
    };
    let _ = tx.send(shared);
    ME.with(|m| *m.borrow_mut() = Some(Me { ctl: ctl.clone(), id: 0, acc: true, rounds: 0, net: Some(net.clone()) }));
    install_gate(&ctl, &net, client);
    'outer: loop {
        // idle: only `D.poll` and `D.shut` are sent here
        match ctl.wait_grant(0) {
            Cmd::Drv(DOp::Poll) => {}
            Cmd::Drv(DOp::Shut) => {
                // the real `shutdown()` of the role's driver, polled once (it can wait only for write
                // credit on the control stream, which this transport never withholds)
                let r = match &mut drv {
                    Drv::Server(conn) => {
                        let mut f: Pin<Box<dyn Future<Output = _> + '_>> = Box::pin(conn.shutdown(0));
                        crate::sim::poll_once(&mut f)
                    }
                    Drv::Client(conn, _) => {
                        let mut f: Pin<Box<dyn Future<Output = _> + '_>> = Box::pin(conn.shutdown(0));
                        crate::sim::poll_once(&mut f)
                    }
                };
                let out = match r {
                    Poll::Pending => "shut-pending".to_string(),
                    Poll::Ready(Ok(())) => "ok".to_string(),
                    Poll::Ready(Err(e)) => format!("E:{}", show_cerr(&e)),
                };
                ctl.report(out, Some(closes_of(&net)));
                continue 'outer;
            }
            _ => break 'outer,
        }
        flag.woken.store(false, Ordering::SeqCst);
        let waker = next_waker(&flag);
        ME.with(|m| m.borrow_mut().as_mut().unwrap().rounds = 0);
        let mut cx = Context::from_waker(&waker);
        let out = match &mut drv {
            Drv::Server(conn) => {
                let mut fut = Box::pin(conn.accept());
                match fut.as_mut().poll(&mut cx) {
                    Poll::Pending => "park".to_string(),
                    Poll::Ready(Ok(Some(_))) => "request".to_string(),
                    Poll::Ready(Ok(None)) => "none".to_string(),
                    Poll::Ready(Err(e)) => format!("E:{}", show_cerr(&e)),
                }
            }
            Drv::Client(conn, _) => {
                let r = if mode == Mode::Clo {
                    conn.poll_close(&mut cx)
                } else {
                    let mut fut = Box::pin(conn.wait_idle());
                    fut.as_mut().poll(&mut cx)
                };
                match r {
                    Poll::Pending => "park".to_string(),
                    Poll::Ready(e) => format!("E:{}", show_cerr(&e)),
                }
            }
        };
        ctl.report(out, Some(closes_of(&net)));
    }
    net.borrow_mut().accept_bidi_gate = None;
    ME.with(|m| *m.borrow_mut() = None);
}

// ------------------------------------------------------------------ the case

#[derive(Clone, Copy, PartialEq)]
enum Pc {
    Idle,
    Started,
    Mid,
    Armed,
}

enum Label {
    D(DOp),
    S(usize),
}

fn parse_label(s: &str) -> Option<Label> {
    if let Some(k) = s.strip_prefix('S') {
        let k: usize = k.parse().ok()?;
        return if k >= 1 { Some(Label::S(k)) } else { None };
    }
    match s {
        "D.poll" => Some(Label::D(DOp::Poll)),
        "D.pce" => Some(Label::D(DOp::Pce)),
        "D.park" => Some(Label::D(DOp::Park)),
        "D.shut" => Some(Label::D(DOp::Shut)),
        _ => Some(Label::D(DOp::Det(parse_err(s.strip_prefix("D.det:")?)?))),
    }
}

fn run_case(mode: Mode, specs: Vec<Vec<Err>>, labels: Vec<Label>) -> String {
    let acc = mode != Mode::Pce;
    INSTALL.call_once(|| h3::verif_hooks::install(hook));
    let n = specs.len();
    let ctl = Arc::new(Ctl { m: Mutex::new(CtlState::default()), controller: std::thread::current(), tasks: Mutex::new(Vec::new()) });
    let flag = Arc::new(Flag { woken: AtomicBool::new(false), gen: std::sync::atomic::AtomicU64::new(0) });
    let (tx, rx) = mpsc::channel();
    if n > MAX_HANDLES {
        return "bad-op".into();
    }
    let pool = pool(n);
    *ctl.tasks.lock().unwrap() = pool.threads[..=n].to_vec();
    // a task whose code panics reports `dead` instead of leaving the controller waiting
    let guarded_job = |ctl: Arc<Ctl>, f: Box<dyn FnOnce() + Send>| -> Job {
        Box::new(move || {
            if std::panic::catch_unwind(std::panic::AssertUnwindSafe(f)).is_err() {
                ctl.report("dead".into(), None);
            }
        })
    };
    let wait_done = |k: usize| {
        let rx = pool.done.lock().unwrap();
        for _ in 0..k {
            let _ = rx.recv();
        }
    };
    {
        let (c, f) = (ctl.clone(), flag.clone());
        let job: Box<dyn FnOnce() + Send> =
            Box::new(move || if mode == Mode::Pce { driver_thread_pce(c, f, tx) } else { driver_thread_fut(mode, c, f, tx) });
        let _ = pool.jobs[0].send(guarded_job(ctl.clone(), job));
    }
    let Ok(shared) = rx.recv() else {
        wait_done(1);
        return "panic".into();
    };
    for (i, errs) in specs.iter().enumerate() {
        let (c, s, e) = (ctl.clone(), shared.clone(), errs.clone());
        let job: Box<dyn FnOnce() + Send> = Box::new(move || stream_thread(c, i + 1, s, e));
        let _ = pool.jobs[i + 1].send(guarded_job(ctl.clone(), job));
    }

    let mut pc = Pc::Idle;
    let mut parked = false;
    let mut drv_last = "none".to_string();
    let mut left: Vec<usize> = specs.iter().map(|e| e.len()).collect();
    let mut smid = vec![false; n];
    let mut srets: Vec<Vec<String>> = vec![Vec::new(); n];
    let mut trace = Vec::new();
    let mut bad = false;
    let mut lost = false;
    let mut dflip = false; // a driver call returned `Pending` after one had returned the error
    let mut errs: Vec<String> = Vec::new(); // distinct connection errors reported anywhere
    for l in &labels {
        let tok = match l {
            Label::S(k) => {
                if *k > n || (!smid[*k - 1] && left[*k - 1] == 0) {
                    format!("S{}.end", k)
                } else {
                    let r = ctl.step(*k, Cmd::Str);
                    if r == "set" {
                        smid[*k - 1] = true;
                        left[*k - 1] -= 1;
                    } else if !r.starts_with("E:") {
                        bad = true;
                    } else {
                        smid[*k - 1] = false;
                        let e = r.trim_start_matches("E:").to_string();
                        if !errs.contains(&e) {
                            errs.push(e.clone());
                        }
                        srets[*k - 1].push(e);
                    }
                    format!("S{}.{}", k, r)
                }
            }
            Label::D(op) => {
                let enabled = match (pc, op) {
                    (Pc::Idle, DOp::Poll) | (Pc::Idle, DOp::Shut) => true,
                    (Pc::Started, DOp::Pce) | (Pc::Started, DOp::Det(_)) => true,
                    (Pc::Armed, DOp::Pce) | (Pc::Armed, DOp::Det(_)) | (Pc::Armed, DOp::Park) => true,
                    (Pc::Mid, DOp::Pce) => true,
                    _ => false,
                };
                if !enabled {
                    "D.skip".to_string()
                } else {
                    let r = ctl.step(0, Cmd::Drv(op.clone()));
                    match r.as_str() {
                        "poll" => {
                            pc = Pc::Started;
                            parked = false;
                        }
                        "mid" => pc = Pc::Mid,
                        "pend" => {
                            pc = Pc::Armed;
                            if drv_last.starts_with("E:") {
                                dflip = true;
                            }
                            drv_last = "pend".into();
                        }
                        "park" => {
                            pc = Pc::Idle;
                            parked = true;
                        }
                        // `shutdown()` on a connection without an error
                        "ok" if *op == DOp::Shut => {}
                        x if x.starts_with("E:") => {
                            pc = Pc::Idle;
                            // a call that reports has met the error: the driver's last call did not
                            // answer `Pending`
                            if *op == DOp::Shut {
                                parked = false;
                            }
                            drv_last = x.to_string();
                            let e = x[2..].to_string();
                            if !errs.contains(&e) {
                                errs.push(e);
                            }
                        }
                        _ => bad = true,
                    }
                    // in mode `acc` the real control flow decides what a step is; it has to be
                    // the step the label names
                    if acc {
                        let ok = match op {
                            DOp::Poll => r == "poll",
                            DOp::Park => r == "park",
                            DOp::Shut => r == "ok" || r.starts_with("E:"),
                            DOp::Det(_) => r.starts_with("E:"),
                            DOp::Pce => r == "mid" || r == "pend" || r.starts_with("E:"),
                        };
                        if !ok {
                            bad = true;
                        }
                    }
                    format!("D.{}", r)
                }
            }
        };
        let woken_now = flag.woken.load(Ordering::SeqCst);
        if pc == Pc::Idle && smid.iter().all(|m| !m) && parked && !woken_now && shared.get_conn_error().is_some() {
            // every task is at a yield point, the connection has failed, the driver sleeps and
            // nothing will wake it
            lost = true;
        }
        let w = if woken_now { "!" } else { "" };
        trace.push(format!("{}{}", tok, w));
        if bad {
            break;
        }
    }
    let cell = shared.get_conn_error().map(|e| show_origin(&e)).unwrap_or_else(|| "-".into());
    let closes = {
        let g = ctl.m.lock().unwrap();
        if g.closes.is_empty() {
            "-".to_string()
        } else {
            g.closes.iter().map(|(c, t)| format!("{}.{}", c, t)).collect::<Vec<_>>().join(",")
        }
    };
    let woken = flag.woken.load(Ordering::SeqCst);
    ctl.drain();
    wait_done(n + 1);
    if bad {
        return format!("bad-flow | {}", trace.join(" "));
    }
    let quiescent = pc == Pc::Idle && smid.iter().all(|m| !m);
    let mut out = vec![
        format!("cell={}", cell),
        format!("drv={}", drv_last),
        format!("closes={}", closes),
        format!("woken {}", crate::util::b01(woken)),
        format!("parked {}", crate::util::b01(parked)),
        format!("quiet {}", crate::util::b01(quiescent)),
        format!("lost={}", crate::util::b01(lost)),
        format!("dflip={}", crate::util::b01(dflip)),
        format!("errs={}", if errs.is_empty() { "-".to_string() } else { errs.join(",") }),
    ];
    for (i, r) in srets.iter().enumerate() {
        out.push(format!("S{}={}", i + 1, if r.is_empty() { "-".to_string() } else { r.join(",") }));
    }
    out.push("|".into());
    out.extend(trace);
    out.join(" ")
}

/// `cell dg <first error | -> <transport error>`: the datagram handle of the sibling crate
/// (`h3_datagram::datagram_handler::DatagramSender`, a `ConnectionState` implementor bound to a request
/// stream id) on a real `server::Connection`: optionally a request handle has raised `first` before; the
/// transport then fails every call with `<transport error>`; `send_datagram` is called, then `accept()`
/// is polled once.  Output: `cell=<cell> dg=<what the datagram handle reports> drv=<what the driver reports>`.
fn run_dg(first: Option<Err>, q: Err) -> String {
    use h3_datagram::datagram_handler::HandleDatagramsExt;
    let net = Net::new(true);
    let mut conn = build_server(&net);
    if let Some(e) = &first {
        let mut h = Handle { shared: conn.inner.shared.clone() };
        let _ = raise(&mut h, e);
    }
    net.borrow_mut().conn_err = Some(quic_of(&q));
    let mut snd = conn.get_datagram_sender(h3::quic::StreamId::try_from(0u64).unwrap());
    let dg = match snd.send_datagram(Bytes::from_static(b"x")) {
        Ok(()) => "ok".to_string(),
        // the variant is `#[non_exhaustive]`: an application cannot take the `ConnectionError` out of it;
        // what it can see is the Debug / Display rendering
        Err(e) => {
            let d = format!("{:?}", e);
            let inner = d.strip_prefix("ConnectionError(").and_then(|r| r.strip_suffix(')')).unwrap_or("?");
            if inner == "Timeout" {
                "T".to_string()
            } else if let Some(r) = inner.strip_prefix("Remote(").and_then(|r| r.strip_suffix(')')) {
                if r == "Timeout" {
                    "Rt".to_string()
                } else if let Some(c) = r.strip_prefix("ApplicationClose(").and_then(|c| c.strip_suffix(')')).and_then(code_value) {
                    format!("Ra{}", c)
                } else if let Some(m) = r.strip_prefix("InternalError(\"").and_then(|m| m.strip_suffix("\")")) {
                    format!("Ri.{}", tag_of(m))
                } else if r.starts_with("Undefined(") {
                    let t = r.trim_start_matches("Undefined(Tagged(").trim_end_matches("))");
                    format!("Ru.{}", t)
                } else {
                    format!("R?{}", r.replace(' ', "_"))
                }
            } else if let Some(r) = inner.strip_prefix("Local { error: Application { code: ") {
                // `Local { error: Application { code: NAME, reason: "m1" } }`
                let code = r.split(',').next().and_then(code_value);
                let tag = tag_of(r.split("reason: \"").nth(1).and_then(|x| x.split('"').next()).unwrap_or("?"));
                match code {
                    Some(c) => format!("L{}.{}", c, tag),
                    None => "L?".to_string(),
                }
            } else {
                format!("?{}", d.replace(' ', "_"))
            }
        }
    };
    let cell = conn.inner.shared.get_conn_error().map(|e| show_origin(&e)).unwrap_or_else(|| "-".into());
    let drv = {
        let mut fut = Box::pin(conn.accept());
        match crate::sim::poll_once(&mut fut) {
            Poll::Pending => "pend".to_string(),
            Poll::Ready(Ok(_)) => "ok".to_string(),
            Poll::Ready(Err(e)) => show_cerr(&e),
        }
    };
    format!("cell={} dg={} drv={}", cell, dg, drv)
}

pub fn handle(w: &[&str]) -> String {
    if w.len() == 4 && w[0] == "cell" && w[1] == "dg" {
        let first = if w[2] == "-" { None } else { match parse_err(w[2]) { Some(e) => Some(e), None => return "bad-op".into() } };
        let Some(q) = parse_err(w[3]) else { return "bad-op".into() };
        if matches!(q, Err::Internal(..)) {
            return "bad-op".into();
        }
        return guarded(move || run_dg(first, q));
    }
    if w.len() < 3 || (w[0] != "cell" && w[0] != "cellmv") {
        return "bad-op".into();
    }
    let moving = w[0] == "cellmv";
    let mode = match w[1] {
        "pce" => Mode::Pce,
        "acc" => Mode::Acc,
        "clo" => Mode::Clo,
        "idl" => Mode::Idl,
        _ => return "bad-op".into(),
    };
    let Some(colon) = w.iter().position(|x| *x == ":") else { return "bad-op".into() };
    let mut specs = Vec::new();
    for (i, s) in w[2..colon].iter().enumerate() {
        let Some(r) = s.strip_prefix(&format!("S{}=", i + 1)) else { return "bad-op".into() };
        let errs: Option<Vec<Err>> = if r == "-" { Some(vec![]) } else { r.split(',').map(parse_err).collect() };
        let Some(errs) = errs else { return "bad-op".into() };
        specs.push(errs);
    }
    let labels: Option<Vec<Label>> = w[colon + 1..].iter().map(|s| parse_label(s)).collect();
    let Some(labels) = labels else { return "bad-op".into() };
    guarded(move || {
        MOVING.store(moving, Ordering::SeqCst);
        let out = run_case(mode, specs, labels);
        if moving {
            reduce_mv(&out)
        } else {
            out
        }
    })
}
