//! Engine `quinn` (C17): the real `h3_quinn` adapter over a real Quinn loopback connection.
//!
//! One case line = one scenario: `quinn <cfg> <op> <op> ...`.  The adapter side (A) holds the
//! `h3_quinn::{SendStream<Bytes>, RecvStream}` halves of one stream and is driven only through the
//! `h3::quic` traits; the peer (P) is raw Quinn.  Every case runs on a fresh single-threaded tokio
//! runtime with a global timeout.  One output token per op (see `tools/props/c17.py`).
//!
//! Second part (coverage-directed): streams opened THROUGH the adapter's `OpenStreams` objects
//! (`Connection` itself, `Connection::opener()`, `OpenStreams::clone()`) under stream limits, the
//! unsplit `BidiStream` (`split=0`, op `split`), the unframed write path `poll_send`, the accept
//! paths after the connection failed, `OpenStreams::close(code, reason)`, `is_0rtt`, the datagram
//! handlers of `h3_quinn::datagram`, and three special connection set-ups (`hs=`) that make real Quinn
//! raise `ConnectionClosed`, `Reset` and `ZeroRttRejected`.
use crate::util::*;
use bytes::{Buf, Bytes};
use h3::quic::SendStreamUnframed as _;
use h3_datagram::quic_traits::{DatagramConnectionExt, RecvDatagram as _, SendDatagram as _, SendDatagramErrorIncoming};
use h3::proto::frame::Frame;
use h3::proto::stream::StreamType;
use h3::proto::varint::VarInt as H3VarInt;
use h3::quic::{
    BidiStream, ConnectionErrorIncoming, RecvStream as _, SendStream as _,
    StreamErrorIncoming, WriteBuf,
};
use quinn::crypto::rustls::{QuicClientConfig, QuicServerConfig};
use quinn::{TransportConfig, VarInt};
use rustls::pki_types::{CertificateDer, PrivateKeyDer};
use std::future::poll_fn;
use std::net::SocketAddr;
use std::panic::{catch_unwind, AssertUnwindSafe};
use std::sync::{Arc, OnceLock};
use std::task::Poll;
use std::time::Duration;
use tokio::sync::{mpsc, oneshot};

type ASend = h3_quinn::SendStream<Bytes>;
type ARecv = h3_quinn::RecvStream;
type ABidi = h3_quinn::BidiStream<Bytes>;

const HASH_P: u64 = 4294967291;
const HASH_M: u64 = 16777619;

#[derive(Clone, Copy)]
struct Hash {
    len: u64,
    h: u64,
}

impl Hash {
    fn new() -> Self {
        Hash { len: 0, h: 0 }
    }
    fn feed(&mut self, bs: &[u8]) {
        for b in bs {
            self.h = (self.h * HASH_M + *b as u64 + 1) % HASH_P;
        }
        self.len += bs.len() as u64;
    }
    fn show(&self) -> String {
        format!("{}:{:08x}", self.len, self.h)
    }
}

/// payload byte `i` of a buffer derived from `seed`.
fn pbyte(seed: u64, i: u64) -> u8 {
    ((seed + i * 131 + (i / 251) * 17) % 256) as u8
}

fn payload(n: usize, seed: u64) -> Bytes {
    Bytes::from((0..n as u64).map(|i| pbyte(seed, i)).collect::<Vec<u8>>())
}

fn certs() -> &'static (CertificateDer<'static>, PrivateKeyDer<'static>) {
    static C: OnceLock<(CertificateDer<'static>, PrivateKeyDer<'static>)> = OnceLock::new();
    C.get_or_init(|| {
        let cert = rcgen::generate_simple_self_signed(vec!["localhost".into()]).unwrap();
        (cert.cert.into(), PrivateKeyDer::Pkcs8(cert.signing_key.serialize_der().into()))
    })
}

#[derive(Clone, Copy, PartialEq)]
enum Kind {
    Bi,
    Uni,
}

struct Cfg {
    sw: u64,        // stream receive window (both endpoints)
    cw: u64,        // connection receive window (both endpoints)
    tw: u64,        // send window (both endpoints)
    client: bool,   // adapter side is the QUIC client
    kind: Kind,
    open: bool,     // adapter side opens the stream (else the raw peer opens it)
    skip: u64,      // streams of the same kind opened (and left unused) before the one under test
    idle: u64,      // max_idle_timeout in ms, 0 = none
    split: bool,    // kind=bi: split the stream under test at once (default) or keep the unsplit BidiStream
    mb: Option<u64>, // the PEER's max_concurrent_bidi_streams = how many bidi streams the adapter side may open
    mu: Option<u64>, // the PEER's max_concurrent_uni_streams
    dga: bool,      // datagrams enabled (receive buffer) on the adapter side
    dgp: bool,      // ... on the peer side
    hs: Hs,         // special connection set-up
    /// `dgmax=<n>`: the line says what Quinn's `max_datagram_size()` is on the adapter side (the model's environment
    /// parameter; op `dgmax` prints the real value).  To make that a constant of the case, MTU discovery is switched
    /// off on both sides (the path MTU stays at `mtu=<n>`, default Quinn's initial 1200).
    dgmax: Option<u64>,
    mtu: Option<u16>,
}

#[derive(Clone, Copy, PartialEq)]
enum Hs {
    Normal,
    /// adapter = server, connection taken with `into_0rtt()` (0.5-RTT) before the handshake completes;
    /// the client does not trust the certificate and aborts: Quinn raises `ConnectionClosed`
    Rej,
    /// adapter = client; the peer endpoint lives on its own runtime; op `pkill` destroys it without a
    /// close and binds a fresh endpoint with the same reset key to the same port: `Reset`
    Kill,
    /// adapter = client, second connection taken with `into_0rtt()`; `Z0`: the server remembers the
    /// session (0-RTT accepted), `Z0R`: it does not (`ZeroRttRejected`)
    Z0,
    Z0R,
    /// as `Z0R`, but the second server presents a certificate the client does not trust: the adapter
    /// side's own Quinn aborts the handshake, `TransportError`
    Z0T,
    /// as `Z0R`, but the second server speaks no QUIC version the client offers: `VersionMismatch`
    Z0V,
}

fn parse_cfg(s: &str) -> Option<Cfg> {
    let mut c = Cfg {
        sw: 0, cw: 0, tw: 0, client: true, kind: Kind::Bi, open: true, skip: 0, idle: 0,
        split: true, mb: None, mu: None, dga: true, dgp: true, hs: Hs::Normal,
        dgmax: None, mtu: None,
    };
    for kv in s.split(',') {
        let (k, v) = kv.split_once('=')?;
        match k {
            "sw" => c.sw = v.parse().ok()?,
            "cw" => c.cw = v.parse().ok()?,
            "tw" => c.tw = v.parse().ok()?,
            "role" => c.client = match v { "c" => true, "s" => false, _ => return None },
            "kind" => c.kind = match v { "bi" => Kind::Bi, "uni" => Kind::Uni, _ => return None },
            "dir" => c.open = match v { "open" => true, "acc" => false, _ => return None },
            "skip" => c.skip = v.parse().ok()?,
            "idle" => c.idle = v.parse().ok()?,
            "split" => c.split = match v { "1" => true, "0" => false, _ => return None },
            "mb" => c.mb = Some(v.parse().ok()?),
            "mu" => c.mu = Some(v.parse().ok()?),
            "dga" => c.dga = match v { "1" => true, "0" => false, _ => return None },
            "dgp" => c.dgp = match v { "1" => true, "0" => false, _ => return None },
            "dgmax" => c.dgmax = Some(v.parse().ok()?),
            "mtu" => c.mtu = Some(v.parse::<u16>().ok().filter(|m| (1200..=1452).contains(m))?),
            "hs" => c.hs = match v {
                "rej" => Hs::Rej, "kill" => Hs::Kill, "z0" => Hs::Z0, "z0r" => Hs::Z0R, "z0t" => Hs::Z0T, "z0v" => Hs::Z0V,
                _ => return None,
            },
            _ => return None,
        }
    }
    if c.skip > 64 {
        return None;
    }
    if c.mtu.is_some() && c.dgmax.is_none() {
        return None;
    }
    if !c.split && c.kind != Kind::Bi {
        return None;
    }
    if c.mb.is_some_and(|x| x > 1000) || c.mu.is_some_and(|x| x > 1000) {
        return None;
    }
    // the special set-ups fix who is the client
    match c.hs {
        Hs::Normal => {}
        Hs::Rej => if c.client { return None },
        Hs::Kill => if !c.client { return None },
        // the stream under test must be opened by the adapter side before the handshake is over
        Hs::Z0 | Hs::Z0R | Hs::Z0T | Hs::Z0V => if !c.client || !c.open { return None },
    }
    Some(c)
}

/// `peer`: the configuration of the raw Quinn side (stream limits granted to the adapter side).
fn transport(c: &Cfg, peer: bool) -> Arc<TransportConfig> {
    let mut t = TransportConfig::default();
    if peer {
        if let Some(n) = c.mb {
            t.max_concurrent_bidi_streams(VarInt::from_u64(n).unwrap());
        }
        if let Some(n) = c.mu {
            t.max_concurrent_uni_streams(VarInt::from_u64(n).unwrap());
        }
    }
    if !(if peer { c.dgp } else { c.dga }) {
        t.datagram_receive_buffer_size(None);
    }
    if c.sw > 0 {
        t.stream_receive_window(VarInt::from_u64(c.sw).unwrap());
    }
    if c.cw > 0 {
        t.receive_window(VarInt::from_u64(c.cw).unwrap());
    }
    if c.tw > 0 {
        t.send_window(c.tw);
    }
    t.initial_rtt(Duration::from_millis(10));
    if c.hs == Hs::Kill || c.dgmax.is_some() {
        // no packet of Quinn's own making while the peer is being replaced / a constant maximal datagram size
        t.mtu_discovery_config(None);
    }
    if let Some(m) = c.mtu {
        t.initial_mtu(m);
    }
    // ask the peer to acknowledge every packet at once: with a tiny send window every byte waits for
    // an ACK, and Quinn's default 25 ms ACK delay would make such cases needlessly slow
    let mut af = quinn::AckFrequencyConfig::default();
    af.ack_eliciting_threshold(VarInt::from_u32(0)).max_ack_delay(Some(Duration::from_millis(1)));
    t.ack_frequency_config(Some(af));
    if c.idle > 0 {
        t.max_idle_timeout(Some(Duration::from_millis(c.idle).try_into().unwrap()));
    } else {
        t.max_idle_timeout(None);
    }
    Arc::new(t)
}

/// A second certificate: `hs=rej` the client trusts only this one (the server presents the first);
/// `hs=z0t` the second server presents this one (the client trusts only the first).
fn certs2() -> &'static (CertificateDer<'static>, PrivateKeyDer<'static>) {
    static C: OnceLock<(CertificateDer<'static>, PrivateKeyDer<'static>)> = OnceLock::new();
    C.get_or_init(|| {
        let cert = rcgen::generate_simple_self_signed(vec!["localhost".into()]).unwrap();
        (cert.cert.into(), PrivateKeyDer::Pkcs8(cert.signing_key.serialize_der().into()))
    })
}

fn server_crypto(early: bool, second_cert: bool) -> Arc<QuicServerConfig> {
    let (cert, key) = if second_cert { certs2() } else { certs() };
    let prov = Arc::new(rustls::crypto::ring::default_provider());
    let mut crypto = rustls::ServerConfig::builder_with_provider(prov)
        .with_protocol_versions(&[&rustls::version::TLS13])
        .unwrap()
        .with_no_client_auth()
        .with_single_cert(vec![cert.clone()], key.clone_key())
        .unwrap();
    crypto.alpn_protocols = vec![b"h3".to_vec()];
    if early {
        crypto.max_early_data_size = u32::MAX;
    }
    Arc::new(QuicServerConfig::try_from(crypto).unwrap())
}

fn client_crypto(trust_server: bool, early: bool) -> Arc<QuicClientConfig> {
    let (cert, _) = certs();
    let prov = Arc::new(rustls::crypto::ring::default_provider());
    let mut roots = rustls::RootCertStore::empty();
    roots.add(if trust_server { cert.clone() } else { certs2().0.clone() }).unwrap();
    let mut ccrypto = rustls::ClientConfig::builder_with_provider(prov)
        .with_protocol_versions(&[&rustls::version::TLS13])
        .unwrap()
        .with_root_certificates(roots)
        .with_no_client_auth();
    ccrypto.alpn_protocols = vec![b"h3".to_vec()];
    if early {
        ccrypto.enable_early_data = true;
    }
    Arc::new(QuicClientConfig::try_from(ccrypto).unwrap())
}

/// Reset key and connection-id generator shared by the endpoint that is killed (`hs=kill`) and the
/// one bound to its port afterwards, so that the latter answers with a stateless reset the adapter
/// side's Quinn recognises.  (A keyed checksum, not a MAC: nobody attacks this loopback test.)
struct TestHmac;
impl quinn::crypto::HmacKey for TestHmac {
    fn sign(&self, data: &[u8], out: &mut [u8]) {
        let mut h: u64 = 0x9e37_79b9_7f4a_7c15;
        for (i, o) in out.iter_mut().enumerate() {
            for b in data {
                h = (h ^ (*b as u64 + i as u64)).wrapping_mul(0x100_0000_01b3).rotate_left(9);
            }
            *o = (h >> 24) as u8;
        }
    }
    fn signature_len(&self) -> usize {
        32
    }
    fn verify(&self, data: &[u8], signature: &[u8]) -> Result<(), quinn::crypto::CryptoError> {
        let mut x = vec![0u8; 32];
        self.sign(data, &mut x);
        if x[..] == *signature { Ok(()) } else { Err(quinn::crypto::CryptoError) }
    }
}
struct TestCids;
impl quinn::ConnectionIdGenerator for TestCids {
    fn generate_cid(&mut self) -> quinn::ConnectionId {
        let mut b = [0u8; 8];
        for x in b.iter_mut() {
            *x = fastrand::u8(..);
        }
        quinn::ConnectionId::new(&b)
    }
    fn cid_len(&self) -> usize {
        8
    }
    fn cid_lifetime(&self) -> Option<Duration> {
        None
    }
}
fn kill_endpoint_config() -> quinn::EndpointConfig {
    let mut ec = quinn::EndpointConfig::new(Arc::new(TestHmac));
    ec.cid_generator(|| Box::new(TestCids));
    ec
}

/// `hs=kill`: how to destroy the peer's endpoint
struct Killer {
    kill: oneshot::Sender<()>,
    dead: oneshot::Receiver<()>,
    addr: SocketAddr,
}

struct Link {
    eps: Vec<quinn::Endpoint>,
    aconn: quinn::Connection,
    /// the raw peer's connection; `hs=rej` has none, the 0-RTT set-ups get it once the handshake is over
    pconn: Option<quinn::Connection>,
    pconn_later: Option<oneshot::Receiver<quinn::Connection>>,
    accepted: Option<quinn::ZeroRttAccepted>,
    killer: Option<Killer>,
}

async fn connect(c: &Cfg) -> Option<Link> {
    let any: SocketAddr = "127.0.0.1:0".parse().unwrap();
    let (ta, tp) = (transport(c, false), transport(c, true));
    let (ts, tc) = if c.client { (tp, ta) } else { (ta, tp) };
    let early = matches!(c.hs, Hs::Z0 | Hs::Z0R | Hs::Z0T | Hs::Z0V);
    let mut sc = quinn::ServerConfig::with_crypto(server_crypto(early, false));
    sc.transport = ts.clone();
    let mut cc = quinn::ClientConfig::new(client_crypto(c.hs != Hs::Rej, early));
    cc.transport_config(tc);
    let mut client = quinn::Endpoint::client(any).unwrap();
    client.set_default_client_config(cc);
    match c.hs {
        Hs::Normal => {
            let server = quinn::Endpoint::server(sc, any).unwrap();
            let addr = server.local_addr().unwrap();
            let connecting = client.connect(addr, "localhost").unwrap();
            let (cconn, sconn) = tokio::join!(async { connecting.await.unwrap() }, async {
                server.accept().await.unwrap().await.unwrap()
            });
            let (aconn, pconn) = if c.client { (cconn, sconn) } else { (sconn, cconn) };
            Some(Link { eps: vec![client, server], aconn, pconn: Some(pconn), pconn_later: None, accepted: None, killer: None })
        }
        Hs::Rej => {
            let server = quinn::Endpoint::server(sc, any).unwrap();
            let addr = server.local_addr().unwrap();
            let connecting = client.connect(addr, "localhost").unwrap();
            // the client will refuse the certificate; keep its endpoint alive meanwhile
            tokio::spawn(async move {
                let _ = connecting.await;
                std::future::pending::<()>().await;
            });
            let incoming = tokio::time::timeout(OP_TIMEOUT, server.accept()).await.ok()??;
            let connecting = incoming.accept().ok()?;
            let (aconn, _) = connecting.into_0rtt().ok()?;
            Some(Link { eps: vec![client, server], aconn, pconn: None, pconn_later: None, accepted: None, killer: None })
        }
        Hs::Kill => {
            // the peer's endpoint is driven by its own runtime on its own thread, so that it can be
            // destroyed without a single further packet being sent
            let (addr_tx, addr_rx) = oneshot::channel();
            let (conn_tx, conn_rx) = oneshot::channel();
            let (kill_tx, kill_rx) = oneshot::channel::<()>();
            let (dead_tx, dead_rx) = oneshot::channel::<()>();
            std::thread::spawn(move || {
                let rt2 = tokio::runtime::Builder::new_current_thread().enable_all().build().unwrap();
                rt2.block_on(async move {
                    let sock = std::net::UdpSocket::bind(any).unwrap();
                    let ep = quinn::Endpoint::new(kill_endpoint_config(), Some(sc), sock, Arc::new(quinn::TokioRuntime)).unwrap();
                    let _ = addr_tx.send(ep.local_addr().unwrap());
                    if let Some(inc) = ep.accept().await {
                        if let Ok(conn) = inc.await {
                            let _ = conn_tx.send(conn);
                        }
                    }
                    let _ = kill_rx.await;
                });
                drop(rt2);
                let _ = dead_tx.send(());
            });
            let addr = addr_rx.await.ok()?;
            let connecting = client.connect(addr, "localhost").unwrap();
            let cconn = tokio::time::timeout(OP_TIMEOUT, connecting).await.ok()?.ok()?;
            let sconn = tokio::time::timeout(OP_TIMEOUT, conn_rx).await.ok()?.ok()?;
            Some(Link {
                eps: vec![client],
                aconn: cconn,
                pconn: Some(sconn),
                pconn_later: None,
                accepted: None,
                killer: Some(Killer { kill: kill_tx, dead: dead_rx, addr }),
            })
        }
        Hs::Z0 | Hs::Z0R | Hs::Z0T | Hs::Z0V => {
            // first connection: the client learns a session ticket and the server's transport parameters
            let server = quinn::Endpoint::server(sc, any).unwrap();
            let addr = server.local_addr().unwrap();
            let connecting = client.connect(addr, "localhost").unwrap();
            let (c1, s1) = tokio::join!(async { connecting.await.unwrap() }, async {
                server.accept().await.unwrap().await.unwrap()
            });
            // one round trip after the handshake, so that the tickets (sent before this stream) are in
            let mut hello = s1.open_uni().await.ok()?;
            hello.write_all(&[1]).await.ok()?;
            let _ = hello.finish();
            let mut r = tokio::time::timeout(OP_TIMEOUT, c1.accept_uni()).await.ok()?.ok()?;
            let _ = tokio::time::timeout(OP_TIMEOUT, r.read_to_end(16)).await.ok()?;
            c1.close(VarInt::from_u32(0), b"");
            let _ = tokio::time::timeout(OP_TIMEOUT, s1.closed()).await;
            drop((c1, s1));
            // second connection, to the same server (it remembers the session) or to another one (it does not)
            let mut eps = vec![server.clone()];
            let (server2, addr2) = if c.hs == Hs::Z0 {
                (server, addr)
            } else {
                let mut sc2 = quinn::ServerConfig::with_crypto(server_crypto(true, c.hs == Hs::Z0T));
                sc2.transport = ts;
                let mut ec = quinn::EndpointConfig::default();
                if c.hs == Hs::Z0V {
                    ec.supported_versions(vec![0x0a1a_2a3a]);
                }
                let sock = std::net::UdpSocket::bind(any).ok()?;
                let s2 = quinn::Endpoint::new(ec, Some(sc2), sock, Arc::new(quinn::TokioRuntime)).ok()?;
                let a2 = s2.local_addr().unwrap();
                eps.push(s2.clone());
                (s2, a2)
            };
            let connecting = client.connect(addr2, "localhost").unwrap();
            let (aconn, accepted) = connecting.into_0rtt().ok()?;
            let (ptx, prx) = oneshot::channel();
            tokio::spawn(async move {
                if let Some(inc) = server2.accept().await {
                    if let Ok(conn) = inc.await {
                        let _ = ptx.send(conn);
                    }
                }
                std::future::pending::<()>().await;
            });
            eps.push(client);
            // a handshake that fails leaves no peer connection to wait for
            let later = if matches!(c.hs, Hs::Z0T | Hs::Z0V) { None } else { Some(prx) };
            Some(Link { eps, aconn, pconn: None, pconn_later: later, accepted: Some(accepted), killer: None })
        }
    }
}

// ---------------------------------------------------------------- canonical error names

fn conn_err(e: &ConnectionErrorIncoming) -> String {
    match e {
        ConnectionErrorIncoming::ApplicationClose { error_code } => format!("c.appclose:{}", error_code),
        ConnectionErrorIncoming::Timeout => "c.timeout".into(),
        ConnectionErrorIncoming::InternalError(_) => "c.internal".into(),
        ConnectionErrorIncoming::Undefined(inner) => {
            let s = inner.to_string();
            let n = if s == "closed" {
                "locally-closed"
            } else if s.starts_with("aborted by peer") {
                "conn-closed"
            } else if s == "reset by peer" {
                "reset"
            } else if s.starts_with("peer doesn't implement") {
                "version"
            } else if s == "CIDs exhausted" {
                "cids"
            } else {
                "transport"
            };
            format!("c.undefined:{}", n)
        }
    }
}

fn stream_err(e: &StreamErrorIncoming) -> String {
    match e {
        StreamErrorIncoming::ConnectionErrorIncoming { connection_error } => conn_err(connection_error),
        StreamErrorIncoming::StreamTerminated { error_code } => format!("s.terminated:{}", error_code),
        StreamErrorIncoming::Unknown(inner) => {
            let s = inner.to_string();
            let n = if s == "closed stream" {
                "closed-stream"
            } else if s == "0-RTT rejected" {
                "zero-rtt"
            } else {
                "other"
            };
            format!("s.unknown:{}", n)
        }
    }
}

fn raw_conn_err(e: &quinn::ConnectionError) -> String {
    match e {
        quinn::ConnectionError::ApplicationClosed(a) => format!("app:{}", a.error_code.into_inner()),
        quinn::ConnectionError::ConnectionClosed(_) => "conn-closed".into(),
        quinn::ConnectionError::TimedOut => "timed-out".into(),
        quinn::ConnectionError::LocallyClosed => "locally-closed".into(),
        quinn::ConnectionError::Reset => "reset".into(),
        _ => "other".into(),
    }
}

// ---------------------------------------------------------------- the raw Quinn peer

enum WCmd {
    Write(Bytes),
    Fin,
    Reset(u64),
    Stopped(oneshot::Sender<String>),
}

enum RCmd {
    /// read to the end in the background; the result goes to the channel
    ReadAll(oneshot::Sender<String>),
    Stop(u64),
}

/// Writer task of the peer: commands are executed in order; `urgent` resets immediately, even in the
/// middle of a blocked write.
async fn peer_writer(
    mut send: quinn::SendStream,
    mut rx: mpsc::UnboundedReceiver<WCmd>,
    mut urgent: mpsc::UnboundedReceiver<u64>,
) {
    loop {
        tokio::select! {
            biased;
            Some(code) = urgent.recv() => { let _ = send.reset(VarInt::from_u64(code).unwrap()); }
            cmd = rx.recv() => {
                let Some(cmd) = cmd else { break };
                match cmd {
                    WCmd::Write(b) => {
                        let mut off = 0;
                        while off < b.len() {
                            tokio::select! {
                                biased;
                                Some(code) = urgent.recv() => {
                                    let _ = send.reset(VarInt::from_u64(code).unwrap());
                                    off = b.len();
                                }
                                r = send.write(&b[off..]) => match r {
                                    Ok(k) => off += k,
                                    Err(_) => off = b.len(),
                                }
                            }
                        }
                    }
                    WCmd::Fin => { let _ = send.finish(); }
                    WCmd::Reset(code) => { let _ = send.reset(VarInt::from_u64(code).unwrap()); }
                    WCmd::Stopped(tx) => {
                        let r = match tokio::time::timeout(STOPPED_TIMEOUT, send.stopped()).await {
                            Err(_) => "timeout".to_string(),
                            Ok(Ok(Some(c))) => format!("{}", c.into_inner()),
                            Ok(Ok(None)) => "none".into(),
                            Ok(Err(quinn::StoppedError::ConnectionLost(e))) => format!("lost:{}", raw_conn_err(&e)),
                            Ok(Err(_)) => "other".into(),
                        };
                        let _ = tx.send(r);
                    }
                }
            }
        }
    }
    // keep the stream alive until the scenario ends (dropping it would finish it implicitly)
    std::future::pending::<()>().await;
}

async fn peer_reader(mut recv: quinn::RecvStream, mut rx: mpsc::UnboundedReceiver<RCmd>) {
    let mut h = Hash::new();
    let mut out: Option<oneshot::Sender<String>> = None;
    let mut reading = false;
    loop {
        tokio::select! {
            biased;
            cmd = rx.recv() => match cmd {
                None => break,
                Some(RCmd::ReadAll(tx)) => { out = Some(tx); reading = true; }
                Some(RCmd::Stop(code)) => {
                    let _ = recv.stop(VarInt::from_u64(code).unwrap());
                    if let Some(tx) = out.take() { let _ = tx.send("stopped".to_string()); }
                    reading = false;
                }
            },
            r = recv.read_chunk(usize::MAX, true), if reading => {
                let done = match r {
                    Ok(Some(c)) => { h.feed(&c.bytes); progressed(); None }
                    Ok(None) => Some(format!("{}:fin", h.show())),
                    Err(quinn::ReadError::Reset(c)) => Some(format!("reset:{}", c.into_inner())),
                    Err(quinn::ReadError::ConnectionLost(e)) => Some(format!("lost:{}", raw_conn_err(&e))),
                    Err(_) => Some("other".into()),
                };
                if let Some(d) = done {
                    if let Some(tx) = out.take() { let _ = tx.send(d); }
                    reading = false;
                }
            }
        }
    }
    std::future::pending::<()>().await;
}

struct Peer {
    conn: Option<quinn::Connection>,
    w: mpsc::UnboundedSender<WCmd>,
    urgent: mpsc::UnboundedSender<u64>,
    r: mpsc::UnboundedSender<RCmd>,
    result: Option<oneshot::Receiver<String>>,
}

// ---------------------------------------------------------------- frames

/// `D` DATA, `H` HEADERS, `G` GOAWAY(n) (header only), `U` uni stream type 0x54 + DATA.
fn write_buf(f: &str, n: usize, seed: u64) -> Option<WriteBuf<Bytes>> {
    Some(match f {
        "D" => WriteBuf::from(Frame::Data(payload(n, seed))),
        "H" => WriteBuf::from(Frame::<Bytes>::Headers(payload(n, seed))),
        "G" => WriteBuf::from(Frame::<Bytes>::Goaway(H3VarInt::from_u64(n as u64).ok()?)),
        "U" => WriteBuf::from((StreamType::WEBTRANSPORT_UNI, Frame::Data(payload(n, seed)))),
        _ => return None,
    })
}

fn poll_res(r: Poll<Result<(), StreamErrorIncoming>>) -> String {
    match r {
        Poll::Pending => "pending".into(),
        Poll::Ready(Ok(())) => "ok".into(),
        Poll::Ready(Err(e)) => format!("err:{}", stream_err(&e)),
    }
}

fn data_res(r: Poll<Result<Option<Bytes>, StreamErrorIncoming>>, h: &mut Hash) -> String {
    match r {
        Poll::Pending => "pending".into(),
        Poll::Ready(Ok(Some(b))) => {
            h.feed(&b);
            "data".into()
        }
        Poll::Ready(Ok(None)) => "end".into(),
        Poll::Ready(Err(e)) => format!("err:{}", stream_err(&e)),
    }
}

const OP_TIMEOUT: Duration = Duration::from_secs(5);
/// ... but an operation that MOVES BYTES is given up only when nothing has moved for `OP_TIMEOUT` (or after `OP_MAX`
/// in all): 64 KiB through a one-byte window are 65 536 round trips, two seconds on an idle machine and more than
/// five on one that other builds keep busy.  An operation that is stuck (the symptom of a broken adapter) still
/// ends after `OP_TIMEOUT`.
const OP_MAX: Duration = Duration::from_secs(60);
static PROGRESS: std::sync::atomic::AtomicU64 = std::sync::atomic::AtomicU64::new(0);

/// bytes have moved (the raw peer read a chunk / the adapter side read a chunk / Quinn accepted bytes)
fn progressed() {
    PROGRESS.fetch_add(1, std::sync::atomic::Ordering::Relaxed);
}

/// `tokio::time::timeout(OP_TIMEOUT, f)` whose clock starts again while bytes are moving
async fn moving<F: std::future::Future>(f: F) -> Result<F::Output, ()> {
    tokio::pin!(f);
    let t0 = tokio::time::Instant::now();
    loop {
        let seen = PROGRESS.load(std::sync::atomic::Ordering::Relaxed);
        match tokio::time::timeout(OP_TIMEOUT, &mut f).await {
            Ok(x) => return Ok(x),
            Err(_) => {
                if PROGRESS.load(std::sync::atomic::Ordering::Relaxed) == seen || t0.elapsed() > OP_MAX {
                    return Err(());
                }
            }
        }
    }
}
/// How long the raw peer's writer waits to be told to stop (`pstopped`).  A STOP_SENDING that was sent crosses the
/// loopback in well under a millisecond; one that was not sent never comes, and the specification now calls that a
/// failure (reading R-17), so a broken adapter makes MANY cases wait this long: keep it well below `OP_TIMEOUT`.
/// (A stall of the machine longer than this gives `pstopped=timeout`, and the case is run a second time.)
const STOPPED_TIMEOUT: Duration = Duration::from_secs(2);

type PTasks = Arc<std::sync::Mutex<Vec<tokio::task::AbortHandle>>>;

/// Spawn a task of the raw peer; `pkill` aborts them all (they hold handles of the peer's connection).
fn spawn_peer<F: std::future::Future<Output = ()> + 'static + Send>(pt: &PTasks, f: F) {
    let h = tokio::spawn(f);
    pt.lock().unwrap().push(h.abort_handle());
}

enum Opened {
    Bi(ABidi),
    Uni(ASend),
    /// a stream opened, written and finished by `sdm` (its type parameter is not `Bytes`): keeps the indices aligned
    Done,
}

fn ids_of_bidi(b: &ABidi) -> String {
    let (s, r) = (b.send_id().into_inner(), b.recv_id().into_inner());
    if s == r { format!("{}", s) } else { format!("{}/{}", s, r) }
}

fn open_res<T>(tag: &str, r: Poll<Result<T, StreamErrorIncoming>>, id: impl Fn(&T) -> String) -> (String, Option<T>) {
    match r {
        Poll::Pending => (format!("{}=pending", tag), None),
        Poll::Ready(Err(e)) => (format!("{}=err:{}", tag, stream_err(&e)), None),
        Poll::Ready(Ok(x)) => (format!("{}={}", tag, id(&x)), Some(x)),
    }
}

fn dgram_err(e: &SendDatagramErrorIncoming) -> String {
    match e {
        SendDatagramErrorIncoming::NotAvailable => "not-available".into(),
        SendDatagramErrorIncoming::TooLarge => "too-large".into(),
        SendDatagramErrorIncoming::ConnectionError(c) => format!("err:{}", conn_err(c)),
    }
}

async fn scenario(cfg: Cfg, ops: Vec<String>) -> String {
    let Some(link) = connect(&cfg).await else { return "setup-failed".into() };
    let Link { mut eps, aconn, pconn, pconn_later, accepted, mut killer } = link;
    // a second handle of the adapter side's Quinn connection, for `dgmax` only (weak would be nicer: it is dropped with `a`)
    let araw = aconn.clone();
    let mut a = h3_quinn::Connection::new(aconn);
    let mut out: Vec<String> = Vec::new();
    let ptasks: PTasks = Arc::new(std::sync::Mutex::new(Vec::new()));

    // ---- open the stream under test
    let (wtx, wrx) = mpsc::unbounded_channel();
    let (utx, urx) = mpsc::unbounded_channel();
    let (rtx, rrx) = mpsc::unbounded_channel();
    let mut abidi: Option<ABidi> = None;
    let mut asend: Option<ASend> = None;
    let mut arecv: Option<ARecv> = None;
    let mut skipped: Vec<Box<dyn std::any::Any>> = Vec::new();
    // resolves when the peer has accepted the stream under test (the adapter side opened it)
    let mut primary_ready: Option<oneshot::Receiver<()>> = None;
    let mut zacc: Option<bool> = None;
    let has_stream = cfg.hs != Hs::Rej;
    let mut pconn = pconn;
    if has_stream && cfg.open {
        // No `.await` below yields before the streams exist: with a 0-RTT connection they are 0-RTT streams.
        let first = tokio::time::timeout(OP_TIMEOUT, async {
            for _ in 0..cfg.skip {
                match cfg.kind {
                    Kind::Bi => skipped.push(Box::new(
                        poll_fn(|cx| h3::quic::OpenStreams::<Bytes>::poll_open_bidi(&mut a, cx)).await.ok()?,
                    )),
                    Kind::Uni => skipped.push(Box::new(
                        poll_fn(|cx| h3::quic::OpenStreams::<Bytes>::poll_open_send(&mut a, cx)).await.ok()?,
                    )),
                }
            }
            match cfg.kind {
                Kind::Bi => {
                    let bi = poll_fn(|cx| h3::quic::OpenStreams::<Bytes>::poll_open_bidi(&mut a, cx)).await.ok()?;
                    if cfg.split {
                        let (s, r) = bi.split();
                        asend = Some(s);
                        arecv = Some(r);
                    } else {
                        abidi = Some(bi);
                    }
                }
                Kind::Uni => {
                    asend = Some(poll_fn(|cx| h3::quic::OpenStreams::<Bytes>::poll_open_send(&mut a, cx)).await.ok()?);
                }
            }
            Some(())
        })
        .await;
        if first != Ok(Some(())) {
            return "setup-failed".into();
        }
        if let Some(acc) = accepted {
            match tokio::time::timeout(OP_TIMEOUT, acc).await {
                Ok(b) => zacc = Some(b),
                Err(_) => return "setup-failed".into(),
            }
        }
        if let Some(rx) = pconn_later {
            match tokio::time::timeout(OP_TIMEOUT, rx).await {
                Ok(Ok(c)) => pconn = Some(c),
                _ => return "setup-failed".into(),
            }
        }
        let skip = cfg.skip;
        let (ptx, prx) = oneshot::channel();
        primary_ready = Some(prx);
        let pt = ptasks.clone();
        match (pconn.clone(), cfg.kind) {
            (None, _) => drop((wrx, urx, rrx, ptx)),
            (Some(pc), Kind::Bi) => {
                // the peer sees the stream once the adapter side has written to it
                spawn_peer(&ptasks, async move {
                    // streams with lower ids that were never used are accepted first; park them
                    let mut parked = Vec::new();
                    for _ in 0..skip {
                        let Ok(x) = pc.accept_bi().await else { return };
                        parked.push(x);
                    }
                    let Ok((s, r)) = pc.accept_bi().await else { return };
                    spawn_peer(&pt, peer_writer(s, wrx, urx));
                    spawn_peer(&pt, peer_reader(r, rrx));
                    let _ = ptx.send(());
                    std::future::pending::<()>().await;
                    drop(parked);
                });
            }
            (Some(pc), Kind::Uni) => {
                drop((wrx, urx));
                spawn_peer(&ptasks, async move {
                    let mut parked = Vec::new();
                    for _ in 0..skip {
                        let Ok(x) = pc.accept_uni().await else { return };
                        parked.push(x);
                    }
                    let Ok(r) = pc.accept_uni().await else { return };
                    spawn_peer(&pt, peer_reader(r, rrx));
                    let _ = ptx.send(());
                    std::future::pending::<()>().await;
                    drop(parked);
                });
            }
        }
    } else if has_stream {
        // the raw peer opens; it announces the stream with one hello byte which is read away here
        let pc = pconn.clone().unwrap();
        let mut r0: Option<ARecv> = None;
        let setup = tokio::time::timeout(OP_TIMEOUT, async {
            match cfg.kind {
                Kind::Bi => {
                    for _ in 0..cfg.skip {
                        skipped.push(Box::new(pc.open_bi().await.ok()?));
                    }
                    let (mut s, r) = pc.open_bi().await.ok()?;
                    s.write_all(&[0xaa]).await.ok()?;
                    spawn_peer(&ptasks, peer_writer(s, wrx, urx));
                    spawn_peer(&ptasks, peer_reader(r, rrx));
                    for _ in 0..cfg.skip {
                        skipped.push(Box::new(
                            poll_fn(|cx| h3::quic::Connection::<Bytes>::poll_accept_bidi(&mut a, cx)).await.ok()?,
                        ));
                    }
                    let bi = poll_fn(|cx| h3::quic::Connection::<Bytes>::poll_accept_bidi(&mut a, cx)).await.ok()?;
                    if cfg.split {
                        let (s, r) = bi.split();
                        asend = Some(s);
                        r0 = Some(r);
                    } else {
                        abidi = Some(bi);
                    }
                }
                Kind::Uni => {
                    for _ in 0..cfg.skip {
                        skipped.push(Box::new(pc.open_uni().await.ok()?));
                    }
                    let mut s = pc.open_uni().await.ok()?;
                    s.write_all(&[0xaa]).await.ok()?;
                    spawn_peer(&ptasks, peer_writer(s, wrx, urx));
                    drop(rrx);
                    for _ in 0..cfg.skip {
                        skipped.push(Box::new(
                            poll_fn(|cx| h3::quic::Connection::<Bytes>::poll_accept_recv(&mut a, cx)).await.ok()?,
                        ));
                    }
                    r0 = Some(poll_fn(|cx| h3::quic::Connection::<Bytes>::poll_accept_recv(&mut a, cx)).await.ok()?);
                }
            }
            // read the hello byte away (exactly one byte was sent, so the first chunk is that byte)
            let hello = match (abidi.as_mut(), r0.as_mut()) {
                (Some(b), _) => poll_fn(|cx| b.poll_data(cx)).await,
                (None, Some(r)) => poll_fn(|cx| r.poll_data(cx)).await,
                _ => return None,
            };
            match hello {
                Ok(Some(b)) if b[..] == [0xaa] => Some(()),
                _ => None,
            }
        })
        .await;
        if setup != Ok(Some(())) {
            return "setup-failed".into();
        }
        arecv = r0;
    }
    let mut peer = Peer { conn: pconn, w: wtx, urgent: utx, r: rtx, result: None };

    // streams opened / accepted through the adapter by the ops below, in order
    let mut o_opener: Option<h3_quinn::OpenStreams> = None;
    let mut k_opener: Option<h3_quinn::OpenStreams> = None;
    let mut opened: Vec<(Opened, bool)> = Vec::new();
    let mut taken: Vec<Box<dyn std::any::Any>> = Vec::new();
    let mut pextra: Vec<Box<dyn std::any::Any + Send>> = Vec::new();
    let mut ubuf: Option<bytes::buf::Chain<Bytes, Bytes>> = None;
    let mut dsend: Option<h3_quinn::datagram::SendDatagramHandler> = None;
    let mut drecv: Option<h3_quinn::datagram::RecvDatagramHandler> = None;

    // the send / receive side of the stream under test: the unsplit BidiStream or a half
    macro_rules! with_send {
        ($s:ident => $e:expr) => {
            if let Some($s) = abidi.as_mut() {
                $e
            } else if let Some($s) = asend.as_mut() {
                $e
            } else {
                return "bad-op".into();
            }
        };
    }
    macro_rules! with_recv {
        ($r:ident => $e:expr) => {
            if let Some($r) = abidi.as_mut() {
                $e
            } else if let Some($r) = arecv.as_mut() {
                $e
            } else {
                return "bad-op".into();
            }
        };
    }
    // `c` the connection itself, `o` its `opener()`, `k` a clone of that opener
    macro_rules! with_opener {
        ($w:expr, $x:ident => $e:expr) => {
            match $w {
                Some(&"c") => {
                    let $x = &mut a;
                    $e
                }
                Some(&"o") | Some(&"k") => {
                    if o_opener.is_none() {
                        o_opener = Some(h3::quic::Connection::<Bytes>::opener(&a));
                    }
                    if $w == Some(&"o") {
                        let $x = o_opener.as_mut().unwrap();
                        $e
                    } else {
                        if k_opener.is_none() {
                            k_opener = Some(o_opener.as_ref().unwrap().clone());
                        }
                        let $x = k_opener.as_mut().unwrap();
                        $e
                    }
                }
                _ => return "bad-op".into(),
            }
        };
    }

    // ---- the ops
    let mut rhash = Hash::new(); // everything the adapter side has read
    for op in &ops {
        let p: Vec<&str> = op.split(':').collect();
        let num = |i: usize| -> Option<u64> { p.get(i).and_then(|x| x.parse::<u64>().ok()) };
        let tok: String = match p[0] {
            // ---------------- adapter, send half
            "sd" | "w" => {
                let (Some(f), Some(n), Some(seed)) = (p.get(1), num(2), num(3)) else {
                    return "bad-op".into();
                };
                let Some(wb) = write_buf(f, n as usize, seed) else { return "bad-op".into() };
                with_send!(s => match s.send_data(wb) {
                    Err(StreamErrorIncoming::ConnectionErrorIncoming {
                        connection_error: ConnectionErrorIncoming::InternalError(_),
                    }) => format!("{}=refused", p[0]),
                    Err(e) => format!("{}=err:{}", p[0], stream_err(&e)),
                    Ok(()) if p[0] == "sd" => "sd=ok".into(),
                    Ok(()) => match moving(poll_fn(|cx| s.poll_ready(cx))).await {
                        Err(_) => "w=timeout".into(),
                        Ok(r) => format!("w={}", poll_res(Poll::Ready(r))),
                    },
                })
            }
            "pr1" => {
                let r = with_send!(s => poll_fn(|cx| Poll::Ready(s.poll_ready(cx))).await);
                format!("pr1={}", poll_res(r))
            }
            "pr" => with_send!(s => match moving(poll_fn(|cx| s.poll_ready(cx))).await {
                Err(_) => "pr=timeout".into(),
                Ok(r) => format!("pr={}", poll_res(Poll::Ready(r))),
            }),
            "fin" => {
                let r = with_send!(s => poll_fn(|cx| Poll::Ready(s.poll_finish(cx))).await);
                format!("fin={}", poll_res(r))
            }
            "rst" => {
                let Some(c) = num(1) else { return "bad-op".into() };
                with_send!(s => s.reset(c));
                "rst".into()
            }
            "sid" => with_send!(s => match catch_unwind(AssertUnwindSafe(|| s.send_id())) {
                Ok(id) => format!("sid={}", id.into_inner()),
                Err(_) => "sid=panic".into(),
            }),
            // ---------------- adapter, unframed writes (`SendStreamUnframed::poll_send`)
            "ub" => {
                // the caller's buffer: n bytes, handed over as two chunks when a cut is given
                let (Some(n), Some(seed)) = (num(1), num(2)) else { return "bad-op".into() };
                let cut = num(3).unwrap_or(0).min(n) as usize;
                let b = payload(n as usize, seed);
                ubuf = Some(b.slice(..cut).chain(b.slice(cut..)));
                "ub".into()
            }
            "ps1" | "ps" | "psall" => {
                let Some(buf) = ubuf.as_mut() else { return "bad-op".into() };
                let all = p[0] == "psall";
                let once = p[0] == "ps1";
                let mut res: Option<String> = None;
                // the whole loop has `OP_TIMEOUT`, counted from the last poll_send that was given bytes
                let t00 = tokio::time::Instant::now();
                let mut t0 = t00;
                loop {
                    if all && !buf.has_remaining() {
                        break;
                    }
                    let before = buf.remaining();
                    let r = with_send!(s => {
                        let f = poll_fn(|cx| match catch_unwind(AssertUnwindSafe(|| s.poll_send(cx, buf))) {
                            Ok(Poll::Pending) if once => Poll::Ready(Ok(None)),
                            Ok(Poll::Pending) => Poll::Pending,
                            Ok(Poll::Ready(x)) => Poll::Ready(Ok(Some(x))),
                            Err(_) => Poll::Ready(Err(())),
                        });
                        tokio::time::timeout(OP_TIMEOUT.saturating_sub(t0.elapsed()), f).await
                    });
                    match r {
                        Err(_) => res = Some("timeout".into()),
                        Ok(Err(())) => res = Some("panic".into()),
                        Ok(Ok(None)) => res = Some("pending".into()),
                        Ok(Ok(Some(Err(StreamErrorIncoming::ConnectionErrorIncoming {
                            connection_error: ConnectionErrorIncoming::InternalError(_),
                        })))) => res = Some("refused".into()),
                        Ok(Ok(Some(Err(e)))) => res = Some(format!("err:{}", stream_err(&e))),
                        Ok(Ok(Some(Ok(k)))) => {
                            // the Buf must have been advanced by exactly what was reported
                            if k > 0 && t00.elapsed() < OP_MAX {
                                t0 = tokio::time::Instant::now();
                            }
                            if before - buf.remaining() != k {
                                res = Some(format!("misadvanced:{}:{}", k, before - buf.remaining()));
                            } else if !all {
                                res = Some(format!("{}", k));
                            }
                        }
                    }
                    if res.is_some() || !all {
                        break;
                    }
                }
                format!("{}={}/{}", p[0], res.unwrap_or_else(|| "ok".into()), buf.remaining())
            }
            // ---------------- adapter, receive half
            "rid" => with_recv!(r => match catch_unwind(AssertUnwindSafe(|| r.recv_id())) {
                Ok(id) => format!("rid={}", id.into_inner()),
                Err(_) => "rid=panic".into(),
            }),
            "pd1" => {
                let x = with_recv!(r => poll_fn(|cx| Poll::Ready(r.poll_data(cx))).await);
                format!("pd1={}", data_res(x, &mut rhash))
            }
            "pdc" => {
                // a read that is started and then cancelled (the future is dropped)
                let ms = num(1).unwrap_or(1);
                with_recv!(r => {
                    let fut = poll_fn(|cx| r.poll_data(cx));
                    match tokio::time::timeout(Duration::from_millis(ms), fut).await {
                        Err(_) => "pdc=cancelled".into(),
                        Ok(x) => format!("pdc={}", data_res(Poll::Ready(x), &mut rhash)),
                    }
                })
            }
            "pd" => with_recv!(r => match tokio::time::timeout(OP_TIMEOUT, poll_fn(|cx| r.poll_data(cx))).await {
                Err(_) => "pd=timeout".into(),
                Ok(x) => format!("pd={}", data_res(Poll::Ready(x), &mut rhash)),
            }),
            "rdall" => {
                let res = with_recv!(r => moving(async {
                    loop {
                        match poll_fn(|cx| r.poll_data(cx)).await {
                            Ok(Some(b)) => { rhash.feed(&b); progressed() }
                            Ok(None) => break format!("{}:end", rhash.show()),
                            Err(e) => break format!("err:{}", stream_err(&e)),
                        }
                    }
                })
                .await);
                match res {
                    Err(_) => "rdall=timeout".into(),
                    Ok(s) => format!("rdall={}", s),
                }
            }
            "stop" => {
                let Some(c) = num(1) else { return "bad-op".into() };
                with_recv!(r => match catch_unwind(AssertUnwindSafe(|| r.stop_sending(c))) {
                    Ok(()) => "stop".into(),
                    Err(_) => "stop=panic".into(),
                })
            }
            "dropr" => {
                if abidi.is_some() {
                    return "bad-op".into();
                }
                arecv = None;
                "dropr".into()
            }
            "z0" => {
                use h3::quic::Is0rtt;
                format!("z0={}", b01(with_recv!(r => r.is_0rtt())))
            }
            "zacc" => match zacc {
                Some(b) => format!("zacc={}", b01(b)),
                None => return "bad-op".into(),
            },
            "split" => {
                let Some(b) = abidi.take() else { return "bad-op".into() };
                let (s, r) = b.split();
                asend = Some(s);
                arecv = Some(r);
                "split".into()
            }
            // ---------------- adapter, connection
            "aclose" => {
                let Some(c) = num(1) else { return "bad-op".into() };
                match catch_unwind(AssertUnwindSafe(|| {
                    h3::quic::OpenStreams::<Bytes>::close(&mut a, h3::error::Code::from(c), b"")
                })) {
                    Ok(()) => "aclose".into(),
                    Err(_) => "aclose=panic".into(),
                }
            }
            "oclose" => {
                // OpenStreams::close(code, reason) through the chosen opener
                let (Some(c), Some(reason)) = (num(2), p.get(3).and_then(|x| parse_hex(x))) else {
                    return "bad-op".into();
                };
                let r = with_opener!(p.get(1), x => catch_unwind(AssertUnwindSafe(|| {
                    h3::quic::OpenStreams::<Bytes>::close(&mut *x, h3::error::Code::from(c), &reason)
                })));
                match r {
                    Ok(()) => "oclose".into(),
                    Err(_) => "oclose=panic".into(),
                }
            }
            "ob1" | "ob" | "ou1" | "ou" => {
                let once = p[0].ends_with('1');
                let bi = p[0].starts_with("ob");
                let tag = p[0];
                if bi {
                    let r = with_opener!(p.get(1), x => {
                        let f = poll_fn(|cx| match h3::quic::OpenStreams::<Bytes>::poll_open_bidi(&mut *x, cx) {
                            Poll::Pending if once => Poll::Ready(Poll::Pending),
                            Poll::Pending => Poll::Pending,
                            r => Poll::Ready(r),
                        });
                        tokio::time::timeout(OP_TIMEOUT, f).await
                    });
                    match r {
                        Err(_) => format!("{}=timeout", tag),
                        Ok(r) => {
                            let (t, s) = open_res(tag, r, ids_of_bidi);
                            if let Some(s) = s {
                                opened.push((Opened::Bi(s), false));
                            }
                            t
                        }
                    }
                } else {
                    let r = with_opener!(p.get(1), x => {
                        let f = poll_fn(|cx| match h3::quic::OpenStreams::<Bytes>::poll_open_send(&mut *x, cx) {
                            Poll::Pending if once => Poll::Ready(Poll::Pending),
                            Poll::Pending => Poll::Pending,
                            r => Poll::Ready(r),
                        });
                        tokio::time::timeout(OP_TIMEOUT, f).await
                    });
                    match r {
                        Err(_) => format!("{}=timeout", tag),
                        Ok(r) => {
                            let (t, s) = open_res(tag, r, |s: &ASend| format!("{}", s.send_id().into_inner()));
                            if let Some(s) = s {
                                opened.push((Opened::Uni(s), false));
                            }
                            t
                        }
                    }
                }
            }
            // sdm:<n>:<seed>:<cut>,<cut>…  the `Chain` variant of `sd`: a uni stream whose buffer type is the multi-chunk
            // `e_c16::Chunks` is opened through the Connection, ONE DATA frame whose payload is cut at these positions
            // is handed to send_data, poll_ready is awaited, the stream finished; the peer reads it with `pacc:uni:1`.
            // Only when every stream opened before has been written (`otag`), so that the indices stay aligned.
            "sdm" => {
                use crate::e_c16::Chunks;
                let (Some(n), Some(seed), Some(cuts)) = (num(1), num(2), p.get(3)) else { return "bad-op".into() };
                if opened.iter().any(|(_, tagged)| !*tagged) {
                    return "bad-op".into();
                }
                let whole = payload(n as usize, seed);
                let mut at = vec![0usize];
                for c in cuts.split(',') {
                    let Ok(c) = c.parse::<usize>() else { return "bad-op".into() };
                    if c <= *at.last().unwrap() || c >= n as usize {
                        return "bad-op".into();
                    }
                    at.push(c);
                }
                at.push(n as usize);
                let chunks = Chunks(at.windows(2).map(|w| whole.slice(w[0]..w[1])).collect());
                let f = poll_fn(|cx| h3::quic::OpenStreams::<Chunks>::poll_open_send(&mut a, cx));
                match tokio::time::timeout(OP_TIMEOUT, f).await {
                    Err(_) => "sdm=timeout".into(),
                    Ok(Err(e)) => format!("sdm=err:{}", stream_err(&e)),
                    Ok(Ok(mut st)) => {
                        let id = st.send_id().into_inner();
                        opened.push((Opened::Done, true));
                        let r = match st.send_data(WriteBuf::from(Frame::Data(chunks))) {
                            Err(e) => Err(e),
                            Ok(()) => match tokio::time::timeout(OP_TIMEOUT, poll_fn(|cx| st.poll_ready(cx))).await {
                                Err(_) => return "sdm=write-timeout".into(),
                                Ok(Err(e)) => Err(e),
                                Ok(Ok(())) => poll_fn(|cx| st.poll_finish(cx)).await,
                            },
                        };
                        match r {
                            Ok(()) => format!("sdm={}", id),
                            Err(e) => format!("sdm=err:{}@write", stream_err(&e)),
                        }
                    }
                }
            }
            "otag" => {
                // every stream opened by `ob`/`ou` and not yet used gets one DATA frame (n + j bytes for
                // the j-th opened stream) and is finished, the bidirectional ones through the UNSPLIT stream
                let (Some(n), Some(seed)) = (num(1), num(2)) else { return "bad-op".into() };
                let mut cnt = 0;
                let mut bad: Option<String> = None;
                for (j, (st, tagged)) in opened.iter_mut().enumerate() {
                    if *tagged {
                        continue;
                    }
                    *tagged = true;
                    let wb = WriteBuf::from(Frame::Data(payload(n as usize + j, seed + j as u64)));
                    let r = match st {
                        Opened::Bi(s) => match s.send_data(wb) {
                            Err(e) => Err(e),
                            Ok(()) => match tokio::time::timeout(OP_TIMEOUT, poll_fn(|cx| s.poll_ready(cx))).await {
                                Err(_) => { bad = Some(format!("timeout@{}", j)); break }
                                Ok(Err(e)) => Err(e),
                                Ok(Ok(())) => poll_fn(|cx| s.poll_finish(cx)).await,
                            },
                        },
                        Opened::Uni(s) => match s.send_data(wb) {
                            Err(e) => Err(e),
                            Ok(()) => match tokio::time::timeout(OP_TIMEOUT, poll_fn(|cx| s.poll_ready(cx))).await {
                                Err(_) => { bad = Some(format!("timeout@{}", j)); break }
                                Ok(Err(e)) => Err(e),
                                Ok(Ok(())) => poll_fn(|cx| s.poll_finish(cx)).await,
                            },
                        },
                        Opened::Done => Ok(()),
                    };
                    match r {
                        Ok(()) => cnt += 1,
                        Err(e) => { bad = Some(format!("err:{}@{}", stream_err(&e), j)); break }
                    }
                }
                match bad {
                    Some(b) => format!("otag={}", b),
                    None => format!("otag={}", cnt),
                }
            }
            "ab1" | "ab" | "ar1" | "ar" => {
                let once = p[0].ends_with('1');
                let tag = p[0];
                if p[0].starts_with("ab") {
                    let f = poll_fn(|cx| match h3::quic::Connection::<Bytes>::poll_accept_bidi(&mut a, cx) {
                        Poll::Pending if once => Poll::Ready(Poll::Pending),
                        Poll::Pending => Poll::Pending,
                        r => Poll::Ready(r),
                    });
                    match tokio::time::timeout(OP_TIMEOUT, f).await {
                        Err(_) => format!("{}=timeout", tag),
                        Ok(Poll::Pending) => format!("{}=pending", tag),
                        Ok(Poll::Ready(Err(e))) => format!("{}=err:{}", tag, conn_err(&e)),
                        Ok(Poll::Ready(Ok(b))) => {
                            let t = format!("{}={}", tag, ids_of_bidi(&b));
                            taken.push(Box::new(b));
                            t
                        }
                    }
                } else {
                    let f = poll_fn(|cx| match h3::quic::Connection::<Bytes>::poll_accept_recv(&mut a, cx) {
                        Poll::Pending if once => Poll::Ready(Poll::Pending),
                        Poll::Pending => Poll::Pending,
                        r => Poll::Ready(r),
                    });
                    match tokio::time::timeout(OP_TIMEOUT, f).await {
                        Err(_) => format!("{}=timeout", tag),
                        Ok(Poll::Pending) => format!("{}=pending", tag),
                        Ok(Poll::Ready(Err(e))) => format!("{}=err:{}", tag, conn_err(&e)),
                        Ok(Poll::Ready(Ok(r))) => {
                            let t = format!("{}={}", tag, r.recv_id().into_inner());
                            taken.push(Box::new(r));
                            t
                        }
                    }
                }
            }
            // ---------------- adapter, datagrams (`h3_quinn::datagram`)
            // what Quinn says its maximal datagram size is right now (the model's environment parameter `dgmax=`)
            "dgmax" => match araw.max_datagram_size() {
                Some(n) => format!("dgmax={}", n),
                None => "dgmax=none".into(),
            },
            // the handlers are created anew by the next datagram op
            "dgh" => {
                dsend = None;
                drecv = None;
                "dgh".into()
            }
            "dgs" => {
                // send_datagram(Datagram::new(stream id, n payload bytes).encode());
                // dgs:<sid>:<n>:<seed>:<cut>,<cut>…  the payload is a NON-CONTIGUOUS Buf cut at these positions
                let (Some(sid), Some(n), Some(seed)) = (num(1), num(2), num(3)) else { return "bad-op".into() };
                if sid % 4 != 0 {
                    return "bad-op".into();
                }
                let Ok(sid) = h3::quic::StreamId::try_from(sid) else { return "bad-op".into() };
                // without `dgmax=` the maximum moves with MTU discovery: sizes it may or may not admit are not a case
                if cfg.dgmax.is_none() {
                    let wire = n + H3VarInt::from_u64(sid.into_inner() / 4).map(|v| v.size() as u64).unwrap_or(8);
                    if wire > 1100 && wire <= 1500 {
                        return "bad-op".into();
                    }
                }
                let h = dsend.get_or_insert_with(|| DatagramConnectionExt::<Bytes>::send_datagram_handler(&a));
                let r = match p.get(4) {
                    None => h.send_datagram(h3_datagram::datagram::Datagram::new(sid, payload(n as usize, seed)).encode()),
                    Some(cuts) => {
                        let whole = payload(n as usize, seed);
                        let mut at = vec![0usize];
                        for c in cuts.split(',') {
                            let Ok(c) = c.parse::<usize>() else { return "bad-op".into() };
                            if c <= *at.last().unwrap() || c >= n as usize {
                                return "bad-op".into();
                            }
                            at.push(c);
                        }
                        at.push(n as usize);
                        let chunks = crate::e_c16::Chunks(at.windows(2).map(|w| whole.slice(w[0]..w[1])).collect());
                        h.send_datagram(h3_datagram::datagram::Datagram::new(sid, chunks).encode())
                    }
                };
                match r {
                    Ok(()) => "dgs=ok".into(),
                    Err(e) => format!("dgs={}", dgram_err(&e)),
                }
            }
            // read one datagram and decode it (h3-datagram): stream id and payload
            "dgrd" => {
                let h = drecv.get_or_insert_with(|| DatagramConnectionExt::<Bytes>::recv_datagram_handler(&a));
                match tokio::time::timeout(OP_TIMEOUT, poll_fn(|cx| h.poll_incoming_datagram(cx))).await {
                    Err(_) => "dgrd=timeout".into(),
                    Ok(Err(e)) => format!("dgrd=err:{}", conn_err(&e)),
                    Ok(Ok(b)) => match h3_datagram::datagram::Datagram::decode(b) {
                        Ok(d) => {
                            let mut hh = Hash::new();
                            hh.feed(d.payload());
                            format!("dgrd={}:{}", d.stream_id().into_inner(), hh.show())
                        }
                        Err(_) => "dgrd=datagram-error".into(),
                    },
                }
            }
            "dgr1" | "dgr" => {
                let once = p[0] == "dgr1";
                let h = drecv.get_or_insert_with(|| DatagramConnectionExt::<Bytes>::recv_datagram_handler(&a));
                let f = poll_fn(|cx| match h.poll_incoming_datagram(cx) {
                    Poll::Pending if once => Poll::Ready(None),
                    Poll::Pending => Poll::Pending,
                    Poll::Ready(r) => Poll::Ready(Some(r)),
                });
                match tokio::time::timeout(OP_TIMEOUT, f).await {
                    Err(_) => format!("{}=timeout", p[0]),
                    Ok(None) => format!("{}=pending", p[0]),
                    Ok(Some(Err(e))) => format!("{}=err:{}", p[0], conn_err(&e)),
                    Ok(Some(Ok(b))) => {
                        let mut h = Hash::new();
                        h.feed(&b);
                        format!("{}={}", p[0], h.show())
                    }
                }
            }
            // ---------------- raw peer
            "pbg" => {
                let (tx, rx) = oneshot::channel();
                let _ = peer.r.send(RCmd::ReadAll(tx));
                peer.result = Some(rx);
                "pbg".into()
            }
            "pjoin" => match peer.result.take() {
                None => "peer=none".into(),
                Some(rx) => match moving(rx).await {
                    Ok(Ok(s)) => format!("peer={}", s),
                    Ok(Err(_)) => "peer=gone".into(),
                    Err(_) => "peer=timeout".into(),
                },
            },
            "pstop" => {
                let Some(c) = num(1) else { return "bad-op".into() };
                let _ = peer.r.send(RCmd::Stop(c));
                "pstop".into()
            }
            "pw" => {
                let (Some(n), Some(seed)) = (num(1), num(2)) else { return "bad-op".into() };
                let _ = peer.w.send(WCmd::Write(payload(n as usize, seed)));
                "pw".into()
            }
            "pfin" => {
                let _ = peer.w.send(WCmd::Fin);
                "pfin".into()
            }
            "prst" => {
                let Some(c) = num(1) else { return "bad-op".into() };
                let _ = peer.w.send(WCmd::Reset(c));
                "prst".into()
            }
            "prstnow" => {
                let Some(c) = num(1) else { return "bad-op".into() };
                let _ = peer.urgent.send(c);
                "prstnow".into()
            }
            "pstopped" => {
                let (tx, rx) = oneshot::channel();
                let _ = peer.w.send(WCmd::Stopped(tx));
                match tokio::time::timeout(OP_TIMEOUT, rx).await {
                    Ok(Ok(s)) => format!("pstopped={}", s),
                    Ok(Err(_)) => "pstopped=gone".into(),
                    Err(_) => "pstopped=timeout".into(),
                }
            }
            "pclose" => {
                let (Some(c), Some(pc)) = (num(1), peer.conn.as_ref()) else { return "bad-op".into() };
                pc.close(VarInt::from_u64(c).unwrap(), b"");
                "pclose".into()
            }
            "pclosed" | "pclosedr" => {
                let Some(pc) = peer.conn.as_ref() else { return "bad-op".into() };
                match tokio::time::timeout(OP_TIMEOUT, pc.closed()).await {
                    Ok(quinn::ConnectionError::ApplicationClosed(ac)) if p[0] == "pclosedr" => {
                        format!("pclosedr=app:{}:{}", ac.error_code.into_inner(), to_hex(&ac.reason))
                    }
                    Ok(e) => format!("{}={}", p[0], raw_conn_err(&e)),
                    Err(_) => format!("{}=timeout", p[0]),
                }
            }
            "pmb" | "pmu" => {
                // the peer raises (sets) the number of streams the adapter side may have open
                let (Some(n), Some(pc)) = (num(1), peer.conn.as_ref()) else { return "bad-op".into() };
                let Ok(n) = VarInt::from_u64(n) else { return "bad-op".into() };
                if p[0] == "pmb" {
                    pc.set_max_concurrent_bi_streams(n);
                } else {
                    pc.set_max_concurrent_uni_streams(n);
                }
                p[0].into()
            }
            "pob" | "pou" => {
                // the peer opens one more stream and announces it with one byte
                let Some(pc) = peer.conn.clone() else { return "bad-op".into() };
                let bi = p[0] == "pob";
                let r = tokio::time::timeout(OP_TIMEOUT, async {
                    if bi {
                        let (mut s, r) = pc.open_bi().await.ok()?;
                        s.write_all(&[0xbb]).await.ok()?;
                        Some(Box::new((s, r)) as Box<dyn std::any::Any + Send>)
                    } else {
                        let mut s = pc.open_uni().await.ok()?;
                        s.write_all(&[0xbb]).await.ok()?;
                        Some(Box::new(s) as Box<dyn std::any::Any + Send>)
                    }
                })
                .await;
                match r {
                    Ok(Some(x)) => {
                        pextra.push(x);
                        p[0].into()
                    }
                    Ok(None) => format!("{}=failed", p[0]),
                    Err(_) => format!("{}=timeout", p[0]),
                }
            }
            "pacc" => {
                // the peer accepts the next n streams of a kind and reads each to its end
                let (Some(kind), Some(n), Some(pc)) = (p.get(1), num(2), peer.conn.clone()) else {
                    return "bad-op".into();
                };
                let bi = match *kind { "bi" => true, "uni" => false, _ => return "bad-op".into() };
                if cfg.open && has_stream && bi == (cfg.kind == Kind::Bi) {
                    // the stream under test (and those before it) go to the peer's own task first
                    if let Some(rx) = primary_ready.take() {
                        if tokio::time::timeout(OP_TIMEOUT, rx).await.is_err() {
                            return "pacc=timeout-primary".into();
                        }
                    }
                }
                let r = tokio::time::timeout(OP_TIMEOUT, async {
                    let mut items: Vec<String> = Vec::new();
                    for _ in 0..n {
                        let mut r = if bi {
                            match pc.accept_bi().await {
                                Ok((s, r)) => { pextra.push(Box::new(s)); r }
                                Err(e) => { items.push(format!("lost:{}", raw_conn_err(&e))); break }
                            }
                        } else {
                            match pc.accept_uni().await {
                                Ok(r) => r,
                                Err(e) => { items.push(format!("lost:{}", raw_conn_err(&e))); break }
                            }
                        };
                        let id: u64 = r.id().into();
                        let mut h = Hash::new();
                        let end = loop {
                            match r.read_chunk(usize::MAX, true).await {
                                Ok(Some(c)) => h.feed(&c.bytes),
                                Ok(None) => break "fin".to_string(),
                                Err(quinn::ReadError::Reset(c)) => break format!("reset:{}", c.into_inner()),
                                Err(_) => break "lost".to_string(),
                            }
                        };
                        items.push(format!("{}:{}:{}", id, h.show(), end));
                    }
                    items.join(",")
                })
                .await;
                match r {
                    Ok(s) if s.is_empty() => "pacc=-".into(),
                    Ok(s) => format!("pacc={}", s),
                    Err(_) => "pacc=timeout".into(),
                }
            }
            "pdgs" => {
                let (Some(n), Some(seed), Some(pc)) = (num(1), num(2), peer.conn.as_ref()) else { return "bad-op".into() };
                // pdgs:<n>:<seed>:<sid>  the peer sends an HTTP datagram: varint(sid/4) in front of the payload
                let body = match p.get(3) {
                    None => payload(n as usize, seed),
                    Some(sid) => {
                        let Some(q) = sid.parse::<u64>().ok().filter(|s| s % 4 == 0).and_then(|s| H3VarInt::from_u64(s / 4).ok()) else {
                            return "bad-op".into();
                        };
                        let mut v = bytes::BytesMut::new();
                        q.encode(&mut v);
                        v.extend_from_slice(&payload(n as usize, seed));
                        v.freeze()
                    }
                };
                match pc.send_datagram(body) {
                    Ok(()) => "pdgs".into(),
                    Err(_) => "pdgs=failed".into(),
                }
            }
            "pdg" => {
                let Some(pc) = peer.conn.as_ref() else { return "bad-op".into() };
                match tokio::time::timeout(OP_TIMEOUT, pc.read_datagram()).await {
                    Err(_) => "pdg=timeout".into(),
                    Ok(Err(e)) => format!("pdg=lost:{}", raw_conn_err(&e)),
                    Ok(Ok(b)) => {
                        let mut h = Hash::new();
                        h.feed(&b);
                        format!("pdg={}", h.show())
                    }
                }
            }
            "pkill" => {
                // the peer's endpoint vanishes without a word; whoever answers at its address from now on
                // knows nothing of the connection (but shares the reset key)
                let Some(k) = killer.take() else { return "bad-op".into() };
                let _ = k.kill.send(());
                let _ = tokio::time::timeout(OP_TIMEOUT, k.dead).await;
                for h in ptasks.lock().unwrap().drain(..) {
                    h.abort();
                }
                peer.conn = None;
                peer.result = None;
                pextra.clear();
                tokio::time::sleep(Duration::from_millis(5)).await;
                let mut ok = false;
                for _ in 0..400 {
                    if let Ok(sock) = std::net::UdpSocket::bind(k.addr) {
                        if let Ok(ep) = quinn::Endpoint::new(kill_endpoint_config(), None, sock, Arc::new(quinn::TokioRuntime)) {
                            eps.push(ep);
                            ok = true;
                        }
                        break;
                    }
                    tokio::time::sleep(Duration::from_millis(5)).await;
                }
                if ok { "pkill".into() } else { "pkill=failed".into() }
            }
            "settle" => {
                tokio::time::sleep(Duration::from_millis(num(1).unwrap_or(20))).await;
                "settle".into()
            }
            _ => return "bad-op".into(),
        };
        out.push(tok);
    }
    drop((abidi, asend, arecv, skipped, opened, taken, o_opener, k_opener, dsend, drecv));
    drop(a);
    for ep in &eps {
        ep.close(VarInt::from_u32(0), b"");
    }
    if let Some(k) = killer.take() {
        let _ = k.kill.send(());
    }
    out.join(" ")
}

/// one attempt
fn attempt(w: &[&str]) -> String {
    let Some(cfg) = parse_cfg(w[1]) else { return "bad-op".into() };
    let ops: Vec<String> = w[2..].iter().map(|s| s.to_string()).collect();
    guarded(|| {
        let rt = tokio::runtime::Builder::new_current_thread().enable_all().build().unwrap();
        let r = rt.block_on(async {
            // 15 s per case, counted again while bytes are moving (at most 90 s in all)
            let sc = scenario(cfg, ops);
            tokio::pin!(sc);
            let t0 = tokio::time::Instant::now();
            loop {
                let seen = PROGRESS.load(std::sync::atomic::Ordering::Relaxed);
                match tokio::time::timeout(Duration::from_secs(15), &mut sc).await {
                    Ok(s) => break s,
                    Err(_) => {
                        if PROGRESS.load(std::sync::atomic::Ordering::Relaxed) == seen || t0.elapsed() > Duration::from_secs(90) {
                            break "timeout".into();
                        }
                    }
                }
            }
        });
        rt.shutdown_timeout(Duration::from_millis(100));
        r
    })
}

/// A result that contains a timeout may be the machine's doing (other builds load it): the case is run
/// a second time and the second result stands, marked ` #retry` (the check strips and counts the mark).
pub fn handle(w: &[&str]) -> String {
    if w.len() < 2 || w[0] != "quinn" {
        return "bad-op".into();
    }
    let r = attempt(w);
    let suspicious = r == "setup-failed" || r.split(' ').any(|t| t == "timeout" || t.contains("=timeout"));
    if !suspicious {
        return r;
    }
    // a loaded machine produces a handful of these, a broken adapter hundreds: do not double the
    // duration of a run that fails anyway
    static RETRIES: std::sync::atomic::AtomicUsize = std::sync::atomic::AtomicUsize::new(0);
    if RETRIES.fetch_add(1, std::sync::atomic::Ordering::Relaxed) >= 24 {
        return r;
    }
    format!("{} #retry", attempt(w))
}
