//! Engine `quinn` (C17): the real `h3_quinn` adapter over a real Quinn loopback connection.
//!
//! One case line = one scenario: `quinn <cfg> <op> <op> ...`.  The adapter side (A) holds the
//! `h3_quinn::{SendStream<Bytes>, RecvStream}` halves of one stream and is driven only through the
//! `h3::quic` traits; the peer (P) is raw Quinn.  Every case runs on a fresh single-threaded tokio
//! runtime with a global timeout.  One output token per op (see `tools/props/c17.py`).
use crate::util::*;
use bytes::Bytes;
use h3::proto::frame::Frame;
use h3::proto::stream::StreamType;
use h3::proto::varint::VarInt as H3VarInt;
use h3::quic::{
    BidiStream, ConnectionErrorIncoming, RecvStream as _, SendStream as _,
    StreamErrorIncoming, WriteBuf,
};
use quinn::crypto::rustls::{QuicClientConfig, QuicServerConfig};
use quinn::{TransportConfig, VarInt};
use rustls::pki_types::{CertificateDer, PrivateKeyDer};
use std::future::poll_fn;
use std::net::SocketAddr;
use std::panic::{catch_unwind, AssertUnwindSafe};
use std::sync::{Arc, OnceLock};
use std::task::Poll;
use std::time::Duration;
use tokio::sync::{mpsc, oneshot};

type ASend = h3_quinn::SendStream<Bytes>;
type ARecv = h3_quinn::RecvStream;

const HASH_P: u64 = 4294967291;
const HASH_M: u64 = 16777619;

#[derive(Clone, Copy)]
struct Hash {
    len: u64,
    h: u64,
}

impl Hash {
    fn new() -> Self {
        Hash { len: 0, h: 0 }
    }
    fn feed(&mut self, bs: &[u8]) {
        for b in bs {
            self.h = (self.h * HASH_M + *b as u64 + 1) % HASH_P;
        }
        self.len += bs.len() as u64;
    }
    fn show(&self) -> String {
        format!("{}:{:08x}", self.len, self.h)
    }
}

/// payload byte `i` of a buffer derived from `seed`.
fn pbyte(seed: u64, i: u64) -> u8 {
    ((seed + i * 131 + (i / 251) * 17) % 256) as u8
}

fn payload(n: usize, seed: u64) -> Bytes {
    Bytes::from((0..n as u64).map(|i| pbyte(seed, i)).collect::<Vec<u8>>())
}

fn certs() -> &'static (CertificateDer<'static>, PrivateKeyDer<'static>) {
    static C: OnceLock<(CertificateDer<'static>, PrivateKeyDer<'static>)> = OnceLock::new();
    C.get_or_init(|| {
        let cert = rcgen::generate_simple_self_signed(vec!["localhost".into()]).unwrap();
        (cert.cert.into(), PrivateKeyDer::Pkcs8(cert.signing_key.serialize_der().into()))
    })
}

#[derive(Clone, Copy, PartialEq)]
enum Kind {
    Bi,
    Uni,
}

struct Cfg {
    sw: u64,        // stream receive window (both endpoints)
    cw: u64,        // connection receive window (both endpoints)
    tw: u64,        // send window (both endpoints)
    client: bool,   // adapter side is the QUIC client
    kind: Kind,
    open: bool,     // adapter side opens the stream (else the raw peer opens it)
    skip: u64,      // streams of the same kind opened (and left unused) before the one under test
    idle: u64,      // max_idle_timeout in ms, 0 = none
}

fn parse_cfg(s: &str) -> Option<Cfg> {
    let mut c = Cfg { sw: 0, cw: 0, tw: 0, client: true, kind: Kind::Bi, open: true, skip: 0, idle: 0 };
    for kv in s.split(',') {
        let (k, v) = kv.split_once('=')?;
        match k {
            "sw" => c.sw = v.parse().ok()?,
            "cw" => c.cw = v.parse().ok()?,
            "tw" => c.tw = v.parse().ok()?,
            "role" => c.client = match v { "c" => true, "s" => false, _ => return None },
            "kind" => c.kind = match v { "bi" => Kind::Bi, "uni" => Kind::Uni, _ => return None },
            "dir" => c.open = match v { "open" => true, "acc" => false, _ => return None },
            "skip" => c.skip = v.parse().ok()?,
            "idle" => c.idle = v.parse().ok()?,
            _ => return None,
        }
    }
    if c.skip > 64 {
        return None;
    }
    Some(c)
}

fn transport(c: &Cfg) -> Arc<TransportConfig> {
    let mut t = TransportConfig::default();
    if c.sw > 0 {
        t.stream_receive_window(VarInt::from_u64(c.sw).unwrap());
    }
    if c.cw > 0 {
        t.receive_window(VarInt::from_u64(c.cw).unwrap());
    }
    if c.tw > 0 {
        t.send_window(c.tw);
    }
    t.initial_rtt(Duration::from_millis(10));
    // ask the peer to acknowledge every packet at once: with a tiny send window every byte waits for
    // an ACK, and Quinn's default 25 ms ACK delay would make such cases needlessly slow
    let mut af = quinn::AckFrequencyConfig::default();
    af.ack_eliciting_threshold(VarInt::from_u32(0)).max_ack_delay(Some(Duration::from_millis(1)));
    t.ack_frequency_config(Some(af));
    if c.idle > 0 {
        t.max_idle_timeout(Some(Duration::from_millis(c.idle).try_into().unwrap()));
    } else {
        t.max_idle_timeout(None);
    }
    Arc::new(t)
}

async fn connect(c: &Cfg) -> (quinn::Endpoint, quinn::Endpoint, quinn::Connection, quinn::Connection) {
    let (cert, key) = certs();
    let tc = transport(c);
    let prov = Arc::new(rustls::crypto::ring::default_provider());
    let mut crypto = rustls::ServerConfig::builder_with_provider(prov.clone())
        .with_protocol_versions(&[&rustls::version::TLS13])
        .unwrap()
        .with_no_client_auth()
        .with_single_cert(vec![cert.clone()], key.clone_key())
        .unwrap();
    crypto.alpn_protocols = vec![b"h3".to_vec()];
    let mut sc = quinn::ServerConfig::with_crypto(Arc::new(QuicServerConfig::try_from(crypto).unwrap()));
    sc.transport = tc.clone();
    let any: SocketAddr = "127.0.0.1:0".parse().unwrap();
    let server = quinn::Endpoint::server(sc, any).unwrap();
    let addr = server.local_addr().unwrap();

    let mut roots = rustls::RootCertStore::empty();
    roots.add(cert.clone()).unwrap();
    let mut ccrypto = rustls::ClientConfig::builder_with_provider(prov)
        .with_protocol_versions(&[&rustls::version::TLS13])
        .unwrap()
        .with_root_certificates(roots)
        .with_no_client_auth();
    ccrypto.alpn_protocols = vec![b"h3".to_vec()];
    let mut cc = quinn::ClientConfig::new(Arc::new(QuicClientConfig::try_from(ccrypto).unwrap()));
    cc.transport_config(tc);
    let mut client = quinn::Endpoint::client(any).unwrap();
    client.set_default_client_config(cc);
    let connecting = client.connect(addr, "localhost").unwrap();
    let (cconn, sconn) = tokio::join!(async { connecting.await.unwrap() }, async {
        server.accept().await.unwrap().await.unwrap()
    });
    (client, server, cconn, sconn)
}

// ---------------------------------------------------------------- canonical error names

fn conn_err(e: &ConnectionErrorIncoming) -> String {
    match e {
        ConnectionErrorIncoming::ApplicationClose { error_code } => format!("c.appclose:{}", error_code),
        ConnectionErrorIncoming::Timeout => "c.timeout".into(),
        ConnectionErrorIncoming::InternalError(_) => "c.internal".into(),
        ConnectionErrorIncoming::Undefined(inner) => {
            let s = inner.to_string();
            let n = if s == "closed" {
                "locally-closed"
            } else if s.starts_with("aborted by peer") {
                "conn-closed"
            } else if s == "reset by peer" {
                "reset"
            } else if s.starts_with("peer doesn't implement") {
                "version"
            } else if s == "CIDs exhausted" {
                "cids"
            } else {
                "transport"
            };
            format!("c.undefined:{}", n)
        }
    }
}

fn stream_err(e: &StreamErrorIncoming) -> String {
    match e {
        StreamErrorIncoming::ConnectionErrorIncoming { connection_error } => conn_err(connection_error),
        StreamErrorIncoming::StreamTerminated { error_code } => format!("s.terminated:{}", error_code),
        StreamErrorIncoming::Unknown(inner) => {
            let s = inner.to_string();
            let n = if s == "closed stream" {
                "closed-stream"
            } else if s == "0-RTT rejected" {
                "zero-rtt"
            } else {
                "other"
            };
            format!("s.unknown:{}", n)
        }
    }
}

fn raw_conn_err(e: &quinn::ConnectionError) -> String {
    match e {
        quinn::ConnectionError::ApplicationClosed(a) => format!("app:{}", a.error_code.into_inner()),
        quinn::ConnectionError::ConnectionClosed(_) => "conn-closed".into(),
        quinn::ConnectionError::TimedOut => "timed-out".into(),
        quinn::ConnectionError::LocallyClosed => "locally-closed".into(),
        quinn::ConnectionError::Reset => "reset".into(),
        _ => "other".into(),
    }
}

// ---------------------------------------------------------------- the raw Quinn peer

enum WCmd {
    Write(Bytes),
    Fin,
    Reset(u64),
    Stopped(oneshot::Sender<String>),
}

enum RCmd {
    /// read to the end in the background; the result goes to the channel
    ReadAll(oneshot::Sender<String>),
    Stop(u64),
}

/// Writer task of the peer: commands are executed in order; `urgent` resets immediately, even in the
/// middle of a blocked write.
async fn peer_writer(
    mut send: quinn::SendStream,
    mut rx: mpsc::UnboundedReceiver<WCmd>,
    mut urgent: mpsc::UnboundedReceiver<u64>,
) {
    loop {
        tokio::select! {
            biased;
            Some(code) = urgent.recv() => { let _ = send.reset(VarInt::from_u64(code).unwrap()); }
            cmd = rx.recv() => {
                let Some(cmd) = cmd else { break };
                match cmd {
                    WCmd::Write(b) => {
                        let mut off = 0;
                        while off < b.len() {
                            tokio::select! {
                                biased;
                                Some(code) = urgent.recv() => {
                                    let _ = send.reset(VarInt::from_u64(code).unwrap());
                                    off = b.len();
                                }
                                r = send.write(&b[off..]) => match r {
                                    Ok(k) => off += k,
                                    Err(_) => off = b.len(),
                                }
                            }
                        }
                    }
                    WCmd::Fin => { let _ = send.finish(); }
                    WCmd::Reset(code) => { let _ = send.reset(VarInt::from_u64(code).unwrap()); }
                    WCmd::Stopped(tx) => {
                        let r = match tokio::time::timeout(Duration::from_secs(5), send.stopped()).await {
                            Err(_) => "timeout".to_string(),
                            Ok(Ok(Some(c))) => format!("{}", c.into_inner()),
                            Ok(Ok(None)) => "none".into(),
                            Ok(Err(quinn::StoppedError::ConnectionLost(e))) => format!("lost:{}", raw_conn_err(&e)),
                            Ok(Err(_)) => "other".into(),
                        };
                        let _ = tx.send(r);
                    }
                }
            }
        }
    }
    // keep the stream alive until the scenario ends (dropping it would finish it implicitly)
    std::future::pending::<()>().await;
}

async fn peer_reader(mut recv: quinn::RecvStream, mut rx: mpsc::UnboundedReceiver<RCmd>) {
    let mut h = Hash::new();
    let mut out: Option<oneshot::Sender<String>> = None;
    let mut reading = false;
    loop {
        tokio::select! {
            biased;
            cmd = rx.recv() => match cmd {
                None => break,
                Some(RCmd::ReadAll(tx)) => { out = Some(tx); reading = true; }
                Some(RCmd::Stop(code)) => {
                    let _ = recv.stop(VarInt::from_u64(code).unwrap());
                    if let Some(tx) = out.take() { let _ = tx.send("stopped".to_string()); }
                    reading = false;
                }
            },
            r = recv.read_chunk(usize::MAX, true), if reading => {
                let done = match r {
                    Ok(Some(c)) => { h.feed(&c.bytes); None }
                    Ok(None) => Some(format!("{}:fin", h.show())),
                    Err(quinn::ReadError::Reset(c)) => Some(format!("reset:{}", c.into_inner())),
                    Err(quinn::ReadError::ConnectionLost(e)) => Some(format!("lost:{}", raw_conn_err(&e))),
                    Err(_) => Some("other".into()),
                };
                if let Some(d) = done {
                    if let Some(tx) = out.take() { let _ = tx.send(d); }
                    reading = false;
                }
            }
        }
    }
    std::future::pending::<()>().await;
}

struct Peer {
    conn: quinn::Connection,
    w: mpsc::UnboundedSender<WCmd>,
    urgent: mpsc::UnboundedSender<u64>,
    r: mpsc::UnboundedSender<RCmd>,
    result: Option<oneshot::Receiver<String>>,
}

// ---------------------------------------------------------------- frames

/// `D` DATA, `H` HEADERS, `G` GOAWAY(n) (header only), `U` uni stream type 0x54 + DATA.
fn write_buf(f: &str, n: usize, seed: u64) -> Option<WriteBuf<Bytes>> {
    Some(match f {
        "D" => WriteBuf::from(Frame::Data(payload(n, seed))),
        "H" => WriteBuf::from(Frame::<Bytes>::Headers(payload(n, seed))),
        "G" => WriteBuf::from(Frame::<Bytes>::Goaway(H3VarInt::from_u64(n as u64).ok()?)),
        "U" => WriteBuf::from((StreamType::WEBTRANSPORT_UNI, Frame::Data(payload(n, seed)))),
        _ => return None,
    })
}

fn poll_res(r: Poll<Result<(), StreamErrorIncoming>>) -> String {
    match r {
        Poll::Pending => "pending".into(),
        Poll::Ready(Ok(())) => "ok".into(),
        Poll::Ready(Err(e)) => format!("err:{}", stream_err(&e)),
    }
}

fn data_res(r: Poll<Result<Option<Bytes>, StreamErrorIncoming>>, h: &mut Hash) -> String {
    match r {
        Poll::Pending => "pending".into(),
        Poll::Ready(Ok(Some(b))) => {
            h.feed(&b);
            "data".into()
        }
        Poll::Ready(Ok(None)) => "end".into(),
        Poll::Ready(Err(e)) => format!("err:{}", stream_err(&e)),
    }
}

const OP_TIMEOUT: Duration = Duration::from_secs(5);

async fn scenario(cfg: Cfg, ops: Vec<String>) -> String {
    let (cep, sep, cconn, sconn) = connect(&cfg).await;
    let (aconn, pconn) = if cfg.client { (cconn, sconn) } else { (sconn, cconn) };
    let mut a = h3_quinn::Connection::new(aconn);
    let mut out: Vec<String> = Vec::new();

    // ---- open the stream under test
    let (wtx, wrx) = mpsc::unbounded_channel();
    let (utx, urx) = mpsc::unbounded_channel();
    let (rtx, rrx) = mpsc::unbounded_channel();
    let mut peer = Peer { conn: pconn.clone(), w: wtx, urgent: utx, r: rtx, result: None };
    let mut asend: Option<ASend> = None;
    let mut arecv: Option<ARecv> = None;
    let mut skipped: Vec<Box<dyn std::any::Any>> = Vec::new();
    if cfg.open {
        for _ in 0..cfg.skip {
            match cfg.kind {
                Kind::Bi => skipped.push(Box::new(
                    poll_fn(|cx| h3::quic::OpenStreams::<Bytes>::poll_open_bidi(&mut a, cx)).await.unwrap(),
                )),
                Kind::Uni => skipped.push(Box::new(
                    poll_fn(|cx| h3::quic::OpenStreams::<Bytes>::poll_open_send(&mut a, cx)).await.unwrap(),
                )),
            }
        }
        match cfg.kind {
            Kind::Bi => {
                let bi = poll_fn(|cx| h3::quic::OpenStreams::<Bytes>::poll_open_bidi(&mut a, cx)).await.unwrap();
                let (s, r) = bi.split();
                asend = Some(s);
                arecv = Some(r);
                let pc = pconn.clone();
                // the peer sees the stream once the adapter side has written to it
                let skip = cfg.skip;
                tokio::spawn(async move {
                    // streams with lower ids that were never used are accepted first; park them
                    let mut parked = Vec::new();
                    for _ in 0..skip {
                        let Ok(x) = pc.accept_bi().await else { return };
                        parked.push(x);
                    }
                    let Ok((s, r)) = pc.accept_bi().await else { return };
                    tokio::spawn(peer_writer(s, wrx, urx));
                    tokio::spawn(peer_reader(r, rrx));
                    std::future::pending::<()>().await;
                    drop(parked);
                });
            }
            Kind::Uni => {
                let s = poll_fn(|cx| h3::quic::OpenStreams::<Bytes>::poll_open_send(&mut a, cx)).await.unwrap();
                asend = Some(s);
                let pc = pconn.clone();
                drop((wrx, urx));
                let skip = cfg.skip;
                tokio::spawn(async move {
                    let mut parked = Vec::new();
                    for _ in 0..skip {
                        let Ok(x) = pc.accept_uni().await else { return };
                        parked.push(x);
                    }
                    let Ok(r) = pc.accept_uni().await else { return };
                    tokio::spawn(peer_reader(r, rrx));
                    std::future::pending::<()>().await;
                    drop(parked);
                });
            }
        }
    } else {
        // the raw peer opens; it announces the stream with one hello byte which is read away here
        match cfg.kind {
            Kind::Bi => {
                for _ in 0..cfg.skip {
                    skipped.push(Box::new(pconn.open_bi().await.unwrap()));
                }
                let (mut s, r) = pconn.open_bi().await.unwrap();
                s.write_all(&[0xaa]).await.unwrap();
                tokio::spawn(peer_writer(s, wrx, urx));
                tokio::spawn(peer_reader(r, rrx));
                for _ in 0..cfg.skip {
                    skipped.push(Box::new(
                        poll_fn(|cx| h3::quic::Connection::<Bytes>::poll_accept_bidi(&mut a, cx)).await.unwrap(),
                    ));
                }
                let bi = poll_fn(|cx| h3::quic::Connection::<Bytes>::poll_accept_bidi(&mut a, cx)).await.unwrap();
                let (s, r) = bi.split();
                asend = Some(s);
                arecv = Some(r);
            }
            Kind::Uni => {
                for _ in 0..cfg.skip {
                    skipped.push(Box::new(pconn.open_uni().await.unwrap()));
                }
                let mut s = pconn.open_uni().await.unwrap();
                s.write_all(&[0xaa]).await.unwrap();
                tokio::spawn(peer_writer(s, wrx, urx));
                drop(rrx);
                for _ in 0..cfg.skip {
                    skipped.push(Box::new(
                        poll_fn(|cx| h3::quic::Connection::<Bytes>::poll_accept_recv(&mut a, cx)).await.unwrap(),
                    ));
                }
                let r = poll_fn(|cx| h3::quic::Connection::<Bytes>::poll_accept_recv(&mut a, cx)).await.unwrap();
                arecv = Some(r);
            }
        }
        // read the hello byte away (exactly one byte was sent, so the first chunk is that byte)
        let r = arecv.as_mut().unwrap();
        match poll_fn(|cx| r.poll_data(cx)).await {
            Ok(Some(b)) if b[..] == [0xaa] => {}
            _ => return "setup-failed".into(),
        }
    }

    // ---- the ops
    let mut rhash = Hash::new(); // everything the adapter side has read
    for op in &ops {
        let p: Vec<&str> = op.split(':').collect();
        let num = |i: usize| -> Option<u64> { p.get(i).and_then(|x| x.parse::<u64>().ok()) };
        let tok: String = match p[0] {
            // ---------------- adapter, send half
            "sd" | "w" => {
                let (Some(s), Some(f), Some(n), Some(seed)) = (asend.as_mut(), p.get(1), num(2), num(3)) else {
                    return "bad-op".into();
                };
                let Some(wb) = write_buf(f, n as usize, seed) else { return "bad-op".into() };
                match s.send_data(wb) {
                    Err(StreamErrorIncoming::ConnectionErrorIncoming {
                        connection_error: ConnectionErrorIncoming::InternalError(_),
                    }) => format!("{}=refused", p[0]),
                    Err(e) => format!("{}=err:{}", p[0], stream_err(&e)),
                    Ok(()) if p[0] == "sd" => "sd=ok".into(),
                    Ok(()) => match tokio::time::timeout(OP_TIMEOUT, poll_fn(|cx| s.poll_ready(cx))).await {
                        Err(_) => "w=timeout".into(),
                        Ok(r) => format!("w={}", poll_res(Poll::Ready(r))),
                    },
                }
            }
            "pr1" => {
                let Some(s) = asend.as_mut() else { return "bad-op".into() };
                let r = poll_fn(|cx| Poll::Ready(s.poll_ready(cx))).await;
                format!("pr1={}", poll_res(r))
            }
            "pr" => {
                let Some(s) = asend.as_mut() else { return "bad-op".into() };
                match tokio::time::timeout(OP_TIMEOUT, poll_fn(|cx| s.poll_ready(cx))).await {
                    Err(_) => "pr=timeout".into(),
                    Ok(r) => format!("pr={}", poll_res(Poll::Ready(r))),
                }
            }
            "fin" => {
                let Some(s) = asend.as_mut() else { return "bad-op".into() };
                let r = poll_fn(|cx| Poll::Ready(s.poll_finish(cx))).await;
                format!("fin={}", poll_res(r))
            }
            "rst" => {
                let (Some(s), Some(c)) = (asend.as_mut(), num(1)) else { return "bad-op".into() };
                s.reset(c);
                "rst".into()
            }
            "sid" => {
                let Some(s) = asend.as_ref() else { return "bad-op".into() };
                match catch_unwind(AssertUnwindSafe(|| s.send_id())) {
                    Ok(id) => format!("sid={}", id.into_inner()),
                    Err(_) => "sid=panic".into(),
                }
            }
            // ---------------- adapter, receive half
            "rid" => {
                let Some(r) = arecv.as_ref() else { return "bad-op".into() };
                match catch_unwind(AssertUnwindSafe(|| r.recv_id())) {
                    Ok(id) => format!("rid={}", id.into_inner()),
                    Err(_) => "rid=panic".into(),
                }
            }
            "pd1" => {
                let Some(r) = arecv.as_mut() else { return "bad-op".into() };
                let x = poll_fn(|cx| Poll::Ready(r.poll_data(cx))).await;
                format!("pd1={}", data_res(x, &mut rhash))
            }
            "pdc" => {
                // a read that is started and then cancelled (the future is dropped)
                let Some(r) = arecv.as_mut() else { return "bad-op".into() };
                let ms = num(1).unwrap_or(1);
                let fut = poll_fn(|cx| r.poll_data(cx));
                match tokio::time::timeout(Duration::from_millis(ms), fut).await {
                    Err(_) => "pdc=cancelled".into(),
                    Ok(x) => format!("pdc={}", data_res(Poll::Ready(x), &mut rhash)),
                }
            }
            "pd" => {
                let Some(r) = arecv.as_mut() else { return "bad-op".into() };
                match tokio::time::timeout(OP_TIMEOUT, poll_fn(|cx| r.poll_data(cx))).await {
                    Err(_) => "pd=timeout".into(),
                    Ok(x) => format!("pd={}", data_res(Poll::Ready(x), &mut rhash)),
                }
            }
            "rdall" => {
                let Some(r) = arecv.as_mut() else { return "bad-op".into() };
                let res = tokio::time::timeout(OP_TIMEOUT, async {
                    loop {
                        match poll_fn(|cx| r.poll_data(cx)).await {
                            Ok(Some(b)) => rhash.feed(&b),
                            Ok(None) => break format!("{}:end", rhash.show()),
                            Err(e) => break format!("err:{}", stream_err(&e)),
                        }
                    }
                })
                .await;
                match res {
                    Err(_) => "rdall=timeout".into(),
                    Ok(s) => format!("rdall={}", s),
                }
            }
            "stop" => {
                let (Some(r), Some(c)) = (arecv.as_mut(), num(1)) else { return "bad-op".into() };
                match catch_unwind(AssertUnwindSafe(|| r.stop_sending(c))) {
                    Ok(()) => "stop".into(),
                    Err(_) => "stop=panic".into(),
                }
            }
            "dropr" => {
                arecv = None;
                "dropr".into()
            }
            // ---------------- adapter, connection
            "aclose" => {
                let Some(c) = num(1) else { return "bad-op".into() };
                match catch_unwind(AssertUnwindSafe(|| {
                    h3::quic::OpenStreams::<Bytes>::close(&mut a, h3::error::Code::from(c), b"")
                })) {
                    Ok(()) => "aclose".into(),
                    Err(_) => "aclose=panic".into(),
                }
            }
            // ---------------- raw peer
            "pbg" => {
                let (tx, rx) = oneshot::channel();
                let _ = peer.r.send(RCmd::ReadAll(tx));
                peer.result = Some(rx);
                "pbg".into()
            }
            "pjoin" => match peer.result.take() {
                None => "peer=none".into(),
                Some(rx) => match tokio::time::timeout(OP_TIMEOUT, rx).await {
                    Ok(Ok(s)) => format!("peer={}", s),
                    Ok(Err(_)) => "peer=gone".into(),
                    Err(_) => "peer=timeout".into(),
                },
            },
            "pstop" => {
                let Some(c) = num(1) else { return "bad-op".into() };
                let _ = peer.r.send(RCmd::Stop(c));
                "pstop".into()
            }
            "pw" => {
                let (Some(n), Some(seed)) = (num(1), num(2)) else { return "bad-op".into() };
                let _ = peer.w.send(WCmd::Write(payload(n as usize, seed)));
                "pw".into()
            }
            "pfin" => {
                let _ = peer.w.send(WCmd::Fin);
                "pfin".into()
            }
            "prst" => {
                let Some(c) = num(1) else { return "bad-op".into() };
                let _ = peer.w.send(WCmd::Reset(c));
                "prst".into()
            }
            "prstnow" => {
                let Some(c) = num(1) else { return "bad-op".into() };
                let _ = peer.urgent.send(c);
                "prstnow".into()
            }
            "pstopped" => {
                let (tx, rx) = oneshot::channel();
                let _ = peer.w.send(WCmd::Stopped(tx));
                match tokio::time::timeout(OP_TIMEOUT, rx).await {
                    Ok(Ok(s)) => format!("pstopped={}", s),
                    Ok(Err(_)) => "pstopped=gone".into(),
                    Err(_) => "pstopped=timeout".into(),
                }
            }
            "pclose" => {
                let Some(c) = num(1) else { return "bad-op".into() };
                peer.conn.close(VarInt::from_u64(c).unwrap(), b"");
                "pclose".into()
            }
            "pclosed" => match tokio::time::timeout(OP_TIMEOUT, peer.conn.closed()).await {
                Ok(e) => format!("pclosed={}", raw_conn_err(&e)),
                Err(_) => "pclosed=timeout".into(),
            },
            "settle" => {
                tokio::time::sleep(Duration::from_millis(num(1).unwrap_or(20))).await;
                "settle".into()
            }
            _ => return "bad-op".into(),
        };
        out.push(tok);
    }
    drop((asend, arecv, skipped));
    drop(a);
    cep.close(VarInt::from_u32(0), b"");
    sep.close(VarInt::from_u32(0), b"");
    out.join(" ")
}

pub fn handle(w: &[&str]) -> String {
    if w.len() < 2 || w[0] != "quinn" {
        return "bad-op".into();
    }
    let Some(cfg) = parse_cfg(w[1]) else { return "bad-op".into() };
    let ops: Vec<String> = w[2..].iter().map(|s| s.to_string()).collect();
    guarded(|| {
        let rt = tokio::runtime::Builder::new_current_thread().enable_all().build().unwrap();
        let r = rt.block_on(async {
            match tokio::time::timeout(Duration::from_secs(15), scenario(cfg, ops)).await {
                Ok(s) => s,
                Err(_) => "timeout".into(),
            }
        });
        rt.shutdown_timeout(Duration::from_millis(100));
        r
    })
}
