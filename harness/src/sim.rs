//! Deterministic in-memory QUIC transport implementing the `h3::quic` traits ("SimQuic").
//!
//! Every stream direction is a byte queue with explicit peer events (deliver bytes, FIN,
//! RESET, STOP_SENDING), every send side has an explicit write credit, opening streams needs
//! stream credit, and the connection can be closed by the peer or time out.  Wakers are stored
//! and woken exactly when the awaited condition changes, so that an executor which only polls
//! woken tasks can observe lost wake-ups and hangs.
#![allow(dead_code)]
use bytes::{Buf, Bytes};
use h3::quic::{self, ConnectionErrorIncoming, StreamErrorIncoming, StreamId, WriteBuf};
use std::cell::RefCell;
use std::collections::{BTreeMap, VecDeque};
use std::rc::Rc;
use std::task::{Context, Poll, Waker};

#[derive(Debug, Clone)]
pub enum Rx {
    Chunk(Bytes),
    Fin,
    Reset(u64),
}

pub const UNLIMITED: usize = usize::MAX;

#[derive(Default)]
pub struct Stream {
    pub id: u64,
    // peer -> h3
    pub rx: VecDeque<Rx>,
    /// sticky Fin/Reset once reached
    pub rx_done: Option<Rx>,
    pub rx_waker: Option<Waker>,
    /// h3 asked the peer to stop sending (first code, number of calls)
    pub stop_sending: Option<u64>,
    pub stop_sending_calls: u32,
    // h3 -> peer
    pub tx: Vec<u8>,
    pub tx_credit: usize,
    pub tx_fin: bool,
    pub tx_reset: Option<u64>,
    /// peer sent STOP_SENDING
    pub peer_stopped: Option<u64>,
    pub writing: Option<WriteBuf<Bytes>>,
    pub tx_waker: Option<Waker>,
    /// h3 wrote after finishing or resetting the stream
    pub tx_misuse: bool,
    /// `send_data` was called while a write was in progress
    pub tx_overlap: bool,
    /// sizes accepted by each successful partial write (for evidence)
    pub accepted: Vec<usize>,
    /// fault injection: the send / receive side of this stream answers `StreamErrorIncoming::Unknown`
    /// from now on (set when an injected `K` fault fired on it)
    pub tx_broken: bool,
    pub rx_broken: bool,
}

/// Fault injection (scenario op `!<site>[<target>][@<skip>]:<err>`): the next call (after `skip`
/// further calls) of one transport entry point answers an error instead of doing its work.
#[derive(Clone, Copy, PartialEq, Eq, Debug)]
pub enum Site {
    /// `poll_open_send`; target = ordinal of the unidirectional stream the call would open (0 = control)
    OpenUni,
    /// `poll_open_bidi`; target = ordinal of the bidirectional stream the call would open
    OpenBidi,
    /// `send_data` / `poll_ready` / `poll_finish` / `poll_send` on the send side of stream `target`
    SendData,
    PollReady,
    PollFinish,
    /// `poll_accept_recv` / `poll_accept_bidi` (no target)
    AcceptUni,
    AcceptBidi,
    /// `poll_data` on the receive side of stream `target`
    RecvData,
}

#[derive(Clone, Debug)]
pub enum FaultErr {
    /// a connection error; it is sticky: the whole simulated connection fails with it (`Net::fail`)
    Conn(ConnectionErrorIncoming),
    /// `StreamErrorIncoming::StreamTerminated` (send side: as if the peer had sent STOP_SENDING;
    /// receive side: as if it had sent RESET_STREAM); at an open site: that one call fails
    Term(u64),
    /// `StreamErrorIncoming::Unknown`; sticky on that side of the stream; at an open site: that one call fails
    Unknown,
    /// not an error: `poll_finish` answers `Pending` once (`P`, site `pf` only; nobody wakes the task)
    Pend,
}

#[derive(Clone, Debug)]
pub struct Fault {
    pub site: Site,
    pub target: Option<u64>,
    pub skip: u32,
    pub err: FaultErr,
    pub label: String,
}

/// `<site>[<target>][@<skip>]:<err>`; sites `ou ob sd pr pf au ab rd`; errors `C<code>` application
/// close, `T` timeout, `I` InternalError, `U` Undefined (connection errors), `X<code>`
/// StreamTerminated, `K` Unknown (stream errors; not at `au`/`ab`)
pub fn parse_fault(s: &str) -> Option<Fault> {
    let (head, err) = s.split_once(':')?;
    let (head, skip) = match head.split_once('@') {
        Some((h, k)) => (h, k.parse::<u32>().ok()?),
        None => (head, 0),
    };
    if head.len() < 2 || !head.is_char_boundary(2) {
        return None;
    }
    let site = match &head[..2] {
        "ou" => Site::OpenUni,
        "ob" => Site::OpenBidi,
        "sd" => Site::SendData,
        "pr" => Site::PollReady,
        "pf" => Site::PollFinish,
        "au" => Site::AcceptUni,
        "ab" => Site::AcceptBidi,
        "rd" => Site::RecvData,
        _ => return None,
    };
    let target = if head.len() > 2 { Some(head[2..].parse::<u64>().ok()?) } else { None };
    let on_stream = matches!(site, Site::SendData | Site::PollReady | Site::PollFinish | Site::RecvData);
    let accept = matches!(site, Site::AcceptUni | Site::AcceptBidi);
    if (on_stream && target.is_none()) || (accept && target.is_some()) {
        return None;
    }
    let err = match err.as_bytes().first()? {
        b'C' => FaultErr::Conn(ConnectionErrorIncoming::ApplicationClose { error_code: err[1..].parse().ok()? }),
        b'T' if err == "T" => FaultErr::Conn(ConnectionErrorIncoming::Timeout),
        b'I' if err == "I" => FaultErr::Conn(ConnectionErrorIncoming::InternalError("sim".into())),
        b'U' if err == "U" => {
            let e: Box<dyn std::error::Error + Send + Sync> = "sim".into();
            FaultErr::Conn(ConnectionErrorIncoming::Undefined(std::sync::Arc::from(e)))
        }
        b'X' if !accept => FaultErr::Term(err[1..].parse().ok()?),
        b'K' if err == "K" && !accept => FaultErr::Unknown,
        b'P' if err == "P" && site == Site::PollFinish => FaultErr::Pend,
        _ => return None,
    };
    Some(Fault { site, target, skip, err, label: s.to_string() })
}

fn unknown_err() -> StreamErrorIncoming {
    StreamErrorIncoming::Unknown("sim".into())
}

/// is a fault due at this call?  A connection error makes the whole connection fail (sticky).
fn fault(net: &NetRef, site: Site, target: u64) -> Option<FaultErr> {
    let mut n = net.borrow_mut();
    if n.faults.is_empty() {
        return None;
    }
    let i = n
        .faults
        .iter()
        .position(|f| f.site == site && f.target.map(|t| t == target).unwrap_or(true) && !matches!(f.err, FaultErr::Pend))?;
    if n.faults[i].skip > 0 {
        n.faults[i].skip -= 1;
        return None;
    }
    let f = n.faults.remove(i);
    n.fired.push(f.label.clone());
    n.event(format!("!{}", f.label));
    if let FaultErr::Conn(e) = &f.err {
        n.fail(e.clone());
    }
    Some(f.err)
}

/// is a `P` fault due at this `poll_finish`?
fn pend_fault(net: &NetRef, id: u64) -> bool {
    let mut n = net.borrow_mut();
    let Some(i) = n
        .faults
        .iter()
        .position(|f| f.site == Site::PollFinish && f.target == Some(id) && matches!(f.err, FaultErr::Pend))
    else {
        return false;
    };
    if n.faults[i].skip > 0 {
        n.faults[i].skip -= 1;
        return false;
    }
    let f = n.faults.remove(i);
    n.fired.push(f.label.clone());
    n.event(format!("!{}", f.label));
    true
}

fn stream_err(e: FaultErr) -> StreamErrorIncoming {
    match e {
        FaultErr::Conn(c) => StreamErrorIncoming::ConnectionErrorIncoming { connection_error: c },
        FaultErr::Term(c) => StreamErrorIncoming::StreamTerminated { error_code: c },
        FaultErr::Unknown | FaultErr::Pend => unknown_err(),
    }
}

/// a fault due at a send-side call of stream `id` (and the sticky `Unknown` state)
fn send_fault(net: &NetRef, site: Site, id: u64) -> Option<StreamErrorIncoming> {
    if net.borrow().streams.get(&id).map(|s| s.tx_broken).unwrap_or(false) {
        return Some(unknown_err());
    }
    let e = fault(net, site, id)?;
    let mut n = net.borrow_mut();
    if let Some(s) = n.streams.get_mut(&id) {
        match &e {
            FaultErr::Term(c) => {
                s.peer_stopped.get_or_insert(*c);
                s.writing = None;
            }
            FaultErr::Unknown => {
                s.tx_broken = true;
                s.writing = None;
            }
            FaultErr::Conn(_) | FaultErr::Pend => {}
        }
    }
    Some(stream_err(e))
}

#[derive(Default)]
pub struct Net {
    pub streams: BTreeMap<u64, Stream>,
    pub incoming_uni: VecDeque<u64>,
    pub incoming_bidi: VecDeque<u64>,
    pub accept_uni_waker: Option<Waker>,
    pub accept_bidi_waker: Option<Waker>,
    pub uni_credit: usize,
    pub bidi_credit: usize,
    pub open_wakers: Vec<Waker>,
    pub next_local_uni: u64,
    pub next_local_bidi: u64,
    /// `close(code, reason)` calls made by h3
    pub closed: Vec<(u64, Vec<u8>)>,
    pub conn_err: Option<ConnectionErrorIncoming>,
    pub default_tx_credit: usize,
    pub server: bool,
    /// order in which h3 opened its streams
    pub opened: Vec<u64>,
    /// datagrams from the peer not yet read / datagrams h3 sent
    pub dgram_rx: VecDeque<Bytes>,
    pub dgram_rx_waker: Option<Waker>,
    pub dgram_tx: Vec<Vec<u8>>,
    /// what `send_datagram` answers (peer op `dq:<mode>`, added for C18); default: every datagram is accepted
    pub dgram_send_mode: DgMode,
    /// test hook: called by `poll_accept_bidi` before it looks at the queue; `Some(e)` makes the
    /// call fail with `e` (used by the C05 engine to stop the driver inside the transport)
    pub accept_bidi_gate: Option<Box<dyn FnMut() -> Option<ConnectionErrorIncoming>>>,
    /// cfg `ev=1`: what h3 does on the transport is also logged, in order, into the scenario trace
    /// (`w<sid>:<hex>` bytes accepted, `fin<sid>`, `rst<sid>:<code>`, `stop<sid>:<code>`, `close:<code>`)
    pub events: Option<Rc<RefCell<Vec<String>>>>,
    /// fault injection: armed faults, labels of the faults that fired (in order), was any fault armed
    pub faults: Vec<Fault>,
    pub fired: Vec<String>,
    pub fault_seen: bool,
    /// cfg `hold=1`: the connection task calls `builder.build(conn)` only when told to (`<task>.B`)
    pub hold: bool,
    /// cfg `ops=1`: the interpreter logs every op into the trace (`@<op>`)
    pub log_ops: bool,
    /// cfg `rxhalt=1` (C07, reading R-07): once a receive call of a request task has answered an error, its
    /// later receive calls are not made (`<cmd>=skipped`): the documented receive pattern ends with an error
    pub rxhalt: bool,
}
pub type NetRef = Rc<RefCell<Net>>;

fn wake(w: &mut Option<Waker>) {
    if let Some(w) = w.take() {
        w.wake();
    }
}

impl Net {
    pub fn new(server: bool) -> NetRef {
        Rc::new(RefCell::new(Net {
            uni_credit: UNLIMITED,
            bidi_credit: UNLIMITED,
            default_tx_credit: UNLIMITED,
            server,
            ..Default::default()
        }))
    }
    fn mk(&mut self, id: u64) {
        let s = Stream { id, tx_credit: self.default_tx_credit, ..Default::default() };
        self.streams.insert(id, s);
    }
    /// peer opens a stream towards h3
    pub fn peer_open(&mut self, id: u64) {
        if self.streams.contains_key(&id) {
            return;
        }
        self.mk(id);
        if id & 2 == 0 {
            self.incoming_bidi.push_back(id);
            wake(&mut self.accept_bidi_waker);
        } else {
            self.incoming_uni.push_back(id);
            wake(&mut self.accept_uni_waker);
        }
    }
    pub fn peer_send(&mut self, id: u64, ev: Rx) {
        if let Some(s) = self.streams.get_mut(&id) {
            s.rx.push_back(ev);
            wake(&mut s.rx_waker);
        }
    }
    /// peer sends STOP_SENDING for h3's send side of `id`
    pub fn peer_stop(&mut self, id: u64, code: u64) {
        if let Some(s) = self.streams.get_mut(&id) {
            s.peer_stopped.get_or_insert(code);
            wake(&mut s.tx_waker);
        }
    }
    pub fn grant_write(&mut self, id: u64, n: usize) {
        if let Some(s) = self.streams.get_mut(&id) {
            if s.tx_credit != UNLIMITED {
                s.tx_credit = s.tx_credit.saturating_add(n);
            }
            wake(&mut s.tx_waker);
        }
    }
    /// set the write credit of `id` to exactly `n` (the stream becomes credit-limited)
    pub fn set_write_credit(&mut self, id: u64, n: usize) {
        if let Some(s) = self.streams.get_mut(&id) {
            s.tx_credit = n;
            if n > 0 {
                wake(&mut s.tx_waker);
            }
        }
    }
    pub fn grant_streams(&mut self, uni: usize, bidi: usize) {
        if self.uni_credit != UNLIMITED {
            self.uni_credit += uni;
        }
        if self.bidi_credit != UNLIMITED {
            self.bidi_credit += bidi;
        }
        for w in self.open_wakers.drain(..) {
            w.wake();
        }
    }
    /// the peer closes the connection / the connection times out
    pub fn fail(&mut self, e: ConnectionErrorIncoming) {
        if self.conn_err.is_some() {
            return;
        }
        self.conn_err = Some(e);
        wake(&mut self.accept_bidi_waker);
        wake(&mut self.accept_uni_waker);
        for w in self.open_wakers.drain(..) {
            w.wake();
        }
        for s in self.streams.values_mut() {
            wake(&mut s.rx_waker);
            wake(&mut s.tx_waker);
        }
        wake(&mut self.dgram_rx_waker);
    }
    pub fn peer_datagram(&mut self, b: Bytes) {
        self.dgram_rx.push_back(b);
        wake(&mut self.dgram_rx_waker);
    }
    pub fn event(&self, e: String) {
        if let Some(t) = &self.events {
            t.borrow_mut().push(e);
        }
    }
    pub fn tx(&self, id: u64) -> Vec<u8> {
        self.streams.get(&id).map(|s| s.tx.clone()).unwrap_or_default()
    }
}

pub struct SimConn {
    pub net: NetRef,
}
#[derive(Clone)]
pub struct SimOpen {
    pub net: NetRef,
}
pub struct SimStream {
    net: NetRef,
    pub id: u64,
}

fn conn_err(net: &NetRef) -> Option<ConnectionErrorIncoming> {
    net.borrow().conn_err.clone()
}

fn open(net: &NetRef, bidi: bool, cx: &mut Context<'_>) -> Poll<Result<SimStream, StreamErrorIncoming>> {
    if let Some(e) = conn_err(net) {
        return Poll::Ready(Err(StreamErrorIncoming::ConnectionErrorIncoming { connection_error: e }));
    }
    let ordinal = if bidi { net.borrow().next_local_bidi } else { net.borrow().next_local_uni };
    if let Some(e) = fault(net, if bidi { Site::OpenBidi } else { Site::OpenUni }, ordinal) {
        return Poll::Ready(Err(stream_err(e)));
    }
    let mut n = net.borrow_mut();
    let credit = if bidi { n.bidi_credit } else { n.uni_credit };
    if credit == 0 {
        n.open_wakers.push(cx.waker().clone());
        return Poll::Pending;
    }
    if credit != UNLIMITED {
        if bidi {
            n.bidi_credit -= 1
        } else {
            n.uni_credit -= 1
        }
    }
    let side = if n.server { 1 } else { 0 };
    let id = if bidi {
        let i = n.next_local_bidi;
        n.next_local_bidi += 1;
        i << 2 | side
    } else {
        let i = n.next_local_uni;
        n.next_local_uni += 1;
        i << 2 | 2 | side
    };
    n.mk(id);
    n.opened.push(id);
    drop(n);
    Poll::Ready(Ok(SimStream { net: net.clone(), id }))
}

fn do_close(net: &NetRef, code: h3::error::Code, reason: &[u8]) {
    let mut n = net.borrow_mut();
    n.closed.push((code.value(), reason.to_vec()));
    n.event(format!("close:{}", code.value()));
}

impl quic::OpenStreams<Bytes> for SimConn {
    type BidiStream = SimStream;
    type SendStream = SimStream;
    fn poll_open_bidi(&mut self, cx: &mut Context<'_>) -> Poll<Result<SimStream, StreamErrorIncoming>> {
        open(&self.net, true, cx)
    }
    fn poll_open_send(&mut self, cx: &mut Context<'_>) -> Poll<Result<SimStream, StreamErrorIncoming>> {
        open(&self.net, false, cx)
    }
    fn close(&mut self, code: h3::error::Code, reason: &[u8]) {
        do_close(&self.net, code, reason)
    }
}
impl quic::OpenStreams<Bytes> for SimOpen {
    type BidiStream = SimStream;
    type SendStream = SimStream;
    fn poll_open_bidi(&mut self, cx: &mut Context<'_>) -> Poll<Result<SimStream, StreamErrorIncoming>> {
        open(&self.net, true, cx)
    }
    fn poll_open_send(&mut self, cx: &mut Context<'_>) -> Poll<Result<SimStream, StreamErrorIncoming>> {
        open(&self.net, false, cx)
    }
    fn close(&mut self, code: h3::error::Code, reason: &[u8]) {
        do_close(&self.net, code, reason)
    }
}
impl quic::Connection<Bytes> for SimConn {
    type RecvStream = SimStream;
    type OpenStreams = SimOpen;
    fn poll_accept_recv(&mut self, cx: &mut Context<'_>) -> Poll<Result<SimStream, ConnectionErrorIncoming>> {
        if let Some(e) = conn_err(&self.net) {
            return Poll::Ready(Err(e));
        }
        if let Some(FaultErr::Conn(e)) = fault(&self.net, Site::AcceptUni, 0) {
            return Poll::Ready(Err(e));
        }
        let mut n = self.net.borrow_mut();
        match n.incoming_uni.pop_front() {
            Some(id) => {
                drop(n);
                Poll::Ready(Ok(SimStream { net: self.net.clone(), id }))
            }
            None => {
                n.accept_uni_waker = Some(cx.waker().clone());
                Poll::Pending
            }
        }
    }
    fn poll_accept_bidi(&mut self, cx: &mut Context<'_>) -> Poll<Result<SimStream, ConnectionErrorIncoming>> {
        let gate = self.net.borrow_mut().accept_bidi_gate.take();
        if let Some(mut g) = gate {
            let r = g();
            self.net.borrow_mut().accept_bidi_gate = Some(g);
            if let Some(e) = r {
                return Poll::Ready(Err(e));
            }
        }
        if let Some(e) = conn_err(&self.net) {
            return Poll::Ready(Err(e));
        }
        if let Some(FaultErr::Conn(e)) = fault(&self.net, Site::AcceptBidi, 0) {
            return Poll::Ready(Err(e));
        }
        let mut n = self.net.borrow_mut();
        match n.incoming_bidi.pop_front() {
            Some(id) => {
                drop(n);
                Poll::Ready(Ok(SimStream { net: self.net.clone(), id }))
            }
            None => {
                n.accept_bidi_waker = Some(cx.waker().clone());
                Poll::Pending
            }
        }
    }
    fn opener(&self) -> SimOpen {
        SimOpen { net: self.net.clone() }
    }
}
impl quic::RecvStream for SimStream {
    type Buf = Bytes;
    fn poll_data(&mut self, cx: &mut Context<'_>) -> Poll<Result<Option<Bytes>, StreamErrorIncoming>> {
        if let Some(e) = conn_err(&self.net) {
            return Poll::Ready(Err(StreamErrorIncoming::ConnectionErrorIncoming { connection_error: e }));
        }
        if self.net.borrow().streams.get(&self.id).map(|s| s.rx_broken).unwrap_or(false) {
            return Poll::Ready(Err(unknown_err()));
        }
        match fault(&self.net, Site::RecvData, self.id) {
            Some(FaultErr::Conn(e)) => {
                return Poll::Ready(Err(StreamErrorIncoming::ConnectionErrorIncoming { connection_error: e }))
            }
            Some(FaultErr::Unknown) => {
                self.net.borrow_mut().streams.get_mut(&self.id).expect("stream").rx_broken = true;
                return Poll::Ready(Err(unknown_err()));
            }
            // as if the peer had reset the stream now
            Some(FaultErr::Term(c)) => {
                let mut n = self.net.borrow_mut();
                let s = n.streams.get_mut(&self.id).expect("stream");
                if s.rx_done.is_none() {
                    s.rx_done = Some(Rx::Reset(c));
                    s.rx.clear();
                }
            }
            Some(FaultErr::Pend) | None => {}
        }
        let mut n = self.net.borrow_mut();
        let s = n.streams.get_mut(&self.id).expect("stream");
        if let Some(d) = s.rx_done.clone() {
            return Poll::Ready(match d {
                Rx::Fin => Ok(None),
                Rx::Reset(c) => Err(StreamErrorIncoming::StreamTerminated { error_code: c }),
                _ => unreachable!(),
            });
        }
        match s.rx.pop_front() {
            None => {
                s.rx_waker = Some(cx.waker().clone());
                Poll::Pending
            }
            Some(Rx::Chunk(b)) => Poll::Ready(Ok(Some(b))),
            Some(Rx::Fin) => {
                s.rx_done = Some(Rx::Fin);
                Poll::Ready(Ok(None))
            }
            Some(Rx::Reset(c)) => {
                s.rx_done = Some(Rx::Reset(c));
                s.rx.clear();
                Poll::Ready(Err(StreamErrorIncoming::StreamTerminated { error_code: c }))
            }
        }
    }
    fn stop_sending(&mut self, code: u64) {
        let mut n = self.net.borrow_mut();
        n.event(format!("stop{}:{}", self.id, code));
        let s = n.streams.get_mut(&self.id).expect("stream");
        s.stop_sending.get_or_insert(code);
        s.stop_sending_calls += 1;
    }
    fn recv_id(&self) -> StreamId {
        StreamId::try_from(self.id).unwrap()
    }
}
impl quic::SendStream<Bytes> for SimStream {
    fn poll_ready(&mut self, cx: &mut Context<'_>) -> Poll<Result<(), StreamErrorIncoming>> {
        if let Some(e) = conn_err(&self.net) {
            return Poll::Ready(Err(StreamErrorIncoming::ConnectionErrorIncoming { connection_error: e }));
        }
        if let Some(e) = send_fault(&self.net, Site::PollReady, self.id) {
            return Poll::Ready(Err(e));
        }
        let mut n = self.net.borrow_mut();
        let events = n.events.clone();
        let s = n.streams.get_mut(&self.id).expect("stream");
        if let Some(c) = s.peer_stopped {
            s.writing = None;
            return Poll::Ready(Err(StreamErrorIncoming::StreamTerminated { error_code: c }));
        }
        if let Some(w) = s.writing.as_mut() {
            while w.has_remaining() {
                if s.tx_credit == 0 {
                    s.tx_waker = Some(cx.waker().clone());
                    return Poll::Pending;
                }
                let c = w.chunk();
                let k = c.len().min(s.tx_credit);
                if s.tx_fin || s.tx_reset.is_some() {
                    s.tx_misuse = true;
                }
                s.tx.extend_from_slice(&c[..k]);
                if let Some(t) = &events {
                    t.borrow_mut().push(format!("w{}:{}", self.id, crate::util::to_hex(&c[..k])));
                }
                s.accepted.push(k);
                if s.tx_credit != UNLIMITED {
                    s.tx_credit -= k;
                }
                w.advance(k);
            }
        }
        s.writing = None;
        Poll::Ready(Ok(()))
    }
    fn send_data<T: Into<WriteBuf<Bytes>>>(&mut self, data: T) -> Result<(), StreamErrorIncoming> {
        if let Some(e) = send_fault(&self.net, Site::SendData, self.id) {
            return Err(e);
        }
        let mut n = self.net.borrow_mut();
        let s = n.streams.get_mut(&self.id).expect("stream");
        if s.writing.is_some() {
            s.tx_overlap = true;
            return Err(StreamErrorIncoming::ConnectionErrorIncoming {
                connection_error: ConnectionErrorIncoming::InternalError("send_data while writing".into()),
            });
        }
        s.writing = Some(data.into());
        Ok(())
    }
    fn poll_finish(&mut self, cx: &mut Context<'_>) -> Poll<Result<(), StreamErrorIncoming>> {
        if let Some(e) = conn_err(&self.net) {
            return Poll::Ready(Err(StreamErrorIncoming::ConnectionErrorIncoming { connection_error: e }));
        }
        if pend_fault(&self.net, self.id) {
            if let Some(s) = self.net.borrow_mut().streams.get_mut(&self.id) {
                s.tx_waker = Some(cx.waker().clone());
            }
            return Poll::Pending;
        }
        if let Some(e) = send_fault(&self.net, Site::PollFinish, self.id) {
            return Poll::Ready(Err(e));
        }
        let mut n = self.net.borrow_mut();
        n.event(format!("fin{}", self.id));
        let s = n.streams.get_mut(&self.id).expect("stream");
        s.tx_fin = true;
        Poll::Ready(Ok(()))
    }
    fn reset(&mut self, code: u64) {
        let mut n = self.net.borrow_mut();
        n.event(format!("rst{}:{}", self.id, code));
        let s = n.streams.get_mut(&self.id).expect("stream");
        s.tx_reset.get_or_insert(code);
    }
    fn send_id(&self) -> StreamId {
        StreamId::try_from(self.id).unwrap()
    }
}
impl quic::BidiStream<Bytes> for SimStream {
    type SendStream = SimStream;
    type RecvStream = SimStream;
    fn split(self) -> (SimStream, SimStream) {
        (SimStream { net: self.net.clone(), id: self.id }, self)
    }
}

impl quic::SendStreamUnframed<Bytes> for SimStream {
    fn poll_send<D: Buf>(&mut self, cx: &mut Context<'_>, buf: &mut D) -> Poll<Result<usize, StreamErrorIncoming>> {
        if let Some(e) = conn_err(&self.net) {
            return Poll::Ready(Err(StreamErrorIncoming::ConnectionErrorIncoming { connection_error: e }));
        }
        if let Some(e) = send_fault(&self.net, Site::SendData, self.id) {
            return Poll::Ready(Err(e));
        }
        let mut n = self.net.borrow_mut();
        let s = n.streams.get_mut(&self.id).expect("stream");
        if let Some(c) = s.peer_stopped {
            return Poll::Ready(Err(StreamErrorIncoming::StreamTerminated { error_code: c }));
        }
        if s.writing.is_some() {
            s.tx_overlap = true;
        }
        if !buf.has_remaining() {
            return Poll::Ready(Ok(0));
        }
        if s.tx_credit == 0 {
            s.tx_waker = Some(cx.waker().clone());
            return Poll::Pending;
        }
        let c = buf.chunk();
        let k = c.len().min(s.tx_credit);
        if s.tx_fin || s.tx_reset.is_some() {
            s.tx_misuse = true;
        }
        s.tx.extend_from_slice(&c[..k]);
        s.accepted.push(k);
        if s.tx_credit != UNLIMITED {
            s.tx_credit -= k;
        }
        buf.advance(k);
        Poll::Ready(Ok(k))
    }
}

// ---------------------------------------------------------------- datagrams (h3-datagram traits)

/// The answers a QUIC transport may give to `send_datagram` (peer op `dq:<mode>`): `ok` accept everything,
/// `na` NotAvailable (the peer does not take datagrams), `tl` TooLarge whatever the size, `max=<n>` TooLarge
/// iff the encoded datagram is longer than `n` bytes (what a real transport does), `C<code>` / `T` / `I` /
/// `U` ConnectionError(ApplicationClose / Timeout / InternalError / Undefined) - told to the datagram sender
/// ONLY: the rest of the simulated transport goes on as before, so that the connection learns of it from
/// h3-datagram or not at all.
#[derive(Clone, Default)]
pub enum DgMode {
    #[default]
    Ok,
    NotAvailable,
    TooLarge,
    Max(usize),
    Conn(ConnectionErrorIncoming),
}

pub fn parse_dg_mode(s: &str) -> Option<DgMode> {
    Some(match s {
        "ok" => DgMode::Ok,
        "na" => DgMode::NotAvailable,
        "tl" => DgMode::TooLarge,
        "T" => DgMode::Conn(ConnectionErrorIncoming::Timeout),
        "I" => DgMode::Conn(ConnectionErrorIncoming::InternalError("sim".into())),
        "U" => {
            let e: Box<dyn std::error::Error + Send + Sync> = "sim".into();
            DgMode::Conn(ConnectionErrorIncoming::Undefined(std::sync::Arc::from(e)))
        }
        _ => {
            if let Some(n) = s.strip_prefix("max=") {
                DgMode::Max(n.parse().ok()?)
            } else if let Some(c) = s.strip_prefix('C') {
                DgMode::Conn(ConnectionErrorIncoming::ApplicationClose { error_code: c.parse().ok()? })
            } else {
                return None;
            }
        }
    })
}

pub struct SimDgramSend {
    net: NetRef,
}
pub struct SimDgramRecv {
    net: NetRef,
}

impl h3_datagram::quic_traits::SendDatagram<Bytes> for SimDgramSend {
    fn send_datagram<T: Into<h3_datagram::datagram::EncodedDatagram<Bytes>>>(
        &mut self,
        data: T,
    ) -> Result<(), h3_datagram::quic_traits::SendDatagramErrorIncoming> {
        if let Some(e) = conn_err(&self.net) {
            return Err(h3_datagram::quic_traits::SendDatagramErrorIncoming::ConnectionError(e));
        }
        use h3_datagram::quic_traits::SendDatagramErrorIncoming as E;
        let mode = self.net.borrow().dgram_send_mode.clone();
        match &mode {
            DgMode::NotAvailable => return Err(E::NotAvailable),
            DgMode::TooLarge => return Err(E::TooLarge),
            DgMode::Conn(e) => return Err(E::ConnectionError(e.clone())),
            DgMode::Ok | DgMode::Max(_) => {}
        }
        let mut buf: h3_datagram::datagram::EncodedDatagram<Bytes> = data.into();
        // the size a transport compares with its maximum is `remaining()` of what it is handed
        if let DgMode::Max(m) = mode {
            if buf.remaining() > m {
                return Err(E::TooLarge);
            }
        }
        // consume through chunk/advance, one chunk at a time (not copy_to_bytes)
        let mut out = Vec::new();
        while buf.has_remaining() {
            let c = buf.chunk();
            let n = c.len();
            out.extend_from_slice(c);
            buf.advance(n);
        }
        self.net.borrow_mut().dgram_tx.push(out);
        Ok(())
    }
}

impl h3_datagram::quic_traits::RecvDatagram for SimDgramRecv {
    type Buffer = Bytes;
    fn poll_incoming_datagram(&mut self, cx: &mut Context<'_>) -> Poll<Result<Bytes, ConnectionErrorIncoming>> {
        if let Some(e) = conn_err(&self.net) {
            return Poll::Ready(Err(e));
        }
        let mut n = self.net.borrow_mut();
        match n.dgram_rx.pop_front() {
            Some(b) => Poll::Ready(Ok(b)),
            None => {
                n.dgram_rx_waker = Some(cx.waker().clone());
                Poll::Pending
            }
        }
    }
}

impl h3_datagram::quic_traits::DatagramConnectionExt<Bytes> for SimConn {
    type SendDatagramHandler = SimDgramSend;
    type RecvDatagramHandler = SimDgramRecv;
    fn send_datagram_handler(&self) -> SimDgramSend {
        SimDgramSend { net: self.net.clone() }
    }
    fn recv_datagram_handler(&self) -> SimDgramRecv {
        SimDgramRecv { net: self.net.clone() }
    }
}

// ---------------------------------------------------------------- driving helpers

use std::future::Future;
use std::pin::Pin;

struct SelfWake(std::sync::atomic::AtomicBool);

impl std::task::Wake for SelfWake {
    fn wake(self: std::sync::Arc<Self>) {
        self.0.store(true, std::sync::atomic::Ordering::SeqCst);
    }
}

/// Poll a boxed future as one step of SETUP (a `build`, a `send_request` over a transport that never blocks): a future
/// that answers `Pending` after having woken its own waker during that very poll (a cooperative yield, a re-queued
/// state machine) is polled again - any executor would - until it is ready or is pending without such a wake.  How
/// many polls the library needs to set a connection up is not something a case may depend on.
pub fn poll_settled<F: Future + ?Sized>(f: &mut Pin<Box<F>>) -> Poll<F::Output> {
    let flag = std::sync::Arc::new(SelfWake(std::sync::atomic::AtomicBool::new(false)));
    let w = std::task::Waker::from(flag.clone());
    let mut cx = Context::from_waker(&w);
    for _ in 0..10_000 {
        flag.0.store(false, std::sync::atomic::Ordering::SeqCst);
        let r = f.as_mut().poll(&mut cx);
        if r.is_ready() || !flag.0.load(std::sync::atomic::Ordering::SeqCst) {
            return r;
        }
    }
    Poll::Pending
}

/// Poll a boxed future once with a no-op waker.
pub fn poll_once<F: Future + ?Sized>(f: &mut Pin<Box<F>>) -> Poll<F::Output> {
    let w = futures_util::task::noop_waker();
    let mut cx = Context::from_waker(&w);
    f.as_mut().poll(&mut cx)
}
