//! `h3run`: executes case lines against the real hyperium/h3 code in-process and prints one
//! canonical result line per case (the Lean driver `h3drv` prints the model's and the
//! specification's answer for the same lines).
mod c12_sim;
mod c14_sim;
mod e_c02;
mod e_c05;
mod e_c11;
mod e_c12;
mod e_c13;
mod e_c14;
mod e_c15;
mod e_c16;
mod e_c17;
mod e_c18;
mod e_c20;
mod exec;
mod scen;
mod sim;
mod util;

use std::io::{BufRead, BufWriter, Write};

fn dispatch(w: &[&str]) -> String {
    match w.first().copied() {
        Some("varint") | Some("sid") => e_c16::handle(w),
        Some("dgram") => e_c18::handle(w),
        Some("set") => e_c13::handle(w),
        Some("cell") | Some("cellmv") => e_c05::handle(w),
        Some("hdr") => e_c12::handle(w),
        Some("dyn") => e_c20::handle(w),
        Some("qpack") => e_c11::handle(w),
        Some("wbuf") | Some("sdc") => e_c14::handle(w),
        Some("quinn") => e_c17::handle(w),
        Some("pint") | Some("huff") | Some("pstr") => e_c15::handle(w),
        Some("frame") | Some("fs") => e_c02::handle(w),
        // connection-level engines share one scenario interpreter; the engine name selects the
        // Lean model/spec and the Python projection, not the Rust behaviour
        Some("conn") | Some("goaway") | Some("drain") | Some("req") | Some("ctl") | Some("out") | Some("iso")
        | Some("e2e") | Some("adv") | Some("wt") | Some("lim") | Some("flt") | Some("flt5") | Some("hnd5") => scen::handle(w),
        _ => "bad-op".into(),
    }
}

fn main() {
    // panics are results, not noise
    if std::env::var_os("VERIF_PANIC_MSG").is_none() {
        std::panic::set_hook(Box::new(|_| {}));
    }
    let stdin = std::io::stdin();
    let stdout = std::io::stdout();
    let mut out = BufWriter::new(stdout.lock());
    for line in stdin.lock().lines() {
        let Ok(line) = line else { break };
        let w: Vec<&str> = line.split_whitespace().collect();
        let r = dispatch(&w);
        let _ = writeln!(out, "{}", r);
        // one write per case line: when a later line never returns (or kills the process) every result
        // before it has reached the reader, so the check blames exactly the offending line
        let _ = out.flush();
    }
}
