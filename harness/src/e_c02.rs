//! Engines `frame` and `fs`: real `Frame::decode` and `FrameStream::{poll_next,poll_data}`
//! over a scripted receive stream.
//!
//! `fs calls <script> <calls>`: call letters `n` = `poll_next`, `d` = `poll_data` on a bare `FrameStream`.
//! `FrameStream::split` is `pub(crate)`: from outside the crate it is reachable only through
//! `client::RequestStream::split` / `server::RequestStream::split`.  A call string over the letters
//! `r` and `s` therefore runs on a real `h3::client::RequestStream` obtained from `send_request` over a
//! one-stream transport whose bidirectional stream is the scripted stream (`OneConn` below; no SimQuic):
//! `r` = one `poll_recv_data` (`while !has_data { poll_next … } poll_data`, the frame layer as a request
//! body reader drives it), `s` = `split()`, the following calls go to the receive half.  Answers:
//! `D:<hex>` / `N` (end of the body: clean end or a HEADERS frame) / `P` / `E:conn:<CODE>` /
//! `E:quic:<code>`, consecutive `D` merged, `P` kept only as the last answer; `s` prints nothing.
use crate::util::*;
use bytes::{Buf, Bytes};
use h3::frame::{FrameProtocolError, FrameStream, FrameStreamError};
use h3::proto::frame::{Frame, FrameError, PayloadLen, SettingId, Settings, SettingsError};
use h3::quic::{self, StreamErrorIncoming};
use h3::stream::BufRecvStream;
use std::collections::VecDeque;
use std::task::{Context, Poll};

#[derive(Clone, Debug)]
pub enum Ev {
    Chunk(Bytes),
    Pend,
    Fin,
    Reset(u64),
}

pub type Script = std::rc::Rc<std::cell::RefCell<VecDeque<Ev>>>;

pub struct Scripted {
    pub script: Script,
    pub id: u64,
}

pub fn shared(v: VecDeque<Ev>) -> Script {
    std::rc::Rc::new(std::cell::RefCell::new(v))
}

impl quic::RecvStream for Scripted {
    type Buf = Bytes;
    fn poll_data(&mut self, _: &mut Context<'_>) -> Poll<Result<Option<Bytes>, StreamErrorIncoming>> {
        let mut script = self.script.borrow_mut();
        match script.front().cloned() {
            None => Poll::Pending,
            Some(Ev::Pend) => {
                script.pop_front();
                Poll::Pending
            }
            Some(Ev::Chunk(b)) => {
                script.pop_front();
                Poll::Ready(Ok(Some(b)))
            }
            Some(Ev::Fin) => {
                script.pop_front();
                Poll::Ready(Ok(None))
            }
            // a reset is sticky
            Some(Ev::Reset(c)) => Poll::Ready(Err(StreamErrorIncoming::StreamTerminated { error_code: c })),
        }
    }
    fn stop_sending(&mut self, _: u64) {}
    fn recv_id(&self) -> quic::StreamId {
        quic::StreamId::try_from(self.id).unwrap()
    }
}

pub fn parse_script(s: &str) -> Option<VecDeque<Ev>> {
    let mut v = VecDeque::new();
    if s == "-" {
        return Some(v);
    }
    for t in s.split(',') {
        let ev = match t.as_bytes().first()? {
            b'p' if t.len() == 1 => Ev::Pend,
            b'f' if t.len() == 1 => Ev::Fin,
            b'r' => Ev::Reset(t[1..].parse().ok()?),
            b'c' => {
                let b = parse_hex(&t[1..])?;
                if b.is_empty() || &t[1..] == "-" {
                    return None;
                }
                Ev::Chunk(Bytes::from(b))
            }
            _ => return None,
        };
        v.push_back(ev);
    }
    Some(v)
}

const SUPPORTED_ORDER: [u64; 7] = [0x1, 0x6, 0x7, 0x8, 0x33, 0x2b603742, 0x2b603743];

pub fn render_settings(s: &Settings) -> String {
    let parts: Vec<String> = SUPPORTED_ORDER
        .iter()
        .filter_map(|id| s.get(SettingId(*id)).map(|v| format!("{}={}", id, v)))
        .collect();
    format!("settings({})", parts.join(";"))
}

fn num_in_debug(d: &str) -> String {
    d.chars().filter(|c| c.is_ascii_digit()).collect()
}

pub fn render_frame(f: &Frame<PayloadLen>) -> String {
    match f {
        Frame::Data(PayloadLen(n)) => format!("data({})", n),
        Frame::Headers(b) => format!("headers({})", to_hex(b)),
        Frame::CancelPush(id) => format!("cancel_push({})", num_in_debug(&format!("{:?}", id))),
        Frame::Settings(s) => render_settings(s),
        // Debug for Frame<PayloadLen> prints "PushPromise(<id>)"
        Frame::PushPromise(_) => format!("push_promise({})", num_in_debug(&format!("{:?}", f))),
        Frame::Goaway(v) => format!("goaway({})", v.into_inner()),
        Frame::MaxPushId(id) => format!("max_push_id({})", num_in_debug(&format!("{:?}", id))),
        Frame::WebTransportStream(s) => format!("wt({})", num_in_debug(&format!("{:?}", s))),
        Frame::Grease => "grease".into(),
    }
}

pub fn render_serr(e: &SettingsError) -> String {
    match e {
        SettingsError::Exceeded => "exceeded".into(),
        SettingsError::Malformed => "malformed".into(),
        SettingsError::Repeated(id) => format!("repeated({})", id.0),
        SettingsError::InvalidSettingId(id) => format!("invalid({})", id),
        SettingsError::InvalidSettingValue(id, v) => format!("invalid_value({},{})", id.0, v),
    }
}

pub fn render_proto(e: &FrameProtocolError) -> String {
    match e {
        FrameProtocolError::Malformed => "malformed".into(),
        FrameProtocolError::ForbiddenFrame(ty) => format!("unsupported({})", ty),
        FrameProtocolError::InvalidFrameValue => "invalid_frame_value".into(),
        FrameProtocolError::Settings(e) => format!("settings({})", render_serr(e)),
        FrameProtocolError::InvalidStreamId(_) => "invalid_stream_id".into(),
        FrameProtocolError::InvalidPushId(_) => "invalid_push_id".into(),
    }
}

pub fn render_fs_err(e: &FrameStreamError) -> String {
    match e {
        FrameStreamError::Proto(p) => format!("E:proto:{}", render_proto(p)),
        FrameStreamError::UnexpectedEnd => "E:end".into(),
        FrameStreamError::Quic(StreamErrorIncoming::StreamTerminated { error_code }) => format!("E:quic:{}", error_code),
        FrameStreamError::Quic(_) => "E:quic:other".into(),
    }
}

#[derive(PartialEq, Clone)]
enum Obs {
    Frame(String),
    Data(Vec<u8>),
    None,
    Pending,
    Err(String),
    Panic,
}

fn render_obs(o: &Obs) -> String {
    match o {
        Obs::Frame(s) => format!("F:{}", s),
        Obs::Data(b) => format!("D:{}", to_hex(b)),
        Obs::None => "N".into(),
        Obs::Pending => "P".into(),
        Obs::Err(s) => s.clone(),
        Obs::Panic => "X".into(),
    }
}

type Fs = FrameStream<Scripted, ()>;

fn ctx_poll_next(fs: &mut Fs) -> Obs {
    let w = futures_util::task::noop_waker();
    let mut cx = Context::from_waker(&w);
    let r = std::panic::catch_unwind(std::panic::AssertUnwindSafe(|| fs.poll_next(&mut cx)));
    match r {
        Err(_) => Obs::Panic,
        Ok(Poll::Pending) => Obs::Pending,
        Ok(Poll::Ready(Ok(None))) => Obs::None,
        Ok(Poll::Ready(Ok(Some(f)))) => Obs::Frame(render_frame(&f)),
        Ok(Poll::Ready(Err(e))) => Obs::Err(render_fs_err(&e)),
    }
}

fn ctx_poll_data(fs: &mut Fs) -> Obs {
    let w = futures_util::task::noop_waker();
    let mut cx = Context::from_waker(&w);
    let r = std::panic::catch_unwind(std::panic::AssertUnwindSafe(|| match fs.poll_data(&mut cx) {
        Poll::Pending => Obs::Pending,
        Poll::Ready(Ok(None)) => Obs::None,
        Poll::Ready(Ok(Some(mut d))) => Obs::Data(d.copy_to_bytes(d.remaining()).to_vec()),
        Poll::Ready(Err(e)) => Obs::Err(render_fs_err(&e)),
    }));
    r.unwrap_or(Obs::Panic)
}

fn normalise(v: Vec<Obs>) -> Vec<Obs> {
    let n = v.len();
    let mut out: Vec<Obs> = Vec::new();
    for (i, o) in v.into_iter().enumerate() {
        match o {
            Obs::Pending if i + 1 != n => {}
            Obs::Data(b) => {
                if let Some(Obs::Data(prev)) = out.last_mut() {
                    prev.extend_from_slice(&b);
                } else {
                    out.push(Obs::Data(b));
                }
            }
            o => out.push(o),
        }
    }
    out
}

// ---------------------------------------------------------------- a real client request stream over the scripted stream

/// send side that swallows everything
pub struct Sink {
    id: u64,
    writing: Option<quic::WriteBuf<Bytes>>,
}

impl quic::SendStream<Bytes> for Sink {
    fn poll_ready(&mut self, _: &mut Context<'_>) -> Poll<Result<(), StreamErrorIncoming>> {
        if let Some(mut w) = self.writing.take() {
            while w.has_remaining() {
                let n = w.chunk().len();
                w.advance(n);
            }
        }
        Poll::Ready(Ok(()))
    }
    fn send_data<T: Into<quic::WriteBuf<Bytes>>>(&mut self, data: T) -> Result<(), StreamErrorIncoming> {
        self.writing = Some(data.into());
        Ok(())
    }
    fn poll_finish(&mut self, _: &mut Context<'_>) -> Poll<Result<(), StreamErrorIncoming>> {
        Poll::Ready(Ok(()))
    }
    fn reset(&mut self, _: u64) {}
    fn send_id(&self) -> quic::StreamId {
        quic::StreamId::try_from(self.id).unwrap()
    }
}

/// the scripted receive stream with a sink as its send side
pub struct ScriptedBidi {
    recv: Scripted,
    send: Sink,
}

impl quic::RecvStream for ScriptedBidi {
    type Buf = Bytes;
    fn poll_data(&mut self, cx: &mut Context<'_>) -> Poll<Result<Option<Bytes>, StreamErrorIncoming>> {
        self.recv.poll_data(cx)
    }
    fn stop_sending(&mut self, c: u64) {
        self.recv.stop_sending(c)
    }
    fn recv_id(&self) -> quic::StreamId {
        self.recv.recv_id()
    }
}

impl quic::SendStream<Bytes> for ScriptedBidi {
    fn poll_ready(&mut self, cx: &mut Context<'_>) -> Poll<Result<(), StreamErrorIncoming>> {
        self.send.poll_ready(cx)
    }
    fn send_data<T: Into<quic::WriteBuf<Bytes>>>(&mut self, data: T) -> Result<(), StreamErrorIncoming> {
        self.send.send_data(data)
    }
    fn poll_finish(&mut self, cx: &mut Context<'_>) -> Poll<Result<(), StreamErrorIncoming>> {
        self.send.poll_finish(cx)
    }
    fn reset(&mut self, c: u64) {
        self.send.reset(c)
    }
    fn send_id(&self) -> quic::StreamId {
        self.send.send_id()
    }
}

impl quic::BidiStream<Bytes> for ScriptedBidi {
    type SendStream = Sink;
    type RecvStream = Scripted;
    fn split(self) -> (Sink, Scripted) {
        (self.send, self.recv)
    }
}

/// a connection that has exactly one bidirectional stream to open (the scripted one), sinks for the
/// client's own unidirectional streams, and nothing coming in
#[derive(Clone)]
pub struct OneConn {
    bidi: std::rc::Rc<std::cell::RefCell<Option<ScriptedBidi>>>,
    next_uni: std::rc::Rc<std::cell::Cell<u64>>,
}

impl quic::OpenStreams<Bytes> for OneConn {
    type BidiStream = ScriptedBidi;
    type SendStream = Sink;
    fn poll_open_bidi(&mut self, _: &mut Context<'_>) -> Poll<Result<ScriptedBidi, StreamErrorIncoming>> {
        match self.bidi.borrow_mut().take() {
            Some(b) => Poll::Ready(Ok(b)),
            None => Poll::Pending,
        }
    }
    fn poll_open_send(&mut self, _: &mut Context<'_>) -> Poll<Result<Sink, StreamErrorIncoming>> {
        let k = self.next_uni.get();
        self.next_uni.set(k + 1);
        Poll::Ready(Ok(Sink { id: k << 2 | 2, writing: None }))
    }
    fn close(&mut self, _: h3::error::Code, _: &[u8]) {}
}

impl quic::Connection<Bytes> for OneConn {
    type RecvStream = Scripted;
    type OpenStreams = OneConn;
    fn poll_accept_recv(&mut self, _: &mut Context<'_>) -> Poll<Result<Scripted, quic::ConnectionErrorIncoming>> {
        Poll::Pending
    }
    fn poll_accept_bidi(&mut self, _: &mut Context<'_>) -> Poll<Result<ScriptedBidi, quic::ConnectionErrorIncoming>> {
        Poll::Pending
    }
    fn opener(&self) -> OneConn {
        self.clone()
    }
}

type Whole = h3::client::RequestStream<ScriptedBidi, Bytes>;
type Half = h3::client::RequestStream<Scripted, Bytes>;

/// the request stream before / after `split()` (the send half is kept alive next to the receive half)
#[allow(dead_code)]
enum Rs {
    Whole(Whole),
    Split(h3::client::RequestStream<Sink, Bytes>, Half),
    Gone,
}

fn render_req_err(e: &h3::error::StreamError) -> String {
    use h3::error::{ConnectionError, LocalError, StreamError};
    match e {
        StreamError::ConnectionError(ConnectionError::Local { error: LocalError::Application { code, .. } }) => {
            format!("E:conn:{:?}", code)
        }
        StreamError::RemoteTerminate { code } => format!("E:quic:{}", code.value()),
        StreamError::StreamError { code, .. } => format!("E:stream:{:?}", code),
        _ => "E:other".into(),
    }
}

fn poll_recv(rs: &mut Rs) -> Obs {
    let w = futures_util::task::noop_waker();
    let mut cx = Context::from_waker(&w);
    let r = std::panic::catch_unwind(std::panic::AssertUnwindSafe(|| {
        fn conv<B: Buf>(p: Poll<Result<Option<B>, h3::error::StreamError>>) -> Obs {
            match p {
                Poll::Pending => Obs::Pending,
                Poll::Ready(Ok(None)) => Obs::None,
                Poll::Ready(Ok(Some(mut d))) => Obs::Data(d.copy_to_bytes(d.remaining()).to_vec()),
                Poll::Ready(Err(e)) => Obs::Err(render_req_err(&e)),
            }
        }
        match rs {
            Rs::Whole(s) => conv(s.poll_recv_data(&mut cx)),
            Rs::Split(_, s) => conv(s.poll_recv_data(&mut cx)),
            Rs::Gone => Obs::Err("E:gone".into()),
        }
    }));
    r.unwrap_or(Obs::Panic)
}

/// `fs calls <script> <calls over r, s>`
fn request_calls(script: VecDeque<Ev>, calls: &str) -> String {
    let conn = OneConn {
        bidi: std::rc::Rc::new(std::cell::RefCell::new(Some(ScriptedBidi {
            recv: Scripted { script: shared(script), id: 0 },
            send: Sink { id: 0, writing: None },
        }))),
        next_uni: Default::default(),
    };
    let mut bd = h3::client::builder();
    bd.send_grease(false);
    let mut f: std::pin::Pin<Box<dyn std::future::Future<Output = _>>> = Box::pin(bd.build::<_, _, Bytes>(conn));
    let Poll::Ready(Ok((_driver, mut snd))) = crate::sim::poll_settled(&mut f) else { return "setup-failed".into() };
    let req = http::Request::builder().method("GET").uri("https://a/").body(()).unwrap();
    let mut rs = {
        let mut g: std::pin::Pin<Box<dyn std::future::Future<Output = _>>> = Box::pin(snd.send_request(req));
        match crate::sim::poll_settled(&mut g) {
            Poll::Ready(Ok(s)) => Rs::Whole(s),
            _ => return "setup-failed".into(),
        }
    };
    let mut out = Vec::new();
    for c in calls.chars() {
        if c == 's' {
            rs = match std::mem::replace(&mut rs, Rs::Gone) {
                Rs::Whole(s) => {
                    let (a, b) = s.split();
                    Rs::Split(a, b)
                }
                other => other,
            };
            continue;
        }
        let o = poll_recv(&mut rs);
        let stop = !matches!(o, Obs::Pending | Obs::Data(_));
        out.push(o);
        if stop {
            break;
        }
    }
    normalise(out).iter().map(render_obs).collect::<Vec<_>>().join(" ")
}

pub fn handle(w: &[&str]) -> String {
    // ops `decS` / `loopS` / `callsS` run the same code as `dec` / `loop` / `calls`; only the Lean side judges them
    // under the strict SETTINGS reading R-02s
    match w {
        ["frame", "dec" | "decS", h] => {
            let Some(bs) = parse_hex(h) else { return "bad-op".into() };
            guarded(|| {
                let mut buf = &bs[..];
                let r = Frame::decode(&mut buf);
                let n = bs.len() - buf.len();
                match r {
                    Ok(f) => format!("ok {} {}", render_frame(&f), n),
                    Err(FrameError::UnknownFrame(_)) => format!("unknown {}", n),
                    Err(FrameError::Incomplete(m)) => format!("incomplete {}", m),
                    Err(FrameError::Malformed) => "err malformed".into(),
                    Err(FrameError::UnsupportedFrame(ty)) => format!("err unsupported({})", ty),
                    Err(FrameError::Settings(e)) => format!("err settings({})", render_serr(&e)),
                    Err(FrameError::InvalidFrameValue) => "err invalid_frame_value".into(),
                    Err(FrameError::InvalidStreamId(_)) => "err invalid_stream_id".into(),
                    Err(FrameError::InvalidPushId(_)) => "err invalid_push_id".into(),
                }
            })
        }
        ["fs", "calls" | "callsS", sc, cs] => {
            let Some(script) = parse_script(sc) else { return "bad-op".into() };
            // the request-level letters: `r` = poll_recv_data, `s` = split (at most once: the halves cannot be split again)
            if !cs.is_empty() && cs.chars().all(|c| c == 'r' || c == 's') {
                if cs.chars().filter(|c| *c == 's').count() > 1 {
                    return "bad-op".into();
                }
                return guarded(|| request_calls(script, cs));
            }
            if !cs.chars().all(|c| c == 'n' || c == 'd') {
                return "bad-op".into();
            }
            let mut fs: Fs = FrameStream::new(BufRecvStream::new(Scripted { script: shared(script), id: 0 }));
            let mut out = Vec::new();
            for c in cs.chars() {
                let o = if c == 'n' { ctx_poll_next(&mut fs) } else { ctx_poll_data(&mut fs) };
                let stop = match (&o, c) {
                    (Obs::Frame(_), _) | (Obs::Pending, _) | (Obs::Data(_), _) => false,
                    (Obs::None, 'd') => false,
                    _ => true,
                };
                out.push(o);
                if stop {
                    break;
                }
            }
            out.iter().map(render_obs).collect::<Vec<_>>().join(" ")
        }
        ["fs", "loop" | "loopS", sc] => {
            let Some(script) = parse_script(sc) else { return "bad-op".into() };
            let total: usize = script.iter().map(|e| if let Ev::Chunk(b) = e { b.len() } else { 0 }).sum();
            let mut fuel = 4 * total + 4 * script.len() + 8;
            let script = shared(script);
            let mut fs: Fs = FrameStream::new(BufRecvStream::new(Scripted { script: script.clone(), id: 0 }));
            let mut out = Vec::new();
            // mirror of `remaining_data` (the field is private): set by the frame announced,
            // reduced by the bytes handed out
            let mut rem: u64 = 0;
            while fuel > 0 {
                fuel -= 1;
                let empty = script.borrow().is_empty();
                let o = if rem != 0 { ctx_poll_data(&mut fs) } else { ctx_poll_next(&mut fs) };
                match &o {
                    Obs::Data(b) => {
                        rem -= b.len() as u64;
                        out.push(o);
                    }
                    Obs::Frame(f) => {
                        if let Some(n) = f.strip_prefix("data(") {
                            rem = n.trim_end_matches(')').parse().unwrap_or(0);
                        } else if f.starts_with("wt(") {
                            rem = u64::MAX;
                        }
                        out.push(o);
                    }
                    Obs::Pending => {
                        if empty {
                            out.push(o);
                            break;
                        }
                    }
                    _ => {
                        out.push(o);
                        break;
                    }
                }
            }
            normalise(out).iter().map(render_obs).collect::<Vec<_>>().join(" ")
        }
        _ => "bad-op".into(),
    }
}

