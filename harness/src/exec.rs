//! A scripted single-thread executor: tasks are polled only when their waker fired (or a
//! command was posted to them), in an order chosen by a seed; it runs to quiescence after every
//! external event, so "pending at quiescence" (a hang) and "woken" are observable.
#![allow(dead_code)]
use std::cell::{Cell, RefCell};
use std::collections::VecDeque;
use std::future::Future;
use std::pin::Pin;
use std::rc::Rc;
use std::sync::atomic::{AtomicBool, AtomicU64, Ordering};
use std::sync::Arc;
use std::task::{Context, Poll, Wake, Waker};

pub struct Flag {
    pub woken: AtomicBool,
    pub wakes: AtomicU64,
    /// a command waits in the task's mailbox.  A command is an external event: it is handed out only when no task is
    /// woken (everything the previous events have started has run as far as it can), one command per such poll.  When
    /// commands queue up behind a busy task, whether the next one overtakes the work in progress must not depend on
    /// how many polls that work takes (a `select(accept, next command)` would otherwise drop an `accept()` that needs
    /// one poll more than before, although nothing about the connection has changed).
    pub mail: AtomicBool,
}

thread_local! {
    /// this poll was granted for the mailbox (nothing else was runnable): `NextCmd` may hand out one command
    static MAIL_OK: Cell<bool> = const { Cell::new(false) };
    /// `NextCmd` was reached with a command waiting but may not hand it out in this poll: come back at quiescence
    static MAIL_WANTED: Cell<bool> = const { Cell::new(false) };
}

impl Wake for Flag {
    fn wake(self: Arc<Self>) {
        self.woken.store(true, Ordering::SeqCst);
        self.wakes.fetch_add(1, Ordering::SeqCst);
    }
}

pub type Mailbox = Rc<RefCell<VecDeque<String>>>;
pub type Trace = Rc<RefCell<Vec<String>>>;

pub struct Task {
    pub name: String,
    pub fut: Option<Pin<Box<dyn Future<Output = ()>>>>,
    pub flag: Arc<Flag>,
    pub mailbox: Mailbox,
    pub polls: u64,
}

#[derive(Default)]
pub struct Spawner {
    pub queue: RefCell<Vec<(String, Mailbox, Pin<Box<dyn Future<Output = ()>>>)>>,
}

pub type SpawnRef = Rc<Spawner>;

impl Spawner {
    pub fn spawn(&self, name: String, mailbox: Mailbox, fut: Pin<Box<dyn Future<Output = ()>>>) {
        self.queue.borrow_mut().push((name, mailbox, fut));
    }
}

pub struct Exec {
    pub tasks: Vec<Task>,
    pub spawner: SpawnRef,
    pub seed: u64,
    pub total_polls: u64,
}

/// Future that yields the next command posted to a task's mailbox.
pub struct NextCmd(pub Mailbox);

impl Future for NextCmd {
    type Output = String;
    fn poll(self: Pin<&mut Self>, _: &mut Context<'_>) -> Poll<String> {
        if self.0.borrow().is_empty() {
            // the executor sets the task's mail flag when it posts a command
            return Poll::Pending;
        }
        if MAIL_OK.with(|m| m.replace(false)) {
            return Poll::Ready(self.0.borrow_mut().pop_front().expect("checked above"));
        }
        MAIL_WANTED.with(|m| m.set(true));
        Poll::Pending
    }
}

impl Exec {
    pub fn new(seed: u64) -> Self {
        Exec { tasks: Vec::new(), spawner: Rc::new(Spawner::default()), seed, total_polls: 0 }
    }

    fn next_rand(&mut self) -> u64 {
        // xorshift64*
        let mut x = self.seed | 1;
        x ^= x >> 12;
        x ^= x << 25;
        x ^= x >> 27;
        self.seed = x;
        x.wrapping_mul(0x2545F4914F6CDD1D)
    }

    fn adopt(&mut self) {
        let new: Vec<_> = self.spawner.queue.borrow_mut().drain(..).collect();
        for (name, mailbox, fut) in new {
            self.tasks.push(Task {
                name,
                fut: Some(fut),
                flag: Arc::new(Flag { woken: AtomicBool::new(true), wakes: AtomicU64::new(0), mail: AtomicBool::new(false) }),
                mailbox,
                polls: 0,
            });
        }
    }

    pub fn find(&self, name: &str) -> Option<usize> {
        self.tasks.iter().position(|t| t.name == name)
    }

    /// post a command to a task; false if there is no such live task
    pub fn post(&mut self, name: &str, cmd: &str) -> bool {
        self.adopt();
        match self.find(name) {
            Some(i) if self.tasks[i].fut.is_some() => {
                self.tasks[i].mailbox.borrow_mut().push_back(cmd.to_string());
                self.tasks[i].flag.mail.store(true, Ordering::SeqCst);
                true
            }
            _ => false,
        }
    }

    /// poll woken tasks until none is woken; returns the number of polls
    pub fn run(&mut self) -> u64 {
        let mut n = 0;
        loop {
            self.adopt();
            let ready: Vec<usize> = self
                .tasks
                .iter()
                .enumerate()
                .filter(|(_, t)| t.fut.is_some() && t.flag.woken.load(Ordering::SeqCst))
                .map(|(i, _)| i)
                .collect();
            // nothing is woken: now, and only now, a waiting command is delivered
            let for_mail = ready.is_empty();
            let ready: Vec<usize> = if for_mail {
                self.tasks
                    .iter()
                    .enumerate()
                    .filter(|(_, t)| t.fut.is_some() && t.flag.mail.load(Ordering::SeqCst) && !t.mailbox.borrow().is_empty())
                    .map(|(i, _)| i)
                    .collect()
            } else {
                ready
            };
            if ready.is_empty() {
                break;
            }
            let pick = if self.seed == 0 { ready[0] } else { ready[(self.next_rand() % ready.len() as u64) as usize] };
            let t = &mut self.tasks[pick];
            t.flag.woken.store(false, Ordering::SeqCst);
            if for_mail {
                t.flag.mail.store(false, Ordering::SeqCst);
            }
            MAIL_OK.with(|m| m.set(for_mail));
            MAIL_WANTED.with(|m| m.set(false));
            let waker = Waker::from(t.flag.clone());
            let mut cx = Context::from_waker(&waker);
            t.polls += 1;
            n += 1;
            let done = match t.fut.as_mut() {
                Some(f) => f.as_mut().poll(&mut cx).is_ready(),
                None => false,
            };
            MAIL_OK.with(|m| m.set(false));
            if MAIL_WANTED.with(|m| m.replace(false)) {
                t.flag.mail.store(true, Ordering::SeqCst);
            }
            if done {
                t.fut = None;
            }
            if n > 100_000 {
                break; // livelock guard; reported by the caller through the poll count
            }
        }
        self.total_polls += n;
        n
    }

    /// names of live tasks (future not finished)
    pub fn live(&self) -> Vec<String> {
        self.tasks.iter().filter(|t| t.fut.is_some()).map(|t| t.name.clone()).collect()
    }

    /// drop a task's future (models dropping every handle the task owns)
    pub fn kill(&mut self, name: &str) -> bool {
        self.adopt();
        match self.find(name) {
            Some(i) if self.tasks[i].fut.is_some() => {
                self.tasks[i].fut = None;
                true
            }
            _ => false,
        }
    }
}
