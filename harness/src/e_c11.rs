//! Engine `qpack`: the real `h3::qpack::{encode_stateless, decode_stateless}` (public under the
//! backend feature).
//!
//! `qpack enc <fields>`                       encode, then the block through `decode_stateless`
//! `qpack dec <max> <hex>`                    `decode_stateless(block, max)`
//! `qpack range <max> <prefix hex> <lo> <hi>` blocks `prefix ++ payload(i)`: counts and digest
//!
//! fields: `name=value;…` in hex (`-` = empty), `none` = empty list.
use crate::util::*;
use bytes::Bytes;
use h3::qpack::verif::{PrefixIntError, PrefixStringError};
use h3::qpack::{decode_stateless, encode_stateless, DecoderError, HeaderField};

fn numbers(d: &str) -> Vec<String> {
    let mut out = Vec::new();
    let mut cur = String::new();
    for ch in d.chars() {
        if ch.is_ascii_digit() {
            cur.push(ch);
        } else if !cur.is_empty() {
            out.push(std::mem::take(&mut cur));
        }
    }
    if !cur.is_empty() {
        out.push(cur);
    }
    out
}

/// `MissingBits b b c` / `Unhandled b b c v` (the variants' types are private to the crate)
fn huff_err(d: &str) -> String {
    let kind = if d.contains("MissingBits") {
        "MissingBits"
    } else if d.contains("Unhandled") {
        "Unhandled"
    } else {
        "Other"
    };
    format!("{} {}", kind, numbers(d).join(" "))
}

fn int_err(e: &PrefixIntError) -> &'static str {
    match e {
        PrefixIntError::Overflow => "Overflow",
        PrefixIntError::UnexpectedEnd => "UnexpectedEnd",
    }
}

fn render_err(e: &DecoderError) -> String {
    match e {
        DecoderError::InvalidInteger(i) => format!("InvalidInteger {}", int_err(i)),
        DecoderError::InvalidString(s) => match s {
            PrefixStringError::UnexpectedEnd => "InvalidString UnexpectedEnd".into(),
            PrefixStringError::Integer(i) => format!("InvalidString Integer {}", int_err(i)),
            PrefixStringError::HuffmanDecoding(h) => format!("InvalidString Huffman {}", huff_err(&format!("{:?}", h))),
            PrefixStringError::HuffmanEncoding(_) => "InvalidString HuffmanEncoding".into(),
            PrefixStringError::BufSize(_) => "InvalidString BufSize".into(),
        },
        DecoderError::InvalidStaticIndex(i) => format!("InvalidStaticIndex {}", i),
        DecoderError::UnknownPrefix(p) => format!("UnknownPrefix {}", p),
        DecoderError::MissingRefs(n) => format!("MissingRefs {}", n),
        DecoderError::BadBaseIndex(b) => format!("BadBaseIndex {}", b),
        DecoderError::HeaderTooLong(n) => format!("HeaderTooLong {}", n),
        DecoderError::UnexpectedEnd => "UnexpectedEnd".into(),
        DecoderError::InvalidIndex(_) => "InvalidIndex".into(),
        DecoderError::DynamicTable(_) => "DynamicTable".into(),
        DecoderError::BufSize(_) => "BufSize".into(),
    }
}

fn fields_str(fs: &[HeaderField]) -> String {
    if fs.is_empty() {
        return "none".into();
    }
    fs.iter().map(|f| format!("{}={}", to_hex(&f.name), to_hex(&f.value))).collect::<Vec<_>>().join(";")
}

fn parse_fields(s: &str) -> Option<Vec<HeaderField>> {
    if s == "none" {
        return Some(vec![]);
    }
    s.split(';')
        .map(|kv| {
            let (k, v) = kv.split_once('=')?;
            Some(HeaderField::new(parse_hex(k)?, parse_hex(v)?))
        })
        .collect()
}

fn dec(bs: &[u8], max: u64) -> String {
    guarded(|| {
        let mut buf = Bytes::copy_from_slice(bs);
        match decode_stateless(&mut buf, max) {
            Ok(d) => {
                if d.dyn_ref {
                    return "harness-error dyn_ref".into();
                }
                format!("ok {} {}", d.mem_size, fields_str(&d.fields))
            }
            Err(e) => format!("err {}", render_err(&e)),
        }
    })
}

fn fnv(mut h: u64, s: &str) -> u64 {
    for b in s.bytes().chain(std::iter::once(b'\n')) {
        h = (h ^ b as u64).wrapping_mul(1099511628211);
    }
    h
}

fn payload_of(i: u64) -> Vec<u8> {
    if i < 1 {
        vec![]
    } else if i < 257 {
        vec![(i - 1) as u8]
    } else if i < 65793 {
        let j = i - 257;
        vec![(j / 256) as u8, (j % 256) as u8]
    } else if i < 16843009 {
        let j = i - 65793;
        vec![(j / 65536) as u8, (j / 256 % 256) as u8, (j % 256) as u8]
    } else {
        let j = i - 16843009;
        vec![(j / 16777216 % 256) as u8, (j / 65536 % 256) as u8, (j / 256 % 256) as u8, (j % 256) as u8]
    }
}

pub fn handle(w: &[&str]) -> String {
    match w {
        ["qpack", "dec", max, h] => {
            let (Ok(max), Some(bs)) = (max.parse::<u64>(), parse_hex(h)) else { return "bad-op".into() };
            dec(&bs, max)
        }
        ["qpack", "enc", fs] => {
            let Some(fs) = parse_fields(fs) else { return "bad-op".into() };
            guarded(|| {
                let mut block = Vec::new();
                match encode_stateless(&mut block, fs.iter()) {
                    Ok(size) => format!("ok {} {} rt {}", to_hex(&block), size, dec(&block, u64::MAX)),
                    Err(_) => "err encoder".into(),
                }
            })
        }
        ["qpack", "range", max, pre, lo, hi] => {
            let (Ok(max), Some(pre), Ok(lo), Ok(hi)) = (max.parse::<u64>(), parse_hex(pre), lo.parse::<u64>(), hi.parse::<u64>())
            else {
                return "bad-op".into();
            };
            let (mut h, mut ok, mut toolong, mut other) = (14695981039346656037u64, 0u64, 0u64, 0u64);
            for i in lo..hi {
                let mut bs = pre.clone();
                bs.extend_from_slice(&payload_of(i));
                let line = dec(&bs, max);
                if line.starts_with("ok ") {
                    ok += 1;
                } else if line.starts_with("err HeaderTooLong") {
                    toolong += 1;
                } else {
                    other += 1;
                }
                h = fnv(h, &line);
            }
            format!("range n={} ok={} toolong={} other={} digest={:016x}", hi.saturating_sub(lo), ok, toolong, other, h)
        }
        _ => "bad-op".into(),
    }
}
