//! Engines `varint` and `sid`: real `h3::proto::{varint,stream,push}` and `SessionId`.
use crate::util::*;
use bytes::{Buf, BytesMut};
use h3::proto::coding::BufMutExt;
use h3::proto::push::PushId;
use h3::proto::stream::StreamId;
use h3::proto::varint::VarInt;
use h3::webtransport::SessionId;
use std::convert::TryFrom;

/// a `Buf` made of several chunks (non-contiguous), as the decoders see it behind `BufList`/`Chain`
pub(crate) struct Chunks(pub(crate) std::collections::VecDeque<bytes::Bytes>);

impl Chunks {
    /// pieces separated by `,`, none empty (`None`: not such a list)
    pub(crate) fn parse(h: &str) -> Option<Chunks> {
        let pieces: Option<Vec<Vec<u8>>> = h.split(',').map(parse_hex).collect();
        let pieces = pieces?;
        if pieces.iter().any(|p| p.is_empty()) {
            return None;
        }
        Some(Chunks(pieces.into_iter().map(bytes::Bytes::from).collect()))
    }

    /// everything not yet read, chunk after chunk
    pub(crate) fn drain(&mut self) -> Vec<u8> {
        let mut rest = Vec::new();
        while self.has_remaining() {
            let c = self.chunk().to_vec();
            rest.extend_from_slice(&c);
            self.advance(c.len());
        }
        rest
    }
}

impl Buf for Chunks {
    fn remaining(&self) -> usize {
        self.0.iter().map(|b| b.len()).sum()
    }
    fn chunk(&self) -> &[u8] {
        self.0.front().map(|b| &b[..]).unwrap_or(&[])
    }
    fn advance(&mut self, mut cnt: usize) {
        while cnt > 0 {
            let front = self.0.front_mut().expect("advance past the end");
            if cnt < front.len() {
                front.advance(cnt);
                return;
            }
            cnt -= front.len();
            self.0.pop_front();
        }
        while self.0.front().map(|b| b.is_empty()).unwrap_or(false) {
            self.0.pop_front();
        }
    }
}

pub fn handle(w: &[&str]) -> String {
    match w {
        // decode from a multi-chunk buffer: pieces separated by `,` (none empty)
        ["varint", "decm", h] => {
            let pieces: Option<Vec<Vec<u8>>> = h.split(',').map(parse_hex).collect();
            let Some(pieces) = pieces else { return "bad-op".into() };
            if pieces.iter().any(|p| p.is_empty()) {
                return "bad-op".into();
            }
            guarded(|| {
                let mut buf = Chunks(pieces.into_iter().map(bytes::Bytes::from).collect());
                match VarInt::decode(&mut buf) {
                    Ok(v) => {
                        let mut rest = Vec::new();
                        while buf.has_remaining() {
                            let c = buf.chunk().to_vec();
                            rest.extend_from_slice(&c);
                            buf.advance(c.len());
                        }
                        format!("ok {} {}", v.into_inner(), to_hex(&rest))
                    }
                    Err(e) => format!("end {}", e.0),
                }
            })
        }
        ["varint", "dec", h] => {
            let Some(bs) = parse_hex(h) else { return "bad-op".into() };
            guarded(|| {
                let mut buf = &bs[..];
                match VarInt::decode(&mut buf) {
                    Ok(v) => format!("ok {} {}", v.into_inner(), to_hex(buf.chunk())),
                    Err(e) => format!("end {}", e.0),
                }
            })
        }
        ["varint", "enc", n] => {
            let Ok(x) = n.parse::<u64>() else { return "bad-op".into() };
            guarded(|| match VarInt::from_u64(x) {
                Err(_) => "refused".into(),
                Ok(v) => {
                    let mut out = BytesMut::new();
                    v.encode(&mut out);
                    format!("ok {} {}", to_hex(&out), v.size())
                }
            })
        }
        ["varint", "wv", n] => {
            let Ok(x) = n.parse::<u64>() else { return "bad-op".into() };
            guarded(|| {
                let mut out = BytesMut::new();
                out.write_var(x);
                format!("ok {}", to_hex(&out))
            })
        }
        // `TryFrom<usize> for VarInt` (added by bC18: nothing exercised it)
        ["varint", "tfu", n] => {
            let Ok(x) = n.parse::<usize>() else { return "bad-op".into() };
            guarded(|| match <VarInt as std::convert::TryFrom<usize>>::try_from(x) {
                Err(_) => "refused".into(),
                Ok(v) => format!("ok {}", v.into_inner()),
            })
        }
        ["varint", "esz", b] => {
            let Ok(x) = b.parse::<u8>() else { return "bad-op".into() };
            guarded(|| format!("{}", VarInt::encoded_size(x)))
        }
        ["sid", "try", n] => {
            let Ok(x) = n.parse::<u64>() else { return "bad-op".into() };
            guarded(|| {
                let r = |b: bool| if b { "ok" } else { "refused" };
                format!(
                    "{} {} {}",
                    r(StreamId::try_from(x).map(|s| s.into_inner() == x).unwrap_or(false)),
                    r(SessionId::try_from(x).is_ok()),
                    r(PushId::try_from(x).is_ok())
                )
            })
        }
        ["sid", "info", n] => {
            let Ok(x) = n.parse::<u64>() else { return "bad-op".into() };
            guarded(|| {
                let Ok(id) = StreamId::try_from(x) else { return "refused".into() };
                // Display: "<client|server> <uni|bi>directional stream <index>"
                let d = format!("{}", id);
                let mut it = d.split(' ');
                let ini = it.next().unwrap_or("?");
                let dir = it.next().unwrap_or("?").trim_end_matches("directional");
                format!(
                    "req={} push={} idx={} {} {}",
                    b01(id.is_request()),
                    b01(id.is_push()),
                    id.index(),
                    ini,
                    dir
                )
            })
        }
        ["sid", "add", a, b] => {
            let (Ok(x), Ok(n)) = (a.parse::<u64>(), b.parse::<u64>()) else { return "bad-op".into() };
            guarded(|| {
                let Ok(id) = StreamId::try_from(x) else { return "refused".into() };
                format!("{}", (id + n as usize).into_inner())
            })
        }
        _ => "bad-op".into(),
    }
}
