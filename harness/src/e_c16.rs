//! Engines `varint` and `sid`: real `h3::proto::{varint,stream,push}` and `SessionId`.
use crate::util::*;
use bytes::{Buf, BytesMut};
use h3::proto::coding::BufMutExt;
use h3::proto::push::PushId;
use h3::proto::stream::StreamId;
use h3::proto::varint::VarInt;
use h3::webtransport::SessionId;
use std::convert::TryFrom;

pub fn handle(w: &[&str]) -> String {
    match w {
        ["varint", "dec", h] => {
            let Some(bs) = parse_hex(h) else { return "bad-op".into() };
            guarded(|| {
                let mut buf = &bs[..];
                match VarInt::decode(&mut buf) {
                    Ok(v) => format!("ok {} {}", v.into_inner(), to_hex(buf.chunk())),
                    Err(e) => format!("end {}", e.0),
                }
            })
        }
        ["varint", "enc", n] => {
            let Ok(x) = n.parse::<u64>() else { return "bad-op".into() };
            guarded(|| match VarInt::from_u64(x) {
                Err(_) => "refused".into(),
                Ok(v) => {
                    let mut out = BytesMut::new();
                    v.encode(&mut out);
                    format!("ok {} {}", to_hex(&out), v.size())
                }
            })
        }
        ["varint", "wv", n] => {
            let Ok(x) = n.parse::<u64>() else { return "bad-op".into() };
            guarded(|| {
                let mut out = BytesMut::new();
                out.write_var(x);
                format!("ok {}", to_hex(&out))
            })
        }
        ["varint", "esz", b] => {
            let Ok(x) = b.parse::<u8>() else { return "bad-op".into() };
            guarded(|| format!("{}", VarInt::encoded_size(x)))
        }
        ["sid", "try", n] => {
            let Ok(x) = n.parse::<u64>() else { return "bad-op".into() };
            guarded(|| {
                let r = |b: bool| if b { "ok" } else { "refused" };
                format!(
                    "{} {} {}",
                    r(StreamId::try_from(x).map(|s| s.into_inner() == x).unwrap_or(false)),
                    r(SessionId::try_from(x).is_ok()),
                    r(PushId::try_from(x).is_ok())
                )
            })
        }
        ["sid", "info", n] => {
            let Ok(x) = n.parse::<u64>() else { return "bad-op".into() };
            guarded(|| {
                let Ok(id) = StreamId::try_from(x) else { return "refused".into() };
                // Display: "<client|server> <uni|bi>directional stream <index>"
                let d = format!("{}", id);
                let mut it = d.split(' ');
                let ini = it.next().unwrap_or("?");
                let dir = it.next().unwrap_or("?").trim_end_matches("directional");
                format!(
                    "req={} push={} idx={} {} {}",
                    b01(id.is_request()),
                    b01(id.is_push()),
                    id.index(),
                    ini,
                    dir
                )
            })
        }
        ["sid", "add", a, b] => {
            let (Ok(x), Ok(n)) = (a.parse::<u64>(), b.parse::<u64>()) else { return "bad-op".into() };
            guarded(|| {
                let Ok(id) = StreamId::try_from(x) else { return "refused".into() };
                format!("{}", (id + n as usize).into_inner())
            })
        }
        _ => "bad-op".into(),
    }
}
