//! Line-protocol helpers.
use std::panic::{catch_unwind, AssertUnwindSafe};

pub fn parse_hex(s: &str) -> Option<Vec<u8>> {
    if s == "-" {
        return Some(vec![]);
    }
    if s.len() % 2 != 0 {
        return None;
    }
    (0..s.len() / 2)
        .map(|i| u8::from_str_radix(&s[2 * i..2 * i + 2], 16).ok())
        .collect()
}

pub fn to_hex(b: &[u8]) -> String {
    if b.is_empty() {
        return "-".into();
    }
    b.iter().map(|x| format!("{:02x}", x)).collect()
}

/// Run `f`, mapping a panic to the canonical result `panic`.
pub fn guarded<F: FnOnce() -> String>(f: F) -> String {
    match catch_unwind(AssertUnwindSafe(f)) {
        Ok(s) => s,
        Err(_) => "panic".into(),
    }
}

pub fn b01(b: bool) -> &'static str {
    if b {
        "1"
    } else {
        "0"
    }
}
