//! Engine `dgram`: real `h3_datagram::datagram::{Datagram, EncodedDatagram}`.
use crate::util::*;
use bytes::{Buf, Bytes};
use h3::proto::stream::StreamId;
use h3_datagram::datagram::Datagram;
use std::convert::TryFrom;

/// `code: NAME` out of the Debug rendering (the field is crate-private).
pub fn code_of_debug(d: &str) -> String {
    match d.find("code: ") {
        Some(i) => d[i + 6..].split(|c: char| !(c.is_alphanumeric() || c == '_')).next().unwrap_or("?").to_string(),
        None => "?".into(),
    }
}

// pattern steps: `k` take min(k, chunk) bytes of the current chunk; `r<k>` copy k bytes through as many
// chunks as needed (like copy_to_slice / copy_to_bytes); `a<k>` advance(k) directly, across the
// header/payload boundary (and across payload chunks) if k says so
#[derive(Clone, Copy)]
enum Step {
    Chunk(usize),
    Read(usize),
    Adv(usize),
}

fn parse_pattern(pat: &str) -> Option<Vec<Step>> {
    if pat == "all" {
        return Some(vec![]);
    }
    let mut v = Vec::new();
    for t in pat.split(',') {
        let st = if let Some(n) = t.strip_prefix('r') {
            n.parse::<usize>().map(Step::Read)
        } else if let Some(n) = t.strip_prefix('a') {
            n.parse::<usize>().map(Step::Adv)
        } else {
            t.parse::<usize>().map(Step::Chunk)
        };
        v.push(st.ok()?);
    }
    Some(v)
}

fn run_pattern<B: Buf>(mut e: h3_datagram::datagram::EncodedDatagram<B>, ks: Vec<Step>) -> String {
    let rem0 = e.remaining();
    let mut out = Vec::new();
    for st in ks {
        match st {
            Step::Chunk(k) => {
                let c = e.chunk();
                let t = k.min(c.len());
                out.extend_from_slice(&c[..t]);
                e.advance(t);
            }
            Step::Read(k) => {
                let mut left = k.min(e.remaining());
                while left > 0 {
                    let c = e.chunk();
                    let t = left.min(c.len());
                    if t == 0 {
                        break;
                    }
                    out.extend_from_slice(&c[..t]);
                    e.advance(t);
                    left -= t;
                }
            }
            Step::Adv(k) => {
                let t = k.min(e.remaining());
                e.advance(t);
            }
        }
    }
    loop {
        let c = e.chunk();
        if c.is_empty() {
            break;
        }
        let n = c.len();
        out.extend_from_slice(c);
        e.advance(n);
    }
    format!("ok {} rem0={}", to_hex(&out), rem0)
}

pub fn handle(w: &[&str]) -> String {
    match w {
        ["dgram", "enc", sid, ph, pat] => {
            let (Ok(s), Some(p)) = (sid.parse::<u64>(), parse_hex(ph)) else { return "bad-op".into() };
            let Some(ks) = parse_pattern(pat) else { return "bad-op".into() };
            guarded(|| {
                let Ok(id) = StreamId::try_from(s) else { return "refused".into() };
                run_pattern(Datagram::new(id, Bytes::from(p)).encode(), ks)
            })
        }
        // the payload is a NON-CONTIGUOUS `Buf`: chunks separated by `|`, none empty
        ["dgram", "encm", sid, chunks, pat] => {
            let Ok(s) = sid.parse::<u64>() else { return "bad-op".into() };
            let Some(p) = crate::e_c16::Chunks::parse(&chunks.replace('|', ",")) else { return "bad-op".into() };
            let Some(ks) = parse_pattern(pat) else { return "bad-op".into() };
            guarded(|| {
                let Ok(id) = StreamId::try_from(s) else { return "refused".into() };
                run_pattern(Datagram::new(id, p).encode(), ks)
            })
        }
        // a connection-level scenario (SimQuic + real server / client, `scen.rs`): `dgram scen <role> <cfg> <op>…`
        ["dgram", "scen", rest @ ..] if rest.len() >= 2 => {
            let mut v: Vec<&str> = vec!["conn"];
            v.extend_from_slice(rest);
            crate::scen::handle(&v)
        }
        ["dgram", "dec", h] => {
            let Some(bs) = parse_hex(h) else { return "bad-op".into() };
            guarded(|| match Datagram::decode(Bytes::from(bs)) {
                Ok(d) => format!("ok {} {}", d.stream_id().into_inner(), to_hex(d.payload())),
                Err(e) => format!("err {}", code_of_debug(&format!("{:?}", e))),
            })
        }
        _ => "bad-op".into(),
    }
}
