//! Minimal deterministic in-memory QUIC transport, GENERIC in the payload type `B: Buf` (a copy of `c12_sim.rs` with the
//! pending `WriteBuf<B>` kept as `Box<dyn Buf>`), private to the `sdc` engine (C14): real `h3::server` / `h3::client` objects typed
//! with a payload that is not contiguous.  Not the general SimQuic of the framework (which is typed `B = Bytes`).
#![allow(dead_code)]
use bytes::{Buf, Bytes};
use h3::quic::{self, ConnectionErrorIncoming, StreamErrorIncoming, StreamId, WriteBuf};
use std::cell::RefCell;
use std::collections::{BTreeMap, VecDeque};
use std::rc::Rc;
use std::task::{Context, Poll};

#[derive(Debug, Clone)]
pub enum Rx { Chunk(Bytes), Fin, Reset(u64) }

#[derive(Default)]
pub struct Stream {
    pub id: u64,
    // peer -> h3
    pub rx: VecDeque<Rx>,
    pub rx_done: Option<Rx>,        // sticky Fin/Reset once reached
    pub stop_sending: Option<u64>,  // h3 asked the peer to stop
    // h3 -> peer
    pub tx: Vec<u8>,
    pub tx_credit: usize,
    pub tx_fin: bool,
    pub tx_reset: Option<u64>,
    pub peer_stopped: Option<u64>,  // peer sent STOP_SENDING
    pub writing: Option<Box<dyn Buf>>,
}

#[derive(Default)]
pub struct Net {
    pub streams: BTreeMap<u64, Rc<RefCell<Stream>>>,
    pub incoming_uni: VecDeque<u64>,
    pub incoming_bidi: VecDeque<u64>,
    pub uni_credit: usize,
    pub bidi_credit: usize,
    pub next_local_uni: u64,
    pub next_local_bidi: u64,
    pub closed: Vec<(u64, Vec<u8>)>,
    pub conn_err: Option<ConnectionErrorIncoming>,
    pub default_tx_credit: usize,
    pub server: bool,
}
pub type NetRef = Rc<RefCell<Net>>;

impl Net {
    pub fn new(server: bool) -> NetRef {
        Rc::new(RefCell::new(Net { uni_credit: usize::MAX, bidi_credit: usize::MAX, default_tx_credit: usize::MAX, server, ..Default::default() }))
    }
    fn mk(&mut self, id: u64) -> Rc<RefCell<Stream>> {
        let s = Rc::new(RefCell::new(Stream { id, tx_credit: self.default_tx_credit, ..Default::default() }));
        self.streams.insert(id, s.clone());
        s
    }
    /// peer opens a stream towards h3
    pub fn peer_open(&mut self, id: u64) {
        self.mk(id);
        if id & 2 == 0 { self.incoming_bidi.push_back(id) } else { self.incoming_uni.push_back(id) }
    }
    pub fn peer_send(&mut self, id: u64, ev: Rx) { self.streams[&id].borrow_mut().rx.push_back(ev); }
    pub fn tx(&self, id: u64) -> Vec<u8> { self.streams[&id].borrow().tx.clone() }
}

pub struct SimConn { pub net: NetRef }
pub struct SimOpen { pub net: NetRef }
pub struct SimStream { net: NetRef, s: Rc<RefCell<Stream>> }

fn conn_err(net: &NetRef) -> Option<ConnectionErrorIncoming> { net.borrow().conn_err.clone() }

fn open(net: &NetRef, bidi: bool) -> Poll<Result<SimStream, StreamErrorIncoming>> {
    if let Some(e) = conn_err(net) { return Poll::Ready(Err(StreamErrorIncoming::ConnectionErrorIncoming { connection_error: e })); }
    let mut n = net.borrow_mut();
    let credit = if bidi { &mut n.bidi_credit } else { &mut n.uni_credit };
    if *credit == 0 { return Poll::Pending; }
    if *credit != usize::MAX { *credit -= 1; }
    let side = if n.server { 1 } else { 0 };
    let id = if bidi { let i = n.next_local_bidi; n.next_local_bidi += 1; i << 2 | side } else { let i = n.next_local_uni; n.next_local_uni += 1; i << 2 | 2 | side };
    let s = n.mk(id);
    drop(n);
    Poll::Ready(Ok(SimStream { net: net.clone(), s }))
}

impl<B: Buf + 'static> quic::OpenStreams<B> for SimConn {
    type BidiStream = SimStream; type SendStream = SimStream;
    fn poll_open_bidi(&mut self, _: &mut Context<'_>) -> Poll<Result<SimStream, StreamErrorIncoming>> { open(&self.net, true) }
    fn poll_open_send(&mut self, _: &mut Context<'_>) -> Poll<Result<SimStream, StreamErrorIncoming>> { open(&self.net, false) }
    fn close(&mut self, code: h3::error::Code, reason: &[u8]) { self.net.borrow_mut().closed.push((code.value(), reason.to_vec())); }
}
impl<B: Buf + 'static> quic::OpenStreams<B> for SimOpen {
    type BidiStream = SimStream; type SendStream = SimStream;
    fn poll_open_bidi(&mut self, _: &mut Context<'_>) -> Poll<Result<SimStream, StreamErrorIncoming>> { open(&self.net, true) }
    fn poll_open_send(&mut self, _: &mut Context<'_>) -> Poll<Result<SimStream, StreamErrorIncoming>> { open(&self.net, false) }
    fn close(&mut self, code: h3::error::Code, reason: &[u8]) { self.net.borrow_mut().closed.push((code.value(), reason.to_vec())); }
}
impl<B: Buf + 'static> quic::Connection<B> for SimConn {
    type RecvStream = SimStream; type OpenStreams = SimOpen;
    fn poll_accept_recv(&mut self, _: &mut Context<'_>) -> Poll<Result<SimStream, ConnectionErrorIncoming>> {
        if let Some(e) = conn_err(&self.net) { return Poll::Ready(Err(e)); }
        let mut n = self.net.borrow_mut();
        match n.incoming_uni.pop_front() { Some(id) => { let s = n.streams[&id].clone(); drop(n); Poll::Ready(Ok(SimStream { net: self.net.clone(), s })) } None => Poll::Pending }
    }
    fn poll_accept_bidi(&mut self, _: &mut Context<'_>) -> Poll<Result<SimStream, ConnectionErrorIncoming>> {
        if let Some(e) = conn_err(&self.net) { return Poll::Ready(Err(e)); }
        let mut n = self.net.borrow_mut();
        match n.incoming_bidi.pop_front() { Some(id) => { let s = n.streams[&id].clone(); drop(n); Poll::Ready(Ok(SimStream { net: self.net.clone(), s })) } None => Poll::Pending }
    }
    fn opener(&self) -> SimOpen { SimOpen { net: self.net.clone() } }
}
impl quic::RecvStream for SimStream {
    type Buf = Bytes;
    fn poll_data(&mut self, _: &mut Context<'_>) -> Poll<Result<Option<Bytes>, StreamErrorIncoming>> {
        if let Some(e) = conn_err(&self.net) { return Poll::Ready(Err(StreamErrorIncoming::ConnectionErrorIncoming { connection_error: e })); }
        let mut s = self.s.borrow_mut();
        if let Some(d) = s.rx_done.clone() {
            return Poll::Ready(match d { Rx::Fin => Ok(None), Rx::Reset(c) => Err(StreamErrorIncoming::StreamTerminated { error_code: c }), _ => unreachable!() });
        }
        match s.rx.pop_front() {
            None => Poll::Pending,
            Some(Rx::Chunk(b)) => Poll::Ready(Ok(Some(b))),
            Some(Rx::Fin) => { s.rx_done = Some(Rx::Fin); Poll::Ready(Ok(None)) }
            Some(Rx::Reset(c)) => { s.rx_done = Some(Rx::Reset(c)); Poll::Ready(Err(StreamErrorIncoming::StreamTerminated { error_code: c })) }
        }
    }
    fn stop_sending(&mut self, code: u64) { self.s.borrow_mut().stop_sending.get_or_insert(code); }
    fn recv_id(&self) -> StreamId { StreamId::try_from(self.s.borrow().id).unwrap() }
}
impl<B: Buf + 'static> quic::SendStream<B> for SimStream {
    fn poll_ready(&mut self, _: &mut Context<'_>) -> Poll<Result<(), StreamErrorIncoming>> {
        if let Some(e) = conn_err(&self.net) { return Poll::Ready(Err(StreamErrorIncoming::ConnectionErrorIncoming { connection_error: e })); }
        let mut s = self.s.borrow_mut();
        if let Some(c) = s.peer_stopped { return Poll::Ready(Err(StreamErrorIncoming::StreamTerminated { error_code: c })); }
        let s = &mut *s;
        if let Some(w) = s.writing.as_mut() {
            while w.has_remaining() {
                if s.tx_credit == 0 { return Poll::Pending; }
                let c = w.chunk();
                let k = c.len().min(s.tx_credit);
                s.tx.extend_from_slice(&c[..k]);
                if s.tx_credit != usize::MAX { s.tx_credit -= k; }
                w.advance(k);
            }
        }
        s.writing = None;
        Poll::Ready(Ok(()))
    }
    fn send_data<T: Into<WriteBuf<B>>>(&mut self, data: T) -> Result<(), StreamErrorIncoming> {
        let mut s = self.s.borrow_mut();
        if s.writing.is_some() {
            return Err(StreamErrorIncoming::ConnectionErrorIncoming { connection_error: ConnectionErrorIncoming::InternalError("send_data while writing".into()) });
        }
        let w: WriteBuf<B> = data.into();
        s.writing = Some(Box::new(w));
        Ok(())
    }
    fn poll_finish(&mut self, _: &mut Context<'_>) -> Poll<Result<(), StreamErrorIncoming>> { self.s.borrow_mut().tx_fin = true; Poll::Ready(Ok(())) }
    fn reset(&mut self, code: u64) { self.s.borrow_mut().tx_reset.get_or_insert(code); }
    fn send_id(&self) -> StreamId { StreamId::try_from(self.s.borrow().id).unwrap() }
}
impl<B: Buf + 'static> quic::BidiStream<B> for SimStream {
    type SendStream = SimStream; type RecvStream = SimStream;
    fn split(self) -> (SimStream, SimStream) { (SimStream { net: self.net.clone(), s: self.s.clone() }, self) }
}
