//! Engine `wbuf` (C14): builds a real `h3::stream::WriteBuf` through its `From` conversions
//! from a described value and consumes it through its real `Buf` implementation with a given
//! acceptance pattern.
//!
//! `wbuf <desc> <pattern>`
//!   desc:  data:<hex> | headers:<hex> | goaway:<id> | cancel:<id> | maxpush:<id> |
//!          settings:<id>=<v>;… | pp:<id>:<hex> | wtf:<session> | st:<ty> | ctl:<id>=<v>;… |
//!          enc | dec | wtu:<session> | wtb:<session> | pair:<ty>:<frame desc> |
//!          datac:<hex>|<hex>|… (also as the frame of a pair): `Frame::Data` over a payload `B: Buf` that is NOT
//!          contiguous - exactly two segments: `bytes::buf::Chain<Bytes, Bytes>`, otherwise `Segs` (a deque of `Bytes`);
//!          `-` or nothing = an empty segment
//!   pattern (comma separated, `-` = none): <k> = the transport takes min(k, |chunk|) bytes of
//!          `chunk()` and calls `advance` with that; a<cnt> = a bare `advance(cnt)`
//! output: `all=<everything taken, in order> r<remaining> <taken hex>:r<remaining> …
//!          a:r<remaining> … left=<the rest, drained chunk by chunk>`; a panic anywhere gives `panic`.
use crate::util::*;
use bytes::{Buf, Bytes};
use h3::proto::frame::{Frame, PayloadLen, SettingId, Settings};
use h3::proto::push::PushId;
use h3::proto::stream::StreamType;
use h3::proto::varint::VarInt;
use h3::stream::{BidiStreamHeader, UniStreamHeader, WriteBuf};
use h3::webtransport::SessionId;
use std::convert::TryFrom;

enum Bad {
    Op,
    Id,
    Settings,
}

fn settings(s: &str) -> Result<Settings, Bad> {
    let mut st = Settings::default();
    if s == "-" || s.is_empty() {
        return Ok(st);
    }
    for kv in s.split(';') {
        let (k, v) = kv.split_once('=').ok_or(Bad::Op)?;
        let (k, v) = (k.parse::<u64>().map_err(|_| Bad::Op)?, v.parse::<u64>().map_err(|_| Bad::Op)?);
        st.insert(SettingId(k), v).map_err(|_| Bad::Settings)?;
    }
    Ok(st)
}

fn varint(s: &str) -> Result<VarInt, Bad> {
    VarInt::from_u64(s.parse::<u64>().map_err(|_| Bad::Op)?).map_err(|_| Bad::Id)
}

fn push_id(s: &str) -> Result<PushId, Bad> {
    PushId::try_from(s.parse::<u64>().map_err(|_| Bad::Op)?).map_err(|_| Bad::Id)
}

fn session(s: &str) -> Result<SessionId, Bad> {
    SessionId::try_from(s.parse::<u64>().map_err(|_| Bad::Op)?).map_err(|_| Bad::Id)
}

/// the only way to a `PushPromise` value from outside the crate: decode one
fn push_promise(id: &str, hex: &str) -> Result<Frame<Bytes>, Bad> {
    let id = varint(id)?;
    let enc = parse_hex(hex).ok_or(Bad::Op)?;
    let mut wire = Vec::new();
    let put = |v: u64, out: &mut Vec<u8>| {
        VarInt::from_u64(v).unwrap().encode(out);
    };
    put(5, &mut wire);
    put((id.size() + enc.len()) as u64, &mut wire);
    put(id.into_inner(), &mut wire);
    wire.extend_from_slice(&enc);
    let mut cur = std::io::Cursor::new(&wire[..]);
    match Frame::<PayloadLen>::decode(&mut cur) {
        Ok(Frame::PushPromise(pp)) => Ok(Frame::PushPromise(pp)),
        _ => Err(Bad::Op),
    }
}

fn frame(desc: &str) -> Result<Frame<Bytes>, Bad> {
    let (k, arg) = desc.split_once(':').unwrap_or((desc, ""));
    Ok(match k {
        "data" => Frame::Data(Bytes::from(parse_hex(arg).ok_or(Bad::Op)?)),
        "headers" => Frame::Headers(Bytes::from(parse_hex(arg).ok_or(Bad::Op)?)),
        "goaway" => Frame::Goaway(varint(arg)?),
        "cancel" => Frame::CancelPush(push_id(arg)?),
        "maxpush" => Frame::MaxPushId(push_id(arg)?),
        "settings" => Frame::Settings(settings(arg)?),
        "wtf" => Frame::WebTransportStream(session(arg)?),
        "pp" => {
            let (id, hex) = arg.split_once(':').ok_or(Bad::Op)?;
            push_promise(id, hex)?
        }
        _ => return Err(Bad::Op),
    })
}

fn build(desc: &str) -> Result<Box<dyn FnOnce() -> WriteBuf<Bytes>>, Bad> {
    let (k, arg) = desc.split_once(':').unwrap_or((desc, ""));
    Ok(match k {
        "st" => {
            let v = arg.parse::<u64>().map_err(|_| Bad::Op)?;
            Box::new(move || WriteBuf::from(StreamType::from_value(v)))
        }
        "ctl" => {
            let s = settings(arg)?;
            Box::new(move || WriteBuf::from(UniStreamHeader::Control(s)))
        }
        "enc" => Box::new(|| WriteBuf::from(UniStreamHeader::Encoder)),
        "dec" => Box::new(|| WriteBuf::from(UniStreamHeader::Decoder)),
        "wtu" => {
            let s = session(arg)?;
            Box::new(move || WriteBuf::from(UniStreamHeader::WebTransportUni(s)))
        }
        "wtb" => {
            let s = session(arg)?;
            Box::new(move || WriteBuf::from(BidiStreamHeader::WebTransportBidi(s)))
        }
        "pair" => {
            let (ty, fd) = arg.split_once(':').ok_or(Bad::Op)?;
            let v = ty.parse::<u64>().map_err(|_| Bad::Op)?;
            let f = frame(fd)?;
            Box::new(move || WriteBuf::from((StreamType::from_value(v), f)))
        }
        _ => {
            let f = frame(desc)?;
            Box::new(move || WriteBuf::from(f))
        }
    })
}

/// a payload in segments, some possibly empty: `chunk()` is the first segment that has bytes (so the `Buf` contract holds:
/// empty only when nothing remains), `advance` walks the segments and panics past the end like `Bytes::advance`
pub(crate) struct Segs(pub(crate) std::collections::VecDeque<Bytes>);

impl Buf for Segs {
    fn remaining(&self) -> usize {
        self.0.iter().map(|b| b.len()).sum()
    }
    fn chunk(&self) -> &[u8] {
        self.0.iter().find(|b| !b.is_empty()).map(|b| &b[..]).unwrap_or(&[])
    }
    fn advance(&mut self, mut cnt: usize) {
        while cnt > 0 {
            let front = self.0.front_mut().expect("advance past the end");
            if cnt <= front.len() {
                front.advance(cnt);
                return;
            }
            cnt -= front.len();
            self.0.pop_front();
        }
    }
}

fn parse_segs(s: &str) -> Option<Vec<Bytes>> {
    s.split('|').map(|h| if h.is_empty() { Some(Bytes::new()) } else { parse_hex(h).map(Bytes::from) }).collect()
}

/// `datac:…` / `pair:<ty>:datac:…` => (stream type of the pair, segments)
fn chunked(desc: &str) -> Option<Result<(Option<u64>, Vec<Bytes>), ()>> {
    if let Some(a) = desc.strip_prefix("datac:") {
        return Some(parse_segs(a).map(|s| (None, s)).ok_or(()));
    }
    let rest = desc.strip_prefix("pair:")?;
    let (ty, fd) = rest.split_once(':')?;
    let a = fd.strip_prefix("datac:")?;
    Some(match (ty.parse::<u64>(), parse_segs(a)) {
        (Ok(v), Some(s)) => Ok((Some(v), s)),
        _ => Err(()),
    })
}

fn build_c<B: Buf>(ty: Option<u64>, payload: B) -> WriteBuf<B> {
    match ty {
        None => WriteBuf::from(Frame::Data(payload)),
        Some(v) => WriteBuf::from((StreamType::from_value(v), Frame::Data(payload))),
    }
}

fn run_pat<B: Buf>(mut b: WriteBuf<B>, ps: Vec<Pat>) -> String {
    let mut out = vec![format!("r{}", b.remaining())];
    let mut all = Vec::new();
    for p in ps {
        match p {
            Pat::Take(k) => {
                let c = b.chunk();
                let n = k.min(c.len());
                all.extend_from_slice(&c[..n]);
                let taken = to_hex(&c[..n]);
                b.advance(n);
                out.push(format!("{}:r{}", taken, b.remaining()));
            }
            Pat::Adv(n) => {
                b.advance(n);
                out.push(format!("a:r{}", b.remaining()));
            }
        }
    }
    let mut rest = Vec::new();
    loop {
        let c = b.chunk();
        if c.is_empty() {
            break;
        }
        let n = c.len();
        rest.extend_from_slice(c);
        b.advance(n);
    }
    out.push(format!("left={}", to_hex(&rest)));
    all.extend_from_slice(&rest);
    format!("all={} {}", to_hex(&all), out.join(" "))
}

enum Pat {
    Take(usize),
    Adv(usize),
}


// ---------------------------------------------------------------- engine `sdc`: a real connection typed with a segmented payload
//
// `sdc <role> <wc> <grants k,k,…|-> [#fs:<hex>] [#rq:<hex>] <payload> …`   payload = `<hex>|<hex>|…` (segments, `-` = empty)
// A real `h3::client` / `h3::server` connection with `B = Segs` over the payload-generic transport `c14_sim.rs`, grease off.  Client:
// `send_request(GET https://a/)`, one `send_data(Segs)` per payload, `finish()`.  Server: the peer's request (`#rq:` = its HEADERS
// frame), `accept`, `resolve_request`, `send_response(200)`, the same.  The request stream starts with `wc` bytes of write credit;
// whenever a call is pending the next grant is added; when the grants are used up the call stays pending and nothing else is called.
// Output: `0:tx=<hex>[,fin] calls=<ok|pending|err>,…` (`#fs:` is for the Lean side: the field section of the HEADERS frame h3 writes).
use crate::c14_sim::{Net as CNet, NetRef as CNetRef, Rx as CRx, SimConn as CSimConn};
use std::collections::VecDeque;
use std::future::Future;
use std::pin::Pin;
use std::task::{Context, Poll};

fn drive_c<F: Future + ?Sized>(f: &mut Pin<Box<F>>, net: &CNetRef, grants: &mut VecDeque<usize>) -> Option<F::Output> {
    let w = futures_util::task::noop_waker();
    let mut cx = Context::from_waker(&w);
    loop {
        for _ in 0..4 {
            if let Poll::Ready(r) = f.as_mut().poll(&mut cx) {
                return Some(r);
            }
        }
        let k = grants.pop_front()?;
        if let Some(s) = net.borrow().streams.get(&0) {
            let mut s = s.borrow_mut();
            s.tx_credit = s.tx_credit.saturating_add(k);
        }
    }
}

fn sdc_calls<S>(st: &mut S, payloads: Vec<Vec<Bytes>>, net: &CNetRef, grants: &mut VecDeque<usize>, calls: &mut Vec<&'static str>)
where
    S: SdcStream,
{
    for p in payloads {
        let mut f = st.sd(Segs(p.into_iter().collect()));
        match drive_c(&mut f, net, grants) {
            Some(true) => calls.push("ok"),
            Some(false) => {
                calls.push("err");
                return;
            }
            None => {
                calls.push("pending");
                return;
            }
        }
    }
    let mut f = st.fi();
    match drive_c(&mut f, net, grants) {
        Some(true) => calls.push("ok"),
        Some(false) => calls.push("err"),
        None => calls.push("pending"),
    }
}

trait SdcStream {
    fn sd<'a>(&'a mut self, b: Segs) -> Pin<Box<dyn Future<Output = bool> + 'a>>;
    fn fi<'a>(&'a mut self) -> Pin<Box<dyn Future<Output = bool> + 'a>>;
}
impl SdcStream for h3::client::RequestStream<crate::c14_sim::SimStream, Segs> {
    fn sd<'a>(&'a mut self, b: Segs) -> Pin<Box<dyn Future<Output = bool> + 'a>> {
        Box::pin(async move { self.send_data(b).await.is_ok() })
    }
    fn fi<'a>(&'a mut self) -> Pin<Box<dyn Future<Output = bool> + 'a>> {
        Box::pin(async move { self.finish().await.is_ok() })
    }
}
impl SdcStream for h3::server::RequestStream<crate::c14_sim::SimStream, Segs> {
    fn sd<'a>(&'a mut self, b: Segs) -> Pin<Box<dyn Future<Output = bool> + 'a>> {
        Box::pin(async move { self.send_data(b).await.is_ok() })
    }
    fn fi<'a>(&'a mut self) -> Pin<Box<dyn Future<Output = bool> + 'a>> {
        Box::pin(async move { self.finish().await.is_ok() })
    }
}

fn sdc_summary(net: &CNetRef, calls: &[&'static str]) -> String {
    let n = net.borrow();
    let (tx, fin) = match n.streams.get(&0) {
        Some(s) => (s.borrow().tx.clone(), s.borrow().tx_fin),
        None => (Vec::new(), false),
    };
    format!("0:tx={}{} calls={}", to_hex(&tx), if fin { ",fin" } else { "" }, calls.join(","))
}

fn sdc(role: &str, wc: usize, grants: Vec<usize>, rq: Option<Vec<u8>>, payloads: Vec<Vec<Bytes>>) -> String {
    let mut grants: VecDeque<usize> = grants.into();
    let mut none: VecDeque<usize> = VecDeque::new();
    let mut calls: Vec<&'static str> = Vec::new();
    if role == "client" {
        let net = CNet::new(false);
        let mut builder = h3::client::builder();
        builder.send_grease(false);
        let mut f: Pin<Box<dyn Future<Output = _>>> = Box::pin(builder.build::<_, _, Segs>(CSimConn { net: net.clone() }));
        let Some(Ok((_conn, mut send))) = drive_c(&mut f, &net, &mut none) else { return "client-build-failed".into() };
        drop(f);
        net.borrow_mut().default_tx_credit = wc;
        let req = http::Request::builder().method("GET").uri("https://a/").body(()).expect("request");
        let mut st = {
            let mut f = Box::pin(send.send_request(req));
            match drive_c(&mut f, &net, &mut grants) {
                Some(Ok(s)) => s,
                Some(Err(_)) => return sdc_summary(&net, &["err"]),
                None => return sdc_summary(&net, &["pending"]),
            }
        };
        calls.push("ok");
        sdc_calls(&mut st, payloads, &net, &mut grants, &mut calls);
        sdc_summary(&net, &calls)
    } else {
        let Some(rq) = rq else { return "bad-op".into() };
        let net = CNet::new(true);
        let mut builder = h3::server::builder();
        builder.send_grease(false);
        let mut f: Pin<Box<dyn Future<Output = _>>> = Box::pin(builder.build::<_, Segs>(CSimConn { net: net.clone() }));
        let Some(Ok(mut conn)) = drive_c(&mut f, &net, &mut none) else { return "server-build-failed".into() };
        drop(f);
        {
            let mut n = net.borrow_mut();
            n.default_tx_credit = wc;
            n.peer_open(0);
            n.peer_send(0, CRx::Chunk(Bytes::from(rq)));
            n.peer_send(0, CRx::Fin);
        }
        let resolver = {
            let mut f = Box::pin(conn.accept());
            match drive_c(&mut f, &net, &mut none) {
                Some(Ok(Some(r))) => r,
                _ => return "accept-failed".into(),
            }
        };
        let mut st = {
            let mut f = Box::pin(resolver.resolve_request());
            match drive_c(&mut f, &net, &mut none) {
                Some(Ok((_req, st))) => st,
                _ => return "resolve-failed".into(),
            }
        };
        {
            let resp = http::Response::builder().status(200).body(()).expect("response");
            let mut f = Box::pin(st.send_response(resp));
            match drive_c(&mut f, &net, &mut grants) {
                Some(Ok(())) => calls.push("ok"),
                Some(Err(_)) => return sdc_summary(&net, &["err"]),
                None => return sdc_summary(&net, &["pending"]),
            }
        }
        sdc_calls(&mut st, payloads, &net, &mut grants, &mut calls);
        sdc_summary(&net, &calls)
    }
}

pub fn handle(w: &[&str]) -> String {
    match w {
        ["sdc", role @ ("client" | "server"), wc, grants, rest @ ..] => {
            let Ok(wc) = wc.parse::<usize>() else { return "bad-op".into() };
            let mut gs = Vec::new();
            if *grants != "-" {
                for g in grants.split(',') {
                    match g.parse::<usize>() {
                        Ok(k) => gs.push(k),
                        Err(_) => return "bad-op".into(),
                    }
                }
            }
            let mut rq = None;
            let mut payloads = Vec::new();
            for t in rest {
                if let Some(h) = t.strip_prefix("#rq:") {
                    rq = parse_hex(h);
                } else if t.starts_with('#') {
                    continue;
                } else {
                    match parse_segs(t) {
                        Some(p) => payloads.push(p),
                        None => return "bad-op".into(),
                    }
                }
            }
            let role = role.to_string();
            guarded(move || sdc(&role, wc, gs, rq, payloads))
        }
        ["wbuf", desc, pat] => {
            let mut ps = Vec::new();
            if *pat != "-" {
                for t in pat.split(',') {
                    let p = if let Some(n) = t.strip_prefix('a') { n.parse().map(Pat::Adv) } else { t.parse().map(Pat::Take) };
                    match p {
                        Ok(p) => ps.push(p),
                        Err(_) => return "bad-op".into(),
                    }
                }
            }
            match chunked(desc) {
                Some(Err(())) => return "bad-op".into(),
                Some(Ok((ty, mut segs))) => {
                    return guarded(move || {
                        if segs.len() == 2 {
                            let b = segs.pop().unwrap();
                            let a = segs.pop().unwrap();
                            run_pat(build_c(ty, a.chain(b)), ps)
                        } else {
                            run_pat(build_c(ty, Segs(segs.into_iter().collect())), ps)
                        }
                    });
                }
                None => {}
            }
            let mk = match build(desc) {
                Ok(mk) => mk,
                Err(Bad::Op) => return "bad-op".into(),
                Err(Bad::Id) => return "bad-id".into(),
                Err(Bad::Settings) => return "bad-settings".into(),
            };
            guarded(move || run_pat(mk(), ps))
        }
        _ => "bad-op".into(),
    }
}
