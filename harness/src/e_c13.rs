//! Engine `set` (C13): the real SETTINGS code paths.
//!
//! * `set cfg <role> [mfs=<n>] [wt=<0|1>] [ec=<0|1>] [dg=<0|1>] [wts=<n>] [grease=<0|1>] [seed=<s> gid=<id>]`
//!   builds the real client/server connection over `sim.rs` with exactly the builder methods named
//!   on the line (a key that is absent = builder default) and prints the bytes the simulated
//!   peer sees on the control stream.  The grease identifier is random in h3
//!   (`fastrand::u64`); the case line carries the `fastrand` seed, the harness seeds the
//!   thread-local generator before `build`, and `gid` (obtained beforehand from
//!   `set gid <seed>` = the real `SettingId::grease()` after the same seeding) tells the Lean
//!   side which identifier that seed yields, so both sides print the full bytes.
//!   Output `ok <control stream bytes> pairs <id> <val> ... (sorted)` (the pairs as read by a plain
//!   varint-pair reader in this file that shares nothing with h3), or
//!   `err wrote=<control stream bytes> <open|closed CODE>` when `build` returns an error.
//!   The client builder has no WebTransport options: `wt=`/`wts=` on a client line is `bad-op`.
//! * `set gid <seed>`: `fastrand::seed(seed); SettingId::grease()` (used while generating cases).
//! * `set dec <payload>`: real `Frame::decode` of `04 len payload`, then
//!   `config::Settings::from(&settings)` through `SharedState::set_settings`:
//!   `ok ent <id:val,...> mfs <n> wt <b> ec <b> dg <b> wts <n>` or `err <CODE> <kind>` (the code as
//!   `InternalConnectionError::got_frame_error` maps the frame error).
//! * `set enc <id:val,...>`: real `Settings::insert` calls, then
//!   `WriteBuf::from(UniStreamHeader::Control(settings))` and the decode of what was written:
//!   `ins <result,...> ent <..> get0 <get(SettingId(0))> hdr <bytes|panic> view <id:val,..|-|malformed> rt <ent ..|err:kind>`
//!   (`view` = the header bytes read by the plain varint-pair reader of this file, sorted by identifier).
//! * `set cell <payload1> <payload2>`: the write-once settings cell of `SharedState`.
//! * `set apply <role> <payload> <cut> [cfg keys]` / `set apply2 <role> <payload1> <payload2> [cfg keys]`: a peer
//!   control stream (`00 04 len payload`, delivered in two chunks when `0 < cut < total`) fed into
//!   a real connection driven by `accept()` / `poll_close()`; what `settings()` reports
//!   before/between/after (`mfs/wt/ec/dg/wts`) and `open` or `closed <CODE>` as the peer sees it.
//!   `[cfg keys]` = the LOCAL configuration the connection is built with: the `set cfg` keys `mfs= wt= ec= dg=
//!   wts= grease=` (no seed / gid: the own control stream is not printed; grease is OFF unless `grease=1`); a
//!   configuration `build` refuses answers `setup-failed`.
//! * `set applyq <role> <payload> <cut> <pre1,pre2,..> [cfg keys]`: as `set apply`, but the peer has opened other
//!   unidirectional streams BEFORE its control stream: with an incomplete stream header (`-` = no
//!   byte yet, `40` = first byte of a two-byte type, `4054` / `54` / `01` = WebTransport / push type
//!   without the session / push id) - they sit in front of the control stream in `pending_recv_streams` and
//!   answer `Pending` - or with a COMPLETE header and nothing behind it, of type 02 / 03 (QPACK encoder / decoder
//!   stream), 0x54 + session id (WebTransport) or anything unknown (grease 0x21, ..): they are resolved in the same
//!   pass as the control stream behind them.  A complete control (00) or push (01 + id) header, or bytes behind a
//!   complete header, are `bad-op`.
//! * `set cfgw <role> <k1,k2,..> [cfg keys as for set cfg]`: `set cfg` under back-pressure: every
//!   stream starts without write credit; after the first poll of `build` the control stream is
//!   granted `k1`, `k2`, ... bytes (cycling), one poll of `build` after each grant, at most
//!   `CFGW_ROUNDS` grants (the other setup streams get unlimited credit).  Output as `set cfg` plus
//!   ` pieces=<number of partial writes the transport accepted on the control stream>`, or
//!   `pending wrote=<control stream bytes so far> pieces=<n>` when `build` has not returned by then.
use crate::sim::*;
use crate::util::*;
use bytes::{Buf, Bytes};
use h3::error::internal_error::InternalConnectionError;
use h3::error::Code;
use h3::frame::FrameProtocolError;
use h3::proto::frame::{Frame, FrameError, PayloadLen, SettingId, Settings, SettingsError};
use h3::proto::varint::VarInt;
use h3::stream::{UniStreamHeader, WriteBuf};
use h3::{ConnectionState, SharedState};
use std::future::Future;
use std::pin::Pin;
use std::task::{Context, Poll};

fn field<'a>(d: &'a str, key: &str) -> &'a str {
    match d.find(key) {
        Some(i) => d[i + key.len()..].split(|c: char| c == ',' || c == ' ' || c == '}').next().unwrap_or("?"),
        None => "?",
    }
}

fn b(s: &str) -> &'static str {
    match s {
        "true" => "1",
        "false" => "0",
        _ => "?",
    }
}

/// canonical fields of a `config::Settings` (its numeric fields have no public getter; the
/// derived Debug output is parsed instead).
fn rec_fields(d: &str) -> [String; 5] {
    [
        field(d, "max_field_section_size: ").to_string(),
        b(field(d, "enable_webtransport: ")).to_string(),
        b(field(d, "enable_extended_connect: ")).to_string(),
        b(field(d, "enable_datagram: ")).to_string(),
        field(d, "max_webtransport_sessions: ").to_string(),
    ]
}

fn rec_long(d: &str) -> String {
    let f = rec_fields(d);
    format!("mfs {} wt {} ec {} dg {} wts {}", f[0], f[1], f[2], f[3], f[4])
}

fn rec_short(d: &str) -> String {
    rec_fields(d).join("/")
}

fn state_rec<S: ConnectionState>(s: &S) -> String {
    rec_short(&format!("{:?}", s.settings()))
}

/// `ent=<id>:<val>,...` out of the derived Debug of `frame::Settings`
/// (`Settings { entries: [(SettingId(6), 1), ...], len: 1 }`).
fn entries(s: &Settings) -> String {
    let d = format!("{:?}", s);
    let len: usize = field(&d, "len: ").parse().unwrap_or(0);
    let mut out = Vec::new();
    let mut rest = d.as_str();
    while let Some(i) = rest.find("(SettingId(") {
        rest = &rest[i + 11..];
        let id: String = rest.chars().take_while(|c| c.is_ascii_digit()).collect();
        let j = rest.find("), ").map(|j| j + 3).unwrap_or(0);
        rest = &rest[j..];
        let v: String = rest.chars().take_while(|c| c.is_ascii_digit()).collect();
        out.push(format!("{}:{}", id, v));
    }
    out.truncate(len);
    if out.is_empty() {
        "-".into()
    } else {
        out.join(",")
    }
}

fn kind(e: &SettingsError) -> String {
    match e {
        SettingsError::Exceeded => "exceeded".into(),
        SettingsError::Malformed => "malformed".into(),
        SettingsError::Repeated(id) => format!("repeated:{}", id.0),
        SettingsError::InvalidSettingId(id) => format!("invalid-id:{}", id),
        SettingsError::InvalidSettingValue(id, v) => format!("invalid-value:{}:{}", id.0, v),
    }
}

fn code_name(v: u64) -> String {
    format!("{}", Code::from(v))
}

/// `open`, or `closed <CODE>` with the code of the first `close` the peer sees
fn closed(net: &NetRef) -> String {
    match net.borrow().closed.first() {
        Some((c, _)) => format!("closed {}", code_name(*c)),
        None => "open".into(),
    }
}

/// A plain varint reader, independent of h3 (RFC 9000 section 16).
fn rd_varint(b: &[u8]) -> Option<(u64, &[u8])> {
    let f = *b.first()?;
    let n = 1usize << (f >> 6);
    if b.len() < n {
        return None;
    }
    let mut v = (f & 0x3f) as u64;
    for x in &b[1..n] {
        v = (v << 8) | *x as u64;
    }
    Some((v, &b[n..]))
}

/// The control stream as a peer reads it: `00`, one SETTINGS frame whose length covers the rest,
/// identifier/value pairs.  Prints the pairs sorted by identifier (`pairs <id> <val> ...`).
fn peer_view(ctrl: &[u8]) -> String {
    let parse = || -> Option<Vec<(u64, u64)>> {
        let (ty, r) = rd_varint(ctrl)?;
        let (ft, r) = rd_varint(r)?;
        let (len, mut r) = rd_varint(r)?;
        if ty != 0 || ft != 4 || len as usize != r.len() {
            return None;
        }
        let mut v = Vec::new();
        while !r.is_empty() {
            let (id, r1) = rd_varint(r)?;
            let (val, r2) = rd_varint(r1)?;
            v.push((id, val));
            r = r2;
        }
        v.sort();
        Some(v)
    };
    match parse() {
        None => "pairs malformed".into(),
        Some(v) => {
            let mut t = vec!["pairs".to_string()];
            for (a, b) in v {
                t.push(a.to_string());
                t.push(b.to_string());
            }
            t.join(" ")
        }
    }
}

fn settings_frame(payload: &[u8]) -> Vec<u8> {
    let mut v = Vec::new();
    VarInt::from_u32(4).encode(&mut v);
    VarInt::from_u64(payload.len() as u64).unwrap().encode(&mut v);
    v.extend_from_slice(payload);
    v
}

/// real `Frame::decode` of one SETTINGS frame carrying `payload`
fn decode_settings(payload: &[u8]) -> Result<Settings, String> {
    let fb = settings_frame(payload);
    let mut buf = &fb[..];
    match Frame::<PayloadLen>::decode(&mut buf) {
        Ok(Frame::Settings(s)) => {
            if buf.has_remaining() {
                Err(format!("left-over {}", buf.remaining()))
            } else {
                Ok(s)
            }
        }
        Ok(_) => Err("other-frame".into()),
        Err(FrameError::Settings(e)) => {
            let k = kind(&e);
            // the mapping to a connection error as done for every frame error of a control stream
            let ice = InternalConnectionError::got_frame_error(FrameProtocolError::Settings(e));
            Err(format!("err {} {}", crate::e_c18::code_of_debug(&format!("{:?}", ice)), k))
        }
        Err(e) => Err(format!("frame-error {:?}", e).replace(' ', "_")),
    }
}

struct Cfg {
    mfs: Option<u64>,
    wt: Option<bool>,
    ec: Option<bool>,
    dg: Option<bool>,
    wts: Option<u64>,
    grease: Option<bool>,
    seed: Option<u64>,
    gid: Option<u64>,
}

fn parse_cfg(w: &[&str]) -> Option<Cfg> {
    let mut c = Cfg { mfs: None, wt: None, ec: None, dg: None, wts: None, grease: None, seed: None, gid: None };
    let pb = |v: &str| match v {
        "0" => Some(false),
        "1" => Some(true),
        _ => None,
    };
    for t in w {
        let (k, v) = t.split_once('=')?;
        match k {
            "mfs" => c.mfs = Some(v.parse().ok()?),
            "wts" => c.wts = Some(v.parse().ok()?),
            "seed" => c.seed = Some(v.parse().ok()?),
            "gid" => c.gid = Some(v.parse().ok()?),
            "wt" => c.wt = Some(pb(v)?),
            "ec" => c.ec = Some(pb(v)?),
            "dg" => c.dg = Some(pb(v)?),
            "grease" => c.grease = Some(pb(v)?),
            _ => return None,
        }
    }
    // grease is on by default; an effective grease needs the seed and the identifier it yields
    if c.grease.unwrap_or(true) != (c.seed.is_some() && c.gid.is_some()) || c.seed.is_some() != c.gid.is_some() {
        return None;
    }
    Some(c)
}

/// the local configuration of a `set apply*` line: `set cfg` keys without seed / gid, grease off unless `grease=1`
fn parse_local_cfg(role: &str, w: &[&str]) -> Option<Cfg> {
    let mut c = Cfg { mfs: None, wt: None, ec: None, dg: None, wts: None, grease: None, seed: None, gid: None };
    let pb = |v: &str| match v {
        "0" => Some(false),
        "1" => Some(true),
        _ => None,
    };
    for t in w {
        let (k, v) = t.split_once('=')?;
        match k {
            "mfs" => c.mfs = Some(v.parse().ok()?),
            "wts" => c.wts = Some(v.parse().ok()?),
            "wt" => c.wt = Some(pb(v)?),
            "ec" => c.ec = Some(pb(v)?),
            "dg" => c.dg = Some(pb(v)?),
            "grease" => c.grease = Some(pb(v)?),
            _ => return None,
        }
    }
    if role == "client" && (c.wt.is_some() || c.wts.is_some()) {
        return None;
    }
    if c.grease.is_none() {
        c.grease = Some(false);
    }
    Some(c)
}

/// one token for the control stream header as the plain reader sees it
fn view_tok(ctrl: &[u8]) -> String {
    let v = peer_view(ctrl);
    let t: Vec<&str> = v.split(' ').collect();
    if t.len() < 2 {
        return "-".into();
    }
    if t[1] == "malformed" {
        return "malformed".into();
    }
    t[1..].chunks(2).map(|c| format!("{}:{}", c[0], c.get(1).unwrap_or(&"?"))).collect::<Vec<_>>().join(",")
}

fn cx_poll<T>(f: impl FnOnce(&mut Context<'_>) -> T) -> T {
    let w = futures_util::task::noop_waker();
    let mut cx = Context::from_waker(&w);
    f(&mut cx)
}

type ServerFut = Pin<Box<dyn Future<Output = Result<h3::server::Connection<SimConn, Bytes>, h3::error::ConnectionError>>>>;
type ClientFut = Pin<Box<dyn Future<Output = Result<ClientPair, h3::error::ConnectionError>>>>;

fn build_server(net: &NetRef, c: &Cfg) -> Poll<Result<h3::server::Connection<SimConn, Bytes>, h3::error::ConnectionError>> {
    let mut f = server_future(net, c);
    poll_settled(&mut f)
}

/// the future of `builder.build(conn)` with exactly the builder calls named on the line
fn server_future(net: &NetRef, c: &Cfg) -> ServerFut {
    let mut bd = h3::server::builder();
    if let Some(v) = c.mfs {
        bd.max_field_section_size(v);
    }
    if let Some(v) = c.wt {
        bd.enable_webtransport(v);
    }
    if let Some(v) = c.ec {
        bd.enable_extended_connect(v);
    }
    if let Some(v) = c.dg {
        bd.enable_datagram(v);
    }
    if let Some(v) = c.wts {
        bd.max_webtransport_sessions(v);
    }
    if let Some(v) = c.grease {
        bd.send_grease(v);
    }
    if let Some(s) = c.seed {
        fastrand::seed(s);
    }
    let conn = SimConn { net: net.clone() };
    Box::pin(async move { bd.build::<_, Bytes>(conn).await })
}

type ClientPair = (h3::client::Connection<SimConn, Bytes>, h3::client::SendRequest<SimOpen, Bytes>);

fn build_client(net: &NetRef, c: &Cfg) -> Option<Poll<Result<ClientPair, h3::error::ConnectionError>>> {
    let mut f = client_future(net, c)?;
    Some(poll_settled(&mut f))
}

fn client_future(net: &NetRef, c: &Cfg) -> Option<ClientFut> {
    // the client builder has no WebTransport options
    if c.wt.is_some() || c.wts.is_some() {
        return None;
    }
    let mut bd = h3::client::builder();
    if let Some(v) = c.mfs {
        bd.max_field_section_size(v);
    }
    if let Some(v) = c.ec {
        bd.enable_extended_connect(v);
    }
    if let Some(v) = c.dg {
        bd.enable_datagram(v);
    }
    if let Some(v) = c.grease {
        bd.send_grease(v);
    }
    if let Some(s) = c.seed {
        fastrand::seed(s);
    }
    let conn = SimConn { net: net.clone() };
    Some(Box::pin(async move { bd.build::<_, _, Bytes>(conn).await }))
}

/// number of grant + poll rounds of `set cfgw`
const CFGW_ROUNDS: usize = 96;

/// `set cfgw`: poll `build` under back-pressure on the control stream
fn drive_under_backpressure<T>(net: &NetRef, server: bool, pat: &[usize], f: &mut Pin<Box<dyn Future<Output = T>>>) -> Poll<T> {
    let ctrl_id: u64 = if server { 3 } else { 2 };
    // no stream has write credit: the first poll opens the streams and writes nothing
    let mut r = poll_settled(f);
    let others: Vec<u64> = net.borrow().streams.keys().copied().filter(|id| *id != ctrl_id).collect();
    for id in others {
        net.borrow_mut().set_write_credit(id, UNLIMITED);
    }
    let mut i = 0;
    while r.is_pending() && i < CFGW_ROUNDS {
        net.borrow_mut().grant_write(ctrl_id, pat[i % pat.len()]);
        r = poll_settled(f);
        i += 1;
    }
    r
}

/// `set cfgw`: the report of `set cfg`; a `build` that is still pending shows what the peer has seen so far
fn cfgw_report<T>(net: &NetRef, server: bool, r: Poll<Result<T, h3::error::ConnectionError>>) -> String {
    let n = pieces(net, server);
    if r.is_pending() {
        let ctrl_id: u64 = if server { 3 } else { 2 };
        let ctrl = if net.borrow().streams.contains_key(&ctrl_id) { net.borrow().tx(ctrl_id) } else { vec![] };
        return format!("pending wrote={} pieces={}", to_hex(&ctrl), n);
    }
    format!("{} pieces={}", setup_report(net, server, r), n)
}

fn pieces(net: &NetRef, server: bool) -> usize {
    let ctrl_id: u64 = if server { 3 } else { 2 };
    net.borrow().streams.get(&ctrl_id).map(|s| s.accepted.len()).unwrap_or(0)
}

/// is `b` an incomplete unidirectional stream header (`poll_type` answers `Pending` on it)?
fn incomplete_uni_header(b: &[u8]) -> bool {
    match rd_varint(b) {
        None => true,
        // PUSH and WEBTRANSPORT_UNI carry a second integer
        Some((ty, rest)) => (ty == 0x01 || ty == 0x54) && rd_varint(rest).is_none(),
    }
}

/// a stream `set applyq` may put in front of the control stream: header incomplete, or complete with nothing behind it
/// and neither a control nor a push stream
fn allowed_pre(b: &[u8]) -> bool {
    if incomplete_uni_header(b) {
        return true;
    }
    match rd_varint(b) {
        None => false,
        Some((0x00, _)) | Some((0x01, _)) => false,
        Some((0x54, rest)) => matches!(rd_varint(rest), Some((_, r)) if r.is_empty()),
        Some((_, rest)) => rest.is_empty(),
    }
}

/// what the peer sees after `build`: every locally opened unidirectional stream; the control
/// stream is the first one.
fn setup_report<T>(net: &NetRef, server: bool, r: Poll<Result<T, h3::error::ConnectionError>>) -> String {
    let ctrl_id: u64 = if server { 3 } else { 2 };
    let ctrl = if net.borrow().streams.contains_key(&ctrl_id) { net.borrow().tx(ctrl_id) } else { vec![] };
    // number of local streams announcing themselves as control streams
    let controls = net.borrow().streams.values().filter(|s| s.tx.first() == Some(&0)).count();
    match r {
        Poll::Pending => "pending".into(),
        Poll::Ready(Ok(_)) => {
            let cl = closed(net);
            if cl == "open" && controls == 1 {
                format!("ok {} {}", to_hex(&ctrl), peer_view(&ctrl))
            } else {
                format!("ok {} {} {} controls={}", to_hex(&ctrl), peer_view(&ctrl), cl, controls)
            }
        }
        Poll::Ready(Err(_)) => format!("err wrote={} {}", to_hex(&ctrl), closed(net)),
    }
}

enum Conn {
    Server(h3::server::Connection<SimConn, Bytes>),
    Client(ClientPair),
}

impl Conn {
    fn new(role: &str, net: &NetRef, c: &Cfg) -> Option<Conn> {
        match role {
            "server" => match build_server(net, c) {
                Poll::Ready(Ok(x)) => Some(Conn::Server(x)),
                _ => None,
            },
            "client" => match build_client(net, c)? {
                Poll::Ready(Ok(x)) => Some(Conn::Client(x)),
                _ => None,
            },
            _ => None,
        }
    }
    fn rec(&self) -> String {
        match self {
            Conn::Server(c) => state_rec(&c.inner),
            Conn::Client((c, _)) => state_rec(&c.inner),
        }
    }
    /// one turn of the connection driver (`accept` on a server, `poll_close` on a client)
    fn drive(&mut self) {
        match self {
            Conn::Server(c) => {
                let mut f = Box::pin(c.accept());
                let _ = poll_settled(&mut f);
            }
            Conn::Client((c, _)) => {
                let _ = cx_poll(|cx| c.poll_close(cx));
            }
        }
    }
}

fn peer_control_id(role: &str) -> u64 {
    if role == "server" {
        2
    } else {
        3
    }
}

pub fn handle(w: &[&str]) -> String {
    match w {
        ["set", "gid", seed] => {
            let Ok(s) = seed.parse::<u64>() else { return "bad-op".into() };
            guarded(|| {
                fastrand::seed(s);
                format!("{}", SettingId::grease().0)
            })
        }
        ["set", "cfg", role, rest @ ..] => {
            let Some(c) = parse_cfg(rest) else { return "bad-op".into() };
            match *role {
                "server" => guarded(|| {
                    let net = Net::new(true);
                    let r = build_server(&net, &c);
                    setup_report(&net, true, r)
                }),
                "client" => {
                    if c.wt.is_some() || c.wts.is_some() {
                        return "bad-op".into();
                    }
                    guarded(|| {
                        let net = Net::new(false);
                        let r = build_client(&net, &c).unwrap();
                        setup_report(&net, false, r)
                    })
                }
                _ => "bad-op".into(),
            }
        }
        ["set", "dec", h] => {
            let Some(p) = parse_hex(h) else { return "bad-op".into() };
            guarded(|| match decode_settings(&p) {
                Ok(s) => {
                    let sh = SharedState::default();
                    sh.set_settings((&s).into());
                    format!("ok ent {} {}", entries(&s), rec_long(&format!("{:?}", sh.settings())))
                }
                Err(e) => e,
            })
        }
        ["set", "enc", l] => {
            let mut pairs = Vec::new();
            if *l != "-" {
                for t in l.split(',') {
                    let Some((a, b)) = t.split_once(':') else { return "bad-op".into() };
                    let (Ok(a), Ok(b)) = (a.parse::<u64>(), b.parse::<u64>()) else { return "bad-op".into() };
                    pairs.push((a, b));
                }
            }
            let mk = |pairs: &[(u64, u64)]| {
                let mut s = Settings::default();
                let mut res = Vec::new();
                for (id, v) in pairs {
                    res.push(match s.insert(SettingId(*id), *v) {
                        Ok(()) => "ok".to_string(),
                        Err(e) => kind(&e),
                    });
                }
                (s, res)
            };
            let ins = guarded(|| {
                let (s, res) = mk(&pairs);
                // `get` scans all slots, the unused ones (SettingId::NONE = 0) included
                let g0 = match s.get(SettingId(0)) {
                    Some(v) => format!("some:{}", v),
                    None => "none".into(),
                };
                format!("ins {} ent {} get0 {}", if res.is_empty() { "-".into() } else { res.join(",") }, entries(&s), g0)
            });
            if ins == "panic" {
                return ins;
            }
            let hdr = guarded(|| {
                let (s, _) = mk(&pairs);
                let mut wb: WriteBuf<Bytes> = WriteBuf::from(UniStreamHeader::Control(s));
                let mut out = Vec::new();
                while wb.has_remaining() {
                    let c = wb.chunk();
                    let n = c.len();
                    out.extend_from_slice(c);
                    wb.advance(n);
                }
                // what a receiver makes of it: stream type, then one frame
                let rt = if out.first() == Some(&0) {
                    let mut buf = &out[1..];
                    match Frame::<PayloadLen>::decode(&mut buf) {
                        Ok(Frame::Settings(s2)) if !buf.has_remaining() => format!("ent {}", entries(&s2)),
                        Ok(_) => "other".into(),
                        Err(FrameError::Settings(e)) => format!("err:{}", kind(&e)),
                        Err(e) => format!("frame-error:{:?}", e).replace(' ', "_"),
                    }
                } else {
                    "no-control-type".into()
                };
                format!("hdr {} view {} rt {}", to_hex(&out), view_tok(&out), rt)
            });
            format!("{} {}", ins, if hdr == "panic" { "hdr panic".to_string() } else { hdr })
        }
        ["set", "cell", h1, h2] => {
            let (Some(p1), Some(p2)) = (parse_hex(h1), parse_hex(h2)) else { return "bad-op".into() };
            guarded(|| {
                let (Ok(s1), Ok(s2)) = (decode_settings(&p1), decode_settings(&p2)) else { return "bad-case".into() };
                let sh = SharedState::default();
                let r0 = state_rec(&sh);
                sh.set_settings((&s1).into());
                let r1 = state_rec(&sh);
                sh.set_settings((&s2).into());
                let r2 = state_rec(&sh);
                format!("init={} first={} second={}", r0, r1, r2)
            })
        }
        ["set", "apply", role, h, cut, rest @ ..] => {
            let (Some(p), Ok(cut)) = (parse_hex(h), cut.parse::<usize>()) else { return "bad-op".into() };
            if *role != "server" && *role != "client" {
                return "bad-op".into();
            }
            let Some(lc) = parse_local_cfg(role, rest) else { return "bad-op".into() };
            guarded(|| {
                let net = Net::new(*role == "server");
                let Some(mut conn) = Conn::new(role, &net, &lc) else { return "setup-failed".into() };
                let mut bytes = vec![0u8];
                bytes.extend_from_slice(&settings_frame(&p));
                let before = conn.rec();
                let id = peer_control_id(role);
                net.borrow_mut().peer_open(id);
                let two = cut > 0 && cut < bytes.len();
                let first = if two { bytes[..cut].to_vec() } else { bytes.clone() };
                net.borrow_mut().peer_send(id, Rx::Chunk(Bytes::from(first)));
                conn.drive();
                let mid = conn.rec();
                if two {
                    net.borrow_mut().peer_send(id, Rx::Chunk(Bytes::from(bytes[cut..].to_vec())));
                }
                conn.drive();
                let after = conn.rec();
                format!("before={} mid={} after={} {}", before, mid, after, closed(&net))
            })
        }
        ["set", "applyq", role, h, cut, pre, rest @ ..] => {
            let (Some(p), Ok(cut)) = (parse_hex(h), cut.parse::<usize>()) else { return "bad-op".into() };
            if *role != "server" && *role != "client" {
                return "bad-op".into();
            }
            let pres: Option<Vec<Vec<u8>>> = pre.split(',').map(parse_hex).collect();
            let Some(pres) = pres else { return "bad-op".into() };
            if pres.is_empty() || pres.len() > 8 || !pres.iter().all(|b| allowed_pre(b)) {
                return "bad-op".into();
            }
            let Some(lc) = parse_local_cfg(role, rest) else { return "bad-op".into() };
            guarded(|| {
                let net = Net::new(*role == "server");
                let Some(mut conn) = Conn::new(role, &net, &lc) else { return "setup-failed".into() };
                let mut bytes = vec![0u8];
                bytes.extend_from_slice(&settings_frame(&p));
                let before = conn.rec();
                // the peer's unidirectional streams: 2, 6, 10, .. towards a server, 3, 7, 11, .. towards a client
                let mut id = peer_control_id(role);
                for pre in &pres {
                    net.borrow_mut().peer_open(id);
                    if !pre.is_empty() {
                        net.borrow_mut().peer_send(id, Rx::Chunk(Bytes::from(pre.clone())));
                    }
                    id += 4;
                }
                net.borrow_mut().peer_open(id);
                let two = cut > 0 && cut < bytes.len();
                let first = if two { bytes[..cut].to_vec() } else { bytes.clone() };
                net.borrow_mut().peer_send(id, Rx::Chunk(Bytes::from(first)));
                conn.drive();
                let mid = conn.rec();
                if two {
                    net.borrow_mut().peer_send(id, Rx::Chunk(Bytes::from(bytes[cut..].to_vec())));
                }
                conn.drive();
                let after = conn.rec();
                format!("before={} mid={} after={} {}", before, mid, after, closed(&net))
            })
        }
        ["set", "cfgw", role, pat, rest @ ..] => {
            let Some(c) = parse_cfg(rest) else { return "bad-op".into() };
            let pat: Option<Vec<usize>> = pat.split(',').map(|t| t.parse::<usize>().ok().filter(|k| *k <= 64)).collect();
            let Some(pat) = pat else { return "bad-op".into() };
            if pat.is_empty() || pat.len() > 64 {
                return "bad-op".into();
            }
            match *role {
                "server" => guarded(|| {
                    let net = Net::new(true);
                    net.borrow_mut().default_tx_credit = 0;
                    let mut f = server_future(&net, &c);
                    let r = drive_under_backpressure(&net, true, &pat, &mut f);
                    cfgw_report(&net, true, r)
                }),
                "client" => {
                    if c.wt.is_some() || c.wts.is_some() {
                        return "bad-op".into();
                    }
                    guarded(|| {
                        let net = Net::new(false);
                        net.borrow_mut().default_tx_credit = 0;
                        let mut f = client_future(&net, &c).unwrap();
                        let r = drive_under_backpressure(&net, false, &pat, &mut f);
                        cfgw_report(&net, false, r)
                    })
                }
                _ => "bad-op".into(),
            }
        }
        ["set", "apply2", role, h1, h2, rest @ ..] => {
            let (Some(p1), Some(p2)) = (parse_hex(h1), parse_hex(h2)) else { return "bad-op".into() };
            if *role != "server" && *role != "client" {
                return "bad-op".into();
            }
            let Some(lc) = parse_local_cfg(role, rest) else { return "bad-op".into() };
            guarded(|| {
                let net = Net::new(*role == "server");
                let Some(mut conn) = Conn::new(role, &net, &lc) else { return "setup-failed".into() };
                let before = conn.rec();
                let id = peer_control_id(role);
                net.borrow_mut().peer_open(id);
                let mut bytes = vec![0u8];
                bytes.extend_from_slice(&settings_frame(&p1));
                net.borrow_mut().peer_send(id, Rx::Chunk(Bytes::from(bytes)));
                conn.drive();
                let after1 = conn.rec();
                let c1 = closed(&net);
                net.borrow_mut().peer_send(id, Rx::Chunk(Bytes::from(settings_frame(&p2))));
                conn.drive();
                let after2 = conn.rec();
                format!("before={} after1={} {} after2={} {}", before, after1, c1, after2, closed(&net))
            })
        }
        _ => "bad-op".into(),
    }
}
