//! Engine `dyn` (C20): the real stateful QPACK `Encoder` / `Decoder` connected by an encoder
//! stream, a decoder stream and a set of header blocks whose delivery the case line schedules.
//!
//! case line: `dyn <capacity> <blocked-limit> <op> ...`
//!   enc:<sid>:<n>=<v>,...   encode a field section on stream <sid> (hex names/values, `-` = empty)
//!   denc:<k>                hand the next k encoder-stream instructions to the decoder (one call)
//!   denc:<k>@<j>.<m>,...    the same bytes in a `Buf` of SEVERAL chunks (`Buf::chunk()` returns only the piece up to the
//!                           next cut; `Decoder::parse_instruction` reads `read.chunk()` only): one cut per `<j>.<m>`,
//!                           `j` = 0-based index of an instruction of THIS delivery, `m = 0` the boundary in front of it,
//!                           `m >= 1` inside it at byte offset `1 + (m-1) mod (len-1)` (an instruction of one byte cannot be
//!                           cut: boundary in front of it).  `on_encoder_recv` is called TWICE on the same `Buf` (the second
//!                           call must not make progress).  An instruction that crosses a chunk boundary is not parsed and
//!                           nothing behind it either (D-20f): status `X:stall`, `n` = instructions processed,
//!                           `left=i<instructions handed over and not processed>`; they stay at the head of the encoder
//!                           stream and are handed over again by the next `denc`.
//!   dblk:<sid>              decode the oldest undecoded header block of stream <sid>; acknowledge it
//!                           (`ack_header`) when it had dynamic references (`Decoded::dyn_ref`)
//!   dack:<k>                hand the next k decoder-stream instructions to the encoder (one call)
//!   cap:<c>                 `set_dynamic_table_size` on the encoder's table (instruction emitted)
//!   cancel:<sid>            decoder abandons stream <sid> (`stream_canceled`)
//! state marks (third token): `#D-20c`, `#D-20d` (rendered `~20c`, `~20d` by the projection) and `~blk<n>`: n streams
//! have an unacknowledged section (not released by the encoder) whose Required Insert Count is larger than the encoder's
//! `largest_known_received`, and n exceeds the blocked-stream limit (RFC 9204 2.1.2; observation O-20e).
//! output: per op `<status><monitor marks> <detail> <site tags>`, then `end <encoder table> <decoder table>`; the first
//! error/panic ends the trace with `halt`.
use crate::util::*;
use bytes::Buf;
use h3::qpack::verif::{
    ack_header, prefix_int_decode, prefix_string_decode, set_dynamic_table_size, stream_canceled,
    Decoder, DynamicTable, Encoder, VerifTableState,
};
use h3::qpack::HeaderField;
use std::io::Cursor;
use std::panic::{catch_unwind, AssertUnwindSafe};

fn hx(b: &[u8]) -> String {
    to_hex(b)
}

/// Debug rendering without numbers: `InvalidIndex(RelativeIndex(3))` -> `InvalidIndex(RelativeIndex)`.
fn code_of<T: std::fmt::Debug>(e: &T) -> String {
    let s: String = format!("{:?}", e)
        .chars()
        .filter(|c| c.is_ascii_alphabetic() || *c == '(' || *c == ')')
        .collect();
    s.replace("()", "")
}

fn parse_fields(s: &str) -> Option<Vec<HeaderField>> {
    if s.is_empty() || s == "-" {
        return Some(vec![]);
    }
    s.split(',')
        .map(|nv| {
            let (n, v) = nv.split_once('=')?;
            Some(HeaderField::new(parse_hex(n)?, parse_hex(v)?))
        })
        .collect()
}

fn show_fields<'a, I: IntoIterator<Item = (&'a [u8], &'a [u8])>>(it: I) -> String {
    let v: Vec<String> = it.into_iter().map(|(n, v)| format!("{}={}", hx(n), hx(v))).collect();
    if v.is_empty() {
        "-".into()
    } else {
        v.join(",")
    }
}

/// One encoder-stream instruction from the front of `buf`: (canonical text, length in bytes).
fn parse_enc_instr(buf: &[u8]) -> Option<(String, usize)> {
    let mut cur = Cursor::new(buf);
    let first = *buf.first()?;
    let s = if first & 0x80 != 0 {
        let (f, idx) = prefix_int_decode(6, &mut cur).ok()?;
        let v = prefix_string_decode(8, &mut cur).ok()?;
        format!("{}({},{})", if f & 1 == 1 { "IS" } else { "ID" }, idx, hx(&v))
    } else if first & 0x40 != 0 {
        let n = prefix_string_decode(6, &mut cur).ok()?;
        let v = prefix_string_decode(8, &mut cur).ok()?;
        format!("IL({},{})", hx(&n), hx(&v))
    } else if first & 0xe0 == 0 {
        let (_, idx) = prefix_int_decode(5, &mut cur).ok()?;
        format!("DU({})", idx)
    } else {
        let (_, n) = prefix_int_decode(5, &mut cur).ok()?;
        format!("S({})", n)
    };
    Some((s, cur.position() as usize))
}

/// A header block: (prefix text, representation texts, absolute indices referenced given the
/// Required Insert Count `r` the encoder returned).
fn parse_block(buf: &[u8], r: usize) -> Option<(String, Vec<String>, Vec<usize>)> {
    let mut cur = Cursor::new(buf);
    let (_, eic) = prefix_int_decode(8, &mut cur).ok()?;
    let (sign, delta) = prefix_int_decode(7, &mut cur).ok()?;
    let delta = delta as usize;
    // Base as RFC 9204 4.5.1.2 defines it from the Required Insert Count
    let base: i128 = if sign == 1 { r as i128 - delta as i128 - 1 } else { (r + delta) as i128 };
    let mut reprs = vec![];
    let mut refs = vec![];
    while cur.has_remaining() {
        let first = cur.chunk()[0];
        if first & 0x80 != 0 {
            let (f, i) = prefix_int_decode(6, &mut cur).ok()?;
            if f & 1 == 1 {
                reprs.push(format!("s{}", i));
            } else {
                reprs.push(format!("d{}", i));
                refs.push((base - i as i128) as usize);
            }
        } else if first & 0xf0 == 0x10 {
            let (_, i) = prefix_int_decode(4, &mut cur).ok()?;
            reprs.push(format!("p{}", i));
            refs.push((base + i as i128 + 1) as usize);
        } else if first & 0xc0 == 0x40 {
            let (f, i) = prefix_int_decode(4, &mut cur).ok()?;
            let v = prefix_string_decode(8, &mut cur).ok()?;
            if f & 1 == 1 {
                reprs.push(format!("ls{}:{}", i, hx(&v)));
            } else {
                reprs.push(format!("ld{}:{}", i, hx(&v)));
                refs.push((base - i as i128) as usize);
            }
        } else if first & 0xf0 == 0 {
            let (_, i) = prefix_int_decode(3, &mut cur).ok()?;
            let v = prefix_string_decode(8, &mut cur).ok()?;
            reprs.push(format!("lp{}:{}", i, hx(&v)));
            refs.push((base + i as i128 + 1) as usize);
        } else if first & 0xe0 == 0x20 {
            let n = prefix_string_decode(4, &mut cur).ok()?;
            let v = prefix_string_decode(8, &mut cur).ok()?;
            reprs.push(format!("ll{}:{}", hx(&n), hx(&v)));
        } else {
            return None;
        }
    }
    Some((format!("{}.{}.{}", eic, sign, delta), reprs, refs))
}

#[derive(Clone, Copy, PartialEq)]
enum DecKind {
    Incr,
    Ack(u64),
    Cancel(u64),
}

fn join<T: AsRef<str>>(v: &[T], sep: &str) -> String {
    if v.is_empty() {
        "-".into()
    } else {
        v.iter().map(|x| x.as_ref()).collect::<Vec<_>>().join(sep)
    }
}

fn pairs(v: &[(usize, usize)]) -> String {
    join(&v.iter().map(|(a, c)| format!("{}:{}", a, c)).collect::<Vec<_>>(), ",")
}

fn show_table(s: &VerifTableState) -> String {
    let fields = show_fields(s.fields.iter().map(|(n, v)| (&n[..], &v[..])));
    let fm = join(
        &s.field_map.iter().map(|((n, v), i)| format!("{}={}:{}", hx(n), hx(v), i)).collect::<Vec<_>>(),
        ",",
    );
    let nm = join(&s.name_map.iter().map(|(n, i)| format!("{}:{}", hx(n), i)).collect::<Vec<_>>(), ",");
    let tb = join(
        &s.track_blocks
            .iter()
            .map(|(sid, q)| format!("{}:{}", sid, join(&q.iter().map(|m| format!("[{}]", pairs(m))).collect::<Vec<_>>(), "")))
            .collect::<Vec<_>>(),
        ",",
    );
    format!(
        "f={};cs={};ms={};vas={}/{}/{};tm={};tb={};lkr={};bm={};bc={};bs={};fm={};nm={}",
        fields, s.curr_size, s.max_size, s.inserted, s.dropped, s.delta, pairs(&s.track_map), tb,
        s.largest_known_received, s.blocked_max, s.blocked_count, pairs(&s.blocked_streams), fm, nm
    )
}

struct Blk {
    bytes: Vec<u8>,
    refs: Vec<usize>,
    enc_max: usize,
    /// Required Insert Count the encoder returned
    req: usize,
}

/// A `Buf` of several chunks: `chunk()` is the rest of the first piece only.
struct Pieces {
    parts: std::collections::VecDeque<Vec<u8>>,
    off: usize,
}

impl Pieces {
    fn new(bytes: &[u8], cuts: &[usize]) -> Pieces {
        let mut parts = std::collections::VecDeque::new();
        let mut at = 0;
        for c in cuts {
            if *c > at && *c < bytes.len() {
                parts.push_back(bytes[at..*c].to_vec());
                at = *c;
            }
        }
        if at < bytes.len() {
            parts.push_back(bytes[at..].to_vec());
        }
        Pieces { parts, off: 0 }
    }
}

impl Buf for Pieces {
    fn remaining(&self) -> usize {
        self.parts.iter().map(|p| p.len()).sum::<usize>() - self.off
    }
    fn chunk(&self) -> &[u8] {
        match self.parts.front() {
            Some(p) => &p[self.off..],
            None => &[],
        }
    }
    fn chunks_vectored<'a>(&'a self, dst: &mut [std::io::IoSlice<'a>]) -> usize {
        // not used by the code as it is; the candidate repair of D-20f looks at all chunks through this
        let mut n = 0;
        for (i, p) in self.parts.iter().enumerate() {
            if n == dst.len() {
                break;
            }
            let s = if i == 0 { &p[self.off..] } else { &p[..] };
            if !s.is_empty() {
                dst[n] = std::io::IoSlice::new(s);
                n += 1;
            }
        }
        n
    }
    fn advance(&mut self, mut cnt: usize) {
        while cnt > 0 {
            let avail = self.parts.front().map(|p| p.len()).expect("advance past the end") - self.off;
            if cnt >= avail {
                cnt -= avail;
                self.parts.pop_front();
                self.off = 0;
            } else {
                self.off += cnt;
                cnt = 0;
            }
        }
    }
}

/// one request stream: decoded blocks, undecoded blocks (both oldest first), how many of them
/// the encoder has released (`untrack_block` pops the oldest), abandoned by the decoder
#[derive(Default)]
struct Stream {
    done: Vec<Blk>,
    todo: std::collections::VecDeque<Blk>,
    npop: usize,
    cancelled: bool,
}

type Streams = std::collections::BTreeMap<u64, Stream>;

/// The property's state invariants, checked on the real tables after every operation:
/// `!cap` size accounting / capacity, `!cnt` reference counts = sum over the tracked blocks,
/// `!evi` an entry referenced by a section the encoder has not released has been evicted,
/// `#D-20d` the encoder has evicted an entry the decoder has not received yet.
fn monitor(e: &VerifTableState, d: &VerifTableState, streams: &Streams, bl: usize) -> (String, String) {
    let mut bad = String::new();
    let mut tags = String::new();
    for t in [e, d] {
        let sum: usize = t.fields.iter().map(|(n, v)| n.len() + v.len() + 32).sum();
        if !(t.curr_size == sum
            && t.curr_size <= t.max_size
            && t.inserted >= t.dropped
            && t.inserted - t.dropped == t.fields.len()
            && t.delta == t.fields.len())
        {
            bad.push_str("!cap");
            break;
        }
    }
    let mut sum: std::collections::BTreeMap<usize, usize> = Default::default();
    for (_, q) in &e.track_blocks {
        for m in q {
            for (a, c) in m {
                *sum.entry(*a).or_insert(0) += c;
            }
        }
    }
    let tm: std::collections::BTreeMap<usize, usize> = e.track_map.iter().cloned().collect();
    if sum != tm {
        bad.push_str("!cnt");
    }
    if streams.values().any(|st| {
        st.done.iter().chain(st.todo.iter()).skip(st.npop).any(|b| b.refs.iter().any(|a| *a <= e.dropped))
    }) {
        bad.push_str("!evi");
    }
    if e.dropped > d.inserted {
        tags.push_str("#D-20d");
    }
    // RFC 9204 2.1.2: streams that could become blocked = streams with an unacknowledged section whose Required Insert
    // Count is larger than the encoder's known received count
    let at_risk = streams
        .values()
        .filter(|st| {
            st.done.iter().chain(st.todo.iter()).skip(st.npop).any(|b| b.req > e.largest_known_received)
        })
        .count();
    if at_risk > bl {
        tags.push_str(&format!("~blk{}", at_risk));
    }
    (bad, tags)
}

fn run(w: &[&str]) -> String {
    let (Ok(cap), Ok(bl)) = (w[1].parse::<usize>(), w[2].parse::<usize>()) else { return "bad-op".into() };
    let mut out: Vec<String> = vec![];
    // the call pattern of h3's own tests: both tables configured directly, then wrapped
    let mk = || -> Option<DynamicTable> {
        let mut t = DynamicTable::new();
        t.set_max_size(cap).ok()?;
        t.set_max_blocked(bl).ok()?;
        Some(t)
    };
    let (Some(et), Some(dt)) = (mk(), mk()) else { return "refused".into() };
    let mut enc = Encoder::from(et);
    let mut dec = Decoder::from(dt);
    let mut enc_q: Vec<Vec<u8>> = vec![]; // encoder-stream instructions
    let mut enc_del = 0usize;
    let mut dec_q: Vec<(Vec<u8>, DecKind)> = vec![]; // decoder-stream instructions
    let mut dec_del = 0usize;
    let mut streams: Streams = Default::default();
    let mut halted = false;

    // appends the instructions found in `bytes` to the encoder stream; returns their texts
    fn push_enc(enc_q: &mut Vec<Vec<u8>>, mut bytes: &[u8]) -> Option<Vec<String>> {
        let mut texts = vec![];
        while !bytes.is_empty() {
            let (t, n) = parse_enc_instr(bytes)?;
            enc_q.push(bytes[..n].to_vec());
            texts.push(t);
            bytes = &bytes[n..];
        }
        Some(texts)
    }

    for op in &w[3..] {
        let parts: Vec<&str> = op.splitn(3, ':').collect();
        let mut optag = "";
        let res: Result<(String, String), String> = match parts.as_slice() {
            ["enc", sid, fs] => {
                let (Ok(sid), Some(fields)) = (sid.parse::<u64>(), parse_fields(fs)) else { return "bad-op".into() };
                let mut block = vec![];
                let mut ebuf = vec![];
                let enc_max = enc.verif_table().verif_state().max_size;
                match catch_unwind(AssertUnwindSafe(|| enc.encode(sid, &mut block, &mut ebuf, &fields))) {
                    Err(_) => Err("E:panic".into()),
                    Ok(Err(e)) => Err(format!("E:err {}", code_of(&e))),
                    Ok(Ok(r)) => {
                        let (Some(ins), Some((pfx, reprs, refs))) = (push_enc(&mut enc_q, &ebuf), parse_block(&block, r)) else {
                            return "unparsable-output".into();
                        };
                        streams.entry(sid).or_default().todo.push_back(Blk { bytes: block, refs, enc_max, req: r });
                        Ok(("E:ok".into(), format!("r={};i={};p={};b={}", r, join(&ins, "/"), pfx, join(&reprs, "/"))))
                    }
                }
            }
            ["denc", k] => {
                let (k, cutspec) = match k.split_once('@') {
                    Some((k, c)) => (k, Some(c)),
                    None => (*k, None),
                };
                let Ok(k) = k.parse::<usize>() else { return "bad-op".into() };
                let n = k.min(enc_q.len() - enc_del);
                let handed = &enc_q[enc_del..enc_del + n];
                let bytes: Vec<u8> = handed.concat();
                // byte offsets of the cuts
                let mut cuts: Vec<usize> = vec![];
                if let Some(cs) = cutspec {
                    for c in cs.split(',').filter(|c| !c.is_empty()) {
                        let Some((j, m)) = c.split_once('.') else { return "bad-op".into() };
                        let (Ok(j), Ok(m)) = (j.parse::<usize>(), m.parse::<usize>()) else { return "bad-op".into() };
                        if j >= n {
                            continue;
                        }
                        let start: usize = handed[..j].iter().map(|x| x.len()).sum();
                        let len = handed[j].len();
                        cuts.push(if m == 0 || len < 2 { start } else { start + 1 + (m - 1) % (len - 1) });
                    }
                    cuts.sort();
                    cuts.dedup();
                }
                let mut cur = Pieces::new(&bytes, &cuts);
                let mut wbuf = vec![];
                match catch_unwind(AssertUnwindSafe(|| dec.on_encoder_recv(&mut cur, &mut wbuf))) {
                    Err(_) => Err("X:panic".into()),
                    Ok(Err(e)) => Err(format!("X:err {}", code_of(&e))),
                    Ok(Ok(total)) => {
                        let inc = if wbuf.is_empty() {
                            "-".to_string()
                        } else {
                            let mut c = Cursor::new(&wbuf[..]);
                            let v = prefix_int_decode(6, &mut c).map(|x| x.1).unwrap_or(u64::MAX);
                            dec_q.push((wbuf.clone(), DecKind::Incr));
                            v.to_string()
                        };
                        let left = cur.remaining();
                        if left == 0 {
                            enc_del += n;
                            Ok(("X:ok".into(), format!("n={};t={};inc={};left=0", n, total, inc)))
                        } else {
                            // the decoder stopped in front of an instruction it holds completely: does a second call help?
                            let mut w2 = vec![];
                            let again = catch_unwind(AssertUnwindSafe(|| dec.on_encoder_recv(&mut cur, &mut w2)));
                            let consumed = bytes.len() - left;
                            let mut done = 0usize;
                            let mut acc = 0usize;
                            while done < n && acc + handed[done].len() <= consumed {
                                acc += handed[done].len();
                                done += 1;
                            }
                            if !matches!(again, Ok(Ok(_))) || cur.remaining() != left || !w2.is_empty() {
                                Err("X:retry-differs".into())
                            } else if acc != consumed {
                                Err(format!("X:misaligned left={}", left))
                            } else {
                                enc_del += done;
                                Ok(("X:stall".into(), format!("n={};t={};inc={};left=i{}", done, total, inc, n - done)))
                            }
                        }
                    }
                }
            }
            ["dblk", sid] => {
                let Ok(sid) = sid.parse::<u64>() else { return "bad-op".into() };
                let st = streams.entry(sid).or_default();
                if st.cancelled || st.todo.is_empty() {
                    Ok(("B:skip".into(), "-".into()))
                } else {
                    let tag = if dec.verif_table().verif_state().max_size != st.todo[0].enc_max { "#D-20c" } else { "" };
                    optag = tag;
                    let mut cur = Cursor::new(&st.todo[0].bytes[..]);
                    match catch_unwind(AssertUnwindSafe(|| dec.decode_header(&mut cur))) {
                        Err(_) => Err(format!("B:panic{}", tag)),
                        Ok(Err(h3::qpack::DecoderError::MissingRefs(r))) => Ok(("B:blocked".into(), format!("r={}", r))),
                        Ok(Err(e)) => Err(format!("B:err{} {}", tag, code_of(&e))),
                        Ok(Ok(d)) => {
                            let b = st.todo.pop_front().unwrap();
                            st.done.push(b);
                            if d.dyn_ref {
                                let mut a = vec![];
                                ack_header(sid, &mut a);
                                dec_q.push((a, DecKind::Ack(sid)));
                            }
                            Ok(("B:ok".into(), show_fields(d.fields.iter().map(|f| (&f.name[..], &f.value[..])))))
                        }
                    }
                }
            }
            ["dack", k] => {
                let Ok(k) = k.parse::<usize>() else { return "bad-op".into() };
                let n = k.min(dec_q.len() - dec_del);
                let bytes: Vec<u8> = dec_q[dec_del..dec_del + n].iter().flat_map(|x| x.0.clone()).collect();
                let kinds: Vec<DecKind> = dec_q[dec_del..dec_del + n].iter().map(|x| x.1).collect();
                dec_del += n;
                // ghost bookkeeping of what the encoder releases: an ack pops the oldest tracked block
                // of the stream, a cancel the oldest two (as many as its queue holds)
                let before = enc.verif_table().verif_state();
                let mut qlen: std::collections::BTreeMap<u64, usize> =
                    before.track_blocks.iter().map(|(s, q)| (*s, q.len())).collect();
                let mut cur = Cursor::new(&bytes[..]);
                match catch_unwind(AssertUnwindSafe(|| enc.on_decoder_recv(&mut cur))) {
                    Err(_) => Err("A:panic".into()),
                    Ok(Err(e)) => Err(format!("A:err {}", code_of(&e))),
                    Ok(Ok(())) => {
                        for kd in kinds {
                            match kd {
                                DecKind::Ack(sid) => {
                                    streams.entry(sid).or_default().npop += 1;
                                    if let Some(q) = qlen.get_mut(&sid) {
                                        *q = q.saturating_sub(1);
                                    }
                                }
                                DecKind::Cancel(sid) => {
                                    let q = qlen.entry(sid).or_insert(0);
                                    let m = 2.min(*q);
                                    *q -= m;
                                    streams.entry(sid).or_default().npop += m;
                                }
                                DecKind::Incr => {}
                            }
                        }
                        Ok(("A:ok".into(), format!("n={};left={}", n, cur.remaining())))
                    }
                }
            }
            ["cap", c] => {
                let Ok(c) = c.parse::<usize>() else { return "bad-op".into() };
                let mut ebuf = vec![];
                match catch_unwind(AssertUnwindSafe(|| set_dynamic_table_size(enc.verif_table_mut(), &mut ebuf, c))) {
                    Err(_) => Err("C:panic".into()),
                    // a refused capacity change leaves everything as it was; the history goes on
                    Ok(Err(e)) => Ok(("C:err".into(), code_of(&e))),
                    Ok(Ok(())) => {
                        let Some(ins) = push_enc(&mut enc_q, &ebuf) else { return "unparsable-output".into() };
                        Ok(("C:ok".into(), join(&ins, "/")))
                    }
                }
            }
            ["cancel", sid] => {
                let Ok(sid) = sid.parse::<u64>() else { return "bad-op".into() };
                streams.entry(sid).or_default().cancelled = true;
                let mut a = vec![];
                stream_canceled(sid, &mut a);
                dec_q.push((a, DecKind::Cancel(sid)));
                Ok(("K:ok".into(), "-".into()))
            }
            _ => return "bad-op".into(),
        };
        match res {
            Ok((status, detail)) => {
                let (m, t) = monitor(&enc.verif_table().verif_state(), &dec.verif_table().verif_state(), &streams, bl);
                let tags = format!("{}{}", optag, t);
                out.push(format!("{}{} {} {}", status, m, detail, if tags.is_empty() { "-" } else { &tags }));
            }
            Err(s) => {
                out.push(s);
                halted = true;
                break;
            }
        }
    }
    if halted {
        out.push("halt".into());
    } else {
        out.push(format!(
            "end {} {}",
            show_table(&enc.verif_table().verif_state()),
            show_table(&dec.verif_table().verif_state())
        ));
    }
    out.join(" ")
}

pub fn handle(w: &[&str]) -> String {
    if w.len() < 3 || w[0] != "dyn" {
        return "bad-op".into();
    }
    guarded(|| run(w))
}
