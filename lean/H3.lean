import H3.Model.Varint
import H3.Model.StreamId
import H3.Lemmas.Varint
import H3.Props.C16
import H3.Model.Datagram
import H3.Props.C18
