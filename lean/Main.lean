import H3.Drv.Util
import H3.Drv.C16
import H3.Drv.C18
import H3.Drv.C02
import H3.Drv.C15
import H3.Drv.C06
import H3.Drv.C13
import H3.Drv.C05
import H3.Drv.C17
import H3.Drv.C01
import H3.Drv.C12
import H3.Drv.C07
import H3.Drv.C19
import H3.Drv.C04
import H3.Drv.C08
import H3.Drv.C09
import H3.Drv.C14
import H3.Drv.C03
import H3.Drv.C11
import H3.Drv.C10
import H3.Drv.C20
import H3.Drv.Fault
import H3.Drv.Hnd
open H3.Drv

def dispatch (ws : List String) : String :=
  match ws with
  | [] => "bad-op"
  | e :: _ =>
    if e == "varint" || e == "sid" then H3.Drv.C16.handle ws
    else if e == "dgram" then H3.Drv.C18.handle ws
    else if e == "frame" || e == "fs" then H3.Drv.C02.handle ws
    else if e == "pint" || e == "huff" || e == "pstr" then H3.Drv.C15.handle ws
    else if e == "adv" then H3.Drv.C06.handle ws
    else if e == "set" then H3.Drv.C13.handle ws
    else if e == "cell" then H3.Drv.C05.handle ws
    else if e == "cellmv" then H3.Drv.C05.handleMv ws
    else if e == "quinn" then H3.Drv.C17.handle ws
    else if e == "e2e" then H3.Drv.C01.handle ws
    else if e == "hdr" then H3.Drv.C12.handle ws
    else if e == "iso" then H3.Drv.C07.handle ws
    else if e == "wt" || e == "wtj" then H3.Drv.C19.handle ws
    else if e == "ctl" || e == "ctlrfc" then H3.Drv.C04.handle ws
    else if e == "flt" || e == "fltj" || e == "flt5" || e == "fltj5" then H3.Drv.Fault.handle ws
    else if e == "hnd5" || e == "hndj" then H3.Drv.Hnd.handle ws
    else if e == "goaway" || e == "goawayj" then H3.Drv.C08.handle ws
    else if e == "drain" then H3.Drv.C09.handle ws
    else if e == "req" then H3.Drv.C03.handle ws
    else if e == "qpack" then H3.Drv.C11.handle ws
    else if e == "lim" then H3.Drv.C10.handle ws
    else if e == "dyn" then H3.Drv.C20.handle ws
    else if e == "wbuf" || e == "sdc" || e == "out" || e == "outlog" then H3.Drv.C14.handle ws
    else "bad-op"

partial def loop (h : IO.FS.Stream) (out : IO.FS.Stream) : IO Unit := do
  let line ← h.getLine
  if line.isEmpty then return ()
  out.putStrLn (dispatch (words line))
  out.flush
  loop h out

def main : IO Unit := do
  let stdin ← IO.getStdin
  let stdout ← IO.getStdout
  loop stdin stdout
