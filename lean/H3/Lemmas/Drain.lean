import H3.Model.Drain
import H3.Spec.Drain
/-! Invariants of `H3.Drain.step` and their relation to the history-level notions of
`H3.Spec.Drain` (helper lemmas for `H3.Props.C09`). -/
namespace H3.Lemmas.Drain
open H3.Drain H3.Spec.Drain

/-- what holds of every reachable connection state. -/
structure Inv (s : State) : Prop where
  /-- a request with a live handle is in `ongoing_streams` -/
  live_sub : ∀ id ∈ s.handles, id ∈ s.ongoing
  /-- every ID in `ongoing_streams` has a live handle or its end notification is in the channel
      (what fails without the D-09 repair) -/
  ongoing_sub : ∀ id ∈ s.ongoing, id ∈ s.handles ∨ id ∈ s.chan
  /-- a notification in the channel belongs to a request without handles -/
  chan_dead : ∀ id ∈ s.chan, id ∉ s.handles
  /-- a parked (outstanding, not woken) `accept` has seen everything there is to see -/
  parked : s.inFlight = true → s.wake = false →
    s.chan = [] ∧ s.ctl = 0 ∧ s.incoming = [] ∧ s.failed = false ∧
    ¬ (s.recvClosing = true ∧ s.ongoing = [])

/-- how the history so far determines the parts of the state the oracle talks about. -/
structure Rel (pre : List Step) (s : State) : Prop where
  owners_eq : owners pre = s.handles
  goaway_iff : goawaySeen pre = true ↔ (s.recvClosing = true ∨ 0 < s.ctl)
  error_iff : errorSeen pre = true ↔ s.failed = true
  arrivals_eq : arrivals pre = handedOut pre ++ s.incoming

theorem inv_init : Inv {} := by
  constructor <;> simp

theorem rel_init : Rel [] {} := by
  constructor <;> simp [owners, goawaySeen, errorSeen, arrivals, handedOut]

theorem owners_snoc (pre : List Step) (st : Step) : owners (pre ++ [st]) = ownersStep (owners pre) st := by
  simp [owners, List.foldl_append]

theorem goawaySeen_snoc (pre : List Step) (st : Step) :
    goawaySeen (pre ++ [st]) = (goawaySeen pre || st.ev == .goaway) := by
  simp [goawaySeen, List.any_append]

theorem errorSeen_snoc (pre : List Step) (st : Step) :
    errorSeen (pre ++ [st]) = (errorSeen pre || st.ev == .connError) := by
  simp [errorSeen, List.any_append]

theorem arrivals_append (a b : List Step) : arrivals (a ++ b) = arrivals a ++ arrivals b := by
  induction a with
  | nil => rfl
  | cons st r ih =>
    obtain ⟨ev, obs⟩ := st
    cases ev <;> simp [arrivals, ih]

theorem handedOut_append (a b : List Step) : handedOut (a ++ b) = handedOut a ++ handedOut b := by
  induction a with
  | nil => rfl
  | cons st r ih => simp [handedOut, ih]

theorem mem_removeAll {o c : List Nat} {j : Nat} : j ∈ removeAll o c ↔ j ∈ o ∧ j ∉ c := by
  simp [removeAll]

/-- a step that shows nothing, changes no handle and leaves the oracle-relevant state alone. -/
private theorem rel_silent {pre : List Step} {s s' : State} {e : Ev} (h : Rel pre s)
    (hown : ownersStep s.handles ⟨e, []⟩ = s'.handles)
    (hg : (goawaySeen pre || e == .goaway) = true ↔ (s'.recvClosing = true ∨ 0 < s'.ctl))
    (he : (errorSeen pre || e == .connError) = true ↔ s'.failed = true)
    (ha : arrivals [⟨e, []⟩] = [] ∧ s'.incoming = s.incoming ∨
          ∃ id, arrivals [⟨e, []⟩] = [id] ∧ s'.incoming = s.incoming ++ [id]) :
    Rel (pre ++ [⟨e, []⟩]) s' := by
  refine ⟨?_, ?_, ?_, ?_⟩
  · rw [owners_snoc, h.owners_eq]; exact hown
  · rw [goawaySeen_snoc]; exact hg
  · rw [errorSeen_snoc]; exact he
  · rw [arrivals_append, handedOut_append, h.arrivals_eq]
    rcases ha with ⟨h1, h2⟩ | ⟨id, h1, h2⟩
    · rw [h1, h2]; simp [handedOut, handedOutIn]
    · rw [h1, h2]; simp [handedOut, handedOutIn]

/-- one step: the invariant, the relation, and the never-early clause. -/
theorem step_inv (s : State) (pre : List Step) (e : Ev) (hi : Inv s) (hr : Rel pre s) :
    Inv (step s e).1 ∧ Rel (pre ++ [⟨e, (step s e).2⟩]) (step s e).1 ∧
    (returnsNone ⟨e, (step s e).2⟩ = true → goawaySeen pre = true ∧ noneAlive pre = true) := by
  obtain ⟨hB, hA, hC, hP⟩ := hi
  cases e with
  | arrive id =>
    refine ⟨⟨hB, hA, hC, ?_⟩, ?_, by simp [step, returnsNone]⟩
    · intro h1 h2
      simp [step, wakeUp] at h1 h2
      simp [h1] at h2
    · apply rel_silent hr
      · simp [step, wakeUp, ownersStep, handedOutIn]
      · simpa [step, wakeUp] using hr.goaway_iff
      · simpa [step, wakeUp] using hr.error_iff
      · right; exact ⟨id, by simp [arrivals], by simp [step, wakeUp]⟩
  | goaway =>
    refine ⟨⟨hB, hA, hC, ?_⟩, ?_, by simp [step, returnsNone]⟩
    · intro h1 h2
      simp [step, wakeUp] at h1 h2
      simp [h1] at h2
    · apply rel_silent hr
      · simp [step, wakeUp, ownersStep, handedOutIn]
      · simp [step, wakeUp]
      · simpa [step, wakeUp] using hr.error_iff
      · left; exact ⟨by simp [arrivals], by simp [step, wakeUp]⟩
  | callAccept =>
    by_cases hf : s.inFlight = true
    · have : step s .callAccept = (s, []) := by simp [step, hf]
      rw [this]
      refine ⟨⟨hB, hA, hC, hP⟩, ?_, by simp [returnsNone]⟩
      apply rel_silent hr
      · simp [ownersStep, handedOutIn]
      · simpa using hr.goaway_iff
      · simpa using hr.error_iff
      · left; exact ⟨by simp [arrivals], rfl⟩
    · have : step s .callAccept = ({ s with inFlight := true, wake := true }, []) := by simp [step, hf]
      rw [this]
      refine ⟨⟨hB, hA, hC, by simp⟩, ?_, by simp [returnsNone]⟩
      apply rel_silent hr
      · simp [ownersStep, handedOutIn]
      · simpa using hr.goaway_iff
      · simpa using hr.error_iff
      · left; exact ⟨by simp [arrivals], rfl⟩
  | connError =>
    refine ⟨⟨hB, hA, hC, ?_⟩, ?_, by simp [step, returnsNone]⟩
    · intro h1 h2
      simp [step, wakeUp] at h1 h2
      simp [h1] at h2
    · apply rel_silent hr
      · simp [step, wakeUp, ownersStep, handedOutIn]
      · simpa [step, wakeUp] using hr.goaway_iff
      · simp [step, wakeUp]
      · left; exact ⟨by simp [arrivals], by simp [step, wakeUp]⟩
  | clone id =>
    by_cases hc : s.handles.contains id = true
    · have hm : id ∈ s.handles := by simpa using hc
      have : step s (.clone id) = ({ s with handles := id :: s.handles }, []) := by simp [step, hm]
      rw [this]
      refine ⟨⟨?_, ?_, ?_, hP⟩, ?_, by simp [returnsNone]⟩
      · intro j hj
        rcases List.mem_cons.mp hj with rfl | hj
        · exact hB _ hm
        · exact hB _ hj
      · intro j hj
        rcases hA j hj with h | h
        · exact Or.inl (List.mem_cons_of_mem _ h)
        · exact Or.inr h
      · intro j hj hj'
        rcases List.mem_cons.mp hj' with rfl | hj'
        · exact hC _ hj hm
        · exact hC _ hj hj'
      · apply rel_silent hr
        · simp [ownersStep, handedOutIn, hm]
        · simpa using hr.goaway_iff
        · simpa using hr.error_iff
        · left; exact ⟨by simp [arrivals], rfl⟩
    · have hm : id ∉ s.handles := by simpa using hc
      have : step s (.clone id) = (s, []) := by simp [step, hm]
      rw [this]
      refine ⟨⟨hB, hA, hC, hP⟩, ?_, by simp [returnsNone]⟩
      apply rel_silent hr
      · simp [ownersStep, handedOutIn, hm]
      · simpa using hr.goaway_iff
      · simpa using hr.error_iff
      · left; exact ⟨by simp [arrivals], rfl⟩
  | dropHandle id =>
    by_cases hc : s.handles.contains id = true
    · have hm : id ∈ s.handles := by simpa using hc
      by_cases hc2 : (s.handles.erase id).contains id = true
      · have hm2 : id ∈ s.handles.erase id := by simpa using hc2
        have : step s (.dropHandle id) = ({ s with handles := s.handles.erase id }, []) := by
          simp [step, dropHandle, hm, hm2]
        rw [this]
        refine ⟨⟨?_, ?_, ?_, hP⟩, ?_, by simp [returnsNone]⟩
        · intro j hj; exact hB _ (List.mem_of_mem_erase hj)
        · intro j hj
          rcases hA j hj with h | h
          · by_cases hji : j = id
            · subst hji; exact Or.inl hm2
            · exact Or.inl ((List.mem_erase_of_ne hji).mpr h)
          · exact Or.inr h
        · intro j hj hj'; exact hC _ hj (List.mem_of_mem_erase hj')
        · apply rel_silent hr
          · simp [ownersStep, handedOutIn]
          · simpa using hr.goaway_iff
          · simpa using hr.error_iff
          · left; exact ⟨by simp [arrivals], rfl⟩
      · have hm2 : id ∉ s.handles.erase id := by simpa using hc2
        have : step s (.dropHandle id) =
            (wakeUp { s with handles := s.handles.erase id, chan := s.chan ++ [id] }, []) := by
          simp [step, dropHandle, hm, hm2]
        rw [this]
        refine ⟨⟨?_, ?_, ?_, ?_⟩, ?_, by simp [returnsNone]⟩
        · intro j hj; exact hB _ (List.mem_of_mem_erase (by simpa [wakeUp] using hj))
        · intro j hj
          have hj : j ∈ s.ongoing := by simpa [wakeUp] using hj
          simp only [wakeUp]
          rcases hA j hj with h | h
          · by_cases hji : j = id
            · subst hji; exact Or.inr (by simp)
            · exact Or.inl ((List.mem_erase_of_ne hji).mpr h)
          · exact Or.inr (by simp [h])
        · intro j hj hj'
          simp only [wakeUp] at hj hj'
          rcases List.mem_append.mp hj with h | h
          · exact hC _ h (List.mem_of_mem_erase hj')
          · have : j = id := by simpa using h
            subst this; exact hm2 hj'
        · intro h1 h2
          simp [wakeUp] at h1 h2
          simp [h1] at h2
        · apply rel_silent hr
          · simp [wakeUp, ownersStep, handedOutIn]
          · simpa [wakeUp] using hr.goaway_iff
          · simpa [wakeUp] using hr.error_iff
          · left; exact ⟨by simp [arrivals], by simp [wakeUp]⟩
    · have hm : id ∉ s.handles := by simpa using hc
      have : step s (.dropHandle id) = (s, []) := by simp [step, dropHandle, hm]
      rw [this]
      refine ⟨⟨hB, hA, hC, hP⟩, ?_, by simp [returnsNone]⟩
      apply rel_silent hr
      · simp [ownersStep, handedOutIn, List.erase_of_not_mem hm]
      · simpa using hr.goaway_iff
      · simpa using hr.error_iff
      · left; exact ⟨by simp [arrivals], rfl⟩
  | poll =>
    by_cases hgo : (s.inFlight && s.wake) = true
    · -- the task runs
      have hB1 : ∀ j ∈ s.handles, j ∈ (catchUp s).ongoing := fun j hj =>
        mem_removeAll.mpr ⟨hB j hj, fun hc => hC j hc hj⟩
      have hA1 : ∀ j ∈ (catchUp s).ongoing, j ∈ s.handles := fun j hj => by
        obtain ⟨h1, h2⟩ := mem_removeAll.mp hj
        rcases hA j h1 with h | h
        · exact h
        · exact absurd h h2
      have hG : (catchUp s).recvClosing = true ↔ goawaySeen pre = true := by
        rw [hr.goaway_iff]; simp [catchUp]
      have hh : (catchUp s).handles = s.handles := rfl
      have hc0 : (catchUp s).chan = [] := rfl
      have hctl : (catchUp s).ctl = 0 := rfl
      have hfl : (catchUp s).failed = s.failed := rfl
      have hinc : (catchUp s).incoming = s.incoming := rfl
      have hw : (catchUp s).wake = false := rfl
      by_cases hfail : s.failed = true
      · have : step s .poll = ({ catchUp s with inFlight := false }, [.acceptErr]) := by
          simp [step, poll, hgo, hfl, hfail]
        rw [this]
        refine ⟨⟨hB1, fun j hj => Or.inl (hA1 j hj), by simp [hc0], by simp⟩, ⟨?_, ?_, ?_, ?_⟩, by simp [returnsNone]⟩
        · rw [owners_snoc, hr.owners_eq]; simp [ownersStep, handedOutIn, hh]
        · rw [goawaySeen_snoc]; simp [← hG, hctl]
        · rw [errorSeen_snoc]; simpa [hfl] using hr.error_iff
        · rw [arrivals_append, handedOut_append, hr.arrivals_eq]; simp [arrivals, handedOut, handedOutIn, hinc]
      · have hfail' : s.failed = false := by simpa using hfail
        cases hin : s.incoming with
        | cons id rest =>
          have : step s .poll = ({ catchUp s with incoming := rest, ongoing := id :: (catchUp s).ongoing,
                                                  handles := id :: s.handles, inFlight := false }, [.handedOut id]) := by
            simp [step, poll, hgo, hfl, hfail', takeStream, hinc, hin, hh]
          rw [this]
          refine ⟨⟨?_, ?_, by simp [hc0], by simp⟩, ⟨?_, ?_, ?_, ?_⟩, by simp [returnsNone]⟩
          · intro j hj
            rcases List.mem_cons.mp hj with rfl | hj
            · simp
            · exact List.mem_cons_of_mem _ (hB1 j hj)
          · intro j hj
            rcases List.mem_cons.mp hj with rfl | hj
            · exact Or.inl (by simp)
            · exact Or.inl (List.mem_cons_of_mem _ (hA1 j hj))
          · rw [owners_snoc, hr.owners_eq]; simp [ownersStep, handedOutIn]
          · rw [goawaySeen_snoc]; simp [← hG, hctl]
          · rw [errorSeen_snoc]; simpa [hfl] using hr.error_iff
          · rw [arrivals_append, handedOut_append, hr.arrivals_eq, hin]
            simp [arrivals, handedOut, handedOutIn]
        | nil =>
          by_cases hv : ((catchUp s).recvClosing && (catchUp s).ongoing.isEmpty) = true
          · have : step s .poll = ({ catchUp s with inFlight := false }, [.acceptNone]) := by
              simp [step, poll, hgo, hfl, hfail', takeStream, hinc, hin, verdict, hv]
            rw [this]
            have hv' := Bool.and_eq_true_iff.mp hv
            refine ⟨⟨hB1, fun j hj => Or.inl (hA1 j hj), by simp [hc0], by simp⟩, ⟨?_, ?_, ?_, ?_⟩, ?_⟩
            · rw [owners_snoc, hr.owners_eq]; simp [ownersStep, handedOutIn, hh]
            · rw [goawaySeen_snoc]; simp [← hG, hctl]
            · rw [errorSeen_snoc]; simpa [hfl] using hr.error_iff
            · rw [arrivals_append, handedOut_append, hr.arrivals_eq, hin]
              simp [arrivals, handedOut, handedOutIn, hinc, hin]
            · intro _
              refine ⟨hG.mp hv'.1, ?_⟩
              have he : (catchUp s).ongoing = [] := by simpa using hv'.2
              have : s.handles = [] := by
                apply List.eq_nil_iff_forall_not_mem.mpr
                intro j hj
                have := hB1 j hj
                rw [he] at this
                exact absurd this (by simp)
              simp [noneAlive, hr.owners_eq, this]
          · have hv0 : ((catchUp s).recvClosing && (catchUp s).ongoing.isEmpty) = false := by
              simpa using hv
            have : step s .poll = (catchUp s, [.acceptPending]) := by
              simp [step, poll, hgo, hfl, hfail', takeStream, hinc, hin, verdict, hv0]
            rw [this]
            refine ⟨⟨hB1, fun j hj => Or.inl (hA1 j hj), by simp [hc0], ?_⟩, ⟨?_, ?_, ?_, ?_⟩, by simp [returnsNone]⟩
            · intro _ _
              refine ⟨hc0, hctl, by rw [hinc, hin], by rw [hfl, hfail'], ?_⟩
              rintro ⟨h1, h2⟩
              rw [h1, h2] at hv0
              simp at hv0
            · rw [owners_snoc, hr.owners_eq]; simp [ownersStep, handedOutIn, hh]
            · rw [goawaySeen_snoc]; simp [← hG, hctl]
            · rw [errorSeen_snoc]; simpa [hfl] using hr.error_iff
            · rw [arrivals_append, handedOut_append, hr.arrivals_eq, hin]
              simp [arrivals, handedOut, handedOutIn, hinc, hin]
    · have hgo' : (s.inFlight && s.wake) = false := by simpa using hgo
      have : step s .poll = (s, []) := by simp [step, poll, hgo']
      rw [this]
      refine ⟨⟨hB, hA, hC, hP⟩, ?_, by simp [returnsNone]⟩
      apply rel_silent hr
      · simp [ownersStep, handedOutIn]
      · simpa using hr.goaway_iff
      · simpa using hr.error_iff
      · left; exact ⟨by simp [arrivals], rfl⟩

end H3.Lemmas.Drain
