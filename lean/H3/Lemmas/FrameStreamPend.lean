import H3.Lemmas.FrameStreamStep
/-! `Pending` answers of the `FrameStream` model are inert: a `poll_next` / `poll_data` call that
    answers `Pending` leaves `remaining_data` and `eos` as they were (`eos = false`), and the script
    never grows; with `pollNextLoop_pending_why` / `pollData_pending_why`: if events are left after
    a `Pending`, at least one (a `pend`) was used up.  Unconditional (no invariant needed). -/
namespace H3.FS
variable {F E : Type}

theorem afterRecv_pending_st (D : Dec F E) (s : St) (e : End) (s' : St)
    (h : afterRecv D s e = some (.pending, s')) : s'.eos = s.eos ∧ s'.remaining = s.remaining := by
  have he := afterRecv_pending_end D s e s' h
  subst he
  unfold afterRecv at h
  cases hdl : decLoop D (s.flat.length + 1) s.flat s.expected 0 with
  | frame d f =>
    rw [hdl] at h
    simp only [Option.some.injEq, Prod.mk.injEq] at h
    exact absurd h.1 (by intro hc; cases hc)
  | error d exp e' =>
    rw [hdl] at h
    simp only [Option.some.injEq, Prod.mk.injEq] at h
    exact absurd h.1 (by intro hc; cases hc)
  | none d exp =>
    rw [hdl] at h
    simp only [Option.some.injEq, Prod.mk.injEq, true_and] at h
    subst h
    exact ⟨rfl, rfl⟩

/-- a branch of `poll_next` that answers what the decode step answered, for `Pending`: the state -/
theorem match_afterRecv_pending_st (D : Dec F E) (sX sP : St) (eX : End) (r script' : List Ev)
    (s' : St) (hne : eX ≠ .more)
    (h : (match afterRecv D sX eX with
          | some (o, s') => (o, s', r)
          | none => (Out.pending, sP, r)) = (Out.pending, s', script')) :
    s'.eos = sX.eos ∧ s'.remaining = sX.remaining := by
  cases hres : afterRecv D sX eX with
  | none => exact absurd (afterRecv_none_more D sX eX hres).1 hne
  | some p =>
    obtain ⟨o, s1⟩ := p
    rw [hres] at h
    simp only [Prod.mk.injEq] at h
    obtain ⟨rfl, rfl, rfl⟩ := h
    exact afterRecv_pending_st D sX eX s1 hres

theorem pollNextLoop_pending_st (D : Dec F E) (script : List Ev) :
    ∀ (s s' : St) (script' : List Ev), pollNextLoop D s script = (.pending, s', script') →
      s.eos = false ∧ s'.eos = false ∧ s'.remaining = s.remaining := by
  have heosT : ∀ (s s' : St) (sc script' : List Ev), s.eos = true →
      pollNextLoop D s sc = (.pending, s', script') → False := by
    intro s s' sc script' he h
    have hx : pollNextLoop D s sc = (match afterRecv D s .eos with
        | some (o, s') => (o, s', sc)
        | none => (.pending, s, sc)) := by
      cases sc with
      | nil => rw [pollNextLoop, if_pos he]; rfl
      | cons ev r => cases ev <;> rw [pollNextLoop, if_pos he] <;> rfl
    rw [hx] at h
    obtain ⟨hc, _⟩ := match_afterRecv_pending D _ _ _ _ _ s' (by intro hc; cases hc) h
    cases hc
  induction script with
  | nil =>
    intro s s' script' h
    cases heos : s.eos with
    | true => exact (heosT s s' _ _ heos h).elim
    | false =>
      rw [pollNextLoop, if_neg (by simp [heos])] at h
      obtain ⟨h1, h2⟩ := match_afterRecv_pending_st D _ _ _ _ _ s' (by intro hc; cases hc) h
      exact ⟨rfl, by rw [h1, heos], h2⟩
  | cons ev r ih =>
    intro s s' script' h
    cases heos : s.eos with
    | true => exact (heosT s s' _ _ heos h).elim
    | false =>
      have hne : ¬ s.eos = true := by simp [heos]
      cases ev with
      | pend =>
        rw [pollNextLoop, if_neg hne] at h
        obtain ⟨h1, h2⟩ := match_afterRecv_pending_st D _ _ _ _ _ s' (by intro hc; cases hc) h
        exact ⟨rfl, by rw [h1, heos], h2⟩
      | fin =>
        rw [pollNextLoop, if_neg hne] at h
        obtain ⟨hc, _⟩ := match_afterRecv_pending D _ _ _ _ _ s' (by intro hc; cases hc) h
        cases hc
      | reset c =>
        rw [pollNextLoop, if_neg hne] at h
        simp only [Prod.mk.injEq] at h
        exact absurd h.1 (by intro hc; cases hc)
      | chunk b =>
        rw [pollNextLoop, if_neg hne] at h
        simp only at h
        cases hres : afterRecv D (s.push b) .more with
        | some p =>
          obtain ⟨o, s1⟩ := p
          rw [hres] at h
          simp only [Prod.mk.injEq] at h
          obtain ⟨rfl, rfl, _⟩ := h
          have := afterRecv_pending_end D _ _ _ hres
          cases this
        | none =>
          obtain ⟨_, d, exp, hdl⟩ := afterRecv_none_more D _ _ hres
          rw [hres] at h
          simp only [hdl] at h
          obtain ⟨_, h2, h3⟩ := ih _ s' script' h
          exact ⟨rfl, h2, by rw [h3]; rfl⟩

theorem pollNextLoop_len (D : Dec F E) (script : List Ev) :
    ∀ s : St, (pollNextLoop D s script).2.2.length ≤ script.length := by
  induction script with
  | nil =>
    intro s
    rw [pollNextLoop]
    split
    · split <;> simp
    · split <;> simp
  | cons ev r ih =>
    intro s
    by_cases he : s.eos = true
    · have hx : pollNextLoop D s (ev :: r) = (match afterRecv D s .eos with
          | some (o, s') => (o, s', ev :: r)
          | none => (.pending, s, ev :: r)) := by
        cases ev <;> rw [pollNextLoop, if_pos he] <;> rfl
      rw [hx]
      split <;> simp
    · cases ev with
      | pend =>
        rw [pollNextLoop, if_neg he]
        split <;> simp
      | fin =>
        rw [pollNextLoop, if_neg he]
        split <;> simp
      | reset c =>
        rw [pollNextLoop, if_neg he]
        simp
      | chunk b =>
        rw [pollNextLoop, if_neg he]
        simp only
        split
        · simp
        · split
          · exact Nat.le_trans (ih _) (by simp)
          · simp

theorem pollNext_len (D : Dec F E) (s : St) (script : List Ev) :
    (pollNext D s script).2.2.length ≤ script.length := by
  unfold pollNext
  split
  · exact Nat.le_refl _
  · exact pollNextLoop_len D script s

theorem pollNext_pending_st (D : Dec F E) (s s' : St) (script script' : List Ev)
    (h : pollNext D s script = (.pending, s', script')) :
    s'.eos = false ∧ s'.remaining = 0 ∧ (script' ≠ [] → script'.length < script.length) := by
  unfold pollNext at h
  by_cases h0 : s.remaining ≠ 0
  · rw [if_pos h0] at h
    simp only [Prod.mk.injEq] at h
    exact absurd h.1 (by intro hc; cases hc)
  · rw [if_neg h0] at h
    obtain ⟨he, he', hr⟩ := pollNextLoop_pending_st D script s s' script' h
    obtain ⟨taken, hs, hw⟩ := pollNextLoop_pending_why D script s s' script' h he
    refine ⟨he', by rw [hr]; simpa using h0, fun hne => ?_⟩
    rcases hw with hw | hw
    · exact absurd hw hne
    · subst hs
      have : taken ≠ [] := fun hc => by rw [hc] at hw; cases hw
      have : 0 < taken.length := List.length_pos_iff.mpr this
      simp only [List.length_append]
      omega

theorem pollData_len (s : St) (script : List Ev) :
    (pollData (F := F) (E := E) s script).2.2.length ≤ script.length := by
  unfold pollData
  split
  · exact Nat.le_refl _
  · have hrec : ∀ e s1 r, recvForData s script = .ok (e, s1, r) → r.length ≤ script.length := by
      intro e s1 r hr
      unfold recvForData at hr
      split at hr
      · simp only [Except.ok.injEq, Prod.mk.injEq] at hr
        rw [← hr.2.2]
        exact Nat.le_refl _
      · cases script with
        | nil => simp only [Except.ok.injEq, Prod.mk.injEq] at hr; rw [← hr.2.2]; exact Nat.le_refl _
        | cons ev r' =>
          cases ev <;> simp only [Except.ok.injEq, Prod.mk.injEq, reduceCtorEq] at hr <;>
            (rw [← hr.2.2]; simp)
    cases hr : recvForData s script with
    | error c => exact Nat.le_refl _
    | ok p =>
      obtain ⟨e, s1, r⟩ := p
      have hl := hrec e s1 r hr
      simp only
      split
      · split
        · split <;> exact hl
        · exact hl
      · split <;> exact hl

theorem pollData_pending_st (s s' : St) (script script' : List Ev)
    (h : pollData (F := F) (E := E) s script = (.pending, s', script')) :
    s'.remaining = s.remaining ∧ s.remaining ≠ 0 ∧ (script' ≠ [] → script'.length < script.length) := by
  obtain ⟨taken, hs, hw⟩ := pollData_pending_why s s' script script' h
  have hlen : script' ≠ [] → script'.length < script.length := by
    intro hne
    rcases hw with hw | hw
    · exact absurd hw hne
    · subst hs
      have : taken ≠ [] := fun hc => by rw [hc] at hw; cases hw
      have : 0 < taken.length := List.length_pos_iff.mpr this
      simp only [List.length_append]
      omega
  unfold pollData at h
  by_cases h0 : s.remaining = 0
  · rw [if_pos h0] at h
    simp only [Prod.mk.injEq] at h
    exact absurd h.1 (by intro hc; cases hc)
  · rw [if_neg h0] at h
    refine ⟨?_, h0, hlen⟩
    cases hr : recvForData s script with
    | error c =>
      rw [hr] at h
      simp only [Prod.mk.injEq] at h
      exact absurd h.1 (by intro hc; cases hc)
    | ok p =>
      obtain ⟨e, s1, r⟩ := p
      have hrem : s1.remaining = s.remaining := by
        unfold recvForData at hr
        split at hr
        · simp only [Except.ok.injEq, Prod.mk.injEq] at hr
          rw [← hr.2.1]
        · cases script with
          | nil => simp only [Except.ok.injEq, Prod.mk.injEq] at hr; rw [← hr.2.1]
          | cons ev r' =>
            cases ev <;> simp only [Except.ok.injEq, Prod.mk.injEq, reduceCtorEq] at hr <;>
              (first | (rw [← hr.2.1]; done) | (rw [← hr.2.1]; rfl))
      rw [hr] at h
      simp only at h
      cases hT : takeChunk s1.remaining s1.buf with
      | mk od buf' =>
      rw [hT] at h
      cases od with
      | some d =>
        simp only at h
        split at h <;>
          (simp only [Prod.mk.injEq] at h
           exact absurd h.1 (by intro hc; cases hc))
      | none =>
        simp only at h
        by_cases hE : e = true
        · rw [if_pos hE] at h
          split at h <;>
            (simp only [Prod.mk.injEq] at h
             exact absurd h.1 (by intro hc; cases hc))
        · rw [if_neg hE] at h
          simp only [Prod.mk.injEq, true_and] at h
          rw [← h.1, hrem]

end H3.FS
