import H3.Spec.Huffman
/-! The reference decoder of `H3.Spec.Huffman` accepts exactly the declaratively described
    language: `specGo bits [] = some s` iff `s` consists of bytes and `bits` is `enc s` followed
    by a valid padding (`specGo_iff`, `specDecode_iff`), and that parse is unique
    (`enc_pad_unique`).

    The finite facts about the 257-entry code are established by kernel evaluation
    (`decide +kernel`); `codes` is treated as opaque everywhere else.  Prefix-freeness is not
    checked pairwise (66 049 pairs of words are too slow for the kernel) but through a linear
    check: read as binary fractions, the code words in canonical order denote consecutive,
    non-overlapping intervals (`chainOk`), and a prefix relation between two words would make
    their intervals nested. -/
namespace H3.Spec.Huffman
open H3.Bits

/- `codes` is a closed term that is expensive to evaluate; keep the elaborator's `whnf` away from
   it (the kernel, which does the evaluation in `decide +kernel`, ignores this). -/
attribute [local irreducible] codes

/-! ## generic list helpers -/

theorem pairwise_mem {α} {R : α → α → Prop} {l : List α} (h : l.Pairwise R)
    {a b : α} (ha : a ∈ l) (hb : b ∈ l) : a = b ∨ R a b ∨ R b a := by
  induction h with
  | nil => cases ha
  | cons hR _ ih =>
    rcases List.mem_cons.1 ha with rfl | ha' <;> rcases List.mem_cons.1 hb with rfl | hb'
    · exact .inl rfl
    · exact .inr (.inl (hR _ hb'))
    · exact .inr (.inr (hR _ ha'))
    · exact ih ha' hb'

/-! ## words as intervals of 30-bit numbers -/

theorem val_lt (w : List Bool) : val w < 2 ^ w.length := by
  induction w with
  | nil => simp [val]
  | cons b r ih =>
    have : b.toNat ≤ 1 := Bool.toNat_le b
    have h2 : b.toNat * 2 ^ r.length ≤ 1 * 2 ^ r.length := Nat.mul_le_mul_right _ this
    simp only [val, List.length_cons, Nat.pow_succ]
    omega

theorem val_append (a t : List Bool) : val (a ++ t) = val a * 2 ^ t.length + val t := by
  induction a with
  | nil => simp [val]
  | cons b r ih =>
    simp only [List.cons_append, val, ih, List.length_append, Nat.pow_add, Nat.add_mul,
      Nat.mul_assoc, Nat.add_assoc]

/-- lower end of the interval of 30-bit words that start with `w` -/
def lo (w : List Bool) : Nat := val w * 2 ^ (30 - w.length)
/-- upper end (exclusive) of the interval of 30-bit words that start with `w` -/
def hi (w : List Bool) : Nat := (val w + 1) * 2 ^ (30 - w.length)

theorem lo_lt_hi (w : List Bool) : lo w < hi w := by
  have : 0 < 2 ^ (30 - w.length) := Nat.pow_pos (by decide)
  simp only [lo, hi, Nat.add_mul]; omega

theorem lo_hi_prefix {a w : List Bool} (hp : a <+: w) (hw : w.length ≤ 30) :
    lo a ≤ lo w ∧ hi w ≤ hi a := by
  obtain ⟨t, rfl⟩ := hp
  have hl : 30 - a.length = t.length + (30 - (a ++ t).length) := by
    simp only [List.length_append] at hw ⊢; omega
  have ht := val_lt t
  simp only [lo, hi, val_append, hl, Nat.pow_add, ← Nat.mul_assoc]
  constructor
  · exact Nat.mul_le_mul_right _ (by omega)
  · apply Nat.mul_le_mul_right
    rw [Nat.add_mul]; omega

/-- the words are at most 30 bits long and their intervals follow each other -/
def chainOk : Nat → List (List Bool × Nat) → Bool
  | _, [] => true
  | bound, x :: r => decide (x.1.length ≤ 30) && decide (bound ≤ lo x.1) && chainOk (hi x.1) r

theorem chainOk_spec (l : List (List Bool × Nat)) (b : Nat) (h : chainOk b l = true) :
    (∀ x ∈ l, x.1.length ≤ 30 ∧ b ≤ lo x.1) ∧ l.Pairwise (fun x y => hi x.1 ≤ lo y.1) := by
  induction l generalizing b with
  | nil => simp
  | cons x r ih =>
    simp only [chainOk, Bool.and_eq_true, decide_eq_true_eq] at h
    obtain ⟨⟨h1, h2⟩, h3⟩ := h
    obtain ⟨i1, i2⟩ := ih _ h3
    have := lo_lt_hi x.1
    refine ⟨?_, List.pairwise_cons.2 ⟨fun y hy => (i1 y hy).2, i2⟩⟩
    intro y hy
    rcases List.mem_cons.1 hy with rfl | hy
    · exact ⟨h1, h2⟩
    · have := i1 y hy; omega

/-! ## finite facts about the computed code -/

theorem codes_length : codes.length = 257 := by decide +kernel

/-- every symbol 0..256 has exactly one entry -/
theorem codes_syms : (codes.map (·.2)).Perm (List.range 257) := by decide +kernel

theorem codes_chainOk : chainOk 0 codes = true := by decide +kernel

theorem codes_nonempty : ∀ x ∈ codes, x.1 ≠ [] := by decide +kernel

theorem codeOf_eos : codeOf 256 = List.replicate 30 true := by decide +kernel

/-- no code word of a byte consists of ones only (so padding is never mistaken for a symbol) -/
theorem codes_not_all_ones : ∀ x ∈ codes, x.2 ≠ 256 → x.1.any (· == false) = true := by
  decide +kernel

/-! ## consequences -/

theorem codes_word_length : ∀ x ∈ codes, x.1.length ≤ 30 :=
  fun x hx => ((chainOk_spec _ _ codes_chainOk).1 x hx).1

/-- prefix-freeness: no code word is a prefix of another entry's code word -/
theorem codes_prefix_free : ∀ x ∈ codes, ∀ y ∈ codes, x.1 <+: y.1 → x = y := by
  intro x hx y hy hp
  have hc := chainOk_spec _ _ codes_chainOk
  have ⟨h1, h2⟩ := lo_hi_prefix hp (hc.1 y hy).1
  have := lo_lt_hi x.1
  have := lo_lt_hi y.1
  rcases pairwise_mem hc.2 hx hy with h | h | h
  · exact h
  · omega
  · omega

theorem mem_codes_sym_lt {x : List Bool × Nat} (hx : x ∈ codes) : x.2 < 257 :=
  List.mem_range.1 (codes_syms.mem_iff.1 (List.mem_map_of_mem hx))

theorem exists_mem_codes {s : Nat} (hs : s < 257) : ∃ w, (w, s) ∈ codes := by
  obtain ⟨x, hx, rfl⟩ := List.mem_map.1 (codes_syms.mem_iff.2 (List.mem_range.2 hs))
  exact ⟨x.1, hx⟩

/-- a symbol has only one entry -/
theorem codes_sym_unique : ∀ x ∈ codes, ∀ y ∈ codes, x.2 = y.2 → x = y := by
  intro x hx y hy h
  have hn : (codes.map (·.2)).Nodup := codes_syms.nodup_iff.2 List.nodup_range
  rw [List.Nodup, List.pairwise_map] at hn
  rcases pairwise_mem hn hx hy with h' | h' | h'
  · exact h'
  · exact absurd h h'
  · exact absurd h.symm h'

theorem codeOf_of_mem {w : List Bool} {s : Nat} (h : (w, s) ∈ codes) : codeOf s = w := by
  unfold codeOf
  cases hf : codes.find? (·.2 == s) with
  | none =>
    have := List.find?_eq_none.1 hf _ h
    simp at this
  | some y =>
    have h2 : y.2 = s := by simpa using List.find?_some hf
    have := codes_sym_unique y (List.mem_of_find?_eq_some hf) (w, s) h h2
    subst this; rfl

theorem symOf_of_mem {w : List Bool} {s : Nat} (h : (w, s) ∈ codes) : symOf w = some s := by
  unfold symOf
  cases hf : codes.find? (·.1 == w) with
  | none =>
    have := List.find?_eq_none.1 hf _ h
    simp at this
  | some y =>
    have h2 : y.1 = w := by simpa using List.find?_some hf
    have := codes_prefix_free y (List.mem_of_find?_eq_some hf) (w, s) h (h2 ▸ List.prefix_refl _)
    subst this; rfl

theorem mem_of_symOf {w : List Bool} {s : Nat} (h : symOf w = some s) : (w, s) ∈ codes := by
  unfold symOf at h
  obtain ⟨y, hf, rfl⟩ := Option.map_eq_some_iff.1 h
  have h2 : y.1 = w := by simpa using List.find?_some hf
  subst h2
  exact List.mem_of_find?_eq_some hf

theorem mem_codeOf {s : Nat} (hs : s < 257) : (codeOf s, s) ∈ codes := by
  obtain ⟨w, hw⟩ := exists_mem_codes hs
  rwa [codeOf_of_mem hw]

theorem symOf_codeOf (s : Nat) (hs : s < 257) : symOf (codeOf s) = some s :=
  symOf_of_mem (mem_codeOf hs)

theorem symOf_some (w : List Bool) (s : Nat) (h : symOf w = some s) : s < 257 ∧ codeOf s = w :=
  ⟨mem_codes_sym_lt (mem_of_symOf h), codeOf_of_mem (mem_of_symOf h)⟩

theorem codeOf_ne_nil {s : Nat} (hs : s < 257) : codeOf s ≠ [] :=
  codes_nonempty (codeOf s, s) (mem_codeOf hs)

/-- a proper prefix of a code word is not a code word -/
theorem symOf_proper_prefix {w p : List Bool} {s : Nat} (h : (w, s) ∈ codes) (hp : p <+: w)
    (hne : p ≠ w) : symOf p = none := by
  cases hs : symOf p with
  | none => rfl
  | some y =>
    have := codes_prefix_free _ (mem_of_symOf hs) _ h hp
    exact absurd (congrArg Prod.fst this) hne

theorem validPad_iff (p : List Bool) : validPad p = true ↔ p.length ≤ 7 ∧ ∀ b ∈ p, b = true := by
  simp [validPad]

/-- a valid padding is not a code word -/
theorem symOf_pad {p : List Bool} (h : validPad p = true) : symOf p = none := by
  obtain ⟨hl, ha⟩ := (validPad_iff p).1 h
  cases hs : symOf p with
  | none => rfl
  | some y =>
    exfalso
    have hm := mem_of_symOf hs
    by_cases hy : y = 256
    · subst hy
      have := codeOf_of_mem hm
      rw [codeOf_eos] at this
      subst this
      simp at hl
    · obtain ⟨b, hb, hb'⟩ := List.any_eq_true.1 (codes_not_all_ones _ hm hy)
      have := ha b hb
      subst this
      simp at hb'

/-! ## the reference decoder -/

/- The equation lemmas of `specGo` cannot be generated (their generation evaluates `codes` in the
   elaborator), so they are stated here and hold by definition. -/
theorem specGo_nil (acc : List Bool) :
    specGo [] acc = if validPad acc then some [] else none := rfl

theorem specGo_cons (b : Bool) (bs acc : List Bool) :
    specGo (b :: bs) acc =
      match symOf (acc ++ [b]) with
      | some s =>
        if s = EOS then none
        else match specGo bs [] with
          | some r => some (s :: r)
          | none => none
      | none => specGo bs (acc ++ [b]) := rfl

theorem specGo_cons_none {b : Bool} {bs acc : List Bool} (h : symOf (acc ++ [b]) = none) :
    specGo (b :: bs) acc = specGo bs (acc ++ [b]) := by
  rw [specGo_cons, h]

theorem specGo_cons_some {b : Bool} {bs acc : List Bool} {s : Nat}
    (h : symOf (acc ++ [b]) = some s) :
    specGo (b :: bs) acc = if s = EOS then none else (specGo bs []).map (s :: ·) := by
  rw [specGo_cons, h]
  cases specGo bs [] <;> rfl

/-- soundness, for an arbitrary state of the decoder -/
theorem specGo_sound (bits : List Bool) : ∀ (acc : List Bool) (s : List Nat),
    specGo bits acc = some s →
      (∀ x ∈ s, x < 256) ∧ ∃ pad, acc ++ bits = enc s ++ pad ∧ validPad pad = true := by
  induction bits with
  | nil =>
    intro acc s h
    rw [specGo_nil] at h
    by_cases hv : validPad acc = true
    · rw [if_pos hv] at h
      cases h
      exact ⟨by simp, acc, by simp [enc], hv⟩
    · rw [if_neg hv] at h; cases h
  | cons b bs ih =>
    intro acc s h
    cases hs : symOf (acc ++ [b]) with
    | none =>
      rw [specGo_cons_none hs] at h
      obtain ⟨h1, pad, h2, h3⟩ := ih _ _ h
      exact ⟨h1, pad, by simpa using h2, h3⟩
    | some x =>
      rw [specGo_cons_some hs] at h
      by_cases hx : x = EOS
      · rw [if_pos hx] at h; cases h
      · rw [if_neg hx] at h
        obtain ⟨r, hr, rfl⟩ := Option.map_eq_some_iff.1 h
        obtain ⟨h1, pad, h2, h3⟩ := ih _ _ hr
        obtain ⟨hx1, hx2⟩ := symOf_some _ _ hs
        refine ⟨?_, pad, ?_, h3⟩
        · intro y hy
          rcases List.mem_cons.1 hy with rfl | hy
          · simp only [EOS] at hx; omega
          · exact h1 y hy
        · simp only [List.nil_append] at h2
          simp only [enc, hx2, h2, List.append_assoc, List.cons_append, List.nil_append]

/-- reading the rest of a code word of a byte -/
theorem specGo_code (x : Nat) (hx : x < 256) (rest : List Bool) : ∀ (suf acc : List Bool),
    acc ++ suf = codeOf x → suf ≠ [] →
      specGo (suf ++ rest) acc = (specGo rest []).map (x :: ·) := by
  have hm : (codeOf x, x) ∈ codes := mem_codeOf (by omega)
  intro suf
  induction suf with
  | nil => intro _ _ h; exact absurd rfl h
  | cons b suf ih =>
    intro acc h _
    rw [List.cons_append]
    by_cases hsuf : suf = []
    · subst hsuf
      rw [specGo_cons_some (h ▸ symOf_of_mem hm), if_neg (by simp only [EOS]; omega),
        List.nil_append]
    · have h' : (acc ++ [b]) ++ suf = codeOf x := by simpa using h
      have hp : symOf (acc ++ [b]) = none := by
        apply symOf_proper_prefix hm ⟨suf, h'⟩
        intro he
        rw [← h'] at he
        exact hsuf (by simpa using he)
      rw [specGo_cons_none hp]
      exact ih _ h' hsuf

/-- reading the padding -/
theorem specGo_pad : ∀ (pad acc : List Bool), validPad (acc ++ pad) = true →
    specGo pad acc = some [] := by
  intro pad
  induction pad with
  | nil =>
    intro acc h
    rw [List.append_nil] at h
    rw [specGo_nil, if_pos h]
  | cons b p ih =>
    intro acc h
    have h' : validPad ((acc ++ [b]) ++ p) = true := by simpa using h
    have hv : validPad (acc ++ [b]) = true := by
      rw [validPad_iff] at h' ⊢
      refine ⟨?_, fun c hc => h'.2 c (List.mem_append_left _ hc)⟩
      have := h'.1
      simp only [List.length_append] at this ⊢; omega
    rw [specGo_cons_none (symOf_pad hv)]
    exact ih _ h'

theorem specGo_complete (s : List Nat) (pad : List Bool) (hs : ∀ x ∈ s, x < 256)
    (hp : validPad pad = true) : specGo (enc s ++ pad) [] = some s := by
  induction s with
  | nil => exact specGo_pad pad [] hp
  | cons x r ih =>
    have hx : x < 256 := hs x (by simp)
    rw [enc, List.append_assoc,
      specGo_code x hx _ (codeOf x) [] rfl (codeOf_ne_nil (by omega)),
      ih (fun y hy => hs y (List.mem_cons_of_mem _ hy))]
    rfl

/-- MAIN: soundness and completeness of the reference decoder w.r.t. the declarative
    description -/
theorem specGo_iff (bits : List Bool) (s : List Nat) :
    specGo bits [] = some s ↔
      (∀ x ∈ s, x < 256) ∧ ∃ pad, bits = enc s ++ pad ∧ validPad pad = true := by
  constructor
  · intro h
    simpa using specGo_sound bits [] s h
  · rintro ⟨hs, pad, rfl, hp⟩
    exact specGo_complete s pad hs hp

theorem specDecode_iff (b s : List Nat) :
    specDecode b = some s ↔
      (∀ x ∈ s, x < 256) ∧ ∃ pad, H3.Bits.bitsOf b = enc s ++ pad ∧ validPad pad = true :=
  specGo_iff _ _

/-- uniqueness of the parse -/
theorem enc_pad_unique (s s' : List Nat) (pad pad' : List Bool)
    (hs : ∀ x ∈ s, x < 256) (hs' : ∀ x ∈ s', x < 256)
    (hp : validPad pad = true) (hp' : validPad pad' = true)
    (h : enc s ++ pad = enc s' ++ pad') : s = s' ∧ pad = pad' := by
  have h1 := specGo_complete s pad hs hp
  have h2 := specGo_complete s' pad' hs' hp'
  rw [h, h2] at h1
  cases h1
  exact ⟨rfl, List.append_cancel_left h⟩

end H3.Spec.Huffman
