import H3.Lemmas.WriteBuf
import H3.Lemmas.Output
/-! The frames the API calls send, as the specification's segmenter sees them: the view of the
    `WriteBuf` of a DATA / HEADERS / GOAWAY / grease frame and of the control-stream header is
    `wire type payload`, with every varint below 2^62 (otherwise the conversion panics and
    there is no `WriteBuf`). -/
namespace H3.WriteBuf
open H3.Varint H3.Gen.Consts H3.Gen.WriteBuf H3.Spec.Output H3.Spec.Framing

theorem greaseId_reserved (n : Nat) : isReserved (greaseId n) = true := by
  unfold isReserved greaseId GREASE_MUL GREASE_ADD
  have h1 : n * 31 + 33 ≥ 33 := by omega
  have h2 : (n * 31 + 33 - 33) % 31 = 0 := by omega
  simp [h2]

theorem greaseId_lt (n : Nat) (h : n < GREASE_RANGE_END) : greaseId n < 2^62 := by
  unfold greaseId GREASE_MUL GREASE_ADD
  unfold GREASE_RANGE_END at h
  omega

/-- `writeVar a ++ writeVar b` style encoders: both values are below 2^62 when the result exists -/
theorem writeVar_some {x : Nat} {b : Bytes} (h : writeVar x = some b) : x < 2^62 ∧ b = encode x := by
  by_cases hx : x < 2^62
  · rw [writeVar_eq x hx] at h; cases h; exact ⟨hx, rfl⟩
  · rw [writeVar_none x hx] at h; cases h

theorem encodeFrame_data {p hb : Bytes} (h : encodeFrame (.data p) = some hb) :
    p.length < 2^62 ∧ hb = encode 0 ++ encode p.length := by
  simp only [encodeFrame, FRAME_DATA] at h
  by_cases hp : p.length < 2^62
  · rw [writeVar_eq 0 (by decide), writeVar_eq _ hp] at h
    cases h; exact ⟨hp, rfl⟩
  · rw [writeVar_none _ hp] at h
    cases hh : writeVar 0 <;> simp [hh] at h

theorem encodeFrame_headers {p hb : Bytes} (h : encodeFrame (.headers p) = some hb) :
    p.length < 2^62 ∧ hb = encode 1 ++ encode p.length := by
  simp only [encodeFrame, FRAME_HEADERS] at h
  by_cases hp : p.length < 2^62
  · rw [writeVar_eq 1 (by decide), writeVar_eq _ hp] at h
    cases h; exact ⟨hp, rfl⟩
  · rw [writeVar_none _ hp] at h
    cases hh : writeVar 1 <;> simp [hh] at h

theorem encodeFrame_grease {ty : Nat} {hb : Bytes} (h : encodeFrame (.grease ty) = some hb) :
    ty < 2^62 ∧ hb = wire ty GREASE_FRAME_PAYLOAD := by
  simp only [encodeFrame] at h
  by_cases ht : ty < 2^62
  · rw [writeVar_eq ty ht, writeVar_eq GREASE_FRAME_LEN (by decide)] at h
    cases h; exact ⟨ht, rfl⟩
  · rw [writeVar_none _ ht] at h
    simp at h

theorem simpleFrame_some {ty id : Nat} {hb : Bytes} (hty : ty < 2^62)
    (h : simpleFrame ty id = some hb) : id < 2^62 ∧ hb = wire ty (encode id) := by
  unfold simpleFrame at h
  by_cases hid : id < 2^62
  · have hs : size id < 2^62 := by have := size_le_8 id; omega
    rw [writeVar_eq ty hty, size_eq_of_lt hid] at h
    simp only [Option.bind_eq_bind, Option.bind_some] at h
    rw [writeVar_eq _ hs, encode?_eq id hid] at h
    simp only [Option.bind_some] at h
    cases h
    exact ⟨hid, by rw [wire, encode_length_eq_size id hid]⟩
  · have : size? id = none := by
      unfold size?; repeat' split
      all_goals first | rfl | omega
    rw [this] at h
    cases hh : writeVar ty <;> simp [hh] at h

theorem encodeFrame_goaway {id : Nat} {hb : Bytes} (h : encodeFrame (.goaway id) = some hb) :
    id < 2^62 ∧ hb = wire 7 (encode id) := by
  simp only [encodeFrame, FRAME_GOAWAY] at h
  exact simpleFrame_some (by decide) h

/-- the pairs loop of `Settings::encode` -/
theorem settingsPairs_some {es : List (Nat × Nat)} {b : Bytes} (h : settingsPairs? es = some b) :
    (∀ e ∈ es, e.1 < 2^62 ∧ e.2 < 2^62) ∧ b = pairsWire es := by
  induction es generalizing b with
  | nil => simp only [settingsPairs?] at h; cases h; exact ⟨by simp, rfl⟩
  | cons e r ih =>
    obtain ⟨id, v⟩ := e
    simp only [settingsPairs?] at h
    by_cases hid : id < 2^62
    · by_cases hv : v < 2^62
      · rw [writeVar_eq id hid, writeVar_eq v hv] at h
        simp only [Option.bind_eq_bind, Option.bind_some] at h
        cases hr : settingsPairs? r with
        | none => rw [hr] at h; simp at h
        | some br =>
          rw [hr] at h
          simp only [Option.bind_some] at h
          cases h
          obtain ⟨hb, he⟩ := ih hr
          refine ⟨?_, by rw [he]; simp [pairsWire]⟩
          intro e he'
          simp only [List.mem_cons] at he'
          rcases he' with rfl | he'
          · exact ⟨hid, hv⟩
          · exact hb e he'
      · rw [writeVar_none v hv] at h
        cases hh : writeVar id <;> simp [hh] at h
    · rw [writeVar_none id hid] at h
      simp at h

theorem settingsLen_some {es : List (Nat × Nat)} (hb : ∀ e ∈ es, e.1 < 2^62 ∧ e.2 < 2^62) :
    settingsLen? es = some (pairsWire es).length := by
  induction es with
  | nil => rfl
  | cons e r ih =>
    obtain ⟨id, v⟩ := e
    have h0 := hb (id, v) (by simp)
    simp only [settingsLen?, sizeOf?]
    rw [sizeOf_eq id h0.1, sizeOf_eq v h0.2, ih (fun e he => hb e (by simp [he]))]
    simp only [Option.bind_eq_bind, Option.bind_some, pairsWire, List.length_append,
      encode_length_eq_size id h0.1, encode_length_eq_size v h0.2]
    rfl

/-- `Settings::encode`: a SETTINGS frame whose payload is the pairs -/
theorem settingsEncode_some {es : List (Nat × Nat)} {b : Bytes} (h : settingsEncode es = some b) :
    (∀ e ∈ es, e.1 < 2^62 ∧ e.2 < 2^62) ∧ (pairsWire es).length < 2^62 ∧
    b = wire 4 (pairsWire es) := by
  unfold settingsEncode at h
  simp only [FRAME_SETTINGS] at h
  rw [writeVar_eq 4 (by decide)] at h
  simp only [Option.bind_eq_bind, Option.bind_some] at h
  cases hl : settingsLen? es with
  | none => rw [hl] at h; simp at h
  | some n =>
    rw [hl] at h
    simp only [Option.bind_some] at h
    cases hw : writeVar n with
    | none => rw [hw] at h; simp at h
    | some lb =>
      rw [hw] at h
      simp only [Option.bind_some] at h
      cases hp : settingsPairs? es with
      | none => rw [hp] at h; simp at h
      | some pb =>
        rw [hp] at h
        simp only [Option.bind_some] at h
        cases h
        obtain ⟨hb, hpb⟩ := settingsPairs_some hp
        obtain ⟨hn, hlb⟩ := writeVar_some hw
        rw [settingsLen_some hb] at hl
        cases hl
        refine ⟨hb, hn, ?_⟩
        rw [hlb, hpb]; rfl

theorem settingsEncode_of_fine {es : List (Nat × Nat)}
    (hb : ∀ e ∈ es, e.1 < 2^62 ∧ e.2 < 2^62) (hl : (pairsWire es).length < 2^62) :
    settingsEncode es = some (wire 4 (pairsWire es)) := by
  have hp : settingsPairs? es = some (pairsWire es) := by
    clear hl
    induction es with
    | nil => rfl
    | cons e r ih =>
      obtain ⟨id, v⟩ := e
      have h0 := hb (id, v) (by simp)
      simp only [settingsPairs?]
      rw [writeVar_eq id h0.1, writeVar_eq v h0.2, ih (fun e he => hb e (by simp [he]))]
      rfl
  unfold settingsEncode
  simp only [FRAME_SETTINGS]
  rw [writeVar_eq 4 (by decide), settingsLen_some hb, hp]
  simp only [Option.bind_eq_bind, Option.bind_some]
  rw [writeVar_eq _ hl]
  rfl

/-! ### every frame with a length field -/

/-- the RFC 9114 §7.2 type of a frame (`Frame::Grease` carries its own) -/
def frameTypeOf : SFrame → Nat
  | .data _ => 0x0
  | .headers _ => 0x1
  | .cancelPush _ => 0x3
  | .settings _ => 0x4
  | .pushPromise _ _ => 0x5
  | .goaway _ => 0x7
  | .maxPushId _ => 0xd
  | .webTransport _ => 0x41
  | .grease ty => ty

/-- every integer the frame makes `write_var` encode is below 2^62 -/
def Bounded : SFrame → Prop
  | .data p => p.length < 2^62
  | .headers p => p.length < 2^62
  | .cancelPush id => id < 2^62
  | .settings es => (∀ e ∈ es, e.1 < 2^62 ∧ e.2 < 2^62) ∧ (pairsWire es).length < 2^62
  | .pushPromise id enc => id < 2^62 ∧ 8 + enc.length < 2^62
  | .goaway id => id < 2^62
  | .maxPushId id => id < 2^62
  | .webTransport s => s < 2^62
  | .grease ty => ty < 2^62

/-- frames that have a length field and whose bytes are all accounted for by it
    (the WebTransport header has no length; PUSH_PROMISE, which h3 never sends, is the
    latent exception shown in `C14_push_promise_latent`) -/
def HasLength : SFrame → Prop
  | .pushPromise _ _ => False
  | .webTransport _ => False
  | _ => True

theorem simpleFrame_of_lt (ty id : Nat) (hty : ty < 2^62) (hid : id < 2^62) :
    simpleFrame ty id = some (wire ty (encode id)) := by
  unfold simpleFrame
  have hs : size id < 2^62 := by have := size_le_8 id; omega
  rw [writeVar_eq ty hty, size_eq_of_lt hid]
  simp only [Option.bind_eq_bind, Option.bind_some]
  rw [writeVar_eq _ hs, encode?_eq id hid]
  simp only [Option.bind_some]
  rw [wire, encode_length_eq_size id hid]
  rfl

/-- `write_var` never panics while encoding a bounded frame -/
theorem encodeFrame_total (f : SFrame) (hb : Bounded f) : (encodeFrame f).isSome = true := by
  cases f with
  | data p =>
    simp only [Bounded] at hb
    simp only [encodeFrame, FRAME_DATA]
    rw [writeVar_eq 0 (by decide), writeVar_eq _ hb]; rfl
  | headers p =>
    simp only [Bounded] at hb
    simp only [encodeFrame, FRAME_HEADERS]
    rw [writeVar_eq 1 (by decide), writeVar_eq _ hb]; rfl
  | cancelPush id =>
    simp only [Bounded] at hb
    simp only [encodeFrame, FRAME_CANCEL_PUSH]
    rw [simpleFrame_of_lt 3 id (by decide) hb]; rfl
  | settings es =>
    simp only [Bounded] at hb
    simp only [encodeFrame]
    rw [settingsEncode_of_fine hb.1 hb.2]; rfl
  | pushPromise id enc =>
    simp only [Bounded] at hb
    simp only [encodeFrame, FRAME_PUSH_PROMISE, sizeOf?]
    have h8 := size_le_8 id
    rw [writeVar_eq 5 (by decide), sizeOf_eq id hb.1]
    simp only [Option.bind_eq_bind, Option.bind_some]
    rw [writeVar_eq (size id + enc.length) (by omega), writeVar_eq id hb.1]
    rfl
  | goaway id =>
    simp only [Bounded] at hb
    simp only [encodeFrame, FRAME_GOAWAY]
    rw [simpleFrame_of_lt 7 id (by decide) hb]; rfl
  | maxPushId id =>
    simp only [Bounded] at hb
    simp only [encodeFrame, FRAME_MAX_PUSH_ID]
    rw [simpleFrame_of_lt 13 id (by decide) hb]; rfl
  | webTransport s =>
    simp only [Bounded] at hb
    simp only [encodeFrame, FRAME_WEBTRANSPORT_BI_STREAM]
    rw [writeVar_eq 65 (by decide), writeVar_eq s hb]; rfl
  | grease ty =>
    simp only [Bounded] at hb
    simp only [encodeFrame]
    rw [writeVar_eq ty hb, writeVar_eq GREASE_FRAME_LEN (by decide)]; rfl

/-- header followed by payload is `type, length of what follows, what follows` -/
theorem encodeFrame_wire (f : SFrame) (hdr : Bytes) (he : encodeFrame f = some hdr)
    (hl : HasLength f) :
    ∃ p, hdr ++ (framePayload f).getD [] = wire (frameTypeOf f) p ∧
      frameTypeOf f < 2^62 ∧ p.length < 2^62 := by
  cases f with
  | data p =>
    obtain ⟨hp, rfl⟩ := encodeFrame_data he
    exact ⟨p, rfl, by simp [frameTypeOf], hp⟩
  | headers p =>
    obtain ⟨hp, rfl⟩ := encodeFrame_headers he
    exact ⟨p, rfl, by simp [frameTypeOf], hp⟩
  | cancelPush id =>
    simp only [encodeFrame, FRAME_CANCEL_PUSH] at he
    obtain ⟨hid, rfl⟩ := simpleFrame_some (by decide) he
    have := encode_length_le id hid
    exact ⟨encode id, by simp [framePayload, frameTypeOf], by simp [frameTypeOf], by omega⟩
  | settings es =>
    simp only [encodeFrame] at he
    obtain ⟨_, hlen, rfl⟩ := settingsEncode_some he
    exact ⟨pairsWire es, by simp [framePayload, frameTypeOf], by simp [frameTypeOf], hlen⟩
  | pushPromise id enc => exact absurd hl (by simp [HasLength])
  | goaway id =>
    obtain ⟨hid, rfl⟩ := encodeFrame_goaway he
    have := encode_length_le id hid
    exact ⟨encode id, by simp [framePayload, frameTypeOf], by simp [frameTypeOf], by omega⟩
  | maxPushId id =>
    simp only [encodeFrame, FRAME_MAX_PUSH_ID] at he
    obtain ⟨hid, rfl⟩ := simpleFrame_some (by decide) he
    have := encode_length_le id hid
    exact ⟨encode id, by simp [framePayload, frameTypeOf], by simp [frameTypeOf], by omega⟩
  | webTransport s => exact absurd hl (by simp [HasLength])
  | grease ty =>
    obtain ⟨ht, rfl⟩ := encodeFrame_grease he
    exact ⟨GREASE_FRAME_PAYLOAD, by simp [framePayload, frameTypeOf], ht, by decide⟩

end H3.WriteBuf
