import H3.Model.Setup
/-! Lemmas about `H3.Setup` (the setup of a connection against an arbitrary transport). -/
namespace H3.Lemmas.Setup
open H3.Setup H3.ErrCell H3.Gen.Consts

/-! ### `handle_connection_error` -/

theorem convert_ne_remote_timeout (e : Err) : convert e ≠ .remote .timeout := by
  cases e with
  | internal c t => simp [convert]
  | quic q => cases q <;> simp [convert]

theorem outcome_convert (e : Err) : OutcomeOK (convert e) (closeCode e) := by
  cases e with
  | internal c t => simp [convert, closeCode, closeOf, OutcomeOK]
  | quic q => cases q <;> simp [convert, closeCode, closeOf, OutcomeOK]

theorem raise_fresh (e : Err) :
    raise {} e = ({ handled := some (convert e), closes := closeCode e }, convert e) := by
  simp [raise]

theorem raise_sticky (d : Drv) (h : CErr) (e : Err) (hd : d.handled = some h) : raise d e = (d, h) := by
  simp [raise, hd]

theorem outcome_openCtlErr (e : SErr) : OutcomeOK (openCtlErr e).1 (openCtlErr e).2.toList := by
  cases e with
  | conn q => cases q <;> simp [openCtlErr, rawQuic, OutcomeOK]
  | terminated c => simp [openCtlErr, rawH3, OutcomeOK]
  | unknown t => simp [openCtlErr, rawH3, OutcomeOK]

/-! ### `stream::write` -/

/-- a poll of a write future ends finished, or waiting with a transport call that said `Pending` -/
def WriteOK (w : WSt) (p : Bool) : Prop := (∃ r, w = .done r) ∨ (w = .flushing ∧ p = true)

theorem pollFlush_ok {T : Type} (tr : Transport T) (t : T) (k : Nat) :
    WriteOK (pollFlush tr t k).2.1 (pollFlush tr t k).2.2 := by
  unfold pollFlush
  rcases h : tr.call t (.pollReady k) with ⟨t1, a⟩
  cases a <;> simp [WriteOK]

theorem pollWrite_ok {T : Type} (tr : Transport T) (t : T) (k : Nat) (w : WSt) :
    WriteOK (pollWrite tr t k w).2.1 (pollWrite tr t k w).2.2 := by
  cases w with
  | start =>
    unfold pollWrite
    rcases h : tr.call t (.sendData k) with ⟨t1, a⟩
    cases a with
    | err e => simp [WriteOK]
    | ok => exact pollFlush_ok tr t1 k
    | pending => exact pollFlush_ok tr t1 k
  | flushing => exact pollFlush_ok tr t k
  | done r => simp [pollWrite, WriteOK]

/-- no call answers `Pending` -/
def NoPending {T : Type} (tr : Transport T) : Prop := ∀ t c, (tr.call t c).2 ≠ .pending

/-- the calls on the control stream (open, `send_data`, `poll_ready` of stream 0) never answer an error -/
def CtlOk {T : Type} (tr : Transport T) : Prop :=
  ∀ t e, (tr.call t (.openSend 0)).2 ≠ .err e ∧ (tr.call t (.sendData 0)).2 ≠ .err e ∧
    (tr.call t (.pollReady 0)).2 ≠ .err e

theorem pollFlush_ctlOk {T : Type} (tr : Transport T) (h : CtlOk tr) (t : T) (e : SErr) :
    (pollFlush tr t 0).2.1 ≠ .done (some e) := by
  unfold pollFlush
  rcases hc : tr.call t (.pollReady 0) with ⟨t1, a⟩
  cases a with
  | pending => simp
  | ok => simp
  | err e' =>
    have := (h t e').2.2
    rw [hc] at this
    exact absurd rfl this

theorem pollWrite_ctlOk {T : Type} (tr : Transport T) (h : CtlOk tr) (t : T) (w : WSt)
    (hw : ∀ e, w ≠ .done (some e)) (e : SErr) : (pollWrite tr t 0 w).2.1 ≠ .done (some e) := by
  cases w with
  | start =>
    unfold pollWrite
    rcases hc : tr.call t (.sendData 0) with ⟨t1, a⟩
    cases a with
    | err e' =>
      have := (h t e').2.1
      rw [hc] at this
      exact absurd rfl this
    | ok => exact pollFlush_ctlOk tr h t1 e
    | pending => exact pollFlush_ctlOk tr h t1 e
  | flushing => exact pollFlush_ctlOk tr h t e
  | done r => simpa [pollWrite] using hw e

/-! ### one poll of `build` -/

/-- the local codes the setup can raise -/
def SetupCode (e : CErr) : Prop :=
  ∀ c t, e = .localApp c t → c = CODE_H3_CLOSED_CRITICAL_STREAM ∨ c = CODE_H3_INTERNAL_ERROR

/-- what a poll of `build` may answer, with the close calls made -/
def ResOK {T : Type} (o : PollOut T) : Prop :=
  match o.res with
  | none => o.st.drv = {} ∧ o.st.phase ≠ .finished ∧ o.sawPending = true
  | some none => o.st.drv = {} ∧ o.st.phase = .finished
  | some (some e) => OutcomeOK e o.st.drv.closes ∧ o.st.phase = .finished ∧ SetupCode e

theorem setupCode_convert_ctl (e : SErr) : SetupCode (convert (ctlStreamErr e)) := by
  intro c t h
  cases e with
  | conn q => cases q <;> simp [ctlStreamErr, convert] at h
  | terminated x => simp [ctlStreamErr, convert] at h; exact Or.inl h.1.symm
  | unknown x => simp [ctlStreamErr, convert] at h; exact Or.inl h.1.symm

theorem setupCode_openCtlErr (e : SErr) : SetupCode (openCtlErr e).1 := by
  intro c t h
  cases e with
  | conn q => cases q <;> simp [openCtlErr, rawQuic] at h <;> exact Or.inr h.1.symm
  | terminated x => simp [openCtlErr, rawH3] at h; exact Or.inl h.1.symm
  | unknown x => simp [openCtlErr, rawH3] at h; exact Or.inl h.1.symm

theorem joinHeaders_ok {T : Type} (t : T) (wc wd we : WSt) (p1 p2 p3 : Bool)
    (h1 : WriteOK wc p1) (h2 : WriteOK wd p2) (h3 : WriteOK we p3) :
    ResOK (joinHeaders t {} wc wd we (p1 || p2 || p3)) := by
  unfold joinHeaders
  rcases h1 with ⟨r, rfl⟩ | ⟨rfl, rfl⟩
  · by_cases hdone : (wd.isDone && we.isDone) = true
    · simp only [hdone, if_true]
      cases r with
      | none => simp [ResOK, finishHeaders]
      | some e =>
        simp only [ResOK, finishHeaders, raise_fresh]
        exact ⟨outcome_convert _, trivial, setupCode_convert_ctl e⟩
    · simp only [hdone, ResOK]
      refine ⟨rfl, by simp, ?_⟩
      rcases h2 with ⟨r2, rfl⟩ | ⟨rfl, rfl⟩
      · rcases h3 with ⟨r3, rfl⟩ | ⟨rfl, rfl⟩
        · simp [WSt.isDone] at hdone
        · simp
      · simp
  · simp [ResOK]

theorem pollHeaders_ok {T : Type} (tr : Transport T) (t : T) (wc wd we : WSt) :
    ResOK (pollHeaders tr t {} wc wd we) := by
  unfold pollHeaders
  exact joinHeaders_ok _ _ _ _ _ _ _ (pollWrite_ok tr t 0 wc) (pollWrite_ok tr _ 2 wd) (pollWrite_ok tr _ 1 we)

theorem afterOpens_ok {T : Type} (tr : Transport T) (t : T) (got : List (Option SErr)) :
    ResOK (afterOpens tr t {} got false) := by
  unfold afterOpens
  split
  · rename_i e _
    simp only [ResOK]
    refine ⟨?_, trivial, setupCode_openCtlErr e⟩
    simpa using outcome_openCtlErr e
  · have h := pollHeaders_ok tr t .start (qpackStart got[2]?) (qpackStart got[1]?)
    simpa [ResOK] using h

theorem buildPoll_ok {T : Type} (tr : Transport T) (t : T) (s : BSt) (hd : s.drv = {})
    (hp : s.phase ≠ .finished) : ResOK (buildPoll tr t s) := by
  unfold buildPoll
  cases hph : s.phase with
  | finished => exact absurd hph hp
  | headers wc wd we =>
    simp only
    rw [hd]
    exact pollHeaders_ok tr t wc wd we
  | opening got =>
    simp only
    rcases ho : pollOpens tr (3 - got.length) t got with ⟨t1, got1, p⟩
    cases p with
    | true => simp [ResOK, hd]
    | false =>
      simp only
      rw [hd]
      exact afterOpens_ok tr t1 got1

/-! ### the whole `build` future -/

/-- what `build` may return, with the close calls made (for every transport, however often polled) -/
def RunOK (r : BSt × Res) : Prop :=
  match r.2 with
  | none => r.1.drv = {}
  | some none => r.1.drv = {}
  | some (some e) => OutcomeOK e r.1.drv.closes ∧ SetupCode e

theorem buildRun_pending {T : Type} (tr : Transport T) (n : Nat) (t : T) (s : BSt)
    (h : (buildPoll tr t s).res = none) :
    buildRun tr (n + 1) t s = buildRun tr n (buildPoll tr t s).t (buildPoll tr t s).st := by
  simp [buildRun, h]

theorem buildRun_done {T : Type} (tr : Transport T) (n : Nat) (t : T) (s : BSt) (r : Option CErr)
    (h : (buildPoll tr t s).res = some r) :
    buildRun tr (n + 1) t s = ((buildPoll tr t s).t, (buildPoll tr t s).st, some r) := by
  simp [buildRun, h]

theorem buildRun_ok {T : Type} (tr : Transport T) (fuel : Nat) (t : T) (s : BSt) (hd : s.drv = {})
    (hp : s.phase ≠ .finished) : RunOK (buildRun tr fuel t s).2 := by
  induction fuel generalizing t s with
  | zero => simpa [buildRun, RunOK] using hd
  | succ n ih =>
    have h := buildPoll_ok tr t s hd hp
    cases hr : (buildPoll tr t s).res with
    | none =>
      rw [buildRun_pending tr n t s hr]
      simp only [ResOK, hr] at h
      exact ih _ _ h.1 h.2.1
    | some r =>
      rw [buildRun_done tr n t s r hr]
      cases r with
      | none => simp only [ResOK, hr] at h; simpa [RunOK] using h.1
      | some e => simp only [ResOK, hr] at h; exact ⟨h.1, h.2.2⟩

/-! ### only the control stream can fail the setup -/

def CtlClean : Phase → Prop
  | .opening got => ∀ e, got[0]? ≠ some (some e)
  | .headers wc _ _ => ∀ e, wc ≠ .done (some e)
  | .finished => True

theorem pollOpens_head {T : Type} (tr : Transport T) (h : CtlOk tr) (n : Nat) (t : T) (got : List (Option SErr))
    (hg : ∀ e, got[0]? ≠ some (some e)) : ∀ e, (pollOpens tr n t got).2.1[0]? ≠ some (some e) := by
  induction n generalizing t got with
  | zero => simpa [pollOpens] using hg
  | succ n ih =>
    unfold pollOpens
    rcases hc : tr.call t (.openSend got.length) with ⟨t1, a⟩
    cases a with
    | pending => simpa using hg
    | ok =>
      simp only
      apply ih
      intro e
      cases got with
      | nil => simp
      | cons x r => simpa using hg e
    | err e' =>
      simp only
      apply ih
      intro e
      cases got with
      | nil =>
        have := (h t e').1
        simp only [List.length_nil] at hc
        rw [hc] at this
        exact absurd rfl this
      | cons x r => simpa using hg e

theorem joinHeaders_clean {T : Type} (t : T) (d : Drv) (wc wd we : WSt) (p : Bool)
    (hw : ∀ e, wc ≠ .done (some e)) :
    CtlClean (joinHeaders t d wc wd we p).st.phase ∧ ∀ e, (joinHeaders t d wc wd we p).res ≠ some (some e) := by
  unfold joinHeaders
  cases wc with
  | start => simp [CtlClean]
  | flushing => simp [CtlClean]
  | done r =>
    cases r with
    | some e => exact absurd rfl (hw e)
    | none =>
      by_cases hdone : (wd.isDone && we.isDone) = true
      · simp [hdone, CtlClean, finishHeaders]
      · simp [hdone, CtlClean]

theorem buildPoll_ctlOk {T : Type} (tr : Transport T) (h : CtlOk tr) (t : T) (s : BSt) (hc : CtlClean s.phase) :
    CtlClean (buildPoll tr t s).st.phase ∧ ∀ e, (buildPoll tr t s).res ≠ some (some e) := by
  unfold buildPoll
  cases hph : s.phase with
  | finished => simp [CtlClean, hph]
  | headers wc wd we =>
    simp only [pollHeaders]
    rw [hph] at hc
    exact joinHeaders_clean _ _ _ _ _ _ (fun e => pollWrite_ctlOk tr h t wc hc e)
  | opening got =>
    rw [hph] at hc
    have hh := pollOpens_head tr h (3 - got.length) t got hc
    simp only
    rcases ho : pollOpens tr (3 - got.length) t got with ⟨t1, got1, p⟩
    rw [ho] at hh
    cases p with
    | true => simpa [CtlClean] using hh
    | false =>
      simp only
      cases hg : got1[0]? with
      | none =>
        simp only [afterOpens, hg, pollHeaders]
        exact joinHeaders_clean _ _ _ _ _ _ (fun e => pollWrite_ctlOk tr h t1 .start (by simp) e)
      | some x =>
        cases x with
        | some e => exact absurd hg (hh e)
        | none =>
          simp only [afterOpens, hg, pollHeaders]
          exact joinHeaders_clean _ _ _ _ _ _ (fun e => pollWrite_ctlOk tr h t1 .start (by simp) e)

theorem buildRun_ctlOk {T : Type} (tr : Transport T) (h : CtlOk tr) (fuel : Nat) (t : T) (s : BSt)
    (hc : CtlClean s.phase) : ∀ e, (buildRun tr fuel t s).2.2 ≠ some (some e) := by
  induction fuel generalizing t s with
  | zero => simp [buildRun]
  | succ n ih =>
    have hp := buildPoll_ctlOk tr h t s hc
    cases hr : (buildPoll tr t s).res with
    | none => rw [buildRun_pending tr n t s hr]; exact ih _ _ hp.1
    | some r =>
      rw [buildRun_done tr n t s r hr]
      intro e he
      have : r = some e := by simpa using he
      rw [this] at hr
      exact hp.2 e hr

/-! ### `Pending` only when the transport said `Pending` -/

/-- no opening and no `poll_ready` answers `Pending` (what a transport does once the connection has
    failed: every call is answered at once) -/
def NoWait {T : Type} (tr : Transport T) : Prop :=
  ∀ t k, (tr.call t (.openSend k)).2 ≠ .pending ∧ (tr.call t (.pollReady k)).2 ≠ .pending

theorem pollFlush_noWait {T : Type} (tr : Transport T) (h : NoWait tr) (t : T) (k : Nat) :
    (pollFlush tr t k).2.2 = false := by
  unfold pollFlush
  rcases hc : tr.call t (.pollReady k) with ⟨t1, a⟩
  cases a with
  | pending => have := (h t k).2; rw [hc] at this; exact absurd rfl this
  | ok => rfl
  | err e => rfl

theorem pollWrite_noWait {T : Type} (tr : Transport T) (h : NoWait tr) (t : T) (k : Nat) (w : WSt) :
    (pollWrite tr t k w).2.2 = false := by
  cases w with
  | start =>
    unfold pollWrite
    rcases hc : tr.call t (.sendData k) with ⟨t1, a⟩
    cases a with
    | err e => rfl
    | ok => exact pollFlush_noWait tr h t1 k
    | pending => exact pollFlush_noWait tr h t1 k
  | flushing => exact pollFlush_noWait tr h t k
  | done r => rfl

theorem pollOpens_noWait {T : Type} (tr : Transport T) (h : NoWait tr) (n : Nat) (t : T) (got : List (Option SErr)) :
    (pollOpens tr n t got).2.2 = false := by
  induction n generalizing t got with
  | zero => rfl
  | succ n ih =>
    unfold pollOpens
    rcases hc : tr.call t (.openSend got.length) with ⟨t1, a⟩
    cases a with
    | pending => have := (h t got.length).1; rw [hc] at this; exact absurd rfl this
    | ok => exact ih _ _
    | err e => exact ih _ _

theorem joinHeaders_sawPending {T : Type} (t : T) (d : Drv) (wc wd we : WSt) (p : Bool) :
    (joinHeaders t d wc wd we p).sawPending = p := by
  unfold joinHeaders
  split
  · split <;> rfl
  · rfl

theorem buildPoll_noWait {T : Type} (tr : Transport T) (h : NoWait tr) (t : T) (s : BSt) :
    (buildPoll tr t s).sawPending = false := by
  unfold buildPoll
  cases hph : s.phase with
  | finished => rfl
  | headers wc wd we =>
    simp only [pollHeaders, joinHeaders_sawPending, pollWrite_noWait tr h, Bool.or_self]
  | opening got =>
    have hh := pollOpens_noWait tr h (3 - got.length) t got
    simp only
    rcases ho : pollOpens tr (3 - got.length) t got with ⟨t1, got1, p⟩
    rw [ho] at hh
    simp only at hh
    subst hh
    simp only [afterOpens]
    split
    · rfl
    · simp only [pollHeaders, joinHeaders_sawPending, pollWrite_noWait tr h, Bool.or_self]

/-- against a transport that answers at once, one poll finishes the setup -/
theorem buildPoll_completes {T : Type} (tr : Transport T) (h : NoWait tr) (t : T) (s : BSt) (hd : s.drv = {})
    (hp : s.phase ≠ .finished) : (buildPoll tr t s).res ≠ none := by
  intro hn
  have hk := buildPoll_ok tr t s hd hp
  simp only [ResOK, hn] at hk
  rw [buildPoll_noWait tr h t s] at hk
  exact absurd hk.2.2 (by simp)

end H3.Lemmas.Setup
