import H3.Model.SendSide
import H3.Lemmas.SendFrames
/-! The invariant of the `H3.SendSide` machine: the log of every stream is
    `base ++ item.take c` where `base` is a legal complete content for the kind of stream,
    `item` is the legal next item in flight (the view of the `WriteBuf` being drained is
    `item.drop c`) — and what that means for the output specification. -/
namespace H3.SendSide
open H3.Varint H3.WriteBuf H3.Gen.Consts H3.Gen.WriteBuf H3.Spec.Output H3.Spec.Framing

/-! ### what is legal on which kind of stream, in terms of the specification -/

/-- the judgement that applies to a stream of this kind -/
def chk (cx : Ctx) : Kind → Bytes → Bool → Option Violation
  | .request, w, fin => checkRequest w fin
  | _, w, fin => checkUni cx w fin

/-- control stream content after which the specification expects later control frames -/
def CtlBase (cx : Ctx) (base : Bytes) : Prop :=
  ∀ rest, checkUni cx (base ++ rest) false = walkTop (ctlTyOk cx.server) ctlPayOk rest false

/-- stream type 0 and a fine SETTINGS frame -/
def CtlHeader (item : Bytes) : Prop :=
  ∃ es, SettingsFine es ∧ (pairsWire es).length < 2^62 ∧ item = [0] ++ wire 4 (pairsWire es)

/-- a reserved stream type and anything after it -/
def GreaseBytes (item : Bytes) : Prop :=
  ∃ n rest, greaseId n < 2^62 ∧ item = encode (greaseId n) ++ rest

def Legal (cx : Ctx) : Kind → Bytes → Bytes → Prop
  | .request, base, item =>
    Transparent reqTyOk noPayCheck base ∧ (item = [] ∨ IsFrame reqTyOk noPayCheck item)
  | .control, base, item =>
    (base = [] ∧ CtlHeader item) ∨
    (CtlBase cx base ∧ (item = [] ∨ IsFrame (ctlTyOk cx.server) ctlPayOk item))
  | .qpackEnc, base, item => (base = [] ∧ item = [2]) ∨ (base = [2] ∧ item = [])
  | .qpackDec, base, item => (base = [] ∧ item = [3]) ∨ (base = [3] ∧ item = [])
  | .greaseStream, base, item => (base = [] ∧ GreaseBytes item) ∨ (GreaseBytes base ∧ item = [])

theorem rfcDecode_byte (b : Nat) (hb : b < 64) (r : Bytes) : rfcDecode (b :: r) = some (b, r) := by
  have := rfcDecode_encode b (by omega) r
  have e : encode b = [b] := by
    unfold encode encode?
    rw [if_pos (by omega)]; rfl
  rw [e] at this
  exact this

theorem ctlHeader_partial (cx : Ctx) {item : Bytes} (h : CtlHeader item) (c : Nat) :
    checkUni cx (item.take c) false = none := by
  obtain ⟨es, hf, hl, rfl⟩ := h
  cases c with
  | zero => simp [checkUni, rfcDecode, endOr]
  | succ c =>
    simp only [List.cons_append, List.nil_append, List.take_succ_cons]
    unfold checkUni
    rw [rfcDecode_byte 0 (by decide)]
    simp only [if_true, Bool.false_eq_true, if_false]
    unfold checkControlBody
    split
    · rfl
    · by_cases hc : c < (wire 4 (pairsWire es)).length
      · exact frameStep_partial _ _ _ 4 _ (by decide) hl (by decide) c hc
      · rw [List.take_of_length_le (by omega)]
        have := frameStep_whole firstTyOk firstPayOk
          (fun r => walk (ctlTyOk cx.server) ctlPayOk (r.length + 1) r false) 4 (pairsWire es) []
          false (by decide) hl (by decide) (settingsOk_pairsWire es hf)
        rw [List.append_nil] at this
        rw [this]
        simp [walk]

theorem ctlHeader_base (cx : Ctx) {item : Bytes} (h : CtlHeader item) : CtlBase cx item := by
  obtain ⟨es, hf, hl, rfl⟩ := h
  intro rest
  simp only [List.cons_append, List.nil_append]
  unfold checkUni
  rw [rfcDecode_byte 0 (by decide)]
  simp only [if_true, Bool.false_eq_true, if_false]
  unfold checkControlBody
  have hne : wire 4 (pairsWire es) ++ rest ≠ [] := by
    intro hh
    have := congrArg List.length hh
    have := wire_length_pos 4 (pairsWire es) (by decide)
    simp only [List.length_append, List.length_nil] at *
    omega
  rw [if_neg hne]
  rw [frameStep_whole firstTyOk firstPayOk _ 4 (pairsWire es) rest false (by decide) hl (by decide)
    (settingsOk_pairsWire es hf)]
  rfl

theorem ctlBase_append (cx : Ctx) {base item : Bytes} (hb : CtlBase cx base)
    (hi : IsFrame (ctlTyOk cx.server) ctlPayOk item) : CtlBase cx (base ++ item) := by
  intro rest
  rw [List.append_assoc, hb, walkTop_frame hi]

theorem greaseId_not_special (n : Nat) :
    greaseId n ≠ 0 ∧ greaseId n ≠ 1 ∧ greaseId n ≠ 2 ∧ greaseId n ≠ 3 ∧ greaseId n ≠ 0x54 := by
  unfold greaseId GREASE_MUL GREASE_ADD
  omega

theorem greaseBytes_ok (cx : Ctx) {item : Bytes} (h : GreaseBytes item) (c : Nat) :
    checkUni cx (item.take c) false = none := by
  obtain ⟨n, rest, hn, rfl⟩ := h
  unfold checkUni
  by_cases hc : c < (encode (greaseId n)).length
  · rw [List.take_append_of_le_length (by omega), rfcDecode_encode_prefix _ hn c hc]
    rfl
  · rw [List.take_append, List.take_of_length_le (by omega), rfcDecode_encode _ hn]
    obtain ⟨h0, h1, h2, h3, h4⟩ := greaseId_not_special n
    simp only [h0, h1, h2, h3, h4, greaseId_reserved, if_false, if_true, Bool.or_self,
      Bool.false_eq_true]
    simp

theorem greaseBytes_fin (cx : Ctx) {item : Bytes} (h : GreaseBytes item) :
    checkUni cx item true = none := by
  obtain ⟨n, rest, hn, rfl⟩ := h
  unfold checkUni
  rw [rfcDecode_encode _ hn]
  obtain ⟨h0, h1, h2, h3, h4⟩ := greaseId_not_special n
  simp only [h0, h1, h2, h3, h4, greaseId_reserved, if_false, if_true, Bool.or_self,
    Bool.false_eq_true]
  simp

/-- the item in flight has been accepted completely -/
theorem legal_complete (cx : Ctx) (k : Kind) (base item : Bytes) (h : Legal cx k base item) :
    Legal cx k (base ++ item) [] := by
  cases k with
  | request =>
    obtain ⟨hb, hi⟩ := h
    refine ⟨?_, Or.inl rfl⟩
    rcases hi with rfl | hi
    · simpa using hb
    · exact transparent_append hb hi
  | control =>
    rcases h with ⟨rfl, hh⟩ | ⟨hb, hi⟩
    · exact Or.inr ⟨by simpa using ctlHeader_base cx hh, Or.inl rfl⟩
    · refine Or.inr ⟨?_, Or.inl rfl⟩
      rcases hi with rfl | hi
      · simpa using hb
      · exact ctlBase_append cx hb hi
  | qpackEnc =>
    rcases h with ⟨rfl, rfl⟩ | ⟨rfl, rfl⟩
    · exact Or.inr ⟨rfl, rfl⟩
    · exact Or.inr ⟨rfl, rfl⟩
  | qpackDec =>
    rcases h with ⟨rfl, rfl⟩ | ⟨rfl, rfl⟩
    · exact Or.inr ⟨rfl, rfl⟩
    · exact Or.inr ⟨rfl, rfl⟩
  | greaseStream =>
    rcases h with ⟨rfl, hg⟩ | ⟨hg, rfl⟩
    · exact Or.inr ⟨by simpa using hg, rfl⟩
    · exact Or.inr ⟨by simpa using hg, rfl⟩

theorem qpack_ok (cx : Ctx) (b : Nat) (hb : b = 2 ∨ b = 3) (c : Nat) :
    checkUni cx (([b] : Bytes).take c) false = none := by
  cases c with
  | zero => simp [checkUni, rfcDecode, endOr]
  | succ c =>
    simp only [List.take_succ_cons, List.take_nil]
    unfold checkUni
    rw [rfcDecode_byte b (by omega)]
    rcases hb with rfl | rfl <;> simp

/-- an open stream: whatever part of the item in flight has been accepted, the log is a prefix
    of valid output -/
theorem legal_open (cx : Ctx) (k : Kind) (base item : Bytes) (h : Legal cx k base item)
    (c : Nat) : chk cx k (base ++ item.take c) false = none := by
  cases k with
  | request =>
    obtain ⟨hb, hi⟩ := h
    simp only [chk, checkRequest_eq]
    rw [hb]
    rcases hi with rfl | hi
    · simp [walkTop_nil]
    · exact walkTop_partial hi c
  | control =>
    simp only [chk]
    rcases h with ⟨rfl, hh⟩ | ⟨hb, hi⟩
    · simpa using ctlHeader_partial cx hh c
    · rw [hb]
      rcases hi with rfl | hi
      · simp [walkTop_nil]
      · exact walkTop_partial hi c
  | qpackEnc =>
    simp only [chk]
    rcases h with ⟨rfl, rfl⟩ | ⟨rfl, rfl⟩
    · simpa using qpack_ok cx 2 (Or.inl rfl) c
    · simpa using qpack_ok cx 2 (Or.inl rfl) 1
  | qpackDec =>
    simp only [chk]
    rcases h with ⟨rfl, rfl⟩ | ⟨rfl, rfl⟩
    · simpa using qpack_ok cx 3 (Or.inr rfl) c
    · simpa using qpack_ok cx 3 (Or.inr rfl) 1
  | greaseStream =>
    simp only [chk]
    rcases h with ⟨rfl, hg⟩ | ⟨hg, rfl⟩
    · simpa using greaseBytes_ok cx hg c
    · have := greaseBytes_ok cx hg base.length
      simpa using this

/-- a finished request or grease stream holds a whole number of frames -/
theorem legal_fin (cx : Ctx) (k : Kind) (base : Bytes) (h : Legal cx k base [])
    (hk : k = .request ∨ k = .greaseStream) : chk cx k base true = none := by
  rcases hk with rfl | rfl
  · obtain ⟨hb, _⟩ := h
    simp only [chk, checkRequest_eq]
    have := hb [] true
    rw [List.append_nil] at this
    rw [this, walkTop_nil]
  · simp only [chk]
    rcases h with ⟨rfl, hg⟩ | ⟨hg, _⟩
    · obtain ⟨n, rest, hn, he⟩ := hg
      have := congrArg List.length he
      have := encode_length_pos _ hn
      simp only [List.length_nil, List.length_append] at *
      omega
    · exact greaseBytes_fin cx hg

/-! ### the invariant -/

def KindOk (server : Bool) (sid : Nat) : Kind → Prop
  | .request => sid % 4 = 0
  | _ => sid % 4 = (if server then 3 else 2)

def CurOk : Option WB → Bytes → Nat → Prop
  | none, item, _ => item = []
  | some w, item, c => w.WF ∧ w.view = item.drop c ∧ w.view ≠ []

structure SInv (cx : Ctx) (sid : Nat) (st : Stream) : Prop where
  kindOk : KindOk cx.server sid st.kind
  ex : ∃ base item c, st.log = base ++ item.take c ∧ CurOk st.cur item c ∧
        Legal cx st.kind base item
  fin1 : st.fin = true → st.cur = none
  fin2 : (st.fin = true ∨ st.finAfter = true) → (st.kind = .request ∨ st.kind = .greaseStream)

/-- what the invariant means for the specification -/
theorem sinv_valid (cx : Ctx) (sid : Nat) (st : Stream) (h : SInv cx sid st) :
    checkStream cx sid st.log st.fin = none := by
  obtain ⟨hk, ⟨base, item, c, hlog, hcur, hleg⟩, hf1, hf2⟩ := h
  have hchk : chk cx st.kind st.log st.fin = none := by
    cases hfin : st.fin with
    | false => rw [hlog]; exact legal_open cx _ _ _ hleg c
    | true =>
      have hc := hf1 hfin
      rw [hc] at hcur
      simp only [CurOk] at hcur
      subst hcur
      rw [hlog]
      simp only [List.take_nil, List.append_nil]
      exact legal_fin cx _ _ hleg (hf2 (Or.inl hfin))
  unfold checkStream
  cases hkind : st.kind with
  | request =>
    rw [hkind] at hk hchk
    simp only [KindOk] at hk
    simp only [chk] at hchk
    rw [if_pos hk]
    split
    · rfl
    · exact hchk
  | control | qpackEnc | qpackDec | greaseStream =>
    rw [hkind] at hk hchk
    simp only [KindOk] at hk
    simp only [chk] at hchk
    cases hs : cx.server with
    | true =>
      rw [hs] at hk
      simp only [if_true] at hk
      have a : ¬ sid % 4 = 0 := by omega
      have b : ¬ sid % 4 = 1 := by omega
      have c' : ¬ sid % 4 = 2 := by omega
      rw [if_neg a, if_neg b, if_neg c']
      simp only [if_true]
      exact hchk
    | false =>
      rw [hs] at hk
      simp only [Bool.false_eq_true, if_false] at hk
      have a : ¬ sid % 4 = 0 := by omega
      have b : ¬ sid % 4 = 1 := by omega
      rw [if_neg a, if_neg b, if_pos hk]
      simp only [Bool.false_eq_true, if_false]
      exact hchk

/-! ### preservation -/

/-- one transport poll -/
theorem poll_inv (cx : Ctx) (sid : Nat) (st : Stream) (k : Nat) (h : SInv cx sid st) :
    SInv cx sid (st.poll k) := by
  obtain ⟨hk, ⟨base, item, c, hlog, hcur, hleg⟩, hf1, hf2⟩ := h
  unfold Stream.poll
  cases hc : st.cur with
  | none => exact ⟨hk, ⟨base, item, c, hlog, hcur, hleg⟩, hf1, hf2⟩
  | some w =>
    rw [hc] at hcur
    obtain ⟨hwf, hview, hne⟩ := hcur
    obtain ⟨o, w', hs, hwf', hov, _, _⟩ := step_spec w hwf k
    simp only [hs]
    have hnf : st.fin = false := by
      cases hfin : st.fin with
      | false => rfl
      | true => have := hf1 hfin; rw [hc] at this; cases this
    -- the bytes taken extend the accepted part of the item
    have hcl : c ≤ item.length := by
      by_cases hle : c ≤ item.length
      · exact hle
      · rw [List.drop_eq_nil_of_le (by omega)] at hview
        exact absurd hview hne
    have htake : item.take (c + o.length) = item.take c ++ o := by
      have h1 : item.drop c = o ++ w'.view := by rw [hov, hview]
      rw [List.take_add, h1]
      simp
    have hdrop : w'.view = item.drop (c + o.length) := by
      have h1 : item.drop c = o ++ w'.view := by rw [hov, hview]
      rw [← List.drop_drop, h1]
      simp
    by_cases hrem : w'.remaining = 0
    · -- the buffer is empty: the call's write is complete
      rw [if_pos hrem]
      have hv0 : w'.view = [] := by
        apply List.eq_nil_of_length_eq_zero
        rw [← remaining_eq_view w' hwf']; exact hrem
      have hall : item.take (c + o.length) = item := by
        apply List.take_of_length_le
        have := congrArg List.length hdrop
        rw [hv0] at this
        simp only [List.length_nil, List.length_drop] at this
        omega
      refine ⟨hk, ⟨base ++ item, [], 0, ?_, rfl, legal_complete cx _ _ _ hleg⟩, ?_, ?_⟩
      · simp only [hlog, List.take_nil, List.append_nil, List.append_assoc]
        rw [← htake, hall]
      · intro _; rfl
      · intro hh
        simp only [hnf, Bool.false_or] at hh
        rcases hh with hh | hh
        · exact hf2 (Or.inr hh)
        · cases hh
    · rw [if_neg hrem]
      have hv1 : w'.view ≠ [] := by
        intro hv
        apply hrem
        rw [remaining_eq_view w' hwf', hv]; rfl
      refine ⟨hk, ⟨base, item, c + o.length, ?_, ⟨hwf', hdrop, hv1⟩, hleg⟩, ?_, hf2⟩
      · simp only [hlog, List.append_assoc]; rw [htake]
      · intro hh; rw [hnf] at hh; cases hh

/-- a new item is handed to an idle stream (possibly as the first half of `finish()`) -/
theorem start_inv (cx : Ctx) (sid : Nat) (st : Stream) (w : WB) (fa g : Bool)
    (h : SInv cx sid st) (hidle : st.idle = true) (hwf : w.WF) (hne : w.view ≠ [])
    (hnew : ∀ base, Legal cx st.kind base [] → Legal cx st.kind base w.view)
    (hfa : fa = true → (st.kind = .request ∨ st.kind = .greaseStream)) :
    SInv cx sid { st with cur := some w, finAfter := fa, grease := g } := by
  obtain ⟨hk, ⟨base, item, c, hlog, hcur, hleg⟩, hf1, hf2⟩ := h
  unfold Stream.idle at hidle
  simp only [Bool.and_eq_true, Bool.not_eq_true', Option.isNone_iff_eq_none] at hidle
  obtain ⟨⟨hcn, _⟩, hfn⟩ := hidle
  rw [hcn] at hcur
  simp only [CurOk] at hcur
  subst hcur
  refine ⟨hk, ⟨base, w.view, 0, ?_, ⟨hwf, rfl, hne⟩, hnew base hleg⟩, ?_, ?_⟩
  · simpa using hlog
  · intro hh; simp only at hh; rw [hfn] at hh; cases hh
  · intro hh
    simp only at hh
    rcases hh with hh | hh
    · rw [hfn] at hh; cases hh
    · exact hfa hh

theorem idle_flags {st : Stream} (h : st.idle = true) :
    st.cur = none ∧ st.finAfter = false ∧ st.fin = false := by
  unfold Stream.idle at h
  simp only [Bool.and_eq_true, Bool.not_eq_true', Option.isNone_iff_eq_none] at h
  exact ⟨h.1.1, h.1.2, h.2⟩

theorem wire_ne_nil (ty : Nat) (p : Bytes) (hty : ty < 2^62) : wire ty p ≠ [] := by
  intro h
  have := wire_length_pos ty p hty
  rw [h] at this; simp at this

/-- the view of the `WriteBuf` of a DATA frame -/
theorem fromFrame_data {p : Bytes} {w : WB} (h : fromFrame (.data p) = some w) :
    w.WF ∧ w.view = wire 0 p ∧ p.length < 2^62 := by
  obtain ⟨bs, hbs, _, hwf, _, _, _, hv⟩ := putOpt_new h
  obtain ⟨hp, rfl⟩ := encodeFrame_data hbs
  exact ⟨hwf, by rw [hv]; rfl, hp⟩

theorem fromFrame_headers {p : Bytes} {w : WB} (h : fromFrame (.headers p) = some w) :
    w.WF ∧ w.view = wire 1 p ∧ p.length < 2^62 := by
  obtain ⟨bs, hbs, _, hwf, _, _, _, hv⟩ := putOpt_new h
  obtain ⟨hp, rfl⟩ := encodeFrame_headers hbs
  exact ⟨hwf, by rw [hv]; rfl, hp⟩

theorem fromFrame_grease {ty : Nat} {w : WB} (h : fromFrame (.grease ty) = some w) :
    w.WF ∧ w.view = wire ty GREASE_FRAME_PAYLOAD ∧ ty < 2^62 := by
  obtain ⟨bs, hbs, _, hwf, _, _, _, hv⟩ := putOpt_new h
  obtain ⟨hp, rfl⟩ := encodeFrame_grease hbs
  exact ⟨hwf, by rw [hv]; simp [framePayload], hp⟩

theorem fromFrame_goaway {id : Nat} {w : WB} (h : fromFrame (.goaway id) = some w) :
    w.WF ∧ w.view = wire 7 (encode id) ∧ id < 2^62 := by
  obtain ⟨bs, hbs, _, hwf, _, _, _, hv⟩ := putOpt_new h
  obtain ⟨hp, rfl⟩ := encodeFrame_goaway hbs
  exact ⟨hwf, by rw [hv]; simp [framePayload], hp⟩

theorem isFrame_data (p : Bytes) (hp : p.length < 2^62) :
    IsFrame reqTyOk noPayCheck (wire 0 p) :=
  ⟨0, p, by decide, hp, by decide, rfl, rfl⟩

theorem isFrame_headers (p : Bytes) (hp : p.length < 2^62) :
    IsFrame reqTyOk noPayCheck (wire 1 p) :=
  ⟨1, p, by decide, hp, by decide, rfl, rfl⟩

theorem reqTyOk_grease (n : Nat) : reqTyOk (greaseId n) = none := by
  unfold reqTyOk
  have h1 : h2Types.contains (greaseId n) = false := by
    have : greaseId n ≠ 2 ∧ greaseId n ≠ 6 ∧ greaseId n ≠ 8 ∧ greaseId n ≠ 9 := by
      unfold greaseId GREASE_MUL GREASE_ADD; omega
    simp [h2Types, this]
  rw [h1]
  simp [greaseId_reserved]

theorem isFrame_grease (n : Nat) (hn : greaseId n < 2^62) :
    IsFrame reqTyOk noPayCheck (wire (greaseId n) GREASE_FRAME_PAYLOAD) :=
  ⟨greaseId n, GREASE_FRAME_PAYLOAD, hn, by decide, reqTyOk_grease n, rfl, rfl⟩

theorem isFrame_goaway (server : Bool) (id : Nat) (hid : id < 2^62) :
    IsFrame (ctlTyOk server) ctlPayOk (wire 7 (encode id)) := by
  refine ⟨7, encode id, by decide, ?_, ?_, ?_, rfl⟩
  · have := encode_length_le id hid; omega
  · cases server <;> decide
  · unfold ctlPayOk exactlyOneVarint
    have := rfcDecode_encode id hid []
    rw [List.append_nil] at this
    rw [this]
    simp

theorem legal_request_new (cx : Ctx) {item : Bytes} (hi : IsFrame reqTyOk noPayCheck item)
    (base : Bytes) (h : Legal cx .request base []) : Legal cx .request base item :=
  ⟨h.1, Or.inr hi⟩

/-- `onRequest (start (fromFrame (data | headers)))` -/
theorem sendFrame_inv (cx : Ctx) (sid : Nat) (st : Stream) (f : SFrame)
    (hf : (∃ p, f = .data p) ∨ (∃ p, f = .headers p)) (h : SInv cx sid st) :
    SInv cx sid (onRequest (fun s => s.start (fromFrame f)) st) := by
  unfold onRequest
  split
  · rename_i hc
    obtain ⟨hkind, hidle⟩ := hc
    unfold Stream.start
    cases hw : fromFrame f with
    | none => exact h
    | some w =>
      simp only
      have key : w.WF ∧ IsFrame reqTyOk noPayCheck w.view := by
        rcases hf with ⟨p, rfl⟩ | ⟨p, rfl⟩
        · obtain ⟨a, b, c⟩ := fromFrame_data hw
          exact ⟨a, by rw [b]; exact isFrame_data p c⟩
        · obtain ⟨a, b, c⟩ := fromFrame_headers hw
          exact ⟨a, by rw [b]; exact isFrame_headers p c⟩
      obtain ⟨hwf, hi⟩ := key
      have hne : w.view ≠ [] := by
        obtain ⟨ty, p, hty, _, _, _, he⟩ := hi
        rw [he]; exact wire_ne_nil ty p hty
      obtain ⟨_, hfa, _⟩ := idle_flags hidle
      have := start_inv cx sid st w st.finAfter st.grease h hidle hwf hne
        (by rw [hkind]; exact legal_request_new cx hi) (by rw [hfa]; intro hh; cases hh)
      exact this
  · exact h

theorem finish_inv (cx : Ctx) (sid : Nat) (st : Stream) (gN : Nat) (h : SInv cx sid st) :
    SInv cx sid (onRequest (finishStream gN) st) := by
  unfold onRequest
  split
  · rename_i hc
    obtain ⟨hkind, hidle⟩ := hc
    obtain ⟨hcn, hfa, hfn⟩ := idle_flags hidle
    unfold finishStream
    split
    · unfold greaseThenFin
      cases hw : fromFrame (.grease (greaseId gN)) with
      | none => exact h
      | some w =>
        simp only
        obtain ⟨hwf, hv, hlt⟩ := fromFrame_grease hw
        have hi := isFrame_grease gN hlt
        exact start_inv cx sid st w true false h hidle hwf
          (by rw [hv]; exact wire_ne_nil _ _ hlt)
          (by rw [hkind, hv]; exact legal_request_new cx hi) (fun _ => Or.inl hkind)
    · obtain ⟨hk, hex, hf1, hf2⟩ := h
      exact ⟨hk, hex, fun _ => hcn, fun _ => Or.inl hkind⟩
  · exact h

theorem goaway_inv (cx : Ctx) (sid : Nat) (st : Stream) (id : Nat) (h : SInv cx sid st) :
    SInv cx sid (onControl (fun s => s.start (fromFrame (.goaway id))) st) := by
  unfold onControl
  split
  · rename_i hc
    obtain ⟨hkind, hidle⟩ := hc
    unfold Stream.start
    cases hw : fromFrame (.goaway id) with
    | none => exact h
    | some w =>
      simp only
      obtain ⟨hwf, hv, hlt⟩ := fromFrame_goaway hw
      obtain ⟨_, hfa, _⟩ := idle_flags hidle
      refine start_inv cx sid st w st.finAfter st.grease h hidle hwf
        (by rw [hv]; exact wire_ne_nil _ _ (by decide)) ?_ (by rw [hfa]; intro hh; cases hh)
      rw [hkind, hv]
      intro base hl
      rcases hl with ⟨_, hh⟩ | ⟨hb, _⟩
      · obtain ⟨es, _, _, he⟩ := hh
        cases he
      · exact Or.inr ⟨hb, Or.inr (isFrame_goaway cx.server id hlt)⟩
  · exact h

/-- a fresh stream with nothing written -/
theorem fresh_request_inv (cx : Ctx) (sid : Nat) (hs : sid % 4 = 0) (g : Bool) :
    SInv cx sid (mkStream .request none false g) :=
  ⟨hs, ⟨[], [], 0, rfl, rfl, ⟨transparent_nil _ _, Or.inl rfl⟩⟩, (fun h => by cases h),
    (fun h => by rcases h with h | h <;> cases h)⟩

theorem new_request_inv (cx : Ctx) (sid : Nat) (hs : sid % 4 = 0) (g : Bool) (fs : Bytes) :
    SInv cx sid ((mkStream .request none false g).start (fromFrame (.headers fs))) := by
  have h0 := fresh_request_inv cx sid hs g
  unfold Stream.start
  cases hw : fromFrame (.headers fs) with
  | none => exact h0
  | some w =>
    simp only
    obtain ⟨hwf, hv, hlt⟩ := fromFrame_headers hw
    have hi := isFrame_headers fs hlt
    exact start_inv cx sid _ w false g h0 rfl hwf (by rw [hv]; exact wire_ne_nil _ _ (by decide))
      (by rw [hv]; exact legal_request_new cx hi) (fun hh => by cases hh)

theorem grease_stream_inv (cx : Ctx) (sid : Nat) (hs : sid % 4 = (if cx.server then 3 else 2))
    (gS gF : Nat) (w : WB) (hw : fromPair (greaseId gS) (.grease (greaseId gF)) = some w) :
    SInv cx sid (mkStream .greaseStream (some w) true false) := by
  obtain ⟨tb, hb, htb, _, _, hwf, _, hv⟩ := fromPair_spec hw
  obtain ⟨hlt, rfl⟩ := writeVar_some htb
  have hne : w.view ≠ [] := by
    rw [hv]
    intro hh
    have := congrArg List.length hh
    have := encode_length_pos _ hlt
    simp only [List.length_append, List.length_nil] at *
    omega
  refine ⟨hs, ⟨[], w.view, 0, rfl, ⟨hwf, rfl, hne⟩, Or.inl ⟨rfl, ?_⟩⟩, (fun h => by cases h),
    (fun _ => Or.inr rfl)⟩
  exact ⟨gS, hb ++ (framePayload (.grease (greaseId gF))).getD [], hlt, by rw [hv]; simp⟩

/-! ### the machine -/

def cxOf (st : State) : Ctx := { server := st.server, wt := st.cfg.wt }

def Inv (st : State) : Prop := ∀ e ∈ st.streams, SInv (cxOf st) e.1 e.2

theorem update_inv (cx : Ctx) (ss : List (Nat × Stream)) (sid : Nat) (f : Stream → Stream)
    (h : ∀ e ∈ ss, SInv cx e.1 e.2) (hf : ∀ s, SInv cx sid s → SInv cx sid (f s)) :
    ∀ e ∈ updateStream ss sid f, SInv cx e.1 e.2 := by
  intro e he
  unfold updateStream at he
  rw [List.mem_map] at he
  obtain ⟨e0, he0, rfl⟩ := he
  by_cases hs : e0.1 = sid
  · rw [if_pos hs]
    simp only
    rw [hs]
    exact hf _ (by rw [← hs]; exact h e0 he0)
  · rw [if_neg hs]
    exact h e0 he0

theorem append_inv (cx : Ctx) (ss : List (Nat × Stream)) (sid : Nat) (s : Stream)
    (h : ∀ e ∈ ss, SInv cx e.1 e.2) (hs : SInv cx sid s) :
    ∀ e ∈ ss ++ [(sid, s)], SInv cx e.1 e.2 := by
  intro e he
  rw [List.mem_append] at he
  rcases he with he | he
  · exact h e he
  · simp only [List.mem_singleton] at he
    subst he
    exact hs

theorem uniId_mod (server : Bool) (i : Nat) : uniId server i % 4 = (if server then 3 else 2) := by
  unfold uniId
  cases server <;> simp <;> omega

theorem step_cx (st : State) (s : Step) : cxOf (step st s) = cxOf st := by
  cases s <;> simp only [step, cxOf]
  all_goals (try split) <;> (try split) <;> rfl

theorem step_inv (st : State) (s : Step) (h : Inv st) : Inv (step st s) := by
  unfold Inv
  rw [step_cx]
  unfold Inv at h
  cases s with
  | poll sid k =>
    simp only [step]
    exact update_inv _ _ _ _ h (fun s hs => poll_inv _ _ s k hs)
  | sendRequest sid fs =>
    simp only [step]
    split
    · rename_i hc
      exact append_inv _ _ _ _ h (new_request_inv _ sid hc.2.2.1 _ fs)
    · exact h
  | acceptRequest sid =>
    simp only [step]
    split
    · rename_i hc
      exact append_inv _ _ _ _ h (fresh_request_inv _ sid hc.2.2.1 _)
    · exact h
  | sendHeaders sid fs =>
    simp only [step]
    exact update_inv _ _ _ _ h (fun s hs => sendFrame_inv _ _ s _ (Or.inr ⟨fs, rfl⟩) hs)
  | sendData sid buf =>
    simp only [step]
    exact update_inv _ _ _ _ h (fun s hs => sendFrame_inv _ _ s _ (Or.inl ⟨buf, rfl⟩) hs)
  | finish sid gN =>
    simp only [step]
    exact update_inv _ _ _ _ h (fun s hs => finish_inv _ _ s gN hs)
  | goaway id =>
    simp only [step]
    split
    · exact update_inv _ _ _ _ h (fun s hs => goaway_inv _ _ s id hs)
    · exact h
  | greaseStream sid gS gF =>
    simp only [step]
    split
    · rename_i hc
      cases hw : fromPair (greaseId gS) (.grease (greaseId gF)) with
      | none => exact h
      | some w =>
        simp only
        refine append_inv _ _ _ _ h (grease_stream_inv _ sid ?_ gS gF w hw)
        have := hc.2.2.1
        rw [uniId_mod] at this
        exact this
    · exact h

theorem run_inv (st : State) (steps : List Step) (h : Inv st) : Inv (run st steps) := by
  induction steps generalizing st with
  | nil => exact h
  | cons s r ih => exact ih (step st s) (step_inv st s h)

/-! ### the start state -/

theorem cso_fine : ∀ e ∈ configSettingOrder,
    h2Settings.contains e.1 = false ∧ definedSettings.contains e.1 = true ∧
    isReserved e.1 = false := by decide

theorem cso_nodup : (configSettingOrder.map (·.1)).Nodup := by decide

theorem greaseId_not_h2 (n : Nat) : h2Settings.contains (greaseId n) = false := by
  have : greaseId n ≠ 0 ∧ greaseId n ≠ 2 ∧ greaseId n ≠ 3 ∧ greaseId n ≠ 4 ∧ greaseId n ≠ 5 := by
    unfold greaseId GREASE_MUL GREASE_ADD; omega
  simp [h2Settings, this]

theorem configSettings_ids (c : Config) (gN : Nat) :
    (configSettings c gN).map (·.1) =
      (if c.grease then [greaseId gN] else []) ++ configSettingOrder.map (·.1) := by
  unfold configSettings
  rw [List.map_append, List.map_map]
  congr 1
  split <;> rfl

/-- the entries `TryFrom<Config>` produces are acceptable as a SETTINGS payload as soon as they
    can be encoded at all -/
theorem configSettings_fine (c : Config) (gN : Nat)
    (hb : ∀ e ∈ configSettings c gN, e.1 < 2^62 ∧ e.2 < 2^62) :
    SettingsFine (configSettings c gN) := by
  have hmem : ∀ e ∈ configSettings c gN,
      e.1 = greaseId gN ∨ e.1 ∈ configSettingOrder.map (·.1) := by
    intro e he
    have : e.1 ∈ (configSettings c gN).map (·.1) := List.mem_map_of_mem he
    rw [configSettings_ids] at this
    rw [List.mem_append] at this
    rcases this with h | h
    · split at h
      · simp only [List.mem_singleton] at h; exact Or.inl h
      · cases h
    · exact Or.inr h
  have hcso : ∀ x ∈ configSettingOrder.map (·.1),
      h2Settings.contains x = false ∧ definedSettings.contains x = true ∧
      isReserved x = false := by
    intro x hx
    rw [List.mem_map] at hx
    obtain ⟨e, he, rfl⟩ := hx
    exact cso_fine e he
  refine ⟨hb, ?_, ?_, ?_⟩
  · intro e he
    rcases hmem e he with h | h
    · rw [h]; exact greaseId_not_h2 gN
    · exact (hcso _ h).1
  · intro e he
    rcases hmem e he with h | h
    · rw [h, greaseId_reserved]; simp
    · rw [(hcso _ h).2.1]; simp
  · rw [configSettings_ids]
    split
    · rw [List.singleton_append, List.nodup_cons]
      refine ⟨?_, cso_nodup⟩
      intro hin
      have := (hcso _ hin).2.2
      rw [greaseId_reserved] at this
      cases this
    · simpa using cso_nodup

theorem fromUniHeader_control {es : List (Nat × Nat)} {w : WB}
    (h : fromUniHeader (.control es) = some w) :
    w.WF ∧ (∀ e ∈ es, e.1 < 2^62 ∧ e.2 < 2^62) ∧ (pairsWire es).length < 2^62 ∧
    w.view = [0] ++ wire 4 (pairsWire es) := by
  obtain ⟨bs, hbs, _, hwf, _, _, _, hv⟩ := putOpt_new h
  simp only [encodeUniHeader, STREAM_CONTROL] at hbs
  rw [writeVar_eq 0 (by decide)] at hbs
  simp only [Option.bind_eq_bind, Option.bind_some] at hbs
  cases hs : settingsEncode es with
  | none => rw [hs] at hbs; simp at hbs
  | some sb =>
    rw [hs] at hbs
    simp only [Option.bind_some] at hbs
    cases hbs
    obtain ⟨hb, hl, rfl⟩ := settingsEncode_some hs
    refine ⟨hwf, hb, hl, ?_⟩
    rw [hv]
    simp
    rfl

theorem fromUniHeader_qpack {w : WB} (b : Nat) (h : (fromUniHeader .encoder = some w ∧ b = 2) ∨
    (fromUniHeader .decoder = some w ∧ b = 3)) : w.WF ∧ w.view = [b] := by
  rcases h with ⟨h, rfl⟩ | ⟨h, rfl⟩
  · obtain ⟨bs, hbs, _, hwf, _, _, _, hv⟩ := putOpt_new h
    simp only [encodeUniHeader, STREAM_ENCODER] at hbs
    rw [writeVar_eq 2 (by decide)] at hbs
    cases hbs
    exact ⟨hwf, by rw [hv]; rfl⟩
  · obtain ⟨bs, hbs, _, hwf, _, _, _, hv⟩ := putOpt_new h
    simp only [encodeUniHeader, STREAM_DECODER] at hbs
    rw [writeVar_eq 3 (by decide)] at hbs
    cases hbs
    exact ⟨hwf, by rw [hv]; rfl⟩

theorem init_inv (server : Bool) (cfg : Config) (gN : Nat) (st : State)
    (h : init server cfg gN = some st) : Inv st := by
  unfold init at h
  cases hc : fromUniHeader (.control (configSettings cfg gN)) with
  | none => rw [hc] at h; cases h
  | some c =>
    cases he : fromUniHeader .encoder with
    | none => rw [hc, he] at h; cases h
    | some e =>
      cases hd : fromUniHeader .decoder with
      | none => rw [hc, he, hd] at h; cases h
      | some d =>
        rw [hc, he, hd] at h
        simp only [Option.some.injEq] at h
        subst h
        obtain ⟨cwf, cb, cl, cv⟩ := fromUniHeader_control hc
        obtain ⟨ewf, ev⟩ := fromUniHeader_qpack 2 (Or.inl ⟨he, rfl⟩)
        obtain ⟨dwf, dv⟩ := fromUniHeader_qpack 3 (Or.inr ⟨hd, rfl⟩)
        have hfine := configSettings_fine cfg gN cb
        intro x hx
        simp only [List.mem_cons, List.not_mem_nil, or_false] at hx
        have hnofin : ∀ (k : Kind) (w : WB), (mkStream k (some w) false false).fin = true →
            (mkStream k (some w) false false).cur = none := by
          intro k w hh; cases hh
        have hnofin2 : ∀ (k : Kind) (w : WB),
            ((mkStream k (some w) false false).fin = true ∨
              (mkStream k (some w) false false).finAfter = true) →
            (k = .request ∨ k = .greaseStream) := by
          intro k w hh; rcases hh with hh | hh <;> cases hh
        rcases hx with rfl | rfl | rfl
        · refine ⟨uniId_mod server 0, ⟨[], c.view, 0, rfl, ⟨cwf, rfl, ?_⟩, Or.inl ⟨rfl, ?_⟩⟩,
            hnofin _ _, hnofin2 _ _⟩
          · rw [cv]; simp
          · exact ⟨_, hfine, cl, cv⟩
        · refine ⟨uniId_mod server 1, ⟨[], e.view, 0, rfl, ⟨ewf, rfl, ?_⟩, Or.inl ⟨rfl, ev⟩⟩,
            hnofin _ _, hnofin2 _ _⟩
          rw [ev]; simp
        · refine ⟨uniId_mod server 2, ⟨[], d.view, 0, rfl, ⟨dwf, rfl, ?_⟩, Or.inl ⟨rfl, dv⟩⟩,
            hnofin _ _, hnofin2 _ _⟩
          rw [dv]; simp

/-! ### the configuration always fits the header array -/

theorem configSettings_explicit (c : Config) (gN : Nat) :
    configSettings c gN =
      (if c.grease then [(greaseId gN, 0)] else []) ++
      [(6, c.mfs), (8, boolVal c.ec), (727725890, boolVal c.wt), (51, boolVal c.dg),
       (727725891, c.wts)] := by
  simp [configSettings, configSettingOrder, fieldVal, CONFIG_GREASE_SETTING_VALUE]

theorem encode_small_length (x : Nat) (h : x < 64) : (encode x).length = 1 := by
  rw [encode_length_eq_size x (by omega)]
  unfold size
  rw [if_pos (by omega)]

theorem boolVal_lt (b : Bool) : boolVal b < 64 := by
  cases b <;> decide

/-- `Builder::build` cannot panic in `WriteBuf::from(UniStreamHeader::Control(settings))`:
    whatever the configuration (values representable as varints), the stream type and the
    SETTINGS frame take at most 42 of the `WRITE_BUF_ENCODE_SIZE` bytes. -/
theorem control_header_fits (cfg : Config) (gN : Nat) (hm : cfg.mfs < 2^62)
    (hw : cfg.wts < 2^62) (hg : gN < GREASE_RANGE_END) :
    ∃ w, fromUniHeader (.control (configSettings cfg gN)) = some w ∧
      w.view.length ≤ 42 := by
  have hgl := greaseId_lt gN hg
  have hb : ∀ e ∈ configSettings cfg gN, e.1 < 2^62 ∧ e.2 < 2^62 := by
    rw [configSettings_explicit]
    intro e he
    have hbv : ∀ b : Bool, boolVal b < 2^62 := fun b => by have := boolVal_lt b; omega
    rw [List.mem_append] at he
    rcases he with he | he
    · split at he
      · simp only [List.mem_singleton] at he; subst he; exact ⟨hgl, by simp⟩
      · cases he
    · simp only [List.mem_cons, List.not_mem_nil, or_false] at he
      rcases he with rfl | rfl | rfl | rfl | rfl
      · exact ⟨by simp, hm⟩
      · exact ⟨by simp, hbv _⟩
      · exact ⟨by simp, hbv _⟩
      · exact ⟨by simp, hbv _⟩
      · exact ⟨by simp, hw⟩
  have hlen : (pairsWire (configSettings cfg gN)).length ≤ 39 := by
    rw [configSettings_explicit]
    have l6 : (encode 6).length = 1 := by decide
    have l8 : (encode 8).length = 1 := by decide
    have l51 : (encode 51).length = 1 := by decide
    have lwt : (encode 727725890).length = 4 := by decide
    have lws : (encode 727725891).length = 4 := by decide
    have l0 : (encode 0).length = 1 := by decide
    have lm := encode_length_le cfg.mfs hm
    have lw := encode_length_le cfg.wts hw
    have lg := encode_length_le _ hgl
    have le := encode_small_length _ (boolVal_lt cfg.ec)
    have lt := encode_small_length _ (boolVal_lt cfg.wt)
    have ld := encode_small_length _ (boolVal_lt cfg.dg)
    split
    · simp only [List.singleton_append, pairsWire, List.length_append, List.length_nil]
      omega
    · simp only [List.nil_append, pairsWire, List.length_append, List.length_nil]
      omega
  have hl62 : (pairsWire (configSettings cfg gN)).length < 2^62 := by omega
  have hse := settingsEncode_of_fine hb hl62
  have henc : encodeUniHeader (.control (configSettings cfg gN))
      = some ([0] ++ wire 4 (pairsWire (configSettings cfg gN))) := by
    simp only [encodeUniHeader, STREAM_CONTROL]
    rw [writeVar_eq 0 (by decide), hse]
    rfl
  have hwl : ([0] ++ wire 4 (pairsWire (configSettings cfg gN))).length ≤ 42 := by
    have l4 : (encode 4).length = 1 := by decide
    have ll := encode_small_length (pairsWire (configSettings cfg gN)).length (by omega)
    simp only [wire, List.length_append, List.length_cons, List.length_nil]
    omega
  unfold fromUniHeader
  rw [henc]
  have h64 : ([0] ++ wire 4 (pairsWire (configSettings cfg gN))).length
      ≤ WRITE_BUF_ENCODE_SIZE := by
    have : (42 : Nat) ≤ WRITE_BUF_ENCODE_SIZE := by decide
    omega
  obtain ⟨w, hw'⟩ := putOpt_new_some none _ h64
  refine ⟨w, hw', ?_⟩
  obtain ⟨bs, hbs, _, _, _, _, _, hv⟩ := putOpt_new hw'
  cases hbs
  rw [hv]
  simpa using hwl

theorem init_isSome (server : Bool) (cfg : Config) (gN : Nat) (hm : cfg.mfs < 2^62)
    (hw : cfg.wts < 2^62) (hg : gN < GREASE_RANGE_END) : (init server cfg gN).isSome = true := by
  obtain ⟨w, hw', _⟩ := control_header_fits cfg gN hm hw hg
  unfold init
  rw [hw']
  have he : ∃ e, fromUniHeader .encoder = some e := by
    unfold fromUniHeader
    simp only [encodeUniHeader, STREAM_ENCODER]
    rw [writeVar_eq 2 (by decide)]
    exact putOpt_new_some none _ (by decide)
  have hd : ∃ d, fromUniHeader .decoder = some d := by
    unfold fromUniHeader
    simp only [encodeUniHeader, STREAM_DECODER]
    rw [writeVar_eq 3 (by decide)]
    exact putOpt_new_some none _ (by decide)
  obtain ⟨e, he⟩ := he
  obtain ⟨d, hd⟩ := hd
  rw [he, hd]
  rfl

theorem run_cx (st : State) (steps : List Step) : cxOf (run st steps) = cxOf st := by
  induction steps generalizing st with
  | nil => rfl
  | cons s r ih => exact (ih (step st s)).trans (step_cx st s)

theorem init_cx (server : Bool) (cfg : Config) (gN : Nat) (st : State)
    (h : init server cfg gN = some st) : cxOf st = { server := server, wt := cfg.wt } := by
  unfold init at h
  split at h
  · cases h; rfl
  · cases h

end H3.SendSide
