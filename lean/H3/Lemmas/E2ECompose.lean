import H3.Lemmas.E2EWire
import H3.Lemmas.E2ESend
import H3.Lemmas.E2ERecv
import H3.Lemmas.E2EHeaders
import H3.Lemmas.E2EIso
/-! The composition: a well-formed message, its bytes on the stream, and what `deliver` makes of
    any transport script carrying them. -/
namespace H3.E2E
open H3.Varint H3.WriteBuf H3.SendSide H3.Headers H3.FS H3.ReqRecv H3.Gen.WriteBuf
open H3.Spec.Framing (isKnown)

/-! ### the quantifier of C01 -/

/-- a well-formed message; `h` = the `Header` that `Header::request` / `Header::response` makes of
    its head and fields -/
structure WellFormed (m : Message) (h : Header) : Prop where
  /-- the sender accepts it (`Header::request` wants an authority — URI or `Host` — and no
      contradiction between the two) -/
  header : headerOf m = .ok h
  /-- field names are non-empty lower-case tokens, values legal field-value bytes (RFC 9110) -/
  regular : ∀ f ∈ m.headers, RegularOk f
  trailersRegular : ∀ t, m.trailers = some t → ∀ f ∈ t, RegularOk f
  /-- the application can hold the fields in an `http::HeaderMap` at all: none of its `append`s
      finds 24576 distinct names in the map already (any number of values per name) -/
  holdable : Holdable m.headers
  trailersHoldable : ∀ t, m.trailers = some t → Holdable t
  /-- octets; Huffman codings that fit a `Vec` (C11's domain) -/
  encodable : FieldsEncodable h.wireFields
  trailersEncodable : ∀ t, m.trailers = some t → FieldsEncodable (Header.trailer (mapOf t)).wireFields
  /-- body pieces are octet strings; every length fits a QUIC varint (C14's domain) -/
  pieces : ∀ p ∈ m.pieces, p.length < 2^62 ∧ WF p
  blockLen : (fieldSection h).length < 2^62
  trailerLen : ∀ t, m.trailers = some t → (trailerSection t).length < 2^62

/-- what the receiver's configuration allows -/
structure Fits (m : Message) (h : Header) (L : Nat) : Prop where
  /-- RFC 9114 §4.2.2 size of the field sections within `max_field_section_size = L` (C10) -/
  size : sectionSize h.wireFields ≤ L
  trailerSize : ∀ t, m.trailers = some t → sectionSize (Header.trailer (mapOf t)).wireFields ≤ L

/-- The head of the message survives the trip, and `out` is what the receiving application is
    handed.  Requests (received by the server): the method is a token; `:scheme`, `:authority`,
    `:path`, `:protocol` values are printed and parsed back unchanged by the `http` crate
    (`PseudoBack`: `parseX v = some v`, for the values the sender's crate printed); the receiver's
    `Uri::builder` builds `u` from these three parts; the `Host` values the application submitted
    (if any) are all the same value — `Header::request` compares only the first one with the URI's
    authority, the receiving h3 refuses a request whose `Host` values differ (D-12e); several
    identical `Host` values survive.  Responses (received by the client): the
    status is 100…999. -/
inductive HeadOk (H : Http) : Role → Message → HeadOut → Prop where
  | request (m : Message) (method : Bytes) (uri : UriParts) (ext : Option Bytes) (u : Uri) :
      m.head = .request method uri ext → PseudoBack H (Pseudo.request method uri ext) →
      H.uriBuild (Pseudo.request method uri ext).scheme
        (effAuthority uri.authority (hmGet (mapOf m.headers) nHost))
        (Pseudo.request method uri ext).path = some u →
      allFirst (hmGroup (mapOf m.headers) nHost) = true →
      HeadOk H .server m (.request (RequestParts.mk method u
        (Pseudo.request method uri ext).protocol (mapOf m.headers)))
  | response (m : Message) (status : Nat) :
      m.head = .response status → 100 ≤ status → status ≤ 999 →
      HeadOk H .client m (.response status (mapOf m.headers))

/-- what the receiving application must have in hand -/
def expected (m : Message) (out : HeadOut) : Delivered :=
  { head := some out, body := m.pieces.flatten, cleanEnd := true, ends := 1,
    trailers := some (m.trailers.map mapOf), env := {} }

/-! ### the frames on the stream -/

def greaseFrames : Option Nat → List SFrame
  | none => []
  | some n => [.grease (greaseId n)]

theorem greaseBytes_eq (g : Option Nat) : greaseBytes g = wireOf (greaseFrames g) := by
  cases g <;> simp [greaseBytes, greaseFrames, wireOf]

theorem wire_eq (m : Message) (h : Header) (hh : headerOf m = .ok h) : wire m = wireOf (framesOf m h) := by
  unfold wire; rw [hh]

theorem streamBytes_eq (m : Message) (h : Header) (hh : headerOf m = .ok h) (g : Option Nat) :
    streamBytes m g = wireOf (framesOf m h ++ greaseFrames g) := by
  rw [streamBytes, wire_eq m h hh, greaseBytes_eq, wireOf_append]

theorem grease_plain (n : Nat) (hn : n < GREASE_RANGE_END) : Plain (.grease (greaseId n)) := by
  have hlt := greaseId_lt n hn
  refine ⟨hlt, ?_, ?_, ?_⟩
  · have : greaseId n ≥ 33 := by unfold greaseId GREASE_MUL GREASE_ADD; omega
    simp only [isKnown, H3.Spec.Framing.h2Types, List.contains_cons, List.contains_nil, Bool.or_false,
      Bool.or_eq_false_iff, beq_eq_false_iff_ne, ne_eq]
    omega
  · unfold greaseId GREASE_MUL GREASE_ADD; omega
  · unfold greaseId GREASE_MUL GREASE_ADD; omega

theorem fieldSection_varint_wf (h : Header) (henc : FieldsEncodable h.wireFields) : WF (fieldSection h) :=
  fun b hb => fieldSection_wf h henc b hb

theorem frames_plain (m : Message) (h : Header) (hwf : WellFormed m h) :
    ∀ f ∈ framesOf m h, Plain f := by
  intro f hf
  simp only [framesOf, List.mem_cons, List.mem_append, List.mem_map] at hf
  rcases hf with rfl | ⟨p, hp, rfl⟩ | hf
  · exact ⟨hwf.blockLen, fieldSection_varint_wf h hwf.encodable⟩
  · exact hwf.pieces p hp
  · cases ht : m.trailers with
    | none => rw [ht] at hf; simp at hf
    | some t =>
      rw [ht] at hf
      simp only [List.mem_singleton] at hf
      subst hf
      exact ⟨hwf.trailerLen t ht, fieldSection_varint_wf _ (hwf.trailersEncodable t ht)⟩

theorem frames_sendable (m : Message) (h : Header) (hwf : WellFormed m h) :
    ∀ f ∈ framesOf m h, Sendable f := by
  intro f hf
  have hp := frames_plain m h hwf f hf
  simp only [framesOf, List.mem_cons, List.mem_append, List.mem_map] at hf
  rcases hf with rfl | ⟨p, _, rfl⟩ | hf
  · exact hp.1
  · exact hp.1
  · cases ht : m.trailers with
    | none => rw [ht] at hf; simp at hf
    | some t =>
      rw [ht] at hf
      simp only [List.mem_singleton] at hf
      subst hf
      exact hp.1

theorem all_plain (m : Message) (h : Header) (hwf : WellFormed m h) (g : Option Nat)
    (hg : ∀ n, g = some n → n < GREASE_RANGE_END) :
    ∀ f ∈ framesOf m h ++ greaseFrames g, Plain f := by
  intro f hf
  rcases List.mem_append.mp hf with hf | hf
  · exact frames_plain m h hwf f hf
  · cases g with
    | none => simp [greaseFrames] at hf
    | some n =>
      simp only [greaseFrames, List.mem_singleton] at hf
      subst hf
      exact grease_plain n (hg n rfl)

theorem runToks_data (ps : List Bytes) (r : List SFrame) :
    runToks (ps.map .data ++ r) = bodyToks ps ++ runToks r := by
  induction ps with
  | nil => rfl
  | cons p ps ih => simp [runToks, bodyToks, ih]

theorem runToks_frames (m : Message) (h : Header) (g : Option Nat) :
    runToks (framesOf m h ++ greaseFrames g) =
      msgToks (fieldSection h) m.pieces (m.trailers.map trailerSection) := by
  have hg : runToks (greaseFrames g) = [] := by cases g <;> rfl
  simp only [framesOf, List.cons_append, List.append_assoc, runToks, msgToks, runToks_data]
  cases m.trailers with
  | none => simp [hg, trToks]
  | some t => simp [runToks, hg, trToks]

/-! ### the composition on the receive side -/

theorem bodyOf_data (ds : List Bytes) : bodyOf (ds.map Res.data ++ [Res.end_]) = ds.flatten := by
  induction ds with
  | nil => rfl
  | cons d r ih => simp [bodyOf, ih]

theorem endsOf_data (ds : List Bytes) : endsOf (ds.map Res.data ++ [Res.end_]) = 1 := by
  induction ds with
  | nil => rfl
  | cons d r ih =>
    simp only [endsOf, List.map_cons, List.cons_append, List.filter_cons] at ih ⊢
    simp at ih ⊢

/-- head block: classified `ok` by the receive model's `Hdr`, decoded to `out` -/
theorem head_block (H : Http) (role : Role) (m : Message) (h : Header) (out : HeadOut) (L : Nat)
    (hwf : WellFormed m h) (hfit : Fits m h L) (hhead : HeadOk H role m out) :
    (hdrOf H role L).head (fieldSection h) = .ok ∧ decodeHead H role L (fieldSection h) = some out := by
  cases hhead with
  | request m method uri ext u hm hp hb hhosts =>
    have hreq : Header.request method uri (mapOf m.headers) ext = .ok h := by
      have := hwf.header; unfold headerOf at this; rw [hm] at this; exact this
    have hr := recvRequest_sent H method uri ext m.headers u h hreq ⟨hp, hwf.regular, hb, hhosts⟩ hwf.holdable
    obtain ⟨a, b⟩ := decodeWith_fieldSection (recvRequest H) h hwf.encodable L hfit.size
    simp only [hdrOf, decodeHead, a, b, hr, classOf, optOf, Option.map_some, and_self]
  | response m status hm h1 h2 =>
    have hresp : h = Header.response status (mapOf m.headers) := by
      have := hwf.header; unfold headerOf at this; rw [hm] at this; cases this; rfl
    subst hresp
    have hr := recvResponse_sent H status m.headers h1 h2 hwf.regular hwf.holdable
    obtain ⟨a, b⟩ := decodeWith_fieldSection (recvResponse H) _ hwf.encodable L hfit.size
    simp only [hdrOf, decodeHead, a, b, hr, classOf, optOf, Option.map_some, and_self]

theorem trailer_block (H : Http) (role : Role) (m : Message) (h : Header) (L : Nat)
    (hwf : WellFormed m h) (hfit : Fits m h L) (t : List FieldLine) (ht : m.trailers = some t) :
    (hdrOf H role L).trailer (trailerSection t) = .ok ∧
    decodeWith L (recvTrailers H) (trailerSection t) = some (mapOf t) := by
  have hr := recvTrailers_sent H t (hwf.trailersRegular t ht) (hwf.trailersHoldable t ht)
  obtain ⟨a, b⟩ := decodeWith_fieldSection (recvTrailers H) _ (hwf.trailersEncodable t ht) L
    (hfit.trailerSize t ht)
  unfold trailerSection
  simp only [hdrOf, a, b, hr, classOf, optOf, and_self]

/-- **every chunking of the stream bytes of a well-formed message is delivered exactly** -/
theorem deliver_streamBytes (H : Http) (role : Role) (m : Message) (h : Header) (out : HeadOut)
    (L : Nat) (hwf : WellFormed m h) (hfit : Fits m h L) (hhead : HeadOk H role m out)
    (g : Option Nat) (hg : ∀ n, g = some n → n < GREASE_RANGE_END)
    (script : List Ev) (hsc : ScriptOK script) (hnr : NoReset script) (hfin : hasFin script = true)
    (hbytes : evBytes (upToFin script) = streamBytes m g) :
    deliver H role L script = expected m out := by
  have hpl := all_plain m h hwf g hg
  have hrun := run_wireOf _ hpl
  rw [← streamBytes_eq m h hwf.header g, runToks_frames] at hrun
  obtain ⟨hH, hdec⟩ := head_block H role m h out L hwf hfit hhead
  have hTr : ∀ t, m.trailers.map trailerSection = some t → (hdrOf H role L).trailer t = .ok := by
    intro t ht
    cases hm : m.trailers with
    | none => rw [hm] at ht; cases ht
    | some t' =>
      rw [hm] at ht
      simp only [Option.map_some, Option.some.injEq] at ht
      subst ht
      exact (trailer_block H role m h L hwf hfit t' hm).1
  obtain ⟨ds, hpat, hflat, _⟩ := recvPattern_valid role (hdrOf H role L) _ _ _ _ hrun hH hTr script hsc
    hnr hfin hbytes
  unfold deliver deliverOf expected
  rw [hpat]
  simp only [hdec, bodyOf_data, endsOf_data, hflat]
  have hlast : ((ds.map Res.data ++ [Res.end_]).getLast? == some Res.end_) = true := by simp
  rw [hlast]
  cases hm : m.trailers with
  | none => simp [trailersAns]
  | some t =>
    simp only [Option.map_some, trailersAns]
    rw [(trailer_block H role m h L hwf hfit t hm).2]
    rfl

/-! ### the sender's program as machine steps -/

/-- the steps of a program of awaited calls -/
def opsOf (calls : List (SOp × List Nat)) : List SOp :=
  calls.flatMap (fun c => c.1 :: c.2.map .poll)

theorem runS_append (s : Stream) (a b : List SOp) : runS s (a ++ b) = runS (runS s a) b := by
  simp [runS, List.foldl_append]

theorem sendAll_eq_runS (calls : List (SOp × List Nat)) : ∀ s, sendAll s calls = runS s (opsOf calls) := by
  induction calls with
  | nil => intro s; rfl
  | cons c r ih =>
    intro s
    rw [sendAll_cons, ih]
    simp only [opsOf, List.flatMap_cons]
    rw [runS_append]
    rfl

/-! ### the transport of the driver and of the examples: `k`-byte chunks, then FIN -/

theorem chunksOf_spec (k : Nat) : ∀ (fuel : Nat) (w : Bytes), w.length ≤ fuel →
    evBytes (chunksOf k fuel w) = w ∧ (∀ e ∈ chunksOf k fuel w, ∃ b, e = Ev.chunk b ∧ b ≠ []) := by
  intro fuel
  induction fuel with
  | zero =>
    intro w hw
    have : w = [] := List.eq_nil_of_length_eq_zero (by omega)
    subst this
    exact ⟨rfl, by simp [chunksOf]⟩
  | succ fuel ih =>
    intro w hw
    cases w with
    | nil => exact ⟨rfl, by simp [chunksOf]⟩
    | cons b r =>
      have hk : 1 ≤ max k 1 := by omega
      have hdl : ((b :: r).drop (max k 1)).length ≤ fuel := by
        simp only [List.length_drop, List.length_cons] at hw ⊢; omega
      obtain ⟨h1, h2⟩ := ih _ hdl
      simp only [chunksOf]
      refine ⟨?_, ?_⟩
      · simp only [evBytes, h1, List.take_append_drop]
      · intro e he
        simp only [List.mem_cons] at he
        rcases he with rfl | he
        · refine ⟨_, rfl, ?_⟩
          intro h0
          have := congrArg List.length h0
          simp only [List.length_take, List.length_cons, List.length_nil] at this
          omega
        · exact h2 e he

theorem chunked_spec (k : Nat) (w : Bytes) :
    ScriptOK (chunked k w) ∧ NoReset (chunked k w) ∧ hasFin (chunked k w) = true ∧
    evBytes (upToFin (chunked k w)) = w := by
  obtain ⟨h1, h2⟩ := chunksOf_spec k w.length w (Nat.le_refl _)
  have hnf : Ev.fin ∉ chunksOf k w.length w := by
    intro h; obtain ⟨b, hb, _⟩ := h2 _ h; cases hb
  refine ⟨?_, ?_, ?_, ?_⟩
  · intro b hb
    simp only [chunked, List.mem_append, List.mem_singleton] at hb
    rcases hb with hb | hb
    · obtain ⟨b', hb', hne⟩ := h2 _ hb
      cases hb'; exact hne
    · cases hb
  · intro c hc
    simp only [chunked, List.mem_append, List.mem_singleton] at hc
    rcases hc with hc | hc
    · obtain ⟨b', hb', _⟩ := h2 _ hc
      cases hb'
    · cases hc
  · simp [chunked, hasFin]
  · unfold chunked
    rw [upToFin_fin _ [] hnf, h1]

end H3.E2E
