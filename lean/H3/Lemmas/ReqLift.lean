import H3.Lemmas.ReqLiftRun
import H3.Lemmas.ReqLiftToks
import H3.Lemmas.ReqLiftKinds
set_option linter.unusedSimpArgs false
/-! The general simulation between the `FrameStream` model over a transport script (`fsSrc`)
    and the token source (`tokSrc`): `LiftR` relates a configuration satisfying the C02 invariant
    to the token source that holds exactly the answers the model is going to give (`Fut`).
    `liftR_sim : FrameSimP fsSrc tokSrc LiftR`. -/
namespace H3.ReqRecv
open H3.Frame

/-- the configuration `c` of the `FrameStream` model satisfies the C02 invariant, and the token
    source `a` holds the answers `c` is going to give to the canonical reader -/
def LiftR (c : FSt) (a : TS) : Prop :=
  Fut c.1 c.2 a.items a.term ∧ a.rem = c.1.remaining ∧
    ∃ seen toks, FS.Inv FS.frameDec seen toks c.1 ∧ FS.ScriptOK c.2

theorem fs_pollNext (s : FS.St) (sc : List FS.Ev) (o : FOut) (s' : FS.St) (sc' : List FS.Ev)
    (h : FS.pollNext FS.frameDec s sc = (o, s', sc')) : fsSrc.pollNext (s, sc) = (o, (s', sc')) := by
  simp only [fsSrc, h]

theorem fs_pollData (s : FS.St) (sc : List FS.Ev) (o : FOut) (s' : FS.St) (sc' : List FS.Ev)
    (h : FS.pollData (F := Frame) (E := FrameErr) s sc = (o, s', sc')) :
    fsSrc.pollData (s, sc) = (o, (s', sc')) := by
  simp only [fsSrc, h]

theorem liftR_next (c : FSt) (a : TS) (h : LiftR c a) :
    (fsSrc.pollNext c).1 = (tokSrc.pollNext a).1 ∧
    (contOut (tokSrc.pollNext a).1 = true → LiftR (fsSrc.pollNext c).2 (tokSrc.pollNext a).2) := by
  obtain ⟨s, sc⟩ := c
  obtain ⟨items, term, rem⟩ := a
  obtain ⟨hF, hrem, seen, toks, hI, hsc⟩ := h
  simp only at hF hrem hI hsc
  subst hrem
  cases hres : FS.pollNext FS.frameDec s sc with
  | mk o rest =>
  obtain ⟨s1, sc1⟩ := rest
  rw [fs_pollNext s sc o s1 sc1 hres]
  by_cases h0 : s.remaining = 0
  · rcases FS.pollNext_preserves FS.frameDec FS.frameDec_laws seen toks s sc hI hsc with
      ⟨hne, _⟩ | ⟨_, hp⟩
    · exact absurd h0 hne
    · rw [hres] at hp
      obtain ⟨tk, hs, htk, hout⟩ := hp
      have hsc1 : FS.ScriptOK sc1 := by rw [hs] at hsc; exact FS.scriptOK_suffix hsc
      cases hF with
      | @frame _ _ f s' sc' items' _ _ hc hr =>
        rw [hres] at hc
        simp only [Prod.mk.injEq] at hc
        obtain ⟨rfl, rfl, rfl⟩ := hc
        have e2 : tokSrc.pollNext { items := .frame f :: items', term := term, rem := s.remaining } =
            (.frame f, { items := items', term := term, rem := kindLen f }) := by
          rw [h0]; exact tok_next_frame _ _ _
        rw [e2]
        refine ⟨rfl, fun _ => ⟨hr, ?_, _, _, hout, hsc1⟩⟩
        exact (kindLen_eq f).trans (FS.pollNext_frame_rem FS.frameDec s s1 sc sc1 f hres).symm
      | nextEnd _ hc =>
        rw [hres] at hc
        simp only at hc
        have e2 : tokSrc.pollNext { items := [], term := term, rem := s.remaining } =
            (term.next, { items := [], term := term, rem := s.remaining }) := by
          rw [h0]; exact tok_next_nil _
        rw [e2]
        refine ⟨hc, fun hcont => ?_⟩
        cases term with
        | fin =>
          simp only [Term.next] at hc
          subst hc
          obtain ⟨hI', hfl, heos', hrem'⟩ := hout
          refine ⟨Fut.nextEnd hrem' ?_, by simp only; rw [h0, hrem'], _, _, hI', hsc1⟩
          exact FS.pollNext_at_end FS.frameDec s1 sc1 hrem' heos' hfl
        | _ => simp [Term.next, contOut] at hcont
      | piece h0' _ _ => exact absurd h0 h0'
      | dataEnd h0' _ => exact absurd h0 h0'
  · have hp : FS.pollNext FS.frameDec s sc = (.panic, s, sc) := by
      unfold FS.pollNext; rw [if_pos h0]
    rw [hp] at hres
    simp only [Prod.mk.injEq] at hres
    obtain ⟨rfl, rfl, rfl⟩ := hres
    have e2 : tokSrc.pollNext { items := items, term := term, rem := s.remaining } =
        (.panic, { items := items, term := term, rem := s.remaining }) := by
      simp [tokSrc, h0]
    rw [e2]
    exact ⟨rfl, fun hc => by simp [contOut] at hc⟩

theorem liftR_data (c : FSt) (a : TS) (h : LiftR c a) :
    (fsSrc.pollData c).1 = (tokSrc.pollData a).1 ∧
    (contOut (tokSrc.pollData a).1 = true → LiftR (fsSrc.pollData c).2 (tokSrc.pollData a).2) := by
  obtain ⟨s, sc⟩ := c
  obtain ⟨items, term, rem⟩ := a
  have h' := h
  obtain ⟨hF, hrem, seen, toks, hI, hsc⟩ := h
  simp only at hF hrem hI hsc
  subst hrem
  cases hres : FS.pollData (F := Frame) (E := FrameErr) s sc with
  | mk o rest =>
  obtain ⟨s1, sc1⟩ := rest
  rw [fs_pollData s sc o s1 sc1 hres]
  by_cases h0 : s.remaining = 0
  · have hp : FS.pollData (F := Frame) (E := FrameErr) s sc = (.none, s, sc) := by
      unfold FS.pollData; rw [if_pos h0]
    rw [hp] at hres
    simp only [Prod.mk.injEq] at hres
    obtain ⟨rfl, rfl, rfl⟩ := hres
    have e2 : tokSrc.pollData { items := items, term := term, rem := s.remaining } =
        (.none, { items := items, term := term, rem := s.remaining }) := by
      simp [tokSrc, h0]
    rw [e2]
    exact ⟨rfl, fun _ => h'⟩
  · have hp := FS.pollData_spec FS.frameDec seen toks s sc hI hsc
    rw [hres] at hp
    obtain ⟨tk, hs, htk, hout⟩ := hp
    have hsc1 : FS.ScriptOK sc1 := by rw [hs] at hsc; exact FS.scriptOK_suffix hsc
    cases hF with
    | @piece _ _ d s' sc' items' _ _ hc hr =>
      rw [hres] at hc
      simp only [Prod.mk.injEq] at hc
      obtain ⟨rfl, rfl, rfl⟩ := hc
      rw [tok_data_piece d items' term s.remaining h0]
      obtain ⟨_, _, hrem', hI'⟩ := hout
      exact ⟨rfl, fun _ => ⟨hr, hrem'.symm, _, _, hI', hsc1⟩⟩
    | dataEnd _ hc =>
      rw [hres] at hc
      simp only at hc
      rw [tok_data_nil term s.remaining h0]
      refine ⟨hc, fun hcont => ?_⟩
      cases term <;> simp [Term.data, contOut] at hcont
    | frame h0' _ _ => exact absurd h0' h0
    | nextEnd h0' _ => exact absurd h0' h0

theorem liftR_eosL (c : FSt) (a : TS) (h : LiftR c a) (he : fsSrc.isEos c = true)
    (hd : tokSrc.hasData a = false) : (tokSrc.pollNext a).1 = .none ∧ LiftR c (tokSrc.pollNext a).2 := by
  obtain ⟨s, sc⟩ := c
  obtain ⟨items, term, rem⟩ := a
  have h' := h
  obtain ⟨hF, hrem, seen, toks, hI, hsc⟩ := h
  simp only at hF hrem hI hsc
  subst hrem
  have h0 : s.remaining = 0 := by simpa using hd
  have heos : s.eos = true ∧ s.flat = [] := by
    simpa [fsSrc] using he
  have hnone := FS.pollNext_at_end FS.frameDec s sc h0 heos.1 heos.2
  cases hF with
  | frame _ hc _ => rw [hc] at hnone; cases hnone
  | nextEnd _ hc =>
    rw [hnone] at hc
    have e2 : tokSrc.pollNext { items := [], term := term, rem := s.remaining } =
        (term.next, { items := [], term := term, rem := s.remaining }) := by
      rw [h0]; exact tok_next_nil _
    rw [e2]
    exact ⟨hc.symm, h'⟩
  | piece h0' _ _ => exact absurd h0 h0'
  | dataEnd h0' _ => exact absurd h0 h0'

/-- the `FrameStream` model over any transport script answers like the token source holding its
    future answers, as long as the documented pattern goes on -/
theorem liftR_sim : FrameSimP fsSrc tokSrc LiftR where
  hasData := by
    intro c a h
    obtain ⟨_, hrem, _⟩ := h
    simp only [fsSrc, tok_hasData, hrem]
  next := liftR_next
  data := liftR_data
  eosL := fun c a h he _ hd => liftR_eosL c a h he hd
  eosR := by
    intro c a _ _ h
    simp at h

/-! ### the token list of a script -/

/-- The bytes carry no WebTransport header (0x41) at a frame position, and no DATA frame whose
    length is `usize::MAX` (no varint is that large): `poll_data` never runs in raw mode.  A
    condition on the byte string alone. -/
def NoRaw (w : FS.Bytes) : Prop :=
  ∀ f, FS.Tok.frame f ∈ (FS.run FS.frameDec (.hdr []) w).2 → (FS.frameDec.kind f).rem < FS.USIZE_MAX

/-- `Tied sc toks e`: the frame-layer answers `compile toks e` are those of the reference
    automaton over the bytes of the part `taken` of the script that the model took from the
    transport, and the ending is the one the automaton's final state and the rest of the script
    dictate (`TermOK`); and the recogniser's input `toks.map kind` is what can be read off these
    tokens (`kindsOf`; in particular `toks` has no entries for frames of unknown type, which
    neither the frame layer nor the recogniser shows). -/
def Tied (sc : List FS.Ev) (toks : List Tok) (e : Ending) : Prop :=
  (∃ taken rest eos, sc = taken ++ rest ∧ FS.TakenOK false eos taken ∧
    TermOK (FS.run FS.frameDec (.hdr []) (FS.evBytes taken)) (itemToks (compile toks e).1) eos taken
      rest (compile toks e).2) ∧
  toks.map kind = kindsOf (itemToks (compile toks e).1 ++ protoToks (compile toks e).2)

/-- `NoRaw` is decidable: evaluate the reference automaton -/
def noRawB (w : FS.Bytes) : Bool :=
  (FS.run FS.frameDec (.hdr []) w).2.all fun tok =>
    match tok with
    | .frame f => decide ((FS.frameDec.kind f).rem < FS.USIZE_MAX)
    | _ => true

theorem noRaw_iff (w : FS.Bytes) : NoRaw w ↔ noRawB w = true := by
  unfold NoRaw noRawB
  rw [List.all_eq_true]
  constructor
  · intro h tok htok
    cases tok with
    | frame f => simpa using h f htok
    | _ => rfl
  · intro h f hf
    simpa using h _ hf

instance (w : FS.Bytes) : Decidable (NoRaw w) := decidable_of_iff _ (noRaw_iff w).symm

/-- once the token source has answered `Pending` it stays where it is -/
theorem tok_pending_fix (a : TS) (h : (tokSrc.pollNext a).1 = .pending) : (tokSrc.pollNext a).2 = a := by
  obtain ⟨items, term, rem⟩ := a
  simp only [tokSrc] at h ⊢
  by_cases hr : rem = 0
  · subst hr
    cases items with
    | nil => rfl
    | cons it r =>
      cases it with
      | frame f => simp at h
      | piece b => rfl
  · simp [hr]

theorem scriptBytes_eq (sc : List FS.Ev) : scriptBytes sc = (FS.evBytes sc).length := by
  induction sc with
  | nil => rfl
  | cons ev r ih => cases ev <;> simp [scriptBytes, FS.evBytes, ih]

theorem termOK_prefix {R : FS.PSt × List RefTok} {all : List RefTok} {eos : Bool}
    {taken rest : List FS.Ev} {t : Term} (h : TermOK R all eos taken rest t) :
    ∃ more, R.2 = all ++ more := by
  cases t with
  | fin => exact ⟨[], by simpa using h.2.2⟩
  | truncated =>
    rcases h.2 with ⟨_, _, _, h2⟩ | ⟨_, bs, _, _, h2⟩
    · exact ⟨[], by simpa using h2⟩
    · exact ⟨_, h2⟩
  | open_ => exact ⟨[], by simpa using h.2.1⟩
  | proto e => exact ⟨_, h.2⟩
  | reset c => exact h.2.2

/-- whatever the ending: the answers are a prefix of what the reference automaton emits on the
    bytes the script carries before its first `fin` -/
theorem tied_prefix {sc : List FS.Ev} {toks : List Tok} {e : Ending} (h : Tied sc toks e) :
    itemToks (compile toks e).1 <+:
      (FS.run FS.frameDec (.hdr []) (FS.evBytes (FS.upToFin sc))).2 := by
  obtain ⟨⟨taken, rest, eos, hsplit, htk, hT⟩, _⟩ := h
  obtain ⟨more, hm⟩ := termOK_prefix hT
  rw [wire_split hsplit htk, FS.run_append, hm]
  exact ⟨more ++ (FS.run FS.frameDec (FS.run FS.frameDec (.hdr []) (FS.evBytes taken)).1
    (if eos then [] else FS.evBytes (FS.upToFin rest))).2, by simp⟩

/-- the blocks the reference automaton finds in the wire bytes are acceptable in their positions
    (first HEADERS = head, second = trailers) ⇒ so are those of a frame sequence tied to the script -/
theorem tied_hdrsOk (H : Hdr) {sc : List FS.Ev} {toks : List Tok} {e : Ending} (h : Tied sc toks e)
    (hH : HdrsOkK H .head (kindsOf (FS.run FS.frameDec (.hdr []) (FS.evBytes (FS.upToFin sc))).2)) :
    HdrsOk H toks := by
  obtain ⟨more, hm⟩ := tied_prefix h
  exact hdrsOk_of_ref H h.2 hm.symm hH

/-- for every script there is a frame sequence `toks` with ending `e` such that the `FrameStream`
    model over the script is related to the token source over `toks`/`e`, the sequence is well
    formed, short enough for the fuel of `documentedChunks`, and tied to the bytes -/
theorem lift_exists (sc : List FS.Ev) (hsc : FS.ScriptOK sc)
    (hraw : NoRaw (FS.evBytes (FS.upToFin sc))) :
    ∃ toks e, LiftR ({}, sc) (TS.ofToks toks e) ∧ (∀ tok ∈ toks, TokWF tok) ∧
      (compile toks e).1.length + 2 ≤ fsFuel ({}, sc) ∧
      (∀ b, Tok.headers b ∈ toks → FS.Tok.frame (.headers b) ∈ itemToks (compile toks e).1) ∧
      Tied sc toks e := by
  have hC : FS.CInv FS.frameDec sc [] {} sc :=
    ⟨[], by simp, by simp [FS.TakenOK], by simpa [FS.evBytes] using FS.inv_init FS.frameDec⟩
  obtain ⟨items, t, hF, hR, hlen, tF, rF, eF, h1, h2, h3⟩ :=
    fut_exists sc hsc hraw ((FS.evBytes sc).length + 1) {} sc [] hC (by simp [FS.St.flat])
  have hR0 : Run 0 items t := hR
  obtain ⟨hc, _, hwf⟩ := compile_decompile hR0
  have hc := hc rfl
  refine ⟨(decompile items t).1, (decompile items t).2, ?_, hwf, ?_, ?_, ⟨tF, rF, eF, h1, h2, ?_⟩, ?_⟩
  · refine ⟨?_, ?_, [], [], FS.inv_init FS.frameDec, hsc⟩
    · simp only [TS.ofToks, hc]; exact hF
    · simp only [TS.ofToks]
  · rw [hc]
    simp only [fsFuel, scriptBytes_eq]
    simp only [FS.St.flat, List.flatten_nil, List.length_nil] at hlen ⊢
    omega
  · intro b hb
    rw [hc]
    exact frame_mem_itemToks _ _ (decompile_headers b t items hb)
  · rw [hc]
    simpa using h3
  · rw [hc]
    exact decompile_kinds t items

/-! ### where the frame sequence is a function of the bytes -/

/-- the transport delivers chunks only: no `Pending`, no FIN, no RESET -/
def OnlyChunks (l : List FS.Ev) : Prop := ∀ ev ∈ l, ∃ b, ev = FS.Ev.chunk b

/-- `ScriptOK` and `OnlyChunks` are decidable: look at every event -/
def scriptOKB (sc : List FS.Ev) : Bool :=
  sc.all fun ev => match ev with | .chunk b => !b.isEmpty | _ => true

theorem scriptOK_iff (sc : List FS.Ev) : FS.ScriptOK sc ↔ scriptOKB sc = true := by
  unfold FS.ScriptOK scriptOKB
  rw [List.all_eq_true]
  constructor
  · intro h ev hev
    cases ev with
    | chunk b => simpa using h b hev
    | _ => rfl
  · intro h b hb
    simpa using h _ hb

instance (sc : List FS.Ev) : Decidable (FS.ScriptOK sc) := decidable_of_iff _ (scriptOK_iff sc).symm

def onlyChunksB (sc : List FS.Ev) : Bool :=
  sc.all fun ev => match ev with | .chunk _ => true | _ => false

theorem onlyChunks_iff (sc : List FS.Ev) : OnlyChunks sc ↔ onlyChunksB sc = true := by
  unfold OnlyChunks onlyChunksB
  rw [List.all_eq_true]
  constructor
  · intro h ev hev
    obtain ⟨b, rfl⟩ := h ev hev
    rfl
  · intro h ev hev
    have := h ev hev
    cases ev with
    | chunk b => exact ⟨b, rfl⟩
    | _ => simp at this

instance (sc : List FS.Ev) : Decidable (OnlyChunks sc) := decidable_of_iff _ (onlyChunks_iff sc).symm

theorem split_before {α : Type} {taken rest pre post : List α} {x : α}
    (h : taken ++ rest = pre ++ x :: post) (hx : x ∉ taken) :
    ∃ y, pre = taken ++ y ∧ rest = y ++ x :: post := by
  rcases List.append_eq_append_iff.mp h with ⟨a', h1, h2⟩ | ⟨c', h1, h2⟩
  · exact ⟨a', h1, h2⟩
  · cases c' with
    | nil => exact ⟨[], by simpa using h1.symm, by simpa using h2.symm⟩
    | cons c r =>
      simp only [List.cons_append, List.cons.injEq] at h2
      exact absurd (by rw [h1, h2.1]; simp) hx

theorem split_at {α : Type} {p rest pre post : List α} {x : α}
    (h : (p ++ [x]) ++ rest = pre ++ x :: post) (hp : x ∉ p) (hpre : x ∉ pre) : p = pre := by
  rw [List.append_assoc] at h
  obtain ⟨y, h1, h2⟩ := split_before h hp
  cases y with
  | nil => simpa using h1.symm
  | cons c r =>
    simp only [List.cons_append, List.singleton_append, List.cons.injEq] at h2
    exact absurd (by rw [h1, ← h2.1]; simp) hpre

theorem evBytes_snoc_fin (l : List FS.Ev) : FS.evBytes (l ++ [.fin]) = FS.evBytes l := by
  rw [FS.evBytes_append]; simp [FS.evBytes]

/-- FIN on a frame boundary behind chunks only: the ending is `fin` and the recogniser's input is
    read off the reference automaton's tokens over the bytes — the same for every cutting -/
theorem tied_fin_exact {pre post : List FS.Ev} {toks : List Tok} {e : Ending} (hpre : OnlyChunks pre)
    (h : Tied (pre ++ .fin :: post) toks e)
    (hc : (FS.run FS.frameDec (.hdr []) (FS.evBytes pre)).1 = .hdr []) :
    e = .fin ∧ toks.map kind = kindsOf (FS.run FS.frameDec (.hdr []) (FS.evBytes pre)).2 := by
  obtain ⟨⟨taken, rest, eos, hsplit, htk, hT⟩, hk⟩ := h
  have hfin : FS.Ev.fin ∉ pre := fun hm => by obtain ⟨b, hb⟩ := hpre _ hm; cases hb
  have hpend : FS.Ev.pend ∉ pre := fun hm => by obtain ⟨b, hb⟩ := hpre _ hm; cases hb
  have hreset : ∀ c, FS.Ev.reset c ∉ pre := fun c hm => by obtain ⟨b, hb⟩ := hpre _ hm; cases hb
  simp only [FS.TakenOK, Bool.false_eq_true, if_false] at htk
  have key_false : eos = false → ∃ y, pre = taken ++ y ∧ rest = y ++ .fin :: post := by
    intro he
    rw [he] at htk
    exact split_before hsplit.symm (by simpa using htk.2)
  have key_true : eos = true → FS.evBytes taken = FS.evBytes pre := by
    intro he
    rw [he] at htk
    simp only [if_true] at htk
    obtain ⟨p, hp, hpf⟩ := htk.2
    rw [hp] at hsplit
    rw [hp, split_at hsplit.symm hpf hfin, evBytes_snoc_fin]
  have hend := (ending_of_term (e := e) (toks := toks)).1
  revert hend hk hT
  generalize (compile toks e).2 = t
  generalize itemToks (compile toks e).1 = all
  intro hk hT hend
  cases t with
  | fin =>
    obtain ⟨he, h1, h2⟩ := hT
    rw [key_true he] at h2
    refine ⟨hend rfl, ?_⟩
    rw [hk, h2]
    simp [protoToks]
  | truncated =>
    obtain ⟨he, h1⟩ := hT
    rw [key_true he, hc] at h1
    rcases h1 with ⟨acc, hne, h2, _⟩ | ⟨_, _, _, h2, _⟩
    · simp only [FS.PSt.hdr.injEq] at h2; exact absurd h2.symm hne
    · cases h2
  | open_ =>
    obtain ⟨he, _, _, hw⟩ := hT
    obtain ⟨y, h1, h2⟩ := key_false he
    rcases hw with hw | hw
    · rw [hw] at h2; simp at h2
    · exact absurd (by rw [h1]; exact List.mem_append_left _ hw) hpend
  | reset c =>
    obtain ⟨he, ⟨r, hr⟩, _⟩ := hT
    obtain ⟨y, h1, h2⟩ := key_false he
    rw [hr] at h2
    cases y with
    | nil => simp at h2
    | cons z y' =>
      simp only [List.cons_append, List.cons.injEq] at h2
      exact absurd (by rw [h1, ← h2.1]; simp) (hreset c)
  | proto err =>
    obtain ⟨h1, _⟩ := hT
    exfalso
    cases he : eos with
    | true =>
      rw [key_true he, hc] at h1
      cases h1
    | false =>
      obtain ⟨y, h2, _⟩ := key_false he
      rw [h2, FS.evBytes_append, FS.run_append, h1, FS.run_dead] at hc
      cases hc

/-- chunks only, stream still open, no protocol error in the bytes: the ending is `open_` and the
    recogniser's input is read off the reference automaton's tokens over all the bytes -/
theorem tied_open_exact {sc : List FS.Ev} {toks : List Tok} {e : Ending} (hsc : OnlyChunks sc)
    (h : Tied sc toks e) (hc : (FS.run FS.frameDec (.hdr []) (FS.evBytes sc)).1 ≠ .dead) :
    e = .open_ ∧ toks.map kind = kindsOf (FS.run FS.frameDec (.hdr []) (FS.evBytes sc)).2 := by
  obtain ⟨⟨taken, rest, eos, hsplit, htk, hT⟩, hk⟩ := h
  have hfin : FS.Ev.fin ∉ sc := fun hm => by obtain ⟨b, hb⟩ := hsc _ hm; cases hb
  have hpend : FS.Ev.pend ∉ sc := fun hm => by obtain ⟨b, hb⟩ := hsc _ hm; cases hb
  have hreset : ∀ c, FS.Ev.reset c ∉ sc := fun c hm => by obtain ⟨b, hb⟩ := hsc _ hm; cases hb
  simp only [FS.TakenOK, Bool.false_eq_true, if_false] at htk
  have key_true : eos = true → False := by
    intro he
    rw [he] at htk
    simp only [if_true] at htk
    obtain ⟨p, hp, _⟩ := htk.2
    exact hfin (by rw [hsplit, hp]; simp)
  have hend := (ending_of_term (e := e) (toks := toks)).2
  revert hend hk hT
  generalize (compile toks e).2 = t
  generalize itemToks (compile toks e).1 = all
  intro hk hT hend
  cases t with
  | fin => exact (key_true hT.1).elim
  | truncated => exact (key_true hT.1).elim
  | open_ =>
    obtain ⟨_, h2, _, hw⟩ := hT
    rcases hw with hw | hw
    · rw [hw, List.append_nil] at hsplit
      rw [← hsplit] at h2
      refine ⟨hend rfl, ?_⟩
      rw [hk, h2]
      simp [protoToks]
    · exact absurd (by rw [hsplit]; exact List.mem_append_left _ hw) hpend
  | reset c =>
    obtain ⟨_, ⟨r, hr⟩, _⟩ := hT
    exact absurd (by rw [hsplit, hr]; simp) (hreset c)
  | proto err =>
    obtain ⟨h1, _⟩ := hT
    exfalso
    apply hc
    rw [hsplit, FS.evBytes_append, FS.run_append, h1, FS.run_dead]

end H3.ReqRecv
