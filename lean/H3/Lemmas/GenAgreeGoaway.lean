import H3.Model.Goaway
import H3.Model.Drain
import H3.Gen.GoawayArms
import H3.Gen.CtlArms
import H3.Gen.Consts
/-! Agreement of the graceful-shutdown models (`H3.Goaway`, `H3.Drain`; C08, C09) with what the
    translator reads out of the Rust sources on every run (`H3.Gen.GoawayArms`; the GOAWAY arms of the
    role handlers are in `H3.Gen.CtlArms`): the order of the steps of `ConnectionInner::shutdown` and
    `process_goaway` with their comparison operators, the identifier the server announces, the
    accept / reject filter of `poll_accept_request_stream_internal` (operator, field read, codes, what
    follows a rejection), the bookkeeping behind it, the `Ok(None)` decision, the last `shutdown(0)` of
    `accept`, `poll_requests_completion`, the client's `shutdown` and the closing gate of
    `send_request`.

    Where the generated item is a list of steps it is *run* by an interpreter over the model's state
    and proved equal to the model's function; where it is an operator or a term it is evaluated and the
    model's definition is proved to compute the same. -/
namespace H3.GenAgree.Goaway
open H3.Goaway H3.Gen.Consts

def cmp : Gen.GoawayArms.Cmp → Nat → Nat → Bool
  | .lt, a, b => decide (a < b)
  | .le, a, b => decide (a ≤ b)
  | .gt, a, b => decide (a > b)
  | .ge, a, b => decide (a ≥ b)
  | .eq, a, b => decide (a = b)
  | .ne, a, b => decide (a ≠ b)

/-! ### `ConnectionInner::shutdown` -/

/-- the step list of `ConnectionInner::shutdown(sent_closing, new)` run on the model's state: the state
    reached and what the call showed (a GOAWAY frame written, `Ok(())`, or the connection error
    recorded before) -/
def runShutdown (new : Nat) : List Gen.GoawayArms.Op → State → Option (State × List Obs)
  | [], _ => none
  | .reportIfFailed :: r, s => if s.failed then some (s, [.shutdownErr]) else runShutdown new r s
  | .keepIf c :: r, s =>
    match s.sentClosing with
    | some prev => if cmp c prev new then some (s, [.shutdownOk]) else runShutdown new r s
    | none => runShutdown new r s
  | .store :: r, s => runShutdown new r { s with sentClosing := some new }
  | .setClosing :: r, s => runShutdown new r { s with closing := true }
  | .writeGoaway :: _, s => some (s, [.goaway new, .shutdownOk])
  | _ :: _, _ => none

/-- the application's `shutdown(n)` (`Goaway.step`): the error check first — a failed connection
    answers its error, writes nothing and leaves `sent_closing` alone —, then the only-if-lower test,
    the store, the closing flag, the frame -/
theorem shutdown_agrees (s : State) (n : Nat) :
    some (step s (.shutdown n)) = runShutdown (shutdownId s.largest n) Gen.GoawayArms.shutdown s := by
  simp only [Gen.GoawayArms.shutdown, runShutdown, step, shutdown, keepsPrevious]
  cases hf : s.failed with
  | true => simp
  | false =>
    cases h : s.sentClosing with
    | none => simp
    | some g =>
      simp only [cmp]
      by_cases hle : g ≤ shutdownId s.largest n <;> simp [hle]

/-- the same list without its error check is the model's `shutdown` (used by `accept` for its last
    GOAWAY, behind `accept`'s own look at the error) -/
theorem shutdown_unfailed (s : State) (n : Nat) (hf : s.failed = false) :
    some ((shutdown s n).1, (shutdown s n).2 ++ [Obs.shutdownOk]) =
      runShutdown (shutdownId s.largest n) Gen.GoawayArms.shutdown s := by
  rw [← shutdown_agrees]
  simp [step, hf]

/-- a failing write of the GOAWAY frame closes the connection with H3_CLOSED_CRITICAL_STREAM -/
theorem shutdown_write_codes :
    Gen.GoawayArms.shutdownWriteStoppedCode = CODE_H3_CLOSED_CRITICAL_STREAM ∧
    Gen.GoawayArms.shutdownWriteUnknownCode = CODE_H3_CLOSED_CRITICAL_STREAM := ⟨rfl, rfl⟩

/-! ### the identifier the server announces -/

def eval (largest arg : Nat) : Gen.GoawayArms.Term → Nat
  | .largest => largest
  | .arg => arg
  | .firstRequest => FIRST_REQUEST
  | .lit n => n
  | .add a b => StreamId.add (eval largest arg a) (eval largest arg b)
  | .satAdd a b => min (eval largest arg a + eval largest arg b) StreamId.U64MAX

theorem shutdownId_agrees (largest : Option Nat) (n : Nat) :
    shutdownId largest n =
      match largest with
      | some id => eval id n Gen.GoawayArms.shutdownIdSome
      | none => eval 0 n Gen.GoawayArms.shutdownIdNone := by
  cases largest <;> rfl

/-- `StreamId::FIRST_REQUEST` and `impl Add<usize> for StreamId` -/
theorem streamId_arith (id rhs : Nat) :
    FIRST_REQUEST = StreamId.new Gen.GoawayArms.FIRST_REQUEST_INDEX 0 0 ∧
    StreamId.add id rhs =
      StreamId.new (min (StreamId.satAdd (StreamId.index id) rhs)
        (StreamId.VARINT_MAX / 2 ^ Gen.GoawayArms.ADD_INDEX_CAP_SHIFT)) (StreamId.dir id) (StreamId.initiator id) :=
  ⟨rfl, rfl⟩

/-! ### `process_goaway` -/

def runProcess (new : Nat) : List Gen.GoawayArms.Op → State → Option State
  | [], _ => none
  | .failIf c _ :: r, s =>
    match s.recvClosing with
    | some prev => if cmp c prev new then some { s with failed := true } else runProcess new r s
    | none => runProcess new r s
  | .store :: r, s => runProcess new r { s with recvClosing := some new }
  | .setClosing :: r, s => runProcess new r { s with closing := true }
  | .ok :: _, s => some s
  | _ :: _, _ => none

theorem processGoaway_agrees (s : State) (id : Nat) :
    some (processGoaway s id) = runProcess id Gen.GoawayArms.processGoaway s := by
  simp only [Gen.GoawayArms.processGoaway, runProcess, processGoaway, largerThanBefore]
  cases h : s.recvClosing with
  | none => simp
  | some p =>
    simp only [cmp]
    by_cases hlt : p < id <;> simp [hlt]

/-- the connection error of an increasing identifier is H3_ID_ERROR -/
theorem processGoaway_code :
    (Gen.GoawayArms.processGoaway.filterMap fun o => match o with | .failIf _ c => some c | _ => none) =
      [CODE_H3_ID_ERROR] := rfl

/-- what the role handlers do with a GOAWAY frame: the server passes the identifier on, the client
    first refuses an identifier that is not a request stream ID (H3_ID_ERROR) -/
theorem goaway_handlers :
    Gen.CtlArms.server .goaway = .goaway ∧ Gen.CtlArms.client .goaway = .goawayRequestId CODE_H3_ID_ERROR :=
  ⟨rfl, rfl⟩

theorem procCtlServer_cons (s : State) (id : Nat) (rest : List Nat) :
    procCtlServer s (id :: rest) =
      match runProcess id Gen.GoawayArms.processGoaway s with
      | some s' => if s'.failed then { s' with ctl := rest } else procCtlServer s' rest
      | none => s := by
  rw [← processGoaway_agrees]
  rfl

theorem procCtlClient_cons (s : State) (id : Nat) (rest : List Nat) :
    procCtlClient s (id :: rest) =
      if StreamId.isRequest id then
        match runProcess id Gen.GoawayArms.processGoaway s with
        | some s' => if s'.failed then { s' with ctl := rest } else procCtlClient s' rest
        | none => s
      else { s with failed := true, ctl := rest } := by
  rw [← processGoaway_agrees]
  rfl

/-! ### the accept / reject filter, the bookkeeping, the `Ok(None)` decision -/

def holds (refused : Bool) (s : State) : Gen.GoawayArms.Cond → Bool
  | .recvClosingIsSome => s.recvClosing.isSome
  | .sentClosingIsSome => s.sentClosing.isSome
  /- `poll_requests_completion(cx).is_ready()`: nothing is left in `ongoing_streams` once the
     channel has been emptied (the model: completions are seen at once) -/
  | .requestsCompleted => s.ongoing.isEmpty
  /- the local flag the reject branch raises -/
  | .rejectedHere => refused

/-- a conjunction of alternatives -/
def allAny (f : Gen.GoawayArms.Cond → Bool) (cs : List (List Gen.GoawayArms.Cond)) : Bool := cs.all (·.any f)

/-- `if let Some(max_id) = self.sent_closing { if s.send_id() <cmp> max_id { … } }` -/
theorem rejects_agrees (sent : Option Nat) (id : Nat) :
    rejects sent id =
      match sent with
      | some maxId => cmp Gen.GoawayArms.rejectCmp id maxId
      | none => false := by
  cases sent <;> rfl

/-- `Poll::Pending` of the transport: `Ok(None)` iff every generated condition holds -/
theorem drained_agrees (refused : Bool) (s : State) :
    drained refused s = allAny (holds refused s) Gen.GoawayArms.pendingDone := by
  simp [drained, Gen.GoawayArms.pendingDone, holds, allAny]

/-- the poll function answered `None`: `accept` sends the last GOAWAY with the generated argument -/
def genAcceptNone (s : State) : Option (State × List Obs) :=
  Gen.GoawayArms.acceptNoneShutdown.map fun n => ((shutdown s n).1, (shutdown s n).2 ++ [.acceptNone])

theorem acceptNone_agrees (s : State) : some (acceptNone s) = genAcceptNone s := rfl

/-- behind the filter -/
def runSurface (id : Nat) (rest : List Nat) : List Gen.GoawayArms.SurfOp → State → Option (State × List Obs)
  | [], _ => none
  | .largestMax :: r, s => runSurface id rest r { s with largest := some (maxOpt s.largest id) }
  | .largestOverwrite :: r, s => runSurface id rest r { s with largest := some id }
  | .ongoingInsert :: r, s => runSurface id rest r { s with ongoing := id :: s.ongoing }
  | .surface :: _, s => some ({ s with incoming := rest }, [.surfaced id])

theorem surface_agrees (s : State) (id : Nat) (rest : List Nat) :
    some (surface s id rest, [Obs.surfaced id]) = runSurface id rest Gen.GoawayArms.surfaceOps s := rfl

/-- what the reject branch does besides closing the stream -/
inductive RejReading where
  /-- `Ok(None)` at once under this condition, else the next stream of the queue (the shape before
      the D-08b repair; the model has no such exit) -/
  | noneIfElseNext (c : Gen.GoawayArms.Cond)
  /-- the flag is raised (or left alone), then the next stream of the queue -/
  | next (mark : Bool)
deriving DecidableEq

/-- the reject branch: both directions of the stream are closed with H3_REQUEST_REJECTED (the
    model's observation `rejected id`); then the rest as read by `RejReading` -/
def rejectReading : List Gen.GoawayArms.RejOp → Option RejReading
  | [.stopSending a, .reset b, .noneIf c, .next] =>
    if a = CODE_H3_REQUEST_REJECTED ∧ b = CODE_H3_REQUEST_REJECTED then some (.noneIfElseNext c) else none
  | [.stopSending a, .reset b, .markRejected, .next] =>
    if a = CODE_H3_REQUEST_REJECTED ∧ b = CODE_H3_REQUEST_REJECTED then some (.next true) else none
  | [.stopSending a, .reset b, .next] =>
    if a = CODE_H3_REQUEST_REJECTED ∧ b = CODE_H3_REQUEST_REJECTED then some (.next false) else none
  | _ => none

/-- the loop of `poll_accept_request_stream_internal` written over the generated items -/
def genAcceptLoop (refused : Bool) (s : State) : List Nat → Option (State × List Obs)
  | [] =>
    let s0 := { s with incoming := [] }
    if allAny (holds refused s0) Gen.GoawayArms.pendingDone then genAcceptNone s0 else some (s0, [.acceptPending])
  | id :: rest =>
    let rej := match s.sentClosing with
      | some maxId => cmp Gen.GoawayArms.rejectCmp id maxId
      | none => false
    if rej then
      match rejectReading Gen.GoawayArms.rejectOps with
      | none => none
      | some (.noneIfElseNext c) =>
        if holds refused s c then
          (genAcceptNone { s with incoming := rest }).map fun r => (r.1, .rejected id :: r.2)
        else (genAcceptLoop refused s rest).map fun r => (r.1, .rejected id :: r.2)
      | some (.next mark) => (genAcceptLoop (refused || mark) s rest).map fun r => (r.1, .rejected id :: r.2)
    else runSurface id rest Gen.GoawayArms.surfaceOps s

/-- the model's loop is the generated one: a refusal raises the flag and goes on with the queue (no
    `None` from inside the reject branch), `None` is decided only with an empty queue — under the
    generated condition, which reads the flag -/
theorem acceptLoop_agrees (refused : Bool) (s : State) (l : List Nat) :
    some (acceptLoop refused s l) = genAcceptLoop refused s l := by
  induction l generalizing refused with
  | nil =>
    simp only [acceptLoop, genAcceptLoop, ← drained_agrees, ← acceptNone_agrees]
    split <;> rfl
  | cons id rest ih =>
    simp only [acceptLoop, genAcceptLoop, ← rejects_agrees, ← surface_agrees]
    by_cases hr : rejects s.sentClosing id = true
    · simp only [hr, if_true]
      have : rejectReading Gen.GoawayArms.rejectOps = some (.next true) := rfl
      simp only [this, Bool.or_true, ← ih]
      rfl
    · simp [hr]

/-- the flag starts lowered: `accept` enters the loop with `refused = false` -/
theorem accept_enters_unrefused (s : State) (hf : s.failed = false) (hf1 : (procCtlServer s s.ctl).failed = false) :
    some (accept s) = genAcceptLoop false (procCtlServer s s.ctl) (procCtlServer s s.ctl).incoming := by
  rw [← acceptLoop_agrees]
  simp [accept, hf, hf1]

/-! ### `poll_requests_completion` (`H3.Drain`) -/

/-- the loop over the request-end channel: an identifier taken out of the channel is removed from
    `ongoing_streams` and the loop goes on; a closed channel ends it; with nothing waiting the
    answer is `Ready` iff `ongoing_streams` is empty -/
def drainChan (ongoing : List Nat) : List Nat → Option (List Nat)
  | [] => some ongoing
  | id :: chan =>
    match Gen.GoawayArms.completionOnId with
    | .removeAndLoop => drainChan (ongoing.filter (· != id)) chan
    | _ => none

theorem removeAll_agrees (ongoing chan : List Nat) : some (Drain.removeAll ongoing chan) = drainChan ongoing chan := by
  induction chan generalizing ongoing with
  | nil => simp [Drain.removeAll, drainChan]
  | cons id chan ih =>
    simp only [drainChan, Gen.GoawayArms.completionOnId, ← ih]
    congr 1
    simp only [Drain.removeAll, List.filter_filter]
    apply List.filter_congr
    intro x _
    by_cases hx : x = id <;> simp [hx]

theorem completion_ends :
    Gen.GoawayArms.completionOnClosed = .ready ∧ Gen.GoawayArms.completionOnEmpty = .readyIfNoneOngoing :=
  ⟨rfl, rfl⟩

def dholds (s : Drain.State) : Gen.GoawayArms.Cond → Bool
  | .recvClosingIsSome => s.recvClosing
  | .sentClosingIsSome => false       -- no local `shutdown` in `H3.Drain`
  | .requestsCompleted => s.ongoing.isEmpty
  | .rejectedHere => false            -- … hence no stream is ever rejected there

/-- the `Ok(None)` decision of the drain model is the generated conjunction -/
theorem verdict_agrees (s : Drain.State) :
    Drain.verdict s =
      if allAny (dholds s) Gen.GoawayArms.pendingDone then ({ s with inFlight := false }, [.acceptNone])
      else (s, [.acceptPending]) := by
  simp [Drain.verdict, Gen.GoawayArms.pendingDone, dholds, allAny]

/-! ### the client -/

/-- `Connection::shutdown` of the client announces push identifier 0 whatever its argument;
    `send_request` has exactly two gates: it begins with one (`Goaway.sendCall`), and the statement
    right behind `poll_open_bidi(..).await` — where the call may have waited for stream credit — is
    the other (`Goaway.sendOpened`), in front of the statement that writes the request; the gate
    reads `SharedState.closing` — the flag `set_closing()` raises in `shutdown` and `process_goaway`
    — and answers `RemoteClosing` -/
theorem client_items :
    Gen.GoawayArms.clientShutdownId = 0 ∧
    Gen.GoawayArms.sendRequestGates = [0, Gen.GoawayArms.sendRequestOpenIndex + 1] ∧
    Gen.GoawayArms.sendRequestOpenIndex + 1 < Gen.GoawayArms.sendRequestWriteIndex ∧
    Gen.GoawayArms.gateError = "RemoteClosing" ∧ Gen.GoawayArms.setClosingStores = true :=
  ⟨rfl, rfl, by decide, rfl, rfl⟩

theorem sendCall_gate (s : State) :
    sendCall s =
      if s.closing = Gen.GoawayArms.setClosingStores then (s, [.remoteClosing])
      else ({ s with parked := s.parked + 1 }, []) := by
  simp only [sendCall, Gen.GoawayArms.setClosingStores]
  cases s.closing <;> rfl

theorem sendOpened_gate (s : State) (hp : s.parked ≠ 0) :
    sendOpened s =
      if s.closing = Gen.GoawayArms.setClosingStores then
        ({ s with parked := s.parked - 1, opened := s.opened + 1 }, [.unused (4 * s.opened), .remoteClosing])
      else ({ s with parked := s.parked - 1, opened := s.opened + 1 }, [.opened (4 * s.opened)]) := by
  simp only [sendOpened, Gen.GoawayArms.setClosingStores, hp, if_false]
  cases s.closing <;> rfl

end H3.GenAgree.Goaway
