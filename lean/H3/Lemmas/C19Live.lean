import H3.Lemmas.C19IO
import H3.Lemmas.FrameLaws
/-! Liveness of the WebTransport bidi header (C19): polling `poll_next` again after every `Pending`
    reaches the WebTransport frame before the transport script is used up, for every cutting of
    `hdr ++ payload`.  Generic in the frame decoder (three laws + "the decoder reads `hdr` as the
    frame `f` whatever follows"). -/
namespace H3.FS
variable {F E : Type}

def Out.isPending : Out F E → Bool
  | .pending => true
  | _ => false

/-- `poll_next` polled again and again: after a `Pending` answer the caller is woken when the
    transport has more to say (the rest of the script is not empty) and polls again; any other
    answer — and a `Pending` with nothing more to come — is the result.  `fuel` bounds the number
    of polls. -/
def pollUntil (D : Dec F E) : Nat → St → List Ev → Out F E × St × List Ev
  | 0, s, sc => (.pending, s, sc)
  | fuel+1, s, sc =>
    if (pollNext D s sc).1.isPending && !(pollNext D s sc).2.2.isEmpty then
      pollUntil D fuel (pollNext D s sc).2.1 (pollNext D s sc).2.2
    else pollNext D s sc

/-- where the re-polling reader stops (not on an error) is a reachable configuration, with the
    tokens of its answer handed out (`Pending` answers hand out nothing) -/
theorem pollUntil_reach (D : Dec F E) (sc0 : List Ev) : ∀ (fuel : Nat) (toks : List (Tok F E)) (s : St)
    (script : List Ev), Reach D sc0 toks s script → ∀ (o : Out F E) (s' : St) (r : List Ev),
    pollUntil D fuel s script = (o, s', r) → o.isErr = false → Reach D sc0 (toks ++ o.toks) s' r := by
  intro fuel
  induction fuel with
  | zero =>
    intro toks s script hR o s' r h _
    simp only [pollUntil, Prod.mk.injEq] at h
    obtain ⟨rfl, rfl, rfl⟩ := h
    simpa [Out.toks] using hR
  | succ fuel ih =>
    intro toks s script hR o s' r h hne
    rw [pollUntil] at h
    split at h
    · rename_i hc
      have hpend : (pollNext D s script).1 = .pending := by
        simp only [Bool.and_eq_true] at hc
        cases ho : (pollNext D s script).1 <;> rw [ho] at hc <;> simp [Out.isPending] at hc
      have hR' : Reach D sc0 (toks ++ (Out.pending : Out F E).toks) (pollNext D s script).2.1
          (pollNext D s script).2.2 :=
        Reach.next hR (by rw [← hpend]) rfl
      simp only [Out.toks, List.append_nil] at hR'
      exact ih toks _ _ hR' o s' r h hne
    · exact Reach.next hR h hne

/-! ### every poll that takes something from the transport shortens the script -/

theorem pollNextLoop_len (D : Dec F E) : ∀ (script : List Ev) (s : St),
    (pollNextLoop D s script).2.2.length ≤ script.length := by
  intro script
  induction script with
  | nil =>
    intro s
    rw [pollNextLoop]
    split
    · split <;> simp
    · split <;> simp
  | cons ev r ih =>
    intro s
    cases ev with
    | pend =>
      rw [pollNextLoop]
      split
      · split <;> simp
      · split <;> simp
    | fin =>
      rw [pollNextLoop]
      split
      · split <;> simp
      · split <;> simp
    | reset c =>
      rw [pollNextLoop]
      split
      · split <;> simp
      · simp
    | chunk b =>
      rw [pollNextLoop]
      split
      · split <;> simp
      · simp only
        split
        · simp
        · split
          · exact Nat.le_trans (ih _) (by simp)
          · simp

theorem pollNextLoop_shorter (D : Dec F E) (s : St) (ev : Ev) (r : List Ev) (heos : s.eos = false)
    (hev : ∀ c, ev ≠ .reset c) : (pollNextLoop D s (ev :: r)).2.2.length ≤ r.length := by
  have hne : ¬ (s.eos = true) := by simp [heos]
  cases ev with
  | pend => rw [pollNextLoop, if_neg hne]; split <;> simp
  | fin => rw [pollNextLoop, if_neg hne]; split <;> simp
  | reset c => exact absurd rfl (hev c)
  | chunk b =>
    rw [pollNextLoop, if_neg hne]
    simp only
    split
    · simp
    · split
      · exact pollNextLoop_len D _ _
      · simp

/-! ### what the reference automaton does on a prefix of `hdr ++ payload` -/

/-- on a prefix `x` of `hdr ++ payload`, `hdr` being read as the frame `f` whatever follows: the
    automaton is still inside the header and has emitted nothing, or its first token is `frame f` -/
theorem run_prefix_of_header (D : Dec F E) (L : Laws D) (hdr payload : Bytes) (f : F)
    (hdec : ∀ p, D.dec (hdr ++ p) = .frame f hdr.length)
    (x rest : Bytes) (hx : x ++ rest = hdr ++ payload) :
    (x.length < hdr.length ∧ run D (.hdr []) x = (.hdr x, [])) ∨
    (∃ p t, run D (.hdr []) x = (p, .frame f :: t)) := by
  have hd0 : D.dec hdr = .frame f hdr.length := by simpa using hdec []
  have hpos0 : (D.dec hdr).pos? = some hdr.length := by rw [hd0]; rfl
  rcases Nat.lt_or_ge x.length hdr.length with hlt | hge
  · left
    refine ⟨hlt, ?_⟩
    have hc : ∀ i, i ≤ x.length → x.take i = hdr.take i := by
      intro i hi
      have h1 := congrArg (List.take i) hx
      rwa [List.take_append_of_le_length hi, List.take_append_of_le_length (by omega)] at h1
    have hmin := (L.minimal hdr hdr.length hpos0).1
    exact run_hdr_incomplete D x (by
      intro i hi _
      rw [hc i hi]
      exact hmin i (by omega))
  · right
    have hc : x = hdr ++ payload.take (x.length - hdr.length) := split_of_append_eq hx hge
    generalize payload.take (x.length - hdr.length) = d at hc
    subst hc
    have hpos : (D.dec (hdr ++ d)).pos? = some hdr.length := by rw [hdec d]; rfl
    have hr := run_of_pos D L (hdr ++ d) hdr.length hpos
    rw [hdec d] at hr
    simp only [DecRes.fed, List.drop_left] at hr
    rw [hr]
    exact ⟨_, _, rfl⟩

theorem PSt.ofRem_eq_hdr {r : Nat} {c : Bytes} (h : PSt.ofRem r = .hdr c) : r = 0 ∧ c = [] := by
  unfold PSt.ofRem at h
  split at h
  · rename_i h0
    exact ⟨h0, by injection h with h; exact h.symm⟩
  · cases h

/-- as long as no token has been handed out, nothing has been consumed: the buffer holds every byte
    taken from the transport, and the stream is not in payload mode -/
theorem flat_of_no_tok (D : Dec F E) (L : Laws D) (hdr payload : Bytes) (f : F)
    (hdec : ∀ p, D.dec (hdr ++ p) = .frame f hdr.length)
    (seen more : Bytes) (s : St) (hI : Inv D seen [] s) (hall : seen ++ more = hdr ++ payload) :
    s.remaining = 0 ∧ s.flat = seen := by
  obtain ⟨consumed, hseen, hrun⟩ := hI.split
  have hx : consumed ++ (s.flat ++ more) = hdr ++ payload := by
    rw [← List.append_assoc, ← hseen, hall]
  rcases run_prefix_of_header D L hdr payload f hdec consumed _ hx with ⟨_, h⟩ | ⟨p, t, h⟩
  · rw [h] at hrun
    simp only [Prod.mk.injEq, and_true] at hrun
    obtain ⟨h0, hc⟩ := PSt.ofRem_eq_hdr hrun.symm
    exact ⟨h0, by rw [hseen, hc, List.nil_append]⟩
  · rw [h] at hrun
    simp at hrun

/-- once every byte of `hdr ++ payload` has been taken from the transport and no token has been
    handed out, the buffer decodes: the state is not `Stuck` -/
theorem not_stuck_of_all (D : Dec F E) (L : Laws D) (hdr payload : Bytes) (f : F)
    (hdec : ∀ p, D.dec (hdr ++ p) = .frame f hdr.length)
    (seen : Bytes) (s : St) (hI : Inv D seen [] s) (hall : seen = hdr ++ payload)
    (hst : Stuck D s) : False := by
  obtain ⟨_, hflat⟩ := flat_of_no_tok D L hdr payload f hdec seen [] s hI (by simpa using hall)
  rw [hall] at hflat
  rcases hst with h | h
  · rw [hflat] at h
    have hn : hdr = [] := (List.append_eq_nil_iff.mp h).1
    have h1 := hdec []
    have h2 := L.nil
    rw [hn] at h1
    simp only [List.append_nil] at h1
    rw [h1] at h2
    cases h2
  · rw [hflat, hdec payload] at h
    cases h

/-! ### a RESET is reported only from a state in which nothing decodes -/

private theorem afterRecv_not_errQuic (D : Dec F E) (L : Laws D) (seen : Bytes) (toks : List (Tok F E))
    (s : St) (hI : Inv D seen toks s) (h0 : s.remaining = 0) (e : End) (script : List Ev)
    (fb : Out F E × St × List Ev) (c : Nat) (s' : St) (script' : List Ev)
    (h : (match afterRecv D s e with
          | some (o, s1) => (o, s1, script)
          | none => fb) = (.errQuic c, s', script')) :
    afterRecv D s e = none ∧ fb = (.errQuic c, s', script') := by
  have hA := afterRecv_spec D L seen toks s hI h0 e
  cases hres : afterRecv D s e with
  | none => rw [hres] at h; exact ⟨rfl, h⟩
  | some p =>
    obtain ⟨o, s1⟩ := p
    rw [hres] at h hA
    simp only [Prod.mk.injEq] at h
    obtain ⟨rfl, rfl, rfl⟩ := h
    simp only [AfterSpec] at hA

theorem pollNextLoop_errQuic_stuck (D : Dec F E) (L : Laws D) (script : List Ev) :
    ∀ (seen : Bytes) (toks : List (Tok F E)) (s : St), Inv D seen toks s → s.remaining = 0 →
      ScriptOK script → Stuck D s → ∀ (c : Nat) (s' : St) (script' : List Ev),
      pollNextLoop D s script = (.errQuic c, s', script') → Stuck D s' := by
  induction script with
  | nil =>
    intro seen toks s hI h0 _ hst c s' script' h
    rw [pollNextLoop] at h
    split at h
    · have := (afterRecv_not_errQuic D L seen toks s hI h0 _ _ _ c s' script' h).2
      cases this
    · have := (afterRecv_not_errQuic D L seen toks s hI h0 _ _ _ c s' script' h).2
      cases this
  | cons ev r ih =>
    intro seen toks s hI h0 hsc hst c s' script' h
    cases ev with
    | pend =>
      rw [pollNextLoop] at h
      split at h
      · have := (afterRecv_not_errQuic D L seen toks s hI h0 _ _ _ c s' script' h).2
        cases this
      · have := (afterRecv_not_errQuic D L seen toks s hI h0 _ _ _ c s' script' h).2
        cases this
    | fin =>
      rw [pollNextLoop] at h
      split at h
      · have := (afterRecv_not_errQuic D L seen toks s hI h0 _ _ _ c s' script' h).2
        cases this
      · have hI' : Inv D seen toks { s with eos := true } := ⟨hI.ne, hI.split, hI.exp, hI.expData⟩
        have := (afterRecv_not_errQuic D L seen toks _ hI' h0 _ _ _ c s' script' h).2
        cases this
    | reset c0 =>
      rw [pollNextLoop] at h
      split at h
      · have := (afterRecv_not_errQuic D L seen toks s hI h0 _ _ _ c s' script' h).2
        cases this
      · simp only [Prod.mk.injEq] at h
        rw [← h.2.1]; exact hst
    | chunk b =>
      rw [pollNextLoop] at h
      split at h
      · have := (afterRecv_not_errQuic D L seen toks s hI h0 _ _ _ c s' script' h).2
        cases this
      · have hb : b ≠ [] := hsc b (by simp)
        have hI1 := inv_push D seen toks s b hI hb
        simp only at h
        obtain ⟨hnone, h⟩ := afterRecv_not_errQuic D L (seen ++ b) toks (s.push b) hI1 h0 _ _ _ c s' script' h
        have hA := afterRecv_spec D L (seen ++ b) toks (s.push b) hI1 h0 .more
        rw [hnone] at hA
        obtain ⟨_, d, exp, hdl, hI2, hst2⟩ := hA
        simp only [hdl] at h
        exact ih (seen ++ b) toks _ hI2 h0 (fun b' hb' => hsc b' (by simp [hb'])) hst2 c s' script' h

/-! ### the first token is the first frame of the byte string, unless that one is skipped -/

/-- if the automaton, over `w`, has emitted exactly one token and it is `frame g`, and the decoder
    does not skip the first frame of `w` as unknown, then `w` itself starts with the frame `g` -/
theorem first_frame_of_run (D : Dec F E) (L : Laws D) (w : Bytes) (g : F) (p : PSt)
    (hrun : run D (.hdr []) w = (p, [.frame g])) (hun : ∀ n, D.dec w ≠ .unknown n) :
    ∃ n, D.dec w = .frame g n := by
  cases hd : D.dec w with
  | incomplete m =>
    have hinc : (D.dec w).isIncomplete = true := by rw [hd]; rfl
    have := run_hdr_incomplete D w (fun i _ _ => prefix_incomplete D L w hinc i)
    rw [this] at hrun
    simp at hrun
  | unknown n => exact absurd hd (hun n)
  | error e =>
    rw [run_of_error D L w e hd] at hrun
    simp at hrun
  | frame f n =>
    have hpos : (D.dec w).pos? = some n := by rw [hd]; rfl
    have hr := run_of_pos D L w n hpos
    rw [hd] at hr
    simp only [DecRes.fed] at hr
    rw [hr] at hrun
    simp only [Prod.mk.injEq, List.singleton_append, List.cons.injEq, Tok.frame.injEq] at hrun
    exact ⟨n, by rw [hrun.2.1]⟩

end H3.FS

namespace H3.Session
open H3.FS
variable {F E : Type}

theorem evBytes_nil_behind_fin (pre r : List Ev) (h : EndLast (pre ++ .fin :: r)) : evBytes r = [] :=
  endLast_suffix pre (.fin :: r) h

theorem evBytes_nil_of_reset (c : Nat) (r : List Ev) (h : EndLast (.reset c :: r)) :
    evBytes (.reset c :: r) = [] := h

/-- **Liveness of a raw-mode header.**  `hdr` is read by the decoder as the frame `f` whatever
    follows; the script `sc0` carries `hdr ++ payload` in any cutting, with `Pending` anywhere and
    nothing delivered behind FIN / RESET.  From any configuration reached without a token having
    been handed out, in which nothing that is buffered decodes and the end of the stream has not
    been seen (in particular the initial one), `poll_next` polled again after every `Pending`
    answers `frame f` — not `Pending` with the script used up, not an error, not the end of the
    stream — and the configuration it stops in is reachable with exactly that token handed out. -/
theorem pollUntil_answers (D : Dec F E) (L : Laws D) (hdr payload : Bytes) (f : F)
    (hdec : ∀ p, D.dec (hdr ++ p) = .frame f hdr.length)
    (sc0 : List Ev) (hsc : ScriptOK sc0) (hend : EndLast sc0) (hbytes : evBytes sc0 = hdr ++ payload) :
    ∀ (fuel : Nat) (s : St) (script : List Ev), Reach D sc0 [] s script → Stuck D s → s.eos = false →
      script.length < fuel →
      ∃ s' rest, pollUntil D fuel s script = (.frame f, s', rest) ∧ Reach D sc0 [.frame f] s' rest := by
  intro fuel
  induction fuel with
  | zero => intro s script _ _ _ h; omega
  | succ fuel ih =>
    intro s script hR hst heos hfuel
    obtain ⟨taken, hsc0, htk, hI⟩ := reach_inv D L sc0 hsc hR
    have hall : evBytes taken ++ evBytes script = hdr ++ payload := by
      rw [← evBytes_append, ← hsc0, hbytes]
    obtain ⟨h0, hflat⟩ := flat_of_no_tok D L hdr payload f hdec _ _ s hI hall
    have hscS : ScriptOK script := by rw [hsc0] at hsc; exact scriptOK_suffix hsc
    have hpl : pollNext D s script = pollNextLoop D s script := by
      unfold pollNext; rw [if_neg (by simp [h0])]
    rcases pollNext_preserves D L _ [] s script hI hscS with ⟨hne, _⟩ | ⟨_, hp⟩
    · exact absurd h0 hne
    cases hres : pollNext D s script with
    | mk o rest' =>
    obtain ⟨s', script'⟩ := rest'
    rw [hres] at hp
    obtain ⟨tk, hscr, htk', hout⟩ := hp
    have hall' : (evBytes taken ++ evBytes tk) ++ evBytes script' = hdr ++ payload := by
      rw [List.append_assoc, ← evBytes_append, ← hscr, hall]
    have hendS : EndLast script := by rw [hsc0] at hend; exact endLast_suffix taken script hend
    have hend' : EndLast script' := by rw [hscr] at hendS; exact endLast_suffix tk script' hendS
    -- every byte delivered + nothing decodes: impossible
    have hdone : evBytes script' = [] → Inv D (evBytes taken ++ evBytes tk) [] s' → Stuck D s' → False := by
      intro hnil hI' hst'
      rw [hnil, List.append_nil] at hall'
      exact not_stuck_of_all D L hdr payload f hdec _ s' hI' hall' hst'
    have hfinBehind : s'.eos = true → evBytes script' = [] := by
      intro he
      rw [heos, he] at htk'
      simp only [TakenOK, Bool.false_eq_true, if_false, if_true] at htk'
      obtain ⟨pre, hpre, _⟩ := htk'.2
      rw [hscr, hpre, List.append_assoc] at hendS
      exact evBytes_nil_behind_fin pre script' hendS
    cases o with
    | frame f' =>
      have hf : f' = f := by
        have hI' : Inv D (evBytes taken ++ evBytes tk) ([] ++ [.frame f']) s' := hout
        obtain ⟨consumed, hseen, hrun⟩ := hI'.split
        have hx : consumed ++ (s'.flat ++ evBytes script') = hdr ++ payload := by
          rw [← List.append_assoc, ← hseen, hall']
        rcases run_prefix_of_header D L hdr payload f hdec consumed _ hx with ⟨_, h⟩ | ⟨p, t, h⟩
        · rw [h] at hrun; simp at hrun
        · rw [h] at hrun
          simp only [List.nil_append, Prod.mk.injEq, List.cons.injEq, Tok.frame.injEq] at hrun
          exact hrun.2.1.symm
      subst hf
      refine ⟨s', script', ?_, Reach.next hR hres rfl⟩
      simp only [pollUntil, hres, Out.isPending, Bool.false_and, Bool.false_eq_true, if_false]
    | pending =>
      obtain ⟨hI', hst', heos', h0'⟩ := hout
      by_cases hnil : script' = []
      · exact (hdone (by rw [hnil]; rfl) hI' hst').elim
      · have hR' : Reach D sc0 [] s' script' := Reach.next hR hres rfl
        have hlt : script'.length < fuel := by
          cases hscript : script with
          | nil =>
            rw [hscript] at hscr
            have := (List.append_eq_nil_iff.mp hscr.symm).2
            exact absurd this hnil
          | cons ev r =>
            rw [hscript] at hres hpl hfuel
            have hev : ∀ c, ev ≠ .reset c := by
              intro c hc
              subst hc
              rw [hpl, pollNextLoop, if_neg (by simp [heos])] at hres
              cases hres
            have := pollNextLoop_shorter D s ev r heos hev
            rw [← hpl, hres] at this
            simp only [List.length_cons] at hfuel
            simp only at this
            omega
        obtain ⟨s2, rest2, hpu, hR2⟩ := ih s' script' hR' hst' heos' hlt
        refine ⟨s2, rest2, ?_, hR2⟩
        have hne : script'.isEmpty = false := by
          cases script' with
          | nil => exact absurd rfl hnil
          | cons _ _ => rfl
        simp only [pollUntil, hres, Out.isPending, hne, Bool.not_false, Bool.and_self, if_true]
        exact hpu
    | none =>
      obtain ⟨hI', hfl, he, _⟩ := hout
      exact (hdone (hfinBehind he) hI' (Or.inl hfl)).elim
    | errEnd =>
      obtain ⟨hI', _, hinc, he, _⟩ := hout
      exact (hdone (hfinBehind he) hI' (Or.inr hinc)).elim
    | errQuic c =>
      obtain ⟨hI', ⟨r, hr⟩, _⟩ := hout
      have hst' : Stuck D s' := by
        rw [hpl] at hres
        exact pollNextLoop_errQuic_stuck D L script _ [] s hI h0 hscS hst c s' script' hres
      have hnil : evBytes script' = [] := by
        rw [hr] at hend' ⊢
        exact evBytes_nil_of_reset c r hend'
      exact (hdone hnil hI' hst').elim
    | errProto e =>
      obtain ⟨consumed, n, hseen, hrun, hn1, hn2, hdead⟩ := hout
      exfalso
      have hx : consumed ++ (s'.flat ++ evBytes script') = hdr ++ payload := by
        rw [← List.append_assoc, ← hseen, hall']
      have hc : consumed = [] := by
        rcases run_prefix_of_header D L hdr payload f hdec consumed _ hx with ⟨_, h⟩ | ⟨p, t, h⟩
        · rw [h] at hrun
          simp only [Prod.mk.injEq, PSt.hdr.injEq, and_true] at hrun
          exact hrun
        · rw [h] at hrun; simp at hrun
      rw [hc, List.nil_append] at hx
      have hx2 : s'.flat.take n ++ (s'.flat.drop n ++ evBytes script') = hdr ++ payload := by
        rw [← List.append_assoc, List.take_append_drop, hx]
      rcases run_prefix_of_header D L hdr payload f hdec _ _ hx2 with ⟨_, h⟩ | ⟨p, t, h⟩
      · rw [h] at hdead; simp at hdead
      · rw [h] at hdead; simp at hdead
    | data _ => exact hout.elim
    | panic => exact hout.elim

end H3.Session
