import H3.Lemmas.FrameStreamReader
/-! Two facts about single `poll_next` calls of the `FrameStream` model that the composition with
    the request layer (`H3/Lemmas/ReqLift.lean`) needs in addition to `pollNextLoop_spec`:
    `remaining_data` after a frame answer is the length its kind announces, and a stream that has
    ended with nothing buffered answers `None` (again). -/
namespace H3.FS
variable {F E : Type}

theorem afterRecv_frame_rem (D : Dec F E) (s : St) (e : End) (f : F) (s' : St)
    (h : afterRecv D s e = some (.frame f, s')) : s'.remaining = (D.kind f).rem := by
  unfold afterRecv at h
  cases hdl : decLoop D (s.flat.length + 1) s.flat s.expected 0 with
  | frame d f' =>
    rw [hdl] at h
    simp only [Option.some.injEq, Prod.mk.injEq, Out.frame.injEq] at h
    obtain ⟨rfl, rfl⟩ := h
    cases D.kind f' <;> rfl
  | error d exp e' =>
    rw [hdl] at h
    simp only [Option.some.injEq, Prod.mk.injEq] at h
    exact absurd h.1 (by intro hc; cases hc)
  | none d exp =>
    rw [hdl] at h
    cases e with
    | more => cases h
    | pending =>
      simp only [Option.some.injEq, Prod.mk.injEq] at h
      exact absurd h.1 (by intro hc; cases hc)
    | eos =>
      simp only at h
      split at h <;>
        (simp only [Option.some.injEq, Prod.mk.injEq] at h
         exact absurd h.1 (by intro hc; cases hc))

/-- a branch of `poll_next` that answers what the decode step answered -/
theorem match_afterRecv_frame (D : Dec F E) (sX sP : St) (eX : End) (r script' : List Ev) (f : F)
    (s' : St)
    (h : (match afterRecv D sX eX with
          | some (o, s') => (o, s', r)
          | none => (Out.pending, sP, r)) = (Out.frame f, s', script')) :
    afterRecv D sX eX = some (.frame f, s') := by
  cases hres : afterRecv D sX eX with
  | none =>
    rw [hres] at h
    simp only [Prod.mk.injEq] at h
    exact absurd h.1 (by intro hc; cases hc)
  | some p =>
    obtain ⟨o, s1⟩ := p
    rw [hres] at h
    simp only [Prod.mk.injEq] at h
    obtain ⟨rfl, rfl, _⟩ := h
    rfl

theorem pollNextLoop_frame_rem (D : Dec F E) (script : List Ev) :
    ∀ (s s' : St) (script' : List Ev) (f : F), pollNextLoop D s script = (.frame f, s', script') →
      s'.remaining = (D.kind f).rem := by
  induction script with
  | nil =>
    intro s s' script' f h
    rw [pollNextLoop] at h
    by_cases heos : s.eos = true
    · rw [if_pos heos] at h
      exact afterRecv_frame_rem D _ _ f s' (match_afterRecv_frame D _ _ _ _ _ f s' h)
    · rw [if_neg heos] at h
      exact afterRecv_frame_rem D _ _ f s' (match_afterRecv_frame D _ _ _ _ _ f s' h)
  | cons ev r ih =>
    intro s s' script' f h
    by_cases heos : s.eos = true
    · have : pollNextLoop D s (ev :: r) = (match afterRecv D s .eos with
          | some (o, s') => (o, s', ev :: r)
          | none => (.pending, s, ev :: r)) := by
        cases ev <;> rw [pollNextLoop, if_pos heos] <;> rfl
      rw [this] at h
      exact afterRecv_frame_rem D _ _ f s' (match_afterRecv_frame D _ _ _ _ _ f s' h)
    · cases ev with
      | pend =>
        rw [pollNextLoop, if_neg heos] at h
        exact afterRecv_frame_rem D _ _ f s' (match_afterRecv_frame D _ _ _ _ _ f s' h)
      | fin =>
        rw [pollNextLoop, if_neg heos] at h
        exact afterRecv_frame_rem D _ _ f s' (match_afterRecv_frame D _ _ _ _ _ f s' h)
      | reset c =>
        rw [pollNextLoop, if_neg heos] at h
        simp only [Prod.mk.injEq] at h
        exact absurd h.1 (by intro hc; cases hc)
      | chunk b =>
        rw [pollNextLoop, if_neg heos] at h
        simp only at h
        cases hres : afterRecv D (s.push b) .more with
        | some p =>
          obtain ⟨o, s1⟩ := p
          rw [hres] at h
          simp only [Prod.mk.injEq] at h
          obtain ⟨rfl, rfl, _⟩ := h
          exact afterRecv_frame_rem D _ _ f s1 hres
        | none =>
          rw [hres] at h
          simp only at h
          cases hdl : decLoop D ((s.push b).flat.length + 1) (s.push b).flat (s.push b).expected 0 with
          | none d exp =>
            rw [hdl] at h
            exact ih _ s' script' f h
          | frame d f' =>
            rw [hdl] at h
            simp only [Prod.mk.injEq] at h
            exact absurd h.1 (by intro hc; cases hc)
          | error d exp e' =>
            rw [hdl] at h
            simp only [Prod.mk.injEq] at h
            exact absurd h.1 (by intro hc; cases hc)

theorem pollNext_frame_rem (D : Dec F E) (s s' : St) (script script' : List Ev) (f : F)
    (h : pollNext D s script = (.frame f, s', script')) : s'.remaining = (D.kind f).rem := by
  unfold pollNext at h
  by_cases h0 : s.remaining ≠ 0
  · rw [if_pos h0] at h
    simp only [Prod.mk.injEq] at h
    exact absurd h.1 (by intro hc; cases hc)
  · rw [if_neg h0] at h
    exact pollNextLoop_frame_rem D script s s' script' f h

/-- `poll_next` on a stream that has ended with nothing buffered: `Ok(None)` -/
theorem pollNext_at_end (D : Dec F E) (s : St) (script : List Ev) (h0 : s.remaining = 0)
    (he : s.eos = true) (hf : s.flat = []) : (pollNext D s script).1 = .none := by
  have hdl : decLoop D (s.flat.length + 1) s.flat s.expected 0 = .none 0 s.expected := by
    rw [hf]
    simp [decLoop]
  have hA : afterRecv D s .eos =
      some (.none, { s with buf := advance 0 s.buf, expected := s.expected }) := by
    unfold afterRecv
    rw [hdl]
    simp only
    have hfl : ({ s with buf := advance 0 s.buf, expected := s.expected } : St).flat = [] := by
      have : advance 0 s.buf = s.buf := by cases s.buf <;> simp [advance]
      simp only [St.flat, this]
      exact hf
    rw [if_pos hfl]
  unfold pollNext
  rw [if_neg (by simp [h0])]
  have : pollNextLoop D s script = (match afterRecv D s .eos with
      | some (o, s') => (o, s', script)
      | none => (.pending, s, script)) := by
    cases script with
    | nil => rw [pollNextLoop, if_pos he]; rfl
    | cons ev r => cases ev <;> rw [pollNextLoop, if_pos he] <;> rfl
  rw [this, hA]

/-! ### why a call answers `Pending`: the script is used up, or a `pend` event was taken -/

theorem afterRecv_pending_end (D : Dec F E) (s : St) (e : End) (s' : St)
    (h : afterRecv D s e = some (.pending, s')) : e = .pending := by
  unfold afterRecv at h
  cases hdl : decLoop D (s.flat.length + 1) s.flat s.expected 0 with
  | frame d f =>
    rw [hdl] at h
    simp only [Option.some.injEq, Prod.mk.injEq] at h
    exact absurd h.1 (by intro hc; cases hc)
  | error d exp e' =>
    rw [hdl] at h
    simp only [Option.some.injEq, Prod.mk.injEq] at h
    exact absurd h.1 (by intro hc; cases hc)
  | none d exp =>
    rw [hdl] at h
    cases e with
    | more => cases h
    | pending => rfl
    | eos =>
      simp only at h
      split at h <;>
        (simp only [Option.some.injEq, Prod.mk.injEq] at h
         exact absurd h.1 (by intro hc; cases hc))

theorem afterRecv_none_more (D : Dec F E) (s : St) (e : End) (h : afterRecv D s e = none) :
    e = .more ∧ ∃ d exp, decLoop D (s.flat.length + 1) s.flat s.expected 0 = .none d exp := by
  unfold afterRecv at h
  cases hdl : decLoop D (s.flat.length + 1) s.flat s.expected 0 with
  | frame d f => rw [hdl] at h; cases h
  | error d exp e' => rw [hdl] at h; cases h
  | none d exp =>
    rw [hdl] at h
    cases e with
    | more => exact ⟨rfl, d, exp, rfl⟩
    | pending => cases h
    | eos => simp only at h; split at h <;> cases h

/-- a branch of `poll_next` that answers what the decode step answered, for `Pending` -/
theorem match_afterRecv_pending (D : Dec F E) (sX sP : St) (eX : End) (r script' : List Ev)
    (s' : St) (hne : eX ≠ .more)
    (h : (match afterRecv D sX eX with
          | some (o, s') => (o, s', r)
          | none => (Out.pending, sP, r)) = (Out.pending, s', script')) :
    eX = .pending ∧ script' = r := by
  cases hres : afterRecv D sX eX with
  | none => exact absurd (afterRecv_none_more D sX eX hres).1 hne
  | some p =>
    obtain ⟨o, s1⟩ := p
    rw [hres] at h
    simp only [Prod.mk.injEq] at h
    obtain ⟨rfl, rfl, rfl⟩ := h
    exact ⟨afterRecv_pending_end D sX eX s1 hres, rfl⟩

theorem pollNextLoop_pending_why (D : Dec F E) (script : List Ev) :
    ∀ (s s' : St) (script' : List Ev), pollNextLoop D s script = (.pending, s', script') →
      s.eos = false → ∃ taken, script = taken ++ script' ∧ (script' = [] ∨ Ev.pend ∈ taken) := by
  induction script with
  | nil =>
    intro s s' script' h heos
    rw [pollNextLoop, if_neg (by simp [heos])] at h
    obtain ⟨_, rfl⟩ := match_afterRecv_pending D _ _ _ _ _ s' (by intro hc; cases hc) h
    exact ⟨[], rfl, Or.inl rfl⟩
  | cons ev r ih =>
    intro s s' script' h heos
    have hne : ¬ s.eos = true := by simp [heos]
    cases ev with
    | pend =>
      rw [pollNextLoop, if_neg hne] at h
      obtain ⟨_, rfl⟩ := match_afterRecv_pending D _ _ _ _ _ s' (by intro hc; cases hc) h
      exact ⟨[.pend], rfl, Or.inr (by simp)⟩
    | fin =>
      rw [pollNextLoop, if_neg hne] at h
      obtain ⟨hc, _⟩ := match_afterRecv_pending D _ _ _ _ _ s' (by intro hc; cases hc) h
      cases hc
    | reset c =>
      rw [pollNextLoop, if_neg hne] at h
      simp only [Prod.mk.injEq] at h
      exact absurd h.1 (by intro hc; cases hc)
    | chunk b =>
      rw [pollNextLoop, if_neg hne] at h
      simp only at h
      cases hres : afterRecv D (s.push b) .more with
      | some p =>
        obtain ⟨o, s1⟩ := p
        rw [hres] at h
        simp only [Prod.mk.injEq] at h
        obtain ⟨rfl, rfl, _⟩ := h
        have := afterRecv_pending_end D _ _ _ hres
        cases this
      | none =>
        obtain ⟨_, d, exp, hdl⟩ := afterRecv_none_more D _ _ hres
        rw [hres] at h
        simp only [hdl] at h
        obtain ⟨taken, rfl, hw⟩ := ih _ s' script' h heos
        refine ⟨.chunk b :: taken, rfl, ?_⟩
        rcases hw with hw | hw
        · exact Or.inl hw
        · exact Or.inr (List.mem_cons_of_mem _ hw)

theorem takeChunk_none (max : Nat) (buf buf' : List Bytes) (h : takeChunk max buf = (none, buf')) :
    buf = [] := by
  cases buf with
  | nil => rfl
  | cons c cs => simp [takeChunk] at h

theorem pollData_pending_why (s s' : St) (script script' : List Ev)
    (h : pollData (F := F) (E := E) s script = (.pending, s', script')) :
    ∃ taken, script = taken ++ script' ∧ (script' = [] ∨ Ev.pend ∈ taken) := by
  unfold pollData at h
  by_cases h0 : s.remaining = 0
  · rw [if_pos h0] at h
    simp only [Prod.mk.injEq] at h
    exact absurd h.1 (by intro hc; cases hc)
  · rw [if_neg h0] at h
    cases hr : recvForData s script with
    | error c =>
      rw [hr] at h
      simp only [Prod.mk.injEq] at h
      exact absurd h.1 (by intro hc; cases hc)
    | ok p =>
      obtain ⟨e, s1, r⟩ := p
      rw [hr] at h
      simp only at h
      cases hT : takeChunk s1.remaining s1.buf with
      | mk od buf' =>
      rw [hT] at h
      cases od with
      | some d =>
        simp only at h
        split at h <;>
          (simp only [Prod.mk.injEq] at h
           exact absurd h.1 (by intro hc; cases hc))
      | none =>
        have hbuf := takeChunk_none _ _ _ hT
        simp only at h
        by_cases hE : e = true
        · rw [if_pos hE] at h
          split at h <;>
            (simp only [Prod.mk.injEq] at h
             exact absurd h.1 (by intro hc; cases hc))
        · rw [if_neg hE] at h
          simp only [Prod.mk.injEq, true_and] at h
          obtain ⟨_, rfl⟩ := h
          unfold recvForData at hr
          by_cases heos : s.eos = true
          · rw [if_pos heos] at hr
            simp only [Except.ok.injEq, Prod.mk.injEq] at hr
            exact absurd hr.1.symm hE
          · rw [if_neg heos] at hr
            cases script with
            | nil =>
              simp only [Except.ok.injEq, Prod.mk.injEq] at hr
              exact ⟨[], by simp [hr.2.2], Or.inl hr.2.2.symm⟩
            | cons ev r' =>
              cases ev with
              | reset c => cases hr
              | pend =>
                simp only [Except.ok.injEq, Prod.mk.injEq] at hr
                exact ⟨[.pend], by simp [hr.2.2], Or.inr (by simp)⟩
              | fin =>
                simp only [Except.ok.injEq, Prod.mk.injEq] at hr
                exact absurd hr.1.symm hE
              | chunk b =>
                simp only [Except.ok.injEq, Prod.mk.injEq] at hr
                rw [← hr.2.1] at hbuf
                simp [St.push] at hbuf

end H3.FS
