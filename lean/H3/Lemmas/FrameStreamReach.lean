import H3.Lemmas.FrameStreamInv
/-! Induction over arbitrary call sequences: `Inv` holds in every reachable configuration;
    consequences for the tokens handed out. -/
namespace H3.FS
variable {F E : Type}

theorem takenOK_trans {e1 e2 : Bool} {t1 t2 : List Ev} (h1 : TakenOK false e1 t1)
    (h2 : TakenOK e1 e2 t2) : TakenOK false e2 (t1 ++ t2) := by
  cases e1 with
  | true =>
    simp only [TakenOK, if_true] at h2
    obtain ⟨_, rfl, rfl⟩ := h2
    simpa using h1
  | false =>
    simp only [TakenOK, Bool.false_eq_true, if_false] at h1 h2 ⊢
    refine ⟨fun c hc => ?_, ?_⟩
    · rcases List.mem_append.mp hc with h | h
      · exact h1.1 c h
      · exact h2.1 c h
    · cases e2 with
      | true =>
        simp only [if_true] at h2 ⊢
        obtain ⟨pre, rfl, hpre⟩ := h2.2
        refine ⟨t1 ++ pre, by simp, ?_⟩
        intro h
        rcases List.mem_append.mp h with h | h
        · exact h1.2 h
        · exact hpre h
      | false =>
        simp only [Bool.false_eq_true, if_false] at h2 ⊢
        intro h
        rcases List.mem_append.mp h with h | h
        · exact h1.2 h
        · exact h2.2 h

theorem scriptOK_suffix {a b : List Ev} (h : ScriptOK (a ++ b)) : ScriptOK b :=
  fun x hx => h x (List.mem_append_right _ hx)

theorem inv_init (D : Dec F E) : Inv D [] [] {} :=
  ⟨by simp, ⟨[], by simp [St.flat], rfl⟩, expSound_none D _, fun _ => rfl⟩

/-- the invariant of a configuration, relative to the whole script -/
def CInv (D : Dec F E) (sc0 : List Ev) (toks : List (Tok F E)) (s : St) (script : List Ev) : Prop :=
  ∃ taken, sc0 = taken ++ script ∧ TakenOK false s.eos taken ∧ Inv D (evBytes taken) toks s

/-- `poll_next`, any state satisfying `Inv` -/
theorem pollNext_preserves (D : Dec F E) (L : Laws D) (seen : Bytes) (toks : List (Tok F E))
    (s : St) (script : List Ev) (hI : Inv D seen toks s) (hsc : ScriptOK script) :
    (s.remaining ≠ 0 ∧ pollNext D s script = (.panic, s, script)) ∨
    (s.remaining = 0 ∧ NextPost D seen toks s script (pollNext D s script)) := by
  unfold pollNext
  by_cases h0 : s.remaining = 0
  · right
    rw [if_neg (by simpa using h0)]
    exact ⟨h0, pollNextLoop_spec D L script seen toks s hI h0 hsc⟩
  · left
    rw [if_pos h0]
    exact ⟨h0, rfl⟩

theorem reach_inv (D : Dec F E) (L : Laws D) (sc0 : List Ev) (hsc : ScriptOK sc0)
    {toks : List (Tok F E)} {s : St} {script : List Ev} (h : Reach D sc0 toks s script) :
    CInv D sc0 toks s script := by
  induction h with
  | init => exact ⟨[], by simp, by simp [TakenOK], by simpa [evBytes] using inv_init D⟩
  | @next toks s script o s' script' _ hcall hne ih =>
    obtain ⟨taken, rfl, htk, hI⟩ := ih
    rcases pollNext_preserves D L _ toks s script hI (scriptOK_suffix hsc) with ⟨_, hp⟩ | ⟨_, hp⟩
    · rw [hp] at hcall
      cases hcall
      cases hne
    · rw [hcall] at hp
      obtain ⟨tk, rfl, htk', hout⟩ := hp
      refine ⟨taken ++ tk, by simp, takenOK_trans htk htk', ?_⟩
      rw [evBytes_append]
      cases o with
      | frame f => exact hout
      | pending => simpa [Out.toks] using hout.1
      | none => simpa [Out.toks] using hout.1
      | data _ => exact absurd hout id
      | errProto _ => cases hne
      | errEnd => cases hne
      | errQuic _ => cases hne
      | panic => cases hne
  | @data toks s script o s' script' _ hcall hne ih =>
    obtain ⟨taken, rfl, htk, hI⟩ := ih
    have hp := pollData_spec D _ toks s script hI (scriptOK_suffix hsc)
    rw [hcall] at hp
    obtain ⟨tk, rfl, htk', hout⟩ := hp
    refine ⟨taken ++ tk, by simp, takenOK_trans htk htk', ?_⟩
    rw [evBytes_append]
    cases o with
    | data d => exact hout.2.2.2
    | pending => simpa [Out.toks] using hout.1
    | none => simpa [Out.toks] using hout.1
    | frame _ => exact absurd hout id
    | errProto _ => cases hne
    | errEnd => cases hne
    | errQuic _ => cases hne
    | panic => cases hne

/-! ### consumed offsets are segment boundaries -/

/-- the automaton state `p` after the bytes `x`, in terms of the segmentation -/
def Good (D : Dec F E) (x : Bytes) : PSt → Prop
  | .hdr acc => ∃ x0, x = x0 ++ acc ∧ Boundary D x0 0 ∧
      ∀ k, 1 ≤ k → k ≤ acc.length → (D.dec (acc.take k)).isIncomplete = true
  | .data r => r ≠ 0 ∧ Boundary D x r
  | .dead => True

theorem good_ofRem (D : Dec F E) (x : Bytes) (r : Nat) (h : Boundary D x r) :
    Good D x (PSt.ofRem r) := by
  unfold PSt.ofRem
  split
  · rename_i h0
    subst h0
    exact ⟨x, by simp, h, fun k h1 h2 => by simp at h2; omega⟩
  · rename_i h0
    exact ⟨h0, h⟩

theorem good_feed (D : Dec F E) (L : Laws D) (x : Bytes) (p : PSt) (b : Nat) (h : Good D x p) :
    Good D (x ++ [b]) (feed D p b).1 := by
  cases p with
  | dead => trivial
  | data r =>
    obtain ⟨hr, hb⟩ := h
    simp only [feed]
    have := Boundary.data (d := [b]) hb (by simp; omega)
    exact good_ofRem D _ _ (by simpa using this)
  | hdr acc =>
    obtain ⟨x0, rfl, hb, hinc⟩ := h
    simp only [feed]
    cases hd : D.dec (acc ++ [b]) with
    | incomplete m =>
      refine ⟨x0, by simp, hb, ?_⟩
      intro k h1 h2
      simp only [List.length_append, List.length_singleton] at h2
      by_cases hk : k ≤ acc.length
      · rw [List.take_append_of_le_length hk]; exact hinc k h1 hk
      · have : k = (acc ++ [b]).length := by simp; omega
        rw [this, List.take_length, hd]; rfl
    | error e => trivial
    | frame f n =>
      have hpos : (D.dec (acc ++ [b])).pos? = some n := by rw [hd]; rfl
      have ⟨_, hle⟩ := L.pos_le _ n hpos
      have ⟨_, hmin⟩ := L.minimal _ n hpos
      have hn : n = (acc ++ [b]).length := by
        rcases Nat.lt_or_ge n (acc ++ [b]).length with hlt | hge
        · exfalso
          simp only [List.length_append, List.length_singleton] at hlt
          have h1 := hinc n (L.pos_le _ n hpos).1 (by omega)
          rw [List.take_append_of_le_length (by omega)] at hmin
          rw [hmin, hd] at h1
          cases h1
        · omega
      rw [hn] at hd
      have := Boundary.frame hb hd
      rw [← List.append_assoc] at this
      exact good_ofRem D _ _ this
    | unknown n =>
      have hpos : (D.dec (acc ++ [b])).pos? = some n := by rw [hd]; rfl
      have ⟨_, hle⟩ := L.pos_le _ n hpos
      have ⟨_, hmin⟩ := L.minimal _ n hpos
      have hn : n = (acc ++ [b]).length := by
        rcases Nat.lt_or_ge n (acc ++ [b]).length with hlt | hge
        · exfalso
          simp only [List.length_append, List.length_singleton] at hlt
          have h1 := hinc n (L.pos_le _ n hpos).1 (by omega)
          rw [List.take_append_of_le_length (by omega)] at hmin
          rw [hmin, hd] at h1
          cases h1
        · omega
      rw [hn] at hd
      have := Boundary.skip hb hd
      rw [← List.append_assoc] at this
      exact ⟨_, by simp, this, fun k h1 h2 => by simp at h2; omega⟩

theorem good_run (D : Dec F E) (L : Laws D) (y : Bytes) :
    ∀ (x : Bytes) (p : PSt), Good D x p → Good D (x ++ y) (run D p y).1 := by
  induction y with
  | nil => intro x p h; simpa [run] using h
  | cons b y ih =>
    intro x p h
    have := ih (x ++ [b]) (feed D p b).1 (good_feed D L x p b h)
    simpa [run, List.append_assoc] using this

/-- where the automaton stands at a frame boundary or inside a DATA payload, the bytes fed so
    far are segmented accordingly -/
theorem boundary_of_run (D : Dec F E) (L : Laws D) (x : Bytes) (r : Nat) (toks : List (Tok F E))
    (h : run D (.hdr []) x = (PSt.ofRem r, toks)) : Boundary D x r := by
  have hg := good_run D L x [] (.hdr []) ⟨[], by simp, Boundary.nil, fun k h1 h2 => by simp at h2; omega⟩
  rw [h] at hg
  simp only [List.nil_append] at hg
  unfold PSt.ofRem at hg
  split at hg
  · rename_i h0
    obtain ⟨x0, hx, hb, _⟩ := hg
    simp only [List.append_nil] at hx
    rw [hx, h0]; exact hb
  · exact hg.2

end H3.FS
