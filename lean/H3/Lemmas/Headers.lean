import H3.Model.Headers
import H3.Spec.Headers
/-! Helper lemmas for C12 (`H3.Props.C12`). -/
namespace H3.Headers
open H3.Spec.Headers

/-! ### the concrete validators against the RFC character classes -/

theorem isLowerTok_iff (b : Nat) : isLowerTok b = true ↔ (tchar b ∧ ¬ UPPER b) := by
  simp only [isLowerTok, tchar, tcharSpecials, DIGIT, UPPER, LOWER, Bool.or_eq_true, Bool.and_eq_true,
    decide_eq_true_eq, beq_iff_eq, List.mem_cons, List.not_mem_nil, or_false]
  omega

theorem isTchar_iff (b : Nat) : isTchar b = true ↔ tchar b := by
  simp only [isTchar, isLowerTok, tchar, tcharSpecials, DIGIT, UPPER, LOWER, Bool.or_eq_true, Bool.and_eq_true,
    decide_eq_true_eq, beq_iff_eq, List.mem_cons, List.not_mem_nil, or_false]
  omega

theorem validValue_iff (v : Bytes) : validValue v = true ↔ LegalValue v := by
  simp only [validValue, LegalValue, FieldValueByte, List.all_eq_true, Bool.or_eq_true, Bool.and_eq_true,
    decide_eq_true_eq, beq_iff_eq, bne_iff_ne]
  constructor <;> intro h b hb <;> have := h b hb <;> omega

theorem validMethod_iff (m : Bytes) : validMethod m = true ↔ MethodToken m := by
  simp only [validMethod, MethodToken, Bool.and_eq_true, Bool.not_eq_true', List.isEmpty_eq_false_iff,
    List.all_eq_true, isTchar_iff]

theorem validStatus_iff (v : Bytes) : validStatus v = true ↔ StatusCode v := by
  match v with
  | [] => simp [validStatus, StatusCode]
  | [_] => simp [validStatus, StatusCode]
  | [_, _] => simp [validStatus, StatusCode]
  | _ :: _ :: _ :: _ :: _ => simp [validStatus, StatusCode]
  | [a, b, c] =>
    simp only [validStatus, StatusCode, isDigit, DIGIT, Bool.and_eq_true, decide_eq_true_eq, List.length_cons,
      List.length_nil, List.mem_cons, List.not_mem_nil, or_false, forall_eq_or_imp, forall_eq, List.head?_cons,
      ne_eq, Option.some.injEq, true_and]
    omega

theorem statusVal_range (v : Bytes) (h : validStatus v = true) : 100 ≤ statusVal v ∧ statusVal v ≤ 999 := by
  match v with
  | [] => simp [validStatus] at h
  | [_] => simp [validStatus] at h
  | [_, _] => simp [validStatus] at h
  | _ :: _ :: _ :: _ :: _ => simp [validStatus] at h
  | [a, b, c] =>
    simp only [validStatus, isDigit, Bool.and_eq_true, decide_eq_true_eq] at h
    simp only [statusVal]
    omega

theorem statusDigits_statusVal (v : Bytes) (h : validStatus v = true) : statusDigits (statusVal v) = v := by
  match v with
  | [] => simp [validStatus] at h
  | [_] => simp [validStatus] at h
  | [_, _] => simp [validStatus] at h
  | _ :: _ :: _ :: _ :: _ => simp [validStatus] at h
  | [a, b, c] =>
    simp only [validStatus, isDigit, Bool.and_eq_true, decide_eq_true_eq] at h
    simp only [statusVal, statusDigits]
    have e1 : 48 + ((a - 48) * 100 + (b - 48) * 10 + (c - 48)) / 100 = a := by omega
    have e2 : 48 + ((a - 48) * 100 + (b - 48) * 10 + (c - 48)) / 10 % 10 = b := by omega
    have e3 : 48 + ((a - 48) * 100 + (b - 48) * 10 + (c - 48)) % 10 = c := by omega
    rw [e1, e2, e3]

theorem isPseudo_iff (n : Bytes) : IsPseudo n ↔ isPseudoName n = true := by
  simp [IsPseudo, isPseudoName, colon]

theorem not_isPseudo_iff (n : Bytes) : ¬ IsPseudo n ↔ isPseudoName n = false := by
  rw [isPseudo_iff]; simp

/-- what `Field::parse` accepts as a regular name is a lower-case token (needs the `"` fix). -/
theorem nameAccepted_lowerToken (hq : H3.Gen.Headers.nameRejectsDquote = true) (n : Bytes)
    (h : nameAccepted n = true) : LowerToken n := by
  simp only [nameAccepted, hq, Bool.not_true, Bool.false_or, fromLowercase, Bool.and_eq_true, Bool.not_eq_true',
    List.isEmpty_eq_false_iff, decide_eq_true_eq, List.all_eq_true, List.contains_eq_mem, decide_eq_false_iff_not] at h
  obtain ⟨hq34, ⟨hne, _⟩, hall⟩ := h
  refine ⟨hne, fun b hb => ?_⟩
  have hb2 := hall b hb
  have : b ≠ 34 := fun e => hq34 (e ▸ hb)
  rw [← isLowerTok_iff]
  simpa [isH2NameByte, this] using hb2

/-! ### `Field::parse` -/

/-- the ways `Field::parse` can succeed -/
inductive ParseOk (H : Http) (n v : Bytes) : Field → Prop
  | header : n ≠ [] → isPseudoName n = false → nameAccepted n = true → validValue v = true → ParseOk H n v (.header n v)
  | scheme (s : Bytes) : n = nScheme → H.parseScheme v = some s → ParseOk H n v (.scheme s)
  | authority (a : Bytes) : n = nAuthority → H.parseAuthority v = some a → ParseOk H n v (.authority a)
  | path (p : Bytes) : n = nPath → H.parsePath v = some p → ParseOk H n v (.path p)
  | method : n = nMethod → validMethod v = true → ParseOk H n v (.method v)
  | status : n = nStatus → validStatus v = true → ParseOk H n v (.status (statusVal v))
  | protocol : n = nProtocol → v ∈ H3.Gen.Headers.protocols → ParseOk H n v (.protocol v)

theorem tryValue_ok {parse : Bytes → Option Bytes} {mk : Bytes → Field} {v : Bytes} {f : Field}
    (h : tryValue parse mk v = .ok f) : ∃ x, parse v = some x ∧ f = mk x := by
  unfold tryValue at h
  split at h
  · rename_i x hx; exact ⟨x, hx, by cases h; rfl⟩
  · cases h

theorem tryValue_ne_panic (parse : Bytes → Option Bytes) (mk : Bytes → Field) (v : Bytes) :
    tryValue parse mk v ≠ .panic := by
  unfold tryValue; split <;> simp

/-- the `Protocol` table the translator reads from `h3/src/ext.rs` is the list of IANA tokens the
    specification writes out (a `Protocol` constant added to or removed from h3 fails here) -/
theorem protocols_gen_eq_spec : H3.Gen.Headers.protocols = protocolTokens := by decide

theorem parseProtocol_some {v p : Bytes} (h : parseProtocol v = some p) : p = v ∧ v ∈ H3.Gen.Headers.protocols := by
  unfold parseProtocol at h
  split at h
  · rename_i hc; cases h; exact ⟨rfl, by simpa using hc⟩
  · cases h

theorem parse_ok {H : Http} {n v : Bytes} {f : Field} (h : Field.parse H n v = .ok f) : ParseOk H n v f := by
  unfold Field.parse at h
  split at h
  · cases h
  rename_i hne
  have hne' : n ≠ [] := by simpa using hne
  split at h
  · rename_i hp
    split at h
    · cases h
    rename_i hn
    split at h
    · cases h
    rename_i hv
    cases h
    exact .header hne' (by simpa using hp) (by simpa using hn) (by simpa using hv)
  split at h
  · cases h
  split at h
  · rename_i e; obtain ⟨x, hx, rfl⟩ := tryValue_ok h; exact .scheme x e hx
  split at h
  · rename_i e; obtain ⟨x, hx, rfl⟩ := tryValue_ok h; exact .authority x e hx
  split at h
  · rename_i e; obtain ⟨x, hx, rfl⟩ := tryValue_ok h; exact .path x e hx
  split at h
  · rename_i e
    split at h
    · rename_i hm; cases h; exact .method e hm
    · cases h
  split at h
  · rename_i e
    split at h
    · rename_i hs; cases h; exact .status e hs
    · cases h
  split at h
  · rename_i e
    obtain ⟨x, hx, rfl⟩ := tryValue_ok h
    obtain ⟨rfl, hm⟩ := parseProtocol_some hx
    exact .protocol e hm
  · cases h

theorem parse_ne_panic (H : Http) (n v : Bytes) : Field.parse H n v ≠ .panic := by
  unfold Field.parse
  repeat' split
  all_goals first | (intro h; cases h) | exact tryValue_ne_panic _ _ _

/-! ### `pseudo_value_syntax` (the D-12g fix) against the RFC 3986 conditions of the specification -/

theorem isAlpha_iff (b : Nat) : isAlpha b = true ↔ ALPHA b := by
  simp only [isAlpha, ALPHA, UPPER, LOWER, Bool.or_eq_true, Bool.and_eq_true, decide_eq_true_eq]

theorem isDigit_iff (b : Nat) : isDigit b = true ↔ DIGIT b := by
  simp only [isDigit, DIGIT, Bool.and_eq_true, decide_eq_true_eq]

/-- the `:scheme` arm is the whole grammar of RFC 3986 §3.1 -/
theorem schemeSyntax_iff (v : Bytes) : schemeSyntax v = true ↔ SchemeSyntax v := by
  have hfirst : firstIsAlpha v = true ↔ StartsAlpha v := by
    cases v with
    | nil => simp [firstIsAlpha, StartsAlpha]
    | cons b r => simp only [firstIsAlpha, StartsAlpha, isAlpha_iff]
  simp only [schemeSyntax, SchemeSyntax, Bool.and_eq_true, hfirst, List.all_eq_true, isSchemeByte,
    Bool.or_eq_true, isAlpha_iff, isDigit_iff, beq_iff_eq, or_assoc]

theorem hostPortOf_eq (v : Bytes) : hostPortOf v = hostPort v := by
  unfold hostPortOf hostPort
  congr 2
  funext b
  by_cases hb : b = 64 <;> simp [hb]

/-- the `:authority` arm is the two necessary conditions of RFC 3986 §3.2 the specification asks -/
theorem authoritySyntax_iff (v : Bytes) : authoritySyntax v = true ↔ AuthoritySyntax v := by
  have hf : (v.filter (· == 64)) = (v.filter (fun b => decide (b = 0x40))) := by
    congr 1
  have hd : ((hostPort v).dropWhile (· != 58)) = ((hostPort v).dropWhile (fun b => decide (b ≠ 0x3a))) := by
    congr 1; funext b; by_cases hb : b = 58 <;> simp [hb]
  unfold authoritySyntax AuthoritySyntax
  rw [hostPortOf_eq, hf, hd]
  by_cases hc : (v.filter (fun b => decide (b = 0x40))).length > 1
  · rw [if_pos hc]
    constructor
    · intro h; cases h
    · intro h; omega
  · rw [if_neg hc]
    simp only [Bool.or_eq_true, beq_iff_eq, List.all_eq_true, isDigit_iff]
    constructor
    · intro h; exact ⟨by omega, h⟩
    · intro h; exact h.2

/-- the `:path` arm: no `#` -/
theorem pathSyntax_iff (v : Bytes) : pathSyntax v = true ↔ PathSyntax v := by
  simp [pathSyntax, PathSyntax]

/-- what `pseudo_value_syntax` lets through satisfies the necessary condition of its field line -/
theorem pseudoValueSyntax_spec {n v : Bytes} (h : pseudoValueSyntax n v = true) : PseudoSyntax n v := by
  unfold pseudoValueSyntax at h
  refine ⟨?_, ?_, ?_⟩
  · intro e
    rw [if_pos e] at h
    exact (schemeSyntax_iff v).mp h
  · intro e
    have e1 : ¬ n = nScheme := by rw [e]; decide
    rw [if_neg e1, if_pos e] at h
    exact (authoritySyntax_iff v).mp h
  · intro e
    have e1 : ¬ n = nScheme := by rw [e]; decide
    have e2 : ¬ n = nAuthority := by rw [e]; decide
    rw [if_neg e1, if_neg e2, if_pos e] at h
    exact (pathSyntax_iff v).mp h

/-- with the D-12g fix a pseudo-header field `Field::parse` accepts has passed `pseudo_value_syntax`;
    a regular field has nothing to pass (its name is none of the three) -/
theorem parse_ok_syntax (hc : H3.Gen.Headers.pseudoSyntaxChecked = true) {H : Http} {n v : Bytes} {f : Field}
    (h : Field.parse H n v = .ok f) : PseudoSyntax n v := by
  by_cases hp : isPseudoName n = true
  · apply pseudoValueSyntax_spec
    unfold Field.parse at h
    split at h
    · cases h
    rw [if_neg (by simp [hp])] at h
    split at h
    · cases h
    · rename_i hs
      simpa [hc] using hs
  · have hp' : isPseudoName n = false := by simpa using hp
    exact ⟨fun e => absurd (e ▸ hp') (by decide), fun e => absurd (e ▸ hp') (by decide),
      fun e => absurd (e ▸ hp') (by decide)⟩

/-! ### `HeaderMap` -/

/-- names are distinct -/
def hmWF (m : HeaderMap) : Prop := (m.map (·.1)).Nodup

theorem hmAppend_keys (m : HeaderMap) (n v : Bytes) :
    (hmAppend m n v).map (·.1) = if n ∈ m.map (·.1) then m.map (·.1) else m.map (·.1) ++ [n] := by
  induction m with
  | nil => simp [hmAppend]
  | cons g r ih =>
    obtain ⟨k, vs⟩ := g
    by_cases hk : k = n
    · simp [hmAppend, hk]
    · have hk' : ¬ n = k := fun e => hk e.symm
      simp only [hmAppend, if_neg hk, List.map_cons, ih, List.mem_cons, hk', false_or]
      split <;> simp

theorem hmWF_append (m : HeaderMap) (n v : Bytes) (h : hmWF m) : hmWF (hmAppend m n v) := by
  unfold hmWF at *
  rw [hmAppend_keys]
  split
  · exact h
  · rename_i hn
    rw [List.nodup_append]
    refine ⟨h, by simp, ?_⟩
    intro a ha b hb
    simp only [List.mem_singleton] at hb
    subst hb
    intro e; subst e; exact hn ha

theorem hmGroup_append (m : HeaderMap) (n v k : Bytes) :
    hmGroup (hmAppend m n v) k = hmGroup m k ++ (if n = k then [v] else []) := by
  induction m with
  | nil => simp [hmAppend, hmGroup]
  | cons g r ih =>
    obtain ⟨k', vs⟩ := g
    by_cases h1 : k' = n
    · subst h1
      by_cases h2 : k' = k
      · simp [hmAppend, hmGroup, h2]
      · simp [hmAppend, hmGroup, h2]
    · by_cases h2 : k' = k
      · subst h2
        have h1' : ¬ n = k' := fun e => h1 e.symm
        simp [hmAppend, hmGroup, h1, h1']
      · simp [hmAppend, hmGroup, h1, h2, ih]

theorem hmGroup_nil_of_not_mem (m : HeaderMap) (n : Bytes) (h : n ∉ m.map (·.1)) : hmGroup m n = [] := by
  induction m with
  | nil => rfl
  | cons g r ih =>
    obtain ⟨k, vs⟩ := g
    simp only [List.map_cons, List.mem_cons, not_or] at h
    have hkn : ¬ k = n := fun e => h.1 e.symm
    simp [hmGroup, hkn, ih h.2]

/-- in a map with distinct names the entries called `n` are exactly the group of `n`, in order -/
theorem hmIter_filter (m : HeaderMap) (h : hmWF m) (n : Bytes) :
    (hmIter m).filter (fun f => f.1 = n) = (hmGroup m n).map (fun v => (n, v)) := by
  induction m with
  | nil => simp [hmIter, hmGroup]
  | cons g r ih =>
    obtain ⟨k, vs⟩ := g
    have hr : hmWF r := by unfold hmWF at *; exact (List.nodup_cons.mp h).2
    have hk : k ∉ r.map (·.1) := by unfold hmWF at h; exact (List.nodup_cons.mp h).1
    simp only [hmIter, List.filter_append, ih hr, hmGroup]
    by_cases e : k = n
    · subst e
      rw [if_pos rfl, hmGroup_nil_of_not_mem r k hk]
      have ft : ∀ l : List Bytes, l.filter (fun _ => true) = l := by
        intro l; induction l with
        | nil => rfl
        | cons a l ih => simp [ih]
      simp [List.filter_map, Function.comp_def, ft]
    · rw [if_neg e]
      have : List.filter (fun f : FieldLine => decide (f.1 = n)) (List.map (fun v => (k, v)) vs) = [] := by
        simp [List.filter_eq_nil_iff, e]
      rw [this]; simp

/-! ### values of a name -/

/-- the value of the last field called `n` -/
def lastVal (n : Bytes) (fs : List FieldLine) : Option Bytes := (valuesOf n fs).getLast?

theorem valuesOf_snoc (n : Bytes) (fs : List FieldLine) (k v : Bytes) :
    valuesOf n (fs ++ [(k, v)]) = valuesOf n fs ++ (if k = n then [v] else []) := by
  unfold valuesOf
  by_cases h : k = n <;> simp [List.filter_append, h]

theorem lastVal_snoc_eq (n : Bytes) (fs : List FieldLine) (v : Bytes) :
    lastVal n (fs ++ [(n, v)]) = some v := by
  simp [lastVal, valuesOf_snoc]

theorem lastVal_snoc_ne (n : Bytes) (fs : List FieldLine) (k v : Bytes) (h : k ≠ n) :
    lastVal n (fs ++ [(k, v)]) = lastVal n fs := by
  simp [lastVal, valuesOf_snoc, h]

theorem mem_valuesOf {n v : Bytes} {fs : List FieldLine} : v ∈ valuesOf n fs ↔ (n, v) ∈ fs := by
  unfold valuesOf
  simp only [List.mem_map, List.mem_filter, decide_eq_true_eq]
  constructor
  · rintro ⟨⟨a, b⟩, ⟨hm, rfl⟩, rfl⟩; exact hm
  · intro h; exact ⟨(n, v), ⟨h, rfl⟩, rfl⟩

theorem lastVal_mem {n v : Bytes} {fs : List FieldLine} (h : lastVal n fs = some v) : (n, v) ∈ fs :=
  mem_valuesOf.mp (List.mem_of_getLast? h)

theorem regular_snoc (fs : List FieldLine) (k v : Bytes) :
    regular (fs ++ [(k, v)]) = regular fs ++ (if isPseudoName k = true then [] else [(k, v)]) := by
  unfold regular
  by_cases h : isPseudoName k = true
  · simp [List.filter_append, isPseudo_iff, h]
  · simp [List.filter_append, isPseudo_iff, h]

theorem valuesOf_regular_of_not_pseudo (n : Bytes) (hn : isPseudoName n = false) (fs : List FieldLine) :
    valuesOf n (regular fs) = valuesOf n fs := by
  unfold valuesOf regular
  rw [List.filter_filter]
  congr 1
  apply List.filter_congr
  intro f _
  by_cases e : f.1 = n
  · simp [e, isPseudo_iff, hn]
  · simp [e]

theorem lastVal_snoc (n : Bytes) (fs : List FieldLine) (k v : Bytes) :
    lastVal n (fs ++ [(k, v)]) = if k = n then some v else lastVal n fs := by
  by_cases h : k = n
  · subst h; simp [lastVal_snoc_eq]
  · simp [lastVal_snoc_ne _ _ _ _ h, h]

theorem ne_of_not_pseudo {n p : Bytes} (hn : isPseudoName n = false) (hp : isPseudoName p = true) : n ≠ p := by
  intro e; subst e; simp [hn] at hp

/-! ### the loop of `Header::try_from` -/

/-- what is known of the `Header` after the loop has taken the fields `fs` (starting empty) -/
structure Inv (H : Http) (fs : List FieldLine) (h : Header) : Prop where
  accepted : ∀ f ∈ fs, ∃ fld, ParseOk H f.1 f.2 fld
  method : h.pseudo.method = lastVal nMethod fs
  scheme : h.pseudo.scheme = (lastVal nScheme fs).bind H.parseScheme
  authority : h.pseudo.authority = (lastVal nAuthority fs).bind H.parseAuthority
  path : h.pseudo.path = (lastVal nPath fs).bind H.parsePath
  status : h.pseudo.status = (lastVal nStatus fs).map statusVal
  protocol : h.pseudo.protocol = lastVal nProtocol fs
  len : h.pseudo.len = (fs.filter (fun f => isPseudoName f.1)).length
  wf : hmWF h.fields
  group : ∀ n, hmGroup h.fields n = valuesOf n (regular fs)

theorem inv_nil (H : Http) : Inv H [] {} := by
  refine ⟨by simp, ?_, ?_, ?_, ?_, ?_, ?_, ?_, ?_, ?_⟩ <;>
    simp [lastVal, valuesOf, regular, hmWF, hmGroup]

theorem inv_step {H : Http} {fs : List FieldLine} {h : Header} {n v : Bytes} {f : Field}
    (hi : Inv H fs h) (hp : ParseOk H n v f) : Inv H (fs ++ [(n, v)]) (h.add f) := by
  have hacc : ∀ g ∈ fs ++ [(n, v)], ∃ fld, ParseOk H g.1 g.2 fld := by
    intro g hg
    rcases List.mem_append.mp hg with hg | hg
    · exact hi.accepted g hg
    · simp only [List.mem_singleton] at hg; subst hg; exact ⟨f, hp⟩
  obtain ⟨_, h1, h2, h3, h4, h5, h6, h7, h8, h9⟩ := hi
  cases hp with
  | header hne hps hn hv =>
    have e1 := ne_of_not_pseudo hps (by decide : isPseudoName nMethod = true)
    have e2 := ne_of_not_pseudo hps (by decide : isPseudoName nScheme = true)
    have e3 := ne_of_not_pseudo hps (by decide : isPseudoName nAuthority = true)
    have e4 := ne_of_not_pseudo hps (by decide : isPseudoName nPath = true)
    have e5 := ne_of_not_pseudo hps (by decide : isPseudoName nStatus = true)
    have e6 := ne_of_not_pseudo hps (by decide : isPseudoName nProtocol = true)
    refine ⟨hacc, ?_, ?_, ?_, ?_, ?_, ?_, ?_, ?_, ?_⟩
    · simp [Header.add, lastVal_snoc, e1, h1]
    · simp [Header.add, lastVal_snoc, e2, h2]
    · simp [Header.add, lastVal_snoc, e3, h3]
    · simp [Header.add, lastVal_snoc, e4, h4]
    · simp [Header.add, lastVal_snoc, e5, h5]
    · simp [Header.add, lastVal_snoc, e6, h6]
    · simp [Header.add, List.filter_append, hps, h7]
    · exact hmWF_append _ _ _ h8
    · intro k
      simp only [Header.add, hmGroup_append, h9, regular_snoc, hps]
      simp [valuesOf_snoc]
  | scheme s e hs =>
    subst e
    refine ⟨hacc, ?_, ?_, ?_, ?_, ?_, ?_, ?_, ?_, ?_⟩
    · simp +decide [Header.add, lastVal_snoc, h1]
    · simp +decide [Header.add, lastVal_snoc, hs]
    · simp +decide [Header.add, lastVal_snoc, h3]
    · simp +decide [Header.add, lastVal_snoc, h4]
    · simp +decide [Header.add, lastVal_snoc, h5]
    · simp +decide [Header.add, lastVal_snoc, h6]
    · simp +decide [Header.add, List.filter_append, h7]
    · exact h8
    · intro k; simp +decide [Header.add, regular_snoc, h9]
  | authority a e ha =>
    subst e
    refine ⟨hacc, ?_, ?_, ?_, ?_, ?_, ?_, ?_, ?_, ?_⟩
    · simp +decide [Header.add, lastVal_snoc, h1]
    · simp +decide [Header.add, lastVal_snoc, h2]
    · simp +decide [Header.add, lastVal_snoc, ha]
    · simp +decide [Header.add, lastVal_snoc, h4]
    · simp +decide [Header.add, lastVal_snoc, h5]
    · simp +decide [Header.add, lastVal_snoc, h6]
    · simp +decide [Header.add, List.filter_append, h7]
    · exact h8
    · intro k; simp +decide [Header.add, regular_snoc, h9]
  | path p e hpp =>
    subst e
    refine ⟨hacc, ?_, ?_, ?_, ?_, ?_, ?_, ?_, ?_, ?_⟩
    · simp +decide [Header.add, lastVal_snoc, h1]
    · simp +decide [Header.add, lastVal_snoc, h2]
    · simp +decide [Header.add, lastVal_snoc, h3]
    · simp +decide [Header.add, lastVal_snoc, hpp]
    · simp +decide [Header.add, lastVal_snoc, h5]
    · simp +decide [Header.add, lastVal_snoc, h6]
    · simp +decide [Header.add, List.filter_append, h7]
    · exact h8
    · intro k; simp +decide [Header.add, regular_snoc, h9]
  | method e hm =>
    subst e
    refine ⟨hacc, ?_, ?_, ?_, ?_, ?_, ?_, ?_, ?_, ?_⟩
    · simp +decide [Header.add, lastVal_snoc]
    · simp +decide [Header.add, lastVal_snoc, h2]
    · simp +decide [Header.add, lastVal_snoc, h3]
    · simp +decide [Header.add, lastVal_snoc, h4]
    · simp +decide [Header.add, lastVal_snoc, h5]
    · simp +decide [Header.add, lastVal_snoc, h6]
    · simp +decide [Header.add, List.filter_append, h7]
    · exact h8
    · intro k; simp +decide [Header.add, regular_snoc, h9]
  | status e hs =>
    subst e
    refine ⟨hacc, ?_, ?_, ?_, ?_, ?_, ?_, ?_, ?_, ?_⟩
    · simp +decide [Header.add, lastVal_snoc, h1]
    · simp +decide [Header.add, lastVal_snoc, h2]
    · simp +decide [Header.add, lastVal_snoc, h3]
    · simp +decide [Header.add, lastVal_snoc, h4]
    · simp +decide [Header.add, lastVal_snoc]
    · simp +decide [Header.add, lastVal_snoc, h6]
    · simp +decide [Header.add, List.filter_append, h7]
    · exact h8
    · intro k; simp +decide [Header.add, regular_snoc, h9]
  | protocol e hm =>
    subst e
    refine ⟨hacc, ?_, ?_, ?_, ?_, ?_, ?_, ?_, ?_, ?_⟩
    · simp +decide [Header.add, lastVal_snoc, h1]
    · simp +decide [Header.add, lastVal_snoc, h2]
    · simp +decide [Header.add, lastVal_snoc, h3]
    · simp +decide [Header.add, lastVal_snoc, h4]
    · simp +decide [Header.add, lastVal_snoc, h5]
    · simp +decide [Header.add, lastVal_snoc]
    · simp +decide [Header.add, List.filter_append, h7]
    · exact h8
    · intro k; simp +decide [Header.add, regular_snoc, h9]

theorem loop_inv (H : Http) (fs : List FieldLine) :
    ∀ (pre : List FieldLine) (h0 h : Header), Inv H pre h0 → tryFromLoop H h0 fs = .ok h → Inv H (pre ++ fs) h := by
  induction fs with
  | nil => intro pre h0 h hi hl; simp only [tryFromLoop] at hl; cases hl; simpa using hi
  | cons g r ih =>
    intro pre h0 h hi hl
    obtain ⟨n, v⟩ := g
    simp only [tryFromLoop] at hl
    split at hl
    · rename_i f hf
      split at hl
      · unfold mapFull at hl; split at hl <;> cases hl
      · have := ih (pre ++ [(n, v)]) (h0.add f) h (inv_step hi (parse_ok hf)) hl
        simpa using this
    · cases hl
    · cases hl

theorem mapFull_ne_panic : mapFull ≠ .panic := by
  have hm : H3.Gen.Headers.mapFallible = true := rfl
  simp [mapFull, hm]

theorem loop_ne_panic (H : Http) (fs : List FieldLine) : ∀ h0, tryFromLoop H h0 fs ≠ .panic := by
  induction fs with
  | nil => intro h0; simp [tryFromLoop]
  | cons g r ih =>
    intro h0
    obtain ⟨n, v⟩ := g
    simp only [tryFromLoop]
    split
    · split
      · exact mapFull_ne_panic
      · exact ih _
    · simp
    · rename_i hp; exact absurd hp (parse_ne_panic H n v)

/-- the decision of the D-01 fix: a map that cannot be pre-sized does not end the conversion.
    Needs `H3.Gen.Headers.mapPresizeRefuses = false`: the proof evaluates the generated constant. -/
theorem tryFrom_eq_loop (H : Http) (fs : List FieldLine) : tryFrom H fs = tryFromLoop H {} fs := by
  have hp : H3.Gen.Headers.mapPresizeRefuses = false := rfl
  simp [tryFrom, hp]

/-- `Header::try_from` succeeded: the invariant holds. -/
theorem tryFrom_ok {H : Http} {fs : List FieldLine} {h : Header} (e : tryFrom H fs = .ok h) : Inv H fs h := by
  rw [tryFrom_eq_loop] at e
  simpa using loop_inv H fs [] {} h (inv_nil H) e

/-- every field line of a section the loop accepts was accepted by `Field::parse` -/
theorem loop_parsed (H : Http) (fs : List FieldLine) :
    ∀ (h0 h : Header), tryFromLoop H h0 fs = .ok h → ∀ g ∈ fs, ∃ f, Field.parse H g.1 g.2 = .ok f := by
  induction fs with
  | nil => intro _ _ _ g hg; cases hg
  | cons g r ih =>
    intro h0 h hl g' hg'
    obtain ⟨n, v⟩ := g
    simp only [tryFromLoop] at hl
    split at hl
    · rename_i f hf
      split at hl
      · unfold mapFull at hl; split at hl <;> cases hl
      · rcases List.mem_cons.mp hg' with e | hm
        · subst e; exact ⟨f, hf⟩
        · exact ih _ _ hl g' hm
    · cases hl
    · cases hl

/-- **the D-12g fix**: every `:scheme` / `:authority` / `:path` value of a section `Header::try_from`
    accepts has passed h3's own check (`pseudo_value_syntax`), whatever the `http` parsers answer.
    Needs `H3.Gen.Headers.pseudoSyntaxChecked = true`: the proof evaluates the generated constant. -/
theorem tryFrom_syntax {H : Http} {fs : List FieldLine} {h : Header} (e : tryFrom H fs = .ok h) :
    ∀ f ∈ fs, PseudoSyntax f.1 f.2 := by
  have hc : H3.Gen.Headers.pseudoSyntaxChecked = true := rfl
  rw [tryFrom_eq_loop] at e
  intro g hg
  obtain ⟨f, hf⟩ := loop_parsed H fs _ _ e g hg
  exact parse_ok_syntax hc hf

/-- needs `H3.Gen.Headers.mapFallible = true` (the fallible `HeaderMap` constructors): the proof
    evaluates the generated constant. -/
theorem tryFrom_ne_panic (H : Http) (fs : List FieldLine) : tryFrom H fs ≠ .panic := by
  rw [tryFrom_eq_loop]
  exact loop_ne_panic H fs _

/-! ### the capacity of the map -/

theorem hmAppend_length_le (m : HeaderMap) (n v : Bytes) : (hmAppend m n v).length ≤ m.length + 1 := by
  have := congrArg List.length (hmAppend_keys m n v)
  simp only [List.length_map] at this
  rw [this]
  split <;> simp

theorem add_length_le (h : Header) (f : Field) (hc : h.fields.length ≤ hmMaxEntries)
    (hf : h.full f = false) : (h.add f).fields.length ≤ hmMaxEntries := by
  cases f with
  | header n v =>
    simp only [Header.full, decide_eq_false_iff_not] at hf
    have := hmAppend_length_le h.fields n v
    simp only [Header.add]
    omega
  | method _ | scheme _ | authority _ | path _ | status _ | protocol _ => exact hc

/-- a map `try_from` hands over holds at most `hmMaxEntries` names -/
theorem loop_cap (H : Http) (fs : List FieldLine) : ∀ (h0 h : Header),
    h0.fields.length ≤ hmMaxEntries → tryFromLoop H h0 fs = .ok h → h.fields.length ≤ hmMaxEntries := by
  induction fs with
  | nil => intro h0 h hc hl; simp only [tryFromLoop] at hl; cases hl; exact hc
  | cons g r ih =>
    intro h0 h hc hl
    obtain ⟨n, v⟩ := g
    simp only [tryFromLoop] at hl
    split at hl
    · rename_i f hf
      split at hl
      · unfold mapFull at hl; split at hl <;> cases hl
      · rename_i hfull
        exact ih _ h (add_length_le h0 f hc (by simpa using hfull)) hl
    · cases hl
    · cases hl

theorem tryFrom_cap {H : Http} {fs : List FieldLine} {h : Header} (e : tryFrom H fs = .ok h) :
    h.fields.length ≤ hmMaxEntries := by
  rw [tryFrom_eq_loop] at e
  exact loop_cap H fs {} h (by simp) e

theorem nodup_subset_length {α : Type} [DecidableEq α] : ∀ (ns ks : List α), ns.Nodup →
    (∀ n ∈ ns, n ∈ ks) → ns.length ≤ ks.length := by
  intro ns
  induction ns with
  | nil => intro ks _ _; simp
  | cons n r ih =>
    intro ks hnd hsub
    have hn : n ∈ ks := hsub n (by simp)
    have hnd' := List.nodup_cons.mp hnd
    have hr : ∀ x ∈ r, x ∈ ks.erase n := by
      intro x hx
      have hne : x ≠ n := fun e => hnd'.1 (e ▸ hx)
      exact (List.mem_erase_of_ne hne).mpr (hsub x (by simp [hx]))
    have := ih (ks.erase n) hnd'.2 hr
    rw [List.length_erase_of_mem hn] at this
    have hpos : 0 < ks.length := List.length_pos_of_mem hn
    simp only [List.length_cons]
    omega

/-- every regular name of the list is a name of the map handed over -/
theorem inv_names {H : Http} {fs : List FieldLine} {h : Header} (hi : Inv H fs h) (n v : Bytes)
    (hmem : (n, v) ∈ fs) (hn : ¬ IsPseudo n) : n ∈ h.fields.map (·.1) := by
  apply Classical.byContradiction
  intro hnot
  have hg := hi.group n
  rw [hmGroup_nil_of_not_mem _ _ hnot] at hg
  have : v ∈ valuesOf n (regular fs) := by
    rw [mem_valuesOf]
    unfold regular
    simp only [List.mem_filter, decide_eq_true_eq]
    exact ⟨hmem, hn⟩
  rw [← hg] at this
  cases this

/-- more than `hmMaxEntries` distinct regular names: `try_from` does not succeed -/
theorem tryFrom_too_many_names {H : Http} {fs : List FieldLine} (ns : List Bytes) (hnd : ns.Nodup)
    (hlen : hmMaxEntries < ns.length) (hocc : ∀ n ∈ ns, ¬ IsPseudo n ∧ ∃ v, (n, v) ∈ fs) :
    ∃ e, tryFrom H fs = .err e := by
  cases e : tryFrom H fs with
  | err x => exact ⟨x, rfl⟩
  | panic => exact absurd e (tryFrom_ne_panic H fs)
  | ok h =>
    exfalso
    have hi := tryFrom_ok e
    have hc := tryFrom_cap e
    have hsub : ∀ n ∈ ns, n ∈ h.fields.map (·.1) := by
      intro n hn
      obtain ⟨hp, v, hv⟩ := hocc n hn
      exact inv_names hi n v hv hp
    have := nodup_subset_length ns _ hnd hsub
    simp only [List.length_map] at this
    omega

/-! ### `HeaderIter` -/

/-- the pseudo-header fields still present, in the order `next` hands them out -/
def pseudoList (p : Pseudo) : List FieldLine :=
  optField nMethod p.method ++ optField nScheme p.scheme ++ optField nAuthority p.authority ++
  optField nPath p.path ++ optField nStatus (p.status.map statusDigits) ++ optField nProtocol p.protocol

/-- what the field loop of `next` yields over the rest of the map iterator -/
def fieldsFrom : Option Bytes → List (Option Bytes × Bytes) → List FieldLine
  | _, [] => []
  | last, (nn, v) :: r =>
    match (match nn with | some n => some n | none => last) with
    | some n => (n, v) :: fieldsFrom (some n) r
    | none => fieldsFrom none r

theorem fieldsFrom_group (k : Bytes) (vs : List Bytes) (rest : List (Option Bytes × Bytes)) :
    fieldsFrom (some k) (vs.map (fun w => (none, w)) ++ rest) = vs.map (fun w => (k, w)) ++ fieldsFrom (some k) rest := by
  induction vs with
  | nil => simp
  | cons w ws ih => simp [fieldsFrom, ih]

/-- the map iterator names every entry: whatever name was remembered before is irrelevant -/
theorem fieldsFrom_intoIter (m : HeaderMap) : ∀ last, fieldsFrom last (hmIntoIter m) = hmIter m := by
  induction m with
  | nil => intro last; simp [hmIntoIter, hmIter, fieldsFrom]
  | cons g r ih =>
    intro last
    obtain ⟨k, vs⟩ := g
    cases vs with
    | nil => simp [hmIntoIter, hmIter, ih]
    | cons v ws => simp [hmIntoIter, hmIter, fieldsFrom, fieldsFrom_group, ih]

theorem nextPseudo_spec (p : Pseudo) :
    match nextPseudo p with
    | none => pseudoList p = []
    | some (f, p') => pseudoList p = f :: pseudoList p' := by
  obtain ⟨m, s, a, pa, st, pr, len⟩ := p
  cases m <;> cases s <;> cases a <;> cases pa <;> cases st <;> cases pr <;>
    simp [nextPseudo, pseudoList, optField]

theorem drain_succ (fuel : Nat) (it : Iter) :
    Iter.drain (fuel + 1) it = match it.next with
      | none => []
      | some (f, it') => f :: Iter.drain fuel it' := rfl

theorem nextField_none {last : Option Bytes} {l : List (Option Bytes × Bytes)}
    (h : nextField last l = none) : fieldsFrom last l = [] := by
  induction l generalizing last with
  | nil => rfl
  | cons g r ih =>
    obtain ⟨nn, v⟩ := g
    cases nn with
    | some n => simp [nextField] at h
    | none =>
      cases last with
      | some n => simp [nextField] at h
      | none =>
        simp only [nextField] at h
        simp only [fieldsFrom]
        exact ih h

theorem nextField_some {last : Option Bytes} {l : List (Option Bytes × Bytes)} {f : FieldLine} {last' : Option Bytes}
    {rest : List (Option Bytes × Bytes)} (h : nextField last l = some (f, last', rest)) :
    fieldsFrom last l = f :: fieldsFrom last' rest ∧ rest.length < l.length := by
  induction l generalizing last with
  | nil => simp [nextField] at h
  | cons g r ih =>
    obtain ⟨nn, v⟩ := g
    cases nn with
    | some n =>
      simp only [nextField, Option.some.injEq, Prod.mk.injEq] at h
      obtain ⟨rfl, rfl, rfl⟩ := h
      simp [fieldsFrom]
    | none =>
      cases last with
      | some n =>
        simp only [nextField, Option.some.injEq, Prod.mk.injEq] at h
        obtain ⟨rfl, rfl, rfl⟩ := h
        simp [fieldsFrom]
      | none =>
        simp only [nextField] at h
        obtain ⟨h1, h2⟩ := ih h
        simp only [fieldsFrom, List.length_cons]
        exact ⟨h1, by omega⟩

/-- the field phase: enough fuel drains the rest of the map -/
theorem drain_fields (n : Nat) : ∀ (l : List (Option Bytes × Bytes)) (last : Option Bytes) (fuel : Nat),
    l.length ≤ n → l.length < fuel →
    Iter.drain fuel { pseudo := none, last := last, fields := l } = fieldsFrom last l := by
  induction n with
  | zero =>
    intro l last fuel hl hf
    have : l = [] := List.eq_nil_of_length_eq_zero (by omega)
    subst this
    cases fuel with
    | zero => simp at hf
    | succ k => simp [drain_succ, Iter.next, nextField, fieldsFrom]
  | succ n ih =>
    intro l last fuel hl hf
    cases fuel with
    | zero => omega
    | succ k =>
      rw [drain_succ]
      simp only [Iter.next, Option.bind_none]
      cases hnf : nextField last l with
      | none => simp [nextField_none hnf]
      | some x =>
        obtain ⟨f, last', rest⟩ := x
        obtain ⟨h1, h2⟩ := nextField_some hnf
        simp only [h1]
        rw [ih rest last' k (by omega) (by omega)]

/-- when no pseudo-header field is left the `Some(pseudo)` state behaves like `None` -/
theorem next_exhausted (p : Pseudo) (hp : nextPseudo p = none) (last : Option Bytes) (l : List (Option Bytes × Bytes)) :
    Iter.next { pseudo := some p, last := last, fields := l } = Iter.next { pseudo := none, last := last, fields := l } := by
  simp [Iter.next, hp]

/-- the pseudo phase followed by the field phase -/
theorem drain_pseudo (k : Nat) : ∀ (p : Pseudo) (last : Option Bytes) (l : List (Option Bytes × Bytes)) (fuel : Nat),
    (pseudoList p).length ≤ k → (pseudoList p).length + l.length < fuel →
    Iter.drain fuel { pseudo := some p, last := last, fields := l } = pseudoList p ++ fieldsFrom last l := by
  induction k with
  | zero =>
    intro p last l fuel hk hf
    have hnil : pseudoList p = [] := List.eq_nil_of_length_eq_zero (by omega)
    have hnp : nextPseudo p = none := by
      have := nextPseudo_spec p
      cases h : nextPseudo p with
      | none => rfl
      | some x => obtain ⟨f, p'⟩ := x; rw [h] at this; simp [hnil] at this
    cases fuel with
    | zero => omega
    | succ j =>
      rw [drain_succ, next_exhausted p hnp, ← drain_succ, hnil]
      simp only [List.nil_append]
      exact drain_fields l.length l last (j + 1) (Nat.le_refl _) (by simp [hnil] at hf; omega)
  | succ k ih =>
    intro p last l fuel hk hf
    have hs := nextPseudo_spec p
    cases h : nextPseudo p with
    | none =>
      rw [h] at hs
      cases fuel with
      | zero => omega
      | succ j =>
        rw [drain_succ, next_exhausted p h, ← drain_succ, hs]
        simp only [List.nil_append]
        exact drain_fields l.length l last (j + 1) (Nat.le_refl _) (by simp [hs] at hf; omega)
    | some x =>
      obtain ⟨f, p'⟩ := x
      rw [h] at hs
      simp only at hs
      cases fuel with
      | zero => omega
      | succ j =>
        rw [drain_succ]
        simp only [Iter.next, Option.bind_some, h]
        rw [hs] at hk hf
        simp only [List.length_cons] at hk hf
        rw [ih p' last l j (by omega) (by omega), hs]
        simp

theorem pseudoList_length_le (p : Pseudo) : (pseudoList p).length ≤ 6 := by
  obtain ⟨m, s, a, pa, st, pr, len⟩ := p
  cases m <;> cases s <;> cases a <;> cases pa <;> cases st <;> cases pr <;>
    simp [pseudoList, optField]

theorem hmIntoIter_length (m : HeaderMap) : (hmIntoIter m).length = (hmIter m).length := by
  induction m with
  | nil => rfl
  | cons g r ih =>
    obtain ⟨k, vs⟩ := g
    cases vs with
    | nil => simp [hmIntoIter, hmIter, ih]
    | cons v ws => simp [hmIntoIter, hmIter, ih]

/-- everything a `Header` hands to the encoder: the pseudo-header fields that are present, in the
    order method, scheme, authority, path, status, protocol, then the map in its own order. -/
theorem wireFields_eq (h : Header) : h.wireFields = pseudoList h.pseudo ++ hmIter h.fields := by
  unfold Header.wireFields Iter.collect Header.intoIter
  have := pseudoList_length_le h.pseudo
  rw [drain_pseudo 6 h.pseudo none (hmIntoIter h.fields) _ this (by simp only; omega), fieldsFrom_intoIter]

/-! ### from an accepted field to the oracle's `FieldOk` -/

/-- needs `H3.Gen.Headers.nameRejectsDquote = true`: the proof evaluates the generated constant. -/
theorem parseOk_fieldOk {H : Http} {n v : Bytes} {fld : Field} (hp : ParseOk H n v fld) : FieldOk H (n, v) := by
  have hq : H3.Gen.Headers.nameRejectsDquote = true := rfl
  show n ≠ [] ∧ (if IsPseudo n then PseudoOk H n v else LowerToken n ∧ LegalValue v)
  cases hp with
  | header hne hps hn hv =>
    refine ⟨hne, ?_⟩
    rw [if_neg ((not_isPseudo_iff n).mpr hps)]
    exact ⟨nameAccepted_lowerToken hq n hn, (validValue_iff v).mp hv⟩
  | scheme s e hs =>
    subst e; refine ⟨(by decide : nScheme ≠ []), ?_⟩
    rw [if_pos (by decide : IsPseudo nScheme)]; exact Or.inr (Or.inl ⟨rfl, by simp [hs]⟩)
  | authority a e ha =>
    subst e; refine ⟨(by decide : nAuthority ≠ []), ?_⟩
    rw [if_pos (by decide : IsPseudo nAuthority)]; exact Or.inr (Or.inr (Or.inl ⟨rfl, by simp [ha]⟩))
  | path p e hpp =>
    subst e; refine ⟨(by decide : nPath ≠ []), ?_⟩
    rw [if_pos (by decide : IsPseudo nPath)]; exact Or.inr (Or.inr (Or.inr (Or.inl ⟨rfl, by simp [hpp]⟩)))
  | method e hm =>
    subst e; refine ⟨(by decide : nMethod ≠ []), ?_⟩
    rw [if_pos (by decide : IsPseudo nMethod)]; exact Or.inl ⟨rfl, (validMethod_iff v).mp hm⟩
  | status e hs =>
    subst e; refine ⟨(by decide : nStatus ≠ []), ?_⟩
    rw [if_pos (by decide : IsPseudo nStatus)]; exact Or.inr (Or.inr (Or.inr (Or.inr (Or.inl ⟨rfl, (validStatus_iff v).mp hs⟩))))
  | protocol e hm =>
    subst e; refine ⟨(by decide : nProtocol ≠ []), ?_⟩
    rw [if_pos (by decide : IsPseudo nProtocol)]; exact Or.inr (Or.inr (Or.inr (Or.inr (Or.inr ⟨rfl, protocols_gen_eq_spec ▸ hm⟩))))

theorem inv_fieldOk {H : Http} {fs : List FieldLine} {h : Header} (hi : Inv H fs h) : ∀ f ∈ fs, FieldOk H f := by
  intro f hf
  obtain ⟨fld, hp⟩ := hi.accepted f hf
  exact parseOk_fieldOk hp

/-- an accepted `:authority` value parses, and prints as written -/
theorem parseOk_authority {H : Http} (L : HttpLaws H) {v : Bytes} {fld : Field} (hp : ParseOk H nAuthority v fld) :
    H.parseAuthority v = some v ∧ v ≠ [] := by
  cases hp with
  | header hne hps hn hv => exact absurd hps (by decide)
  | scheme s e hs => exact absurd e (by decide)
  | authority a e ha =>
    have := L.authority_as_str v a ha
    subst this
    refine ⟨ha, ?_⟩
    intro e0; subst e0; rw [L.authority_nonempty] at ha; cases ha
  | path p e hpp => exact absurd e (by decide)
  | method e hm => exact absurd e (by decide)
  | status e hs => exact absurd e (by decide)
  | protocol e hm => exact absurd e (by decide)

theorem parseOk_status {H : Http} {v : Bytes} {fld : Field} (hp : ParseOk H nStatus v fld) : validStatus v = true := by
  cases hp with
  | header hne hps hn hv => exact absurd hps (by decide)
  | scheme s e hs => exact absurd e (by decide)
  | authority a e ha => exact absurd e (by decide)
  | path p e hpp => exact absurd e (by decide)
  | method e hm => exact absurd e (by decide)
  | status e hs => exact hs
  | protocol e hm => exact absurd e (by decide)

theorem parseOk_scheme {H : Http} {v : Bytes} {fld : Field} (hp : ParseOk H nScheme v fld) :
    (H.parseScheme v).isSome = true := by
  cases hp with
  | header hne hps hn hv => exact absurd hps (by decide)
  | scheme s e hs => simp [hs]
  | authority a e ha => exact absurd e (by decide)
  | path p e hpp => exact absurd e (by decide)
  | method e hm => exact absurd e (by decide)
  | status e hs => exact absurd e (by decide)
  | protocol e hm => exact absurd e (by decide)

theorem parseOk_authority_some {H : Http} {v : Bytes} {fld : Field} (hp : ParseOk H nAuthority v fld) :
    (H.parseAuthority v).isSome = true := by
  cases hp with
  | header hne hps hn hv => exact absurd hps (by decide)
  | scheme s e hs => exact absurd e (by decide)
  | authority a e ha => simp [ha]
  | path p e hpp => exact absurd e (by decide)
  | method e hm => exact absurd e (by decide)
  | status e hs => exact absurd e (by decide)
  | protocol e hm => exact absurd e (by decide)

theorem parseOk_path {H : Http} {v : Bytes} {fld : Field} (hp : ParseOk H nPath v fld) :
    (H.parsePath v).isSome = true := by
  cases hp with
  | header hne hps hn hv => exact absurd hps (by decide)
  | scheme s e hs => exact absurd e (by decide)
  | authority a e ha => exact absurd e (by decide)
  | path p e hpp => simp [hpp]
  | method e hm => exact absurd e (by decide)
  | status e hs => exact absurd e (by decide)
  | protocol e hm => exact absurd e (by decide)

/-! ### pseudo-header fields of the other kind of message (D-12f) -/

/-- no field of the section is called `n` -/
theorem lastVal_none {n : Bytes} {fs : List FieldLine} (h : lastVal n fs = none) : ∀ f ∈ fs, f.1 ≠ n := by
  intro f hf e
  have hnil : valuesOf n fs = [] := by simpa [lastVal] using h
  have : f.2 ∈ valuesOf n fs := mem_valuesOf.mpr (by rw [← e]; exact hf)
  rw [hnil] at this
  cases this

/-- the `Header` holds no `:status`: the section has no `:status` field -/
theorem inv_no_status {H : Http} {fs : List FieldLine} {h : Header} (hi : Inv H fs h)
    (hs : h.pseudo.status = none) : ∀ f ∈ fs, f.1 ≠ nStatus := by
  apply lastVal_none
  have := hi.status
  rw [hs] at this
  cases e : lastVal nStatus fs with
  | none => rfl
  | some v => rw [e] at this; cases this

/-- the `Header` holds no request pseudo-header field: the section has none -/
theorem inv_no_request_field {H : Http} {fs : List FieldLine} {h : Header} (hi : Inv H fs h)
    (hr : h.pseudo.hasRequestField = false) :
    ∀ f ∈ fs, f.1 ≠ nMethod ∧ f.1 ≠ nScheme ∧ f.1 ≠ nAuthority ∧ f.1 ≠ nPath ∧ f.1 ≠ nProtocol := by
  simp only [Pseudo.hasRequestField, Bool.or_eq_false_iff, Option.isSome_eq_false_iff, Option.isNone_iff_eq_none] at hr
  obtain ⟨⟨⟨⟨hm, hs⟩, ha⟩, hp⟩, hpr⟩ := hr
  have h1 : lastVal nMethod fs = none := by rw [← hi.method]; exact hm
  have h5 : lastVal nProtocol fs = none := by rw [← hi.protocol]; exact hpr
  have h2 : lastVal nScheme fs = none := by
    cases e : lastVal nScheme fs with
    | none => rfl
    | some v =>
      exfalso
      obtain ⟨fld, hpo⟩ := hi.accepted _ (lastVal_mem e)
      have hsome := parseOk_scheme hpo
      have := hi.scheme
      rw [hs, e] at this
      simp only [Option.bind_some] at this
      rw [← this] at hsome
      cases hsome
  have h3 : lastVal nAuthority fs = none := by
    cases e : lastVal nAuthority fs with
    | none => rfl
    | some v =>
      exfalso
      obtain ⟨fld, hpo⟩ := hi.accepted _ (lastVal_mem e)
      have hsome := parseOk_authority_some hpo
      have := hi.authority
      rw [ha, e] at this
      simp only [Option.bind_some] at this
      rw [← this] at hsome
      cases hsome
  have h4 : lastVal nPath fs = none := by
    cases e : lastVal nPath fs with
    | none => rfl
    | some v =>
      exfalso
      obtain ⟨fld, hpo⟩ := hi.accepted _ (lastVal_mem e)
      have hsome := parseOk_path hpo
      have := hi.path
      rw [hp, e] at this
      simp only [Option.bind_some] at this
      rw [← this] at hsome
      cases hsome
  intro f hf
  exact ⟨lastVal_none h1 f hf, lastVal_none h2 f hf, lastVal_none h3 f hf, lastVal_none h4 f hf, lastVal_none h5 f hf⟩

/-- an accepted pseudo-header field bears one of the six names -/
theorem fieldOk_pseudo_name {H : Http} {f : FieldLine} (hok : FieldOk H f) (hp : IsPseudo f.1) :
    f.1 = nMethod ∨ f.1 = nScheme ∨ f.1 = nAuthority ∨ f.1 = nPath ∨ f.1 = nStatus ∨ f.1 = nProtocol := by
  have h2 := hok.2
  rw [if_pos hp] at h2
  rcases h2 with h | h | h | h | h | h
  · exact Or.inl h.1
  · exact Or.inr (Or.inl h.1)
  · exact Or.inr (Or.inr (Or.inl h.1))
  · exact Or.inr (Or.inr (Or.inr (Or.inl h.1)))
  · exact Or.inr (Or.inr (Or.inr (Or.inr (Or.inl h.1))))
  · exact Or.inr (Or.inr (Or.inr (Or.inr (Or.inr h.1))))

/-- accepted fields without a `:status`: every pseudo-header field is one defined for requests -/
theorem definedFor_request {H : Http} {fs : List FieldLine} (hok : ∀ f ∈ fs, FieldOk H f)
    (hno : ∀ f ∈ fs, f.1 ≠ nStatus) : DefinedFor requestPseudoNames fs := by
  intro f hf hp
  have hn := hno f hf
  rcases fieldOk_pseudo_name (hok f hf) hp with h | h | h | h | h | h
  · rw [h]; decide
  · rw [h]; decide
  · rw [h]; decide
  · rw [h]; decide
  · exact absurd h hn
  · rw [h]; decide

/-- accepted fields without a request pseudo-header field: every pseudo-header field is `:status` -/
theorem definedFor_response {H : Http} {fs : List FieldLine} (hok : ∀ f ∈ fs, FieldOk H f)
    (hno : ∀ f ∈ fs, f.1 ≠ nMethod ∧ f.1 ≠ nScheme ∧ f.1 ≠ nAuthority ∧ f.1 ≠ nPath ∧ f.1 ≠ nProtocol) :
    DefinedFor responsePseudoNames fs := by
  intro f hf hp
  obtain ⟨n1, n2, n3, n4, n5⟩ := hno f hf
  rcases fieldOk_pseudo_name (hok f hf) hp with h | h | h | h | h | h
  · exact absurd h n1
  · exact absurd h n2
  · exact absurd h n3
  · exact absurd h n4
  · rw [h]; decide
  · exact absurd h n5

/-- the `Host` value `into_request_parts` looks at is the first `host` field of the section -/
theorem inv_host {H : Http} {fs : List FieldLine} {h : Header} (hi : Inv H fs h) :
    hmGet h.fields nHost = (valuesOf nHost fs).head? := by
  unfold hmGet
  rw [hi.group nHost, valuesOf_regular_of_not_pseudo nHost (by decide)]

/-- the `:authority` the `Header` holds is the last one of the section, as written -/
theorem inv_authority {H : Http} (L : HttpLaws H) {fs : List FieldLine} {h : Header} (hi : Inv H fs h) :
    h.pseudo.authority = lastVal nAuthority fs := by
  rw [hi.authority]
  cases e : lastVal nAuthority fs with
  | none => rfl
  | some v =>
    obtain ⟨fld, hp⟩ := hi.accepted _ (lastVal_mem e)
    simp [(parseOk_authority L hp).1]

theorem inv_carries {H : Http} {fs : List FieldLine} {h : Header} (hi : Inv H fs h) :
    CarriesRegular (hmIter h.fields) fs := by
  intro n
  rw [hmIter_filter _ hi.wf, hi.group n]
  unfold valuesOf
  rw [List.map_map]
  have : ∀ l : List FieldLine, (∀ f ∈ l, f.1 = n) → l.map ((fun v => (n, v)) ∘ fun f => f.2) = l := by
    intro l hl
    induction l with
    | nil => rfl
    | cons a l ih =>
      have ha := hl a (by simp)
      obtain ⟨a1, a2⟩ := a
      simp only at ha
      subst ha
      simp only [List.map_cons, Function.comp]
      rw [ih (fun f hf => hl f (by simp [hf]))]
  exact this _ (fun f hf => by simpa using (List.mem_filter.mp hf).2)

theorem chooseAuthority_ok {a h : Option Bytes} {x : Bytes} (e : chooseAuthority a h = .ok x) :
    (h = some x ∧ ∀ y, a = some y → y = x) ∨ (h = none ∧ a = some x) := by
  cases a <;> cases h <;> simp only [chooseAuthority] at e
  · cases e
  · cases e; exact Or.inl ⟨rfl, by intro y hy; cases hy⟩
  · cases e; exact Or.inr ⟨rfl, rfl⟩
  · split at e
    · rename_i hab; cases e; exact Or.inl ⟨rfl, by intro y hy; cases hy; exact hab⟩
    · cases e

/-- every value is the first one -/
theorem allFirst_iff (l : List Bytes) : allFirst l = true ↔ ∀ v ∈ l, l.head? = some v := by
  cases l with
  | nil => simp [allFirst]
  | cons a r =>
    simp only [allFirst, List.all_eq_true, beq_iff_eq, List.head?_cons, Option.some.injEq, List.mem_cons,
      forall_eq_or_imp, true_and]
    constructor
    · intro h v hv; exact (h v hv).symm
    · intro h v hv; exact (h v hv).symm

/-- the `Host` values `into_request_parts` looks at are the `host` fields of the section, in order -/
theorem inv_hosts {H : Http} {fs : List FieldLine} {h : Header} (hi : Inv H fs h) :
    hmGroup h.fields nHost = valuesOf nHost fs := by
  rw [hi.group nHost, valuesOf_regular_of_not_pseudo nHost (by decide)]

/-- needs `H3.Gen.Headers.hostEveryValue = true` (the D-12e fix: every `Host` value is looked at) and
    `H3.Gen.Headers.otherKindRefused = true` (the D-12f fix: a parsed `:status` is refused): the
    proof evaluates the generated constants. -/
theorem intoRequestParts_ok {H : Http} {h : Header} {r : RequestParts} (e : h.intoRequestParts H = .ok r) :
    h.pseudo.status = none ∧
    allFirst (hmGroup h.fields nHost) = true ∧
    ∃ auth m, chooseAuthority h.pseudo.authority (hmGet h.fields nHost) = .ok auth ∧ h.pseudo.method = some m ∧
      H.uriBuild h.pseudo.scheme auth h.pseudo.path = some r.uri ∧
      r.method = m ∧ r.protocol = h.pseudo.protocol ∧ r.headers = h.fields := by
  have hv : H3.Gen.Headers.hostEveryValue = true := rfl
  have hk : H3.Gen.Headers.otherKindRefused = true := rfl
  unfold Header.intoRequestParts at e
  rw [hv, hk] at e
  simp only [Bool.true_and] at e
  split at e
  · cases e
  rename_i hst
  refine ⟨by simpa using hst, ?_⟩
  split at e
  · cases e
  rename_i hall
  refine ⟨by simpa using hall, ?_⟩
  split at e
  · cases e
  · cases e
  · rename_i auth hc
    split at e
    · cases e
    · rename_i m hm
      split at e
      · cases e
      · rename_i u hu
        cases e
        exact ⟨auth, m, hc, hm, hu, rfl, rfl, rfl⟩

/-- needs `H3.Gen.Headers.otherKindRefused = true` (the D-12f fix: a parsed request pseudo-header
    field is refused): the proof evaluates the generated constant. -/
theorem intoResponseParts_ok {h : Header} {st : Nat} {m : HeaderMap} (e : h.intoResponseParts = .ok (st, m)) :
    h.pseudo.hasRequestField = false ∧ h.pseudo.status = some st ∧ m = h.fields := by
  have hk : H3.Gen.Headers.otherKindRefused = true := rfl
  unfold Header.intoResponseParts at e
  rw [hk] at e
  simp only [Bool.true_and] at e
  split at e
  · cases e
  rename_i hr
  refine ⟨by simpa using hr, ?_⟩
  split at e
  · cases e
  · rename_i s hs
    cases e
    exact ⟨hs, rfl⟩

theorem intoResponseParts_ne_panic (h : Header) : h.intoResponseParts ≠ .panic := by
  unfold Header.intoResponseParts
  split
  · simp
  · split <;> simp

end H3.Headers
