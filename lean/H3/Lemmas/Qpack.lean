import H3.Model.Qpack
import H3.Spec.Qpack
/-! Helper lemmas for C11 / C10. -/
instance {ε α : Type} [DecidableEq ε] [DecidableEq α] : DecidableEq (Except ε α) := fun a b =>
  match a, b with
  | .ok x, .ok y => if h : x = y then isTrue (by rw [h]) else isFalse (fun hc => h (by injection hc))
  | .error x, .error y => if h : x = y then isTrue (by rw [h]) else isFalse (fun hc => h (by injection hc))
  | .ok _, .error _ => isFalse (fun hc => by cases hc)
  | .error _, .ok _ => isFalse (fun hc => by cases hc)

namespace H3.Qpack.Lemmas
open H3.Qpack

/-! ### prefixed integers: structural facts (no arithmetic) -/

theorem decLoop_suffix (f : Nat) : ∀ (r : List Nat) (v p f' v' : Nat) (rest : List Nat),
    PrefixInt.decLoop f v p r = .ok f' v' rest → ∃ pre, pre ≠ [] ∧ r = pre ++ rest := by
  intro r
  induction r with
  | nil => intro v p f' v' rest h; simp [PrefixInt.decLoop] at h
  | cons b r ih =>
    intro v p f' v' rest h
    unfold PrefixInt.decLoop at h
    simp only at h
    split at h
    · injection h with _ _ h3
      exact ⟨[b], by simp, by simp [h3]⟩
    · split at h
      · cases h
      · obtain ⟨pre, _, hp⟩ := ih _ _ _ _ _ h
        exact ⟨b :: pre, by simp, by simp [hp]⟩

theorem decode_suffix (n : Nat) (bs : List Nat) (f v : Nat) (rest : List Nat)
    (h : PrefixInt.decode n bs = .ok f v rest) : ∃ pre, pre ≠ [] ∧ bs = pre ++ rest := by
  unfold PrefixInt.decode PrefixInt.decode? at h
  split at h
  · simp at h
  · cases bs with
    | nil => simp at h
    | cons first r =>
      simp only at h
      split at h
      · simp at h
      · split at h
        · simp only [Option.getD_some] at h
          injection h with _ _ h3
          exact ⟨[first], by simp, by simp [h3]⟩
        · simp only [Option.getD_some] at h
          obtain ⟨pre, _, hp⟩ := decLoop_suffix _ _ _ _ _ _ _ h
          exact ⟨first :: pre, by simp, by simp [hp]⟩

/-! ### the C15 theorems this development builds on

    The statements are those of `H3.Props.C15` (`C15_prefix_int_roundtrip`,
    `C15_prefix_int_ok_sound`, `C15_huffman_roundtrip`, `C15_string_literal_encode`, `C15_string_literal_roundtrip`,
    `C15_huffman_accepts_exactly_partial`), verbatim; the C11/C10 theorems take the bundle as a
    hypothesis, to be discharged with `⟨C15_prefix_int_roundtrip, …⟩`. -/
structure C15Facts : Prop where
  prefix_int_roundtrip : ∀ (n flags v : Nat) (_hn1 : 1 ≤ n) (_hn8 : n ≤ 8) (_hf : flags < 2 ^ (8 - n))
      (_hv : v - (2 ^ n - 1) < 2 ^ 63) (rest : List Nat),
    PrefixInt.encode? n flags v = some (PrefixInt.encode n flags v) ∧
    (∀ b ∈ PrefixInt.encode n flags v, b < 256) ∧
    PrefixInt.decode? n (PrefixInt.encode n flags v ++ rest) = some (.ok flags v rest) ∧
    PrefixInt.decode n (PrefixInt.encode n flags v ++ rest) = .ok flags v rest
  prefix_int_ok_sound : ∀ (n : Nat) (_hn1 : 1 ≤ n) (_hn8 : n ≤ 8) (bs : List Nat)
      (_hwf : ∀ b ∈ bs, b < 256) (f v : Nat) (rest : List Nat)
      (_h : PrefixInt.decode n bs = .ok f v rest),
    PrefixInt.rfcDecode n bs = some (v, rest) ∧ v < 2 ^ 64 ∧ v - (2 ^ n - 1) < 2 ^ 63 ∧
    ∃ first r, bs = first :: r ∧ f = first / 2 ^ n
  huffman_roundtrip : ∀ (s : List Nat) (_hs : ∀ x ∈ s, x < 256)
      (_hfit : 7 * (Huffman.hencode s).length < 2 ^ 32),
    Huffman.hencode? s = some (Huffman.hencode s) ∧
    Huffman.hencode s = Spec.Huffman.specEncode s ∧
    H3.Bits.bitsOf (Huffman.hencode s) = Spec.Huffman.enc s ++
      List.replicate ((8 - (Spec.Huffman.enc s).length % 8) % 8) true ∧
    (∀ b ∈ Huffman.hencode s, b < 256) ∧
    Huffman.hdecodeX (Huffman.hencode s) = .ok (s, false) ∧
    Huffman.hdecode (Huffman.hencode s) = .ok s ∧
    Huffman.lax (Huffman.hencode s) = false ∧
    ∀ g grow, Huffman.hencodeC g grow s = some (.ok (Huffman.hencode s))
  string_literal_encode : ∀ (n flags : Nat) (_hn2 : 2 ≤ n) (_hn8 : n ≤ 8) (_hf : flags < 2 ^ (8 - n))
      (s : List Nat) (_hs : ∀ x ∈ s, x < 256) (_hfit : 7 * (Huffman.hencode s).length < 2 ^ 32),
    PrefixString.encode? n flags s = some (PrefixString.encode n flags s) ∧
    PrefixString.encode n flags s =
      PrefixInt.encode (n - 1) (2 * flags + 1) (Huffman.hencode s).length ++ Huffman.hencode s ∧
    ∀ g grow, PrefixString.encodeC? g grow n flags s = some (.ok (PrefixString.encode n flags s))
  string_literal_roundtrip : ∀ (n flags : Nat) (_hn2 : 2 ≤ n) (_hn8 : n ≤ 8) (_hf : flags < 2 ^ (8 - n))
      (s : List Nat) (_hs : ∀ x ∈ s, x < 256) (_hlen : (Huffman.hencode s).length * 8 + 16 < 2 ^ 32)
      (rest : List Nat),
    PrefixString.encode? n flags s = some (PrefixString.encode n flags s) ∧
    PrefixString.encode n flags s =
      PrefixInt.encode (n - 1) (2 * flags + 1) (Huffman.hencode s).length ++ Huffman.hencode s ∧
    PrefixString.decode? n (PrefixString.encode n flags s ++ rest) = some (.ok flags s rest) ∧
    PrefixString.decode n (PrefixString.encode n flags s ++ rest) = .ok flags s rest ∧
    ∀ g, PrefixString.decodeG? g n (PrefixString.encode n flags s ++ rest) = some (.ok flags s rest)
  huffman_accepts_exactly_partial : ∀ (b : List Nat) (_hb : ∀ x ∈ b, x < 256) (s : List Nat),
    (Spec.Huffman.specDecode b = some s → Huffman.hdecodeX b = .ok (s, false)) ∧
    (Huffman.hdecodeX b = .ok (s, false) → Spec.Huffman.specDecode b = some s) ∧
    (Huffman.hdecodeX b = .ok (s, true) → Spec.Huffman.specDecode b = none) ∧
    (Spec.Huffman.specDecode b = some s → Huffman.hdecode b = .ok s ∧ Huffman.lax b = false) ∧
    (Huffman.hdecode b = .ok s → Huffman.lax b = false → Spec.Huffman.specDecode b = some s) ∧
    Huffman.hdecodeX b ≠ .error .fuel

abbrev WF (bs : List Nat) : Prop := ∀ b ∈ bs, b < 256

theorem wf_of_append_right {a b : List Nat} (h : WF (a ++ b)) : WF b :=
  fun x hx => h x (List.mem_append_right a hx)

theorem wf_of_append_left {a b : List Nat} (h : WF (a ++ b)) : WF a :=
  fun x hx => h x (List.mem_append_left b hx)

theorem wf_take {a : List Nat} (h : WF a) (k : Nat) : WF (a.take k) :=
  fun x hx => h x (List.mem_of_mem_take hx)

theorem wf_drop {a : List Nat} (h : WF a) (k : Nat) : WF (a.drop k) :=
  fun x hx => h x (List.mem_of_mem_drop hx)

/-! ### string literals: what the model accepts outside the lax branch is what RFC 7541 §5.2 says -/

theorem decode_of_decode? {n : Nat} {bs : List Nat} {x : PrefixInt.Res}
    (h : PrefixInt.decode? n bs = some x) : PrefixInt.decode n bs = x := by
  simp [PrefixInt.decode, h]

/-- shape of an accepted string literal (no C15 fact needed) -/
theorem strDecode_shape (n : Nat) (hn0 : n ≠ 0) (bs v rest : List Nat) (lax : Bool)
    (h : strDecode n bs = .ok (v, rest, lax)) :
    ∃ flags len r1, PrefixInt.decode (n - 1) bs = .ok flags len r1 ∧ len ≤ r1.length ∧
      rest = r1.drop len ∧
      ((flags % 2 = 0 ∧ v = r1.take len ∧ lax = false) ∨
       (flags % 2 = 1 ∧ Huffman.hdecode (r1.take len) = .ok v ∧ lax = Huffman.lax (r1.take len))) := by
  unfold strDecode at h
  cases hps : PrefixString.decode n bs with
  | err k => simp [hps] at h
  | ok fl v' rest' =>
    simp only [hps] at h
    injection h with h
    simp only [Prod.mk.injEq] at h
    obtain ⟨rfl, rfl, hl⟩ := h
    unfold PrefixString.decode PrefixString.decode? PrefixString.decodeG? at hps
    rw [if_neg hn0] at hps
    cases hd? : PrefixInt.decode? (n - 1) bs with
    | none => simp [hd?] at hps
    | some r =>
      have hd := decode_of_decode? hd?
      simp only [hd?] at hps
      cases r with
      | endOf => simp at hps
      | overflow => simp at hps
      | ok flags len r1 =>
        simp only at hps
        by_cases hhuge : (H3.Gen.HuffDec.hugeLiteralRefused && PrefixString.hugeHuffman flags len) = true
        · rw [if_pos hhuge] at hps; simp at hps
        rw [if_neg hhuge] at hps
        simp only [Option.getD_some] at hps
        unfold PrefixString.decodePayload at hps
        by_cases hlen : r1.length < len
        · rw [if_pos hlen] at hps; cases hps
        · rw [if_neg hlen] at hps
          refine ⟨flags, len, r1, hd, by omega, ?_⟩
          have hlax : strLax n bs = (flags % 2 == 1 && decide (len ≤ r1.length) && Huffman.lax (r1.take len)) := by
            simp [strLax, hd]
          by_cases hf : flags % 2 = 0
          · simp only [hf, if_true] at hps
            injection hps with _ h2 h3
            refine ⟨h3.symm, Or.inl ⟨hf, h2.symm, ?_⟩⟩
            rw [← hl, hlax]; simp [hf]
          · simp only [hf, if_false] at hps
            cases hh : Huffman.hdecode (r1.take len) with
            | error e => simp [hh] at hps
            | ok w =>
              simp only [hh] at hps
              injection hps with _ h2 h3
              refine ⟨h3.symm, Or.inr ⟨by omega, by rw [h2], ?_⟩⟩
              rw [← hl, hlax]
              have : flags % 2 = 1 := by omega
              have hle : len ≤ r1.length := by omega
              simp [this, hle]

theorem strDecode_sound (h15 : C15Facts) (n : Nat) (hn : n = 4 ∨ n = 8) (bs : List Nat) (hwf : WF bs)
    (v rest : List Nat) (h : strDecode n bs = .ok (v, rest, false)) :
    Spec.Qpack.stringLiteral (n - 1) bs = .ok (v, rest) ∧ ∃ pre, pre ≠ [] ∧ bs = pre ++ rest := by
  have hn0 : n ≠ 0 := by omega
  obtain ⟨flags, len, r1, hd, hlen, hrest, hcase⟩ := strDecode_shape n hn0 bs v rest false h
  have hm1 : 1 ≤ n - 1 := by omega
  have hm8 : n - 1 ≤ 8 := by omega
  obtain ⟨hrfc, _, _, first, r, hbs, hflags⟩ := h15.prefix_int_ok_sound (n - 1) hm1 hm8 bs hwf flags len r1 hd
  obtain ⟨pre, hpre, hsplit⟩ := decode_suffix _ _ _ _ _ hd
  have hwf1 : WF r1 := by rw [hsplit] at hwf; exact wf_of_append_right hwf
  refine ⟨?_, pre ++ r1.take len, by simp [hpre], ?_⟩
  · subst hbs
    unfold Spec.Qpack.stringLiteral
    simp only [hrfc]
    rw [if_neg (by omega)]
    rcases hcase with ⟨hf, hv, _⟩ | ⟨hf, hh, hl⟩
    · rw [if_neg (by omega)]; rw [hv, hrest]
    · rw [if_pos (by omega)]
      have := (h15.huffman_accepts_exactly_partial (r1.take len) (wf_take hwf1 len) v).2.2.2.2.1 hh hl.symm
      simp only [this]; rw [hrest]
  · rw [hrest, List.append_assoc, List.take_append_drop]; exact hsplit

/-! ### the first octet of a field line: arithmetic tests of `block.rs` against bit patterns -/

theorem bits8 (b : Nat) : H3.Bits.bitsN 8 b =
    [b / 128 % 2 == 1, b / 64 % 2 == 1, b / 32 % 2 == 1, b / 16 % 2 == 1,
     b / 8 % 2 == 1, b / 4 % 2 == 1, b / 2 % 2 == 1, b % 2 == 1] := by
  simp [H3.Bits.bitsN]

/-- the generated table is Appendix A (kernel evaluation) -/
theorem table_eq : H3.Gen.StaticTable.table = H3.Spec.Qpack.staticTable := by decide +kernel

theorem get_spec (i : Nat) (f : Field) (h : StaticTable.get i = some f) :
    H3.Spec.Qpack.staticTable[i]? = some (f.name, f.value) := by
  unfold StaticTable.get at h
  rw [← table_eq]
  cases ht : H3.Gen.StaticTable.table[i]? with
  | none => simp [ht] at h
  | some p =>
    obtain ⟨n, v⟩ := p
    simp only [ht] at h
    injection h with h
    subst h; rfl

/-! ### one field line -/

theorem indexed_sound (h15 : C15Facts) (first : Nat) (r : List Nat) (hwf : WF (first :: r))
    (i : Nat) (rest : List Nat)
    (h : Indexed.decode (first :: r) = .ok (.static i, rest)) :
    Spec.Qpack.parseLine first r = .ok (.indexed true i, rest) ∧
      ∃ pre, pre ≠ [] ∧ first :: r = pre ++ rest := by
  unfold Indexed.decode at h
  cases hd : PrefixInt.decode 6 (first :: r) with
  | endOf => simp [hd] at h
  | overflow => simp [hd] at h
  | ok fl j rest1 =>
    simp only [hd] at h
    obtain ⟨hrfc, _, _, first', r', hbs, hfl⟩ :=
      h15.prefix_int_ok_sound 6 (by omega) (by omega) _ hwf fl j rest1 hd
    injection hbs with h1 h2
    subst h1 h2
    have hlt : first < 256 := hwf first (by simp)
    by_cases h3 : fl = 3
    · rw [if_pos h3] at h
      split at h
      · cases h
      · injection h with h
        simp only [Prod.mk.injEq, Indexed.static.injEq] at h
        obtain ⟨rfl, rfl⟩ := h
        refine ⟨?_, decode_suffix _ _ _ _ _ hd⟩
        unfold Spec.Qpack.parseLine
        rw [bits8]
        have e1 : (first / 128 % 2 == 1) = true := by simp; omega
        have e2 : (first / 64 % 2 == 1) = true := by simp; omega
        simp only [e1, e2, hrfc]
    · rw [if_neg h3] at h
      split at h
      · split at h <;> cases h
      · cases h

theorem nameRef_sound (h15 : C15Facts) (first : Nat) (r : List Nat) (hwf : WF (first :: r))
    (h128 : first / 128 % 2 = 0) (h64 : first / 64 % 4 = 1) (i : Nat) (v rest : List Nat)
    (h : LiteralWithNameRef.decode (first :: r) = .ok (.static i v, rest, false)) :
    (∃ nb, Spec.Qpack.parseLine first r = .ok (.literalNameRef nb true i v, rest)) ∧
      ∃ pre, pre ≠ [] ∧ first :: r = pre ++ rest := by
  unfold LiteralWithNameRef.decode at h
  cases hd : PrefixInt.decode 4 (first :: r) with
  | endOf => simp [hd] at h
  | overflow => simp [hd] at h
  | ok fl j r1 =>
    simp only [hd] at h
    obtain ⟨hrfc, _, _, first', r', hbs, hfl⟩ :=
      h15.prefix_int_ok_sound 4 (by omega) (by omega) _ hwf fl j r1 hd
    injection hbs with e1 e2
    subst e1 e2
    obtain ⟨pre1, hpre1, hsplit1⟩ := decode_suffix _ _ _ _ _ hd
    have hwf1 : WF r1 := by rw [hsplit1] at hwf; exact wf_of_append_right hwf
    by_cases hs : fl % 2 = 1 ∧ fl / 4 % 2 = 1
    · rw [if_pos hs] at h
      split at h
      · cases h
      · cases hsd : strDecode 8 r1 with
        | error e => simp [hsd] at h
        | ok x =>
          obtain ⟨v', rest', lax⟩ := x
          simp only [hsd] at h
          injection h with h
          simp only [Prod.mk.injEq, LiteralWithNameRef.static.injEq] at h
          obtain ⟨⟨rfl, rfl⟩, rfl, rfl⟩ := h
          obtain ⟨hstr, pre2, _, hsplit2⟩ := strDecode_sound h15 8 (Or.inr rfl) r1 hwf1 _ _ hsd
          refine ⟨⟨first / 32 % 2 == 1, ?_⟩, pre1 ++ pre2, by simp [hpre1], ?_⟩
          · unfold Spec.Qpack.parseLine
            rw [bits8]
            have b1 : (first / 128 % 2 == 1) = false := by simp; omega
            have b2 : (first / 64 % 2 == 1) = true := by simp; omega
            have b4 : (first / 16 % 2 == 1) = true := by simp; omega
            simp only [b1, b2, b4]
            unfold Spec.Qpack.indexThenValue
            simp only [hrfc]
            simp only [show (8 : Nat) - 1 = 7 from rfl] at hstr
            simp only [hstr]
          · rw [List.append_assoc, ← hsplit2]; exact hsplit1
    · rw [if_neg hs] at h
      split at h
      · split at h
        · cases h
        · cases hsd : strDecode 8 r1 with
          | error e => simp [hsd] at h
          | ok x =>
            obtain ⟨v', rest', lax⟩ := x
            simp [hsd] at h
      · cases h

theorem literal_sound (h15 : C15Facts) (first : Nat) (r : List Nat) (hwf : WF (first :: r))
    (h128 : first / 128 % 2 = 0) (h32 : first / 32 % 8 = 1) (name value rest : List Nat)
    (h : Literal.decode (first :: r) = .ok ((name, value), rest, false)) :
    (∃ nb, Spec.Qpack.parseLine first r = .ok (.literal nb name value, rest)) ∧
      ∃ pre, pre ≠ [] ∧ first :: r = pre ++ rest := by
  unfold Literal.decode at h
  simp only at h
  rw [if_neg (by omega)] at h
  cases hs1 : strDecode 4 (first :: r) with
  | error e => simp [hs1] at h
  | ok x =>
    obtain ⟨name', r1, lax1⟩ := x
    simp only [hs1] at h
    cases hs2 : strDecode 8 r1 with
    | error e => simp [hs2] at h
    | ok y =>
      obtain ⟨value', r2, lax2⟩ := y
      simp only [hs2] at h
      injection h with h
      simp only [Prod.mk.injEq, Bool.or_eq_false_iff] at h
      obtain ⟨⟨rfl, rfl⟩, rfl, rfl, rfl⟩ := h
      obtain ⟨hstr1, pre1, hpre1, hsplit1⟩ := strDecode_sound h15 4 (Or.inl rfl) _ hwf _ _ hs1
      have hwf1 : WF r1 := by rw [hsplit1] at hwf; exact wf_of_append_right hwf
      obtain ⟨hstr2, pre2, _, hsplit2⟩ := strDecode_sound h15 8 (Or.inr rfl) r1 hwf1 _ _ hs2
      have hlt : first < 256 := hwf first (by simp)
      refine ⟨⟨first / 16 % 2 == 1, ?_⟩, pre1 ++ pre2, by simp [hpre1], ?_⟩
      · unfold Spec.Qpack.parseLine
        rw [bits8]
        have b1 : (first / 128 % 2 == 1) = false := by simp; omega
        have b2 : (first / 64 % 2 == 1) = false := by simp; omega
        have b3 : (first / 32 % 2 == 1) = true := by simp; omega
        simp only [b1, b2, b3]
        simp only [show (4 : Nat) - 1 = 3 from rfl] at hstr1
        simp only [show (8 : Nat) - 1 = 7 from rfl] at hstr2
        simp only [hstr1, hstr2]
      · rw [List.append_assoc, ← hsplit2]; exact hsplit1

/-- What `decode_stateless` accepts as one field line outside the lax branch is a valid RFC 9204
    line of one of the three stateless kinds, with the same meaning. -/
theorem decodeField_sound (h15 : C15Facts) (first : Nat) (r : List Nat) (hwf : WF (first :: r))
    (f : Field) (rest : List Nat) (h : decodeField first (first :: r) = .ok (f, rest, false)) :
    ∃ l, Spec.Qpack.parseLine first r = .ok (l, rest) ∧
      Spec.Qpack.interp l = .ok (f.name, f.value) ∧ l.isStateless = true ∧
      ∃ pre, pre ≠ [] ∧ first :: r = pre ++ rest := by
  unfold decodeField HeaderBlockField.decode at h
  by_cases c1 : first / 128 % 2 ≠ 0
  · rw [if_pos c1] at h
    simp only at h
    cases hd : Indexed.decode (first :: r) with
    | error e => simp [hd] at h
    | ok x =>
      obtain ⟨ix, rest1⟩ := x
      cases ix with
      | dynamic j => simp [hd] at h
      | static j =>
        simp only [hd] at h
        cases hg : StaticTable.get j with
        | none => simp [hg] at h
        | some f0 =>
          simp only [hg] at h
          injection h with h
          simp only [Prod.mk.injEq] at h
          obtain ⟨rfl, rfl, _⟩ := h
          obtain ⟨hp, hsuf⟩ := indexed_sound h15 first r hwf j rest1 hd
          refine ⟨_, hp, ?_, rfl, hsuf⟩
          simp only [Spec.Qpack.interp, get_spec j f0 hg]
  · rw [if_neg c1] at h
    by_cases c2 : first / 16 % 16 = 1
    · rw [if_pos c2] at h; cases h
    · rw [if_neg c2] at h
      by_cases c3 : first / 64 % 4 = 1
      · rw [if_pos c3] at h
        simp only at h
        cases hd : LiteralWithNameRef.decode (first :: r) with
        | error e => simp [hd] at h
        | ok x =>
          obtain ⟨lit, rest1, lax⟩ := x
          cases lit with
          | dynamic j v => simp [hd] at h
          | static j v =>
            simp only [hd] at h
            cases hg : StaticTable.get j with
            | none => simp [hg] at h
            | some f0 =>
              simp only [hg] at h
              injection h with h
              simp only [Prod.mk.injEq] at h
              obtain ⟨rfl, rfl, rfl⟩ := h
              obtain ⟨⟨nb, hp⟩, hsuf⟩ := nameRef_sound h15 first r hwf (by omega) c3 j v rest1 hd
              refine ⟨_, hp, ?_, rfl, hsuf⟩
              simp only [Spec.Qpack.interp, get_spec j f0 hg, Field.withValue]
      · rw [if_neg c3] at h
        by_cases c4 : first / 16 % 16 = 0
        · rw [if_pos c4] at h; cases h
        · rw [if_neg c4] at h
          by_cases c5 : first / 32 % 8 = 1
          · rw [if_pos c5] at h
            simp only at h
            cases hd : Literal.decode (first :: r) with
            | error e => simp [hd] at h
            | ok x =>
              obtain ⟨⟨name, value⟩, rest1, lax⟩ := x
              simp only [hd] at h
              injection h with h
              simp only [Prod.mk.injEq] at h
              obtain ⟨rfl, rfl, rfl⟩ := h
              obtain ⟨⟨nb, hp⟩, hsuf⟩ := literal_sound h15 first r hwf (by omega) c5 name value rest1 hd
              exact ⟨_, hp, rfl, rfl, hsuf⟩
          · rw [if_neg c5] at h; cases h

/-! ### the loop and the whole section -/

/-- the field list as the specification writes it -/
def pairs (fs : List Field) : List (List Nat × List Nat) := fs.map fun f => (f.name, f.value)

theorem size_pairs_cons (f : Field) (fs : List Field) :
    Spec.Qpack.size (pairs (f :: fs)) = f.memSize + Spec.Qpack.size (pairs fs) := by
  simp [pairs, Spec.Qpack.size, Field.memSize, H3.Gen.Field.ESTIMATED_OVERHEAD_BYTES]

theorem decodeLoop_nil (max fuel mem : Nat) : decodeLoop max fuel [] mem = (.ok [] mem, false) := by
  cases fuel <;> rfl

theorem decodeLoop_sound (h15 : C15Facts) (max : Nat) : ∀ (fuel : Nat) (bs : List Nat) (mem : Nat)
    (fs : List Field) (total fuel2 : Nat), WF bs → bs.length ≤ fuel2 →
    decodeLoop max fuel bs mem = (.ok fs total, false) →
    ∃ ls, Spec.Qpack.parseLines fuel2 bs = .ok ls ∧ Spec.Qpack.interpAll ls = .ok (pairs fs) ∧
      ls.all (·.isStateless) = true ∧ total = mem + Spec.Qpack.size (pairs fs) ∧
      (mem ≤ max → total ≤ max) := by
  intro fuel
  induction fuel with
  | zero =>
    intro bs mem fs total fuel2 _ _ h
    cases bs with
    | nil =>
      rw [decodeLoop_nil] at h
      simp only [Prod.mk.injEq, Res.ok.injEq] at h
      obtain ⟨⟨rfl, rfl⟩, _⟩ := h
      refine ⟨[], ?_, rfl, rfl, by simp [pairs, Spec.Qpack.size], fun h => h⟩
      cases fuel2 <;> rfl
    | cons b r => simp [decodeLoop] at h
  | succ fuel ih =>
    intro bs mem fs total fuel2 hwf hlen h
    cases bs with
    | nil =>
      rw [decodeLoop_nil] at h
      simp only [Prod.mk.injEq, Res.ok.injEq] at h
      obtain ⟨⟨rfl, rfl⟩, _⟩ := h
      refine ⟨[], ?_, rfl, rfl, by simp [pairs, Spec.Qpack.size], fun h => h⟩
      cases fuel2 <;> rfl
    | cons first r =>
      simp only [decodeLoop] at h
      cases hdf : decodeField first (first :: r) with
      | error e => simp [hdf] at h
      | ok x =>
        obtain ⟨field, rest, lax⟩ := x
        simp only [hdf] at h
        by_cases hm : mem + field.memSize > max
        · rw [if_pos hm] at h; simp at h
        · rw [if_neg hm] at h
          cases hrec : decodeLoop max fuel rest (mem + field.memSize) with
          | mk res lax' =>
            cases res with
            | err e => simp [hrec] at h
            | ok fs' total' =>
              simp only [hrec, Prod.mk.injEq, Res.ok.injEq, Bool.or_eq_false_iff] at h
              obtain ⟨⟨rfl, rfl⟩, rfl, rfl⟩ := h
              obtain ⟨l, hpl, hint, hst, pre, hpre, hsplit⟩ :=
                decodeField_sound h15 first r hwf field rest hdf
              have hwfr : WF rest := by rw [hsplit] at hwf; exact wf_of_append_right hwf
              have hl : rest.length < (first :: r).length := by
                rw [hsplit, List.length_append]
                have : 0 < pre.length := List.length_pos_iff.mpr hpre
                omega
              cases fuel2 with
              | zero => simp at hlen
              | succ fuel2' =>
                have hlen' : rest.length ≤ fuel2' := by simp at hlen hl; omega
                obtain ⟨ls, hps, hia, hall, htot, hle⟩ :=
                  ih rest (mem + field.memSize) fs' total' fuel2' hwfr hlen' hrec
                refine ⟨l :: ls, ?_, ?_, ?_, ?_, ?_⟩
                · simp only [Spec.Qpack.parseLines, hpl, hps]
                · simp only [Spec.Qpack.interpAll, hint, hia]; rfl
                · simp [hst, hall]
                · rw [size_pairs_cons, htot]; omega
                · intro _; exact hle (by omega)

theorem prefix_sound (h15 : C15Facts) (bs : List Nat) (hwf : WF bs) (p : HeaderPrefix) (rest : List Nat)
    (h : HeaderPrefix.decode bs = .ok (p, rest)) (hg : p.get = .ok (0, 0)) :
    Spec.Qpack.parsePrefix bs = .ok rest ∧ ∃ pre, bs = pre ++ rest := by
  unfold HeaderPrefix.decode at h
  cases hd1 : PrefixInt.decode 8 bs with
  | endOf => simp [hd1] at h
  | overflow => simp [hd1] at h
  | ok f1 ric r1 =>
    simp only [hd1] at h
    cases hd2 : PrefixInt.decode 7 r1 with
    | endOf => simp [hd2] at h
    | overflow => simp [hd2] at h
    | ok sign db r2 =>
      simp only [hd2] at h
      split at h
      · cases h
      · split at h
        · cases h
        · injection h with h
          simp only [Prod.mk.injEq] at h
          obtain ⟨rfl, rfl⟩ := h
          obtain ⟨hrfc1, _, _, _⟩ := h15.prefix_int_ok_sound 8 (by omega) (by omega) bs hwf f1 ric r1 hd1
          obtain ⟨pre1, _, hsplit1⟩ := decode_suffix _ _ _ _ _ hd1
          have hwf1 : WF r1 := by rw [hsplit1] at hwf; exact wf_of_append_right hwf
          obtain ⟨hrfc2, _, _, s, r', hr1, hsign⟩ :=
            h15.prefix_int_ok_sound 7 (by omega) (by omega) r1 hwf1 sign db r2 hd2
          obtain ⟨pre2, _, hsplit2⟩ := decode_suffix _ _ _ _ _ hd2
          unfold HeaderPrefix.get at hg
          simp only at hg
          by_cases hric : ric ≠ 0
          · rw [if_pos hric] at hg; cases hg
          · rw [if_neg hric] at hg
            have hric0 : ric = 0 := by omega
            by_cases hsg : (sign == 1) = true
            · rw [if_pos hsg] at hg; cases hg
            · refine ⟨?_, pre1 ++ pre2, by rw [List.append_assoc, ← hsplit2]; exact hsplit1⟩
              have hs : s < 256 := hwf1 s (by rw [hr1]; simp)
              unfold Spec.Qpack.parsePrefix
              simp only [hrfc1]
              subst hr1
              simp only [hrfc2, hric0]
              have hbit : ((H3.Bits.bitsN 8 s).head? == some true) = false := by
                rw [bits8]
                simp at hsg
                simp; omega
              simp [Spec.Qpack.requiredInsertCount, Spec.Qpack.base, hbit]

/-- `C11_accepts_only_rfc_partial` on the model level. -/
theorem decodeStatelessX_sound (h15 : C15Facts) (bs : List Nat) (hwf : WF bs) (max : Nat)
    (fs : List Field) (total : Nat) (h : decodeStatelessX bs max = (.ok fs total, false)) :
    ∃ ls, Spec.Qpack.parse bs = .ok ls ∧ Spec.Qpack.interpAll ls = .ok (pairs fs) ∧
      ls.all (·.isStateless) = true ∧ total = Spec.Qpack.size (pairs fs) ∧ total ≤ max := by
  unfold decodeStatelessX at h
  cases hp : HeaderPrefix.decode bs with
  | error e => simp [hp] at h
  | ok x =>
    obtain ⟨p, rest⟩ := x
    simp only [hp] at h
    cases hg : p.get with
    | error e => simp [hg] at h
    | ok y =>
      obtain ⟨req, b⟩ := y
      simp only [hg] at h
      have hreq : (req, b) = (0, 0) := by
        unfold HeaderPrefix.get at hg
        split at hg
        · cases hg
        · split at hg
          · cases hg
          · injection hg with hg; exact hg.symm
      simp only [Prod.mk.injEq] at hreq
      obtain ⟨rfl, rfl⟩ := hreq
      rw [if_neg (by omega)] at h
      obtain ⟨hpp, pre, hsplit⟩ := prefix_sound h15 bs hwf p rest hp hg
      have hwfr : WF rest := by rw [hsplit] at hwf; exact wf_of_append_right hwf
      obtain ⟨ls, hps, hia, hall, htot, hle⟩ :=
        decodeLoop_sound h15 max rest.length rest 0 fs total rest.length hwfr (Nat.le_refl _) h
      refine ⟨ls, ?_, hia, hall, by omega, hle (Nat.zero_le _)⟩
      simp only [Spec.Qpack.parse, hpp, hps]

/-! ### the encoder: what `encode_stateless` writes is read back by the RFC decoder -/

theorem rfc_encode (h15 : C15Facts) (n flags v : Nat) (hn1 : 1 ≤ n) (hn8 : n ≤ 8)
    (hf : flags < 2 ^ (8 - n)) (hv : v - (2 ^ n - 1) < 2 ^ 63) (rest : List Nat) (hr : WF rest) :
    WF (PrefixInt.encode n flags v) ∧
    ∃ first t, PrefixInt.encode n flags v = first :: t ∧ first / 2 ^ n = flags ∧ first < 256 ∧
      PrefixInt.rfcDecode n (first :: (t ++ rest)) = some (v, rest) := by
  obtain ⟨_, hwfe, _, hdec⟩ := h15.prefix_int_roundtrip n flags v hn1 hn8 hf hv rest
  obtain ⟨_, _, _, hdec0⟩ := h15.prefix_int_roundtrip n flags v hn1 hn8 hf hv []
  have hwf : WF (PrefixInt.encode n flags v ++ rest) := by
    intro b hb
    rcases List.mem_append.mp hb with h | h
    · exact hwfe b h
    · exact hr b h
  have hwf0 : WF (PrefixInt.encode n flags v ++ []) := by simpa using hwfe
  obtain ⟨hrfc, _, _, first, r, hbs, hfl⟩ := h15.prefix_int_ok_sound n hn1 hn8 _ hwf flags v rest hdec
  obtain ⟨_, _, _, first0, t, hbs0, _⟩ := h15.prefix_int_ok_sound n hn1 hn8 _ hwf0 flags v [] hdec0
  simp only [List.append_nil] at hbs0
  rw [hbs0] at hbs
  injection hbs with e1 e2
  subst e1
  refine ⟨hwfe, first0, t, hbs0, hfl.symm, hwfe first0 (by rw [hbs0]; simp), ?_⟩
  rw [hbs0] at hrfc
  exact hrfc

theorem stringLiteral_encode (h15 : C15Facts) (n flags : Nat) (hn : n = 4 ∨ n = 8)
    (hf : flags < 2 ^ (8 - n)) (s : List Nat) (hs : WF s) (hlen : 7 * (Huffman.hencode s).length < 2 ^ 32)
    (rest : List Nat) (hr : WF rest) :
    PrefixString.encode? n flags s = some (PrefixString.encode n flags s) ∧
    WF (PrefixString.encode n flags s) ∧
    Spec.Qpack.stringLiteral (n - 1) (PrefixString.encode n flags s ++ rest) = .ok (s, rest) ∧
    ∃ first r, PrefixString.encode n flags s ++ rest = first :: r ∧ first / 2 ^ (n - 1) = 2 * flags + 1 ∧
      first < 256 := by
  obtain ⟨he?, heq, _⟩ := h15.string_literal_encode n flags (by omega) (by omega) hf s hs hlen
  obtain ⟨_, _, _, hwfh, hX, _, _⟩ := h15.huffman_roundtrip s hs hlen
  have hspec := (h15.huffman_accepts_exactly_partial (Huffman.hencode s) hwfh s).2.1 hX
  have hf' : 2 * flags + 1 < 2 ^ (8 - (n - 1)) := by
    rcases hn with rfl | rfl
    · simp at hf ⊢; omega
    · simp at hf ⊢; omega
  have hwfhr : WF (Huffman.hencode s ++ rest) := by
    intro b hb
    rcases List.mem_append.mp hb with h | h
    · exact hwfh b h
    · exact hr b h
  obtain ⟨hwfi, first, t, hbs, hfl, hlt, hrfc⟩ :=
    rfc_encode h15 (n - 1) (2 * flags + 1) (Huffman.hencode s).length (by omega) (by omega) hf'
      (by omega) (Huffman.hencode s ++ rest) hwfhr
  have hcat : PrefixString.encode n flags s ++ rest = first :: (t ++ (Huffman.hencode s ++ rest)) := by
    rw [heq, List.append_assoc, hbs]; rfl
  refine ⟨he?, ?_, ?_, first, _, hcat, hfl, hlt⟩
  · rw [heq]
    intro b hb
    rcases List.mem_append.mp hb with h | h
    · exact hwfi b h
    · exact hwfh b h
  · rw [hcat]
    unfold Spec.Qpack.stringLiteral
    simp only [hrfc]
    rw [if_neg (by simp)]
    rw [if_pos (by rw [hfl]; omega)]
    simp [hspec]

/-! ### the two lookup tables of `static_.rs` -/

open H3.Gen.StaticTable (table findArms findNameArms) in
theorem findArms_ok : findArms.all (fun e => table[e.2]? == some e.1) = true := by decide +kernel

open H3.Gen.StaticTable (table findArms findNameArms) in
theorem findNameArms_ok :
    findNameArms.all (fun e => (table[e.2]?).map (·.1) == some e.1) = true := by decide +kernel

theorem findGo_mem : ∀ (arms : List ((List Nat × List Nat) × Nat)) (name value : List Nat) (i : Nat),
    StaticTable.findGo arms name value = some i → ((name, value), i) ∈ arms := by
  intro arms
  induction arms with
  | nil => intro name value i h; simp [StaticTable.findGo] at h
  | cons a arms ih =>
    intro name value i h
    obtain ⟨⟨n, v⟩, j⟩ := a
    unfold StaticTable.findGo at h
    split at h
    · rename_i hc
      injection h with h
      obtain ⟨rfl, rfl⟩ := hc
      subst h
      simp
    · exact List.mem_cons_of_mem _ (ih _ _ _ h)

theorem findNameGo_mem : ∀ (arms : List (List Nat × Nat)) (name : List Nat) (i : Nat),
    StaticTable.findNameGo arms name = some i → (name, i) ∈ arms := by
  intro arms
  induction arms with
  | nil => intro name i h; simp [StaticTable.findNameGo] at h
  | cons a arms ih =>
    intro name i h
    obtain ⟨n, j⟩ := a
    unfold StaticTable.findNameGo at h
    split at h
    · rename_i hc
      injection h with h
      subst hc h
      simp
    · exact List.mem_cons_of_mem _ (ih _ _ h)

/-- `find` answers with an index whose table entry is the field. -/
theorem find_sound (f : Field) (i : Nat) (h : StaticTable.find f = some i) :
    H3.Gen.StaticTable.table[i]? = some (f.name, f.value) := by
  have hm := findGo_mem _ _ _ _ h
  have := List.all_eq_true.mp findArms_ok _ hm
  simpa using this

/-- `find_name` answers with an index whose table entry has that name. -/
theorem findName_sound (name : List Nat) (i : Nat) (h : StaticTable.findName name = some i) :
    ∃ v, H3.Gen.StaticTable.table[i]? = some (name, v) := by
  have hm := findNameGo_mem _ _ _ h
  have := List.all_eq_true.mp findNameArms_ok _ hm
  simp only [beq_iff_eq] at this
  cases ht : H3.Gen.StaticTable.table[i]? with
  | none => simp [ht] at this
  | some p =>
    obtain ⟨n, v⟩ := p
    simp only [ht, Option.map_some, Option.some.injEq] at this
    exact ⟨v, by rw [← this]⟩

theorem table_index_lt (i : Nat) (p : List Nat × List Nat) (h : H3.Gen.StaticTable.table[i]? = some p) :
    i < 99 := by
  have hl : H3.Gen.StaticTable.table.length = 99 := by decide +kernel
  have := (List.getElem?_eq_some_iff.mp h).1
  omega

/-! ### one encoded field -/

/-- what the theorems ask of a field handed to the encoder: octets, and Huffman codings whose bit
    length + 16 fits `u32` (shorter than 2^29 − 2 octets — the hypothesis of
    `C15_string_literal_roundtrip`: `prefix_string::decode` refuses longer Huffman literals since the
    repair of D-06u, `C15_string_literal_beyond_bound`) -/
def Encodable (f : Field) : Prop :=
  WF f.name ∧ WF f.value ∧ (Huffman.hencode f.name).length * 8 + 16 < 2 ^ 32 ∧
    (Huffman.hencode f.value).length * 8 + 16 < 2 ^ 32

/-- what the ENCODER asks of a field: octets, and Huffman codings that fit the Huffman encoder's `u32`
    positions (coding length `L` with `7·L < 2^32`, shorter than 613 566 757 octets — the hypothesis of
    `C15_string_literal_encode`, decidable; with the earlier `< 2^63` the encode-side theorems were false of the
    code: site D-15e, `C15_huffman_encoder_positions_fit`); the encode-side theorems
    (`C11_encode_then_rfc_decode`) hold for all of these, also beyond what h3's own decoder takes -/
def Writable (f : Field) : Prop :=
  WF f.name ∧ WF f.value ∧ 7 * (Huffman.hencode f.name).length < 2 ^ 32 ∧
    7 * (Huffman.hencode f.value).length < 2 ^ 32

theorem Encodable.writable {f : Field} (h : Encodable f) : Writable f :=
  ⟨h.1, h.2.1, by have := h.2.2.1; omega, by have := h.2.2.2; omega⟩

theorem wf_append {a b : List Nat} (ha : WF a) (hb : WF b) : WF (a ++ b) := by
  intro x hx
  rcases List.mem_append.mp hx with h | h
  · exact ha x h
  · exact hb x h

theorem encodeField_spec (h15 : C15Facts) (f : Field) (hf : Writable f) (rest : List Nat) (hr : WF rest) :
    ∃ b, encodeField? f = some b ∧ WF b ∧
      ∃ first t l, b = first :: t ∧ Spec.Qpack.parseLine first (t ++ rest) = .ok (l, rest) ∧
        Spec.Qpack.interp l = .ok (f.name, f.value) ∧ l.isStateless = true := by
  obtain ⟨hwn, hwv, hln, hlv⟩ := hf
  unfold encodeField?
  cases hfind : StaticTable.find f with
  | some i =>
    have htab := find_sound f i hfind
    have hi := table_index_lt i _ htab
    obtain ⟨hwfe, first, t, hbs, hfl, hlt, hrfc⟩ :=
      rfc_encode h15 6 3 i (by omega) (by omega) (by decide) (by omega) rest hr
    refine ⟨_, rfl, hwfe, first, t, .indexed true i, hbs, ?_, ?_, rfl⟩
    · unfold Spec.Qpack.parseLine
      rw [bits8]
      have b1 : (first / 128 % 2 == 1) = true := by simp; omega
      have b2 : (first / 64 % 2 == 1) = true := by simp; omega
      simp only [b1, b2, hrfc]
    · simp only [Spec.Qpack.interp, ← table_eq, htab]
  | none =>
    simp only
    obtain ⟨hev?, hwfv, hsv, fv, rv, hcv, _, _⟩ :=
      stringLiteral_encode h15 8 0 (Or.inr rfl) (by decide) f.value hwv hlv rest hr
    simp only [show (8 : Nat) - 1 = 7 from rfl] at hsv
    cases hname : StaticTable.findName f.name with
    | some i =>
      obtain ⟨v0, htab⟩ := findName_sound f.name i hname
      have hi := table_index_lt i _ htab
      obtain ⟨hwfe, first, t, hbs, hfl, hlt, hrfc⟩ :=
        rfc_encode h15 4 5 i (by omega) (by omega) (by decide) (by omega)
          (PrefixString.encode 8 0 f.value ++ rest) (wf_append hwfv hr)
      refine ⟨PrefixInt.encode 4 5 i ++ PrefixString.encode 8 0 f.value, ?_, wf_append hwfe hwfv,
        first, t ++ PrefixString.encode 8 0 f.value, .literalNameRef false true i f.value, ?_, ?_, ?_, rfl⟩
      · simp [LiteralWithNameRef.encode?, hev?]
      · rw [hbs]; rfl
      · unfold Spec.Qpack.parseLine
        rw [bits8]
        have b1 : (first / 128 % 2 == 1) = false := by simp; omega
        have b2 : (first / 64 % 2 == 1) = true := by simp; omega
        have b3 : (first / 32 % 2 == 1) = false := by simp; omega
        have b4 : (first / 16 % 2 == 1) = true := by simp; omega
        simp only [b1, b2, b3, b4]
        unfold Spec.Qpack.indexThenValue
        rw [List.append_assoc]
        simp only [hrfc, hsv]
      · simp only [Spec.Qpack.interp, ← table_eq, htab]
    | none =>
      simp only
      obtain ⟨hen?, hwfn, hsn, fn, rn, hcn, hfn, hltn⟩ :=
        stringLiteral_encode h15 4 2 (Or.inl rfl) (by decide) f.name hwn hln
          (PrefixString.encode 8 0 f.value ++ rest) (wf_append hwfv hr)
      simp only [show (4 : Nat) - 1 = 3 from rfl] at hsn hfn
      -- the head of the name literal
      obtain ⟨_, _, _, fn0, tn, hcn0, _, _⟩ :=
        stringLiteral_encode h15 4 2 (Or.inl rfl) (by decide) f.name hwn hln [] (by intro _ h; cases h)
      simp only [List.append_nil] at hcn0
      have hfirst : fn0 = fn := by
        rw [hcn0] at hcn; injection hcn
      subst hfirst
      have hrn : rn = tn ++ (PrefixString.encode 8 0 f.value ++ rest) := by
        rw [hcn0] at hcn; injection hcn with _ h; exact h.symm
      refine ⟨PrefixString.encode 4 2 f.name ++ PrefixString.encode 8 0 f.value, ?_, wf_append hwfn hwfv,
        fn0, tn ++ PrefixString.encode 8 0 f.value, .literal false f.name f.value, ?_, ?_, rfl, rfl⟩
      · simp [Literal.encode?, hen?, hev?]
      · rw [hcn0]; rfl
      · unfold Spec.Qpack.parseLine
        rw [bits8]
        have b1 : (fn0 / 128 % 2 == 1) = false := by simp; omega
        have b2 : (fn0 / 64 % 2 == 1) = false := by simp; omega
        have b3 : (fn0 / 32 % 2 == 1) = true := by simp; omega
        have b4 : (fn0 / 16 % 2 == 1) = false := by simp; omega
        simp only [b1, b2, b3, b4]
        rw [List.append_assoc, ← hrn, ← hcn]
        simp only [hsn, hsv]

/-! ### the whole encoded section -/

theorem encodeFields_spec (h15 : C15Facts) : ∀ (fs : List Field) (size : Nat), (∀ f ∈ fs, Writable f) →
    ∃ bs, encodeFields? fs size = some (bs, size + Spec.Qpack.size (pairs fs)) ∧ WF bs ∧
      ∀ fuel, bs.length ≤ fuel → ∃ ls, Spec.Qpack.parseLines fuel bs = .ok ls ∧
        Spec.Qpack.interpAll ls = .ok (pairs fs) ∧ ls.all (·.isStateless) = true := by
  intro fs
  induction fs with
  | nil =>
    intro size _
    refine ⟨[], by simp [encodeFields?, pairs, Spec.Qpack.size], (fun _ h => by cases h), ?_⟩
    intro fuel _
    refine ⟨[], ?_, rfl, rfl⟩
    cases fuel <;> rfl
  | cons f fs ih =>
    intro size hall
    obtain ⟨bs', henc', hwf', hparse'⟩ :=
      ih (size + f.memSize) (fun g hg => hall g (List.mem_cons_of_mem _ hg))
    obtain ⟨b, hb, hwfb, first, t, l, hbeq, hpl, hint, hst⟩ :=
      encodeField_spec h15 f (hall f (by simp)) bs' hwf'
    refine ⟨b ++ bs', ?_, wf_append hwfb hwf', ?_⟩
    · simp only [encodeFields?, hb, henc', size_pairs_cons]
      congr 2; omega
    · intro fuel hlen
      subst hbeq
      cases fuel with
      | zero => simp at hlen
      | succ fuel' =>
        have hl' : bs'.length ≤ fuel' := by
          simp only [List.cons_append, List.length_cons, List.length_append] at hlen; omega
        obtain ⟨ls, hps, hia, hall'⟩ := hparse' fuel' hl'
        refine ⟨l :: ls, ?_, ?_, ?_⟩
        · simp only [List.cons_append, Spec.Qpack.parseLines, hpl, hps]
        · simp only [Spec.Qpack.interpAll, hint, hia]; rfl
        · simp [hst, hall']

/-- `C11_encode_then_rfc_decode` on the lemma level. -/
theorem encodeStateless_spec (h15 : C15Facts) (fs : List Field) (hfs : ∀ f ∈ fs, Writable f) :
    ∃ bs, encodeStateless? fs = some ([0, 0] ++ bs, Spec.Qpack.size (pairs fs)) ∧ WF bs ∧
      ∃ ls, Spec.Qpack.parse ([0, 0] ++ bs) = .ok ls ∧ Spec.Qpack.interpAll ls = .ok (pairs fs) ∧
        ls.all (·.isStateless) = true := by
  obtain ⟨bs, henc, hwf, hparse⟩ := encodeFields_spec h15 fs 0 hfs
  obtain ⟨ls, hps, hia, hall⟩ := hparse bs.length (Nat.le_refl _)
  have hpre : HeaderPrefix.new0.encode = [0, 0] := by decide
  refine ⟨bs, ?_, hwf, ls, ?_, hia, hall⟩
  · simp only [encodeStateless?, henc, hpre, Nat.zero_add]
  · have hpp : Spec.Qpack.parsePrefix ([0, 0] ++ bs) = .ok bs := by
      simp [Spec.Qpack.parsePrefix, PrefixInt.rfcDecode, Spec.Qpack.requiredInsertCount,
        Spec.Qpack.base, bits8]
    simp only [Spec.Qpack.parse, hpp, hps]

/-! ### sizes: how much input a field consumes, and how large it can be (no C15 fact needed) -/

/-- every decoded symbol costs one unit of the Huffman loop's fuel -/
theorem decodeAll_length (root : H3.Gen.HuffDec.Level) (inp : List Nat) : ∀ (fuel : Nat) (w : Huffman.BitWindow)
    (r : List Nat) (l : Bool), Huffman.decodeAll root fuel w inp = .ok (r, l) → r.length + 1 ≤ fuel := by
  intro fuel
  induction fuel with
  | zero => intro w r l h; simp [Huffman.decodeAll] at h
  | succ fuel ih =>
    intro w r l h
    unfold Huffman.decodeAll at h
    cases hn : Huffman.decodeNext root w inp with
    | mk w' st =>
      cases st with
      | sym s =>
        simp only [hn] at h
        cases hrec : Huffman.decodeAll root fuel w' inp with
        | error e => simp [hrec] at h
        | ok x =>
          obtain ⟨r', l'⟩ := x
          simp only [hrec] at h
          injection h with h
          simp only [Prod.mk.injEq] at h
          obtain ⟨rfl, _⟩ := h
          have := ih w' r' l' hrec
          simp; omega
      | done =>
        simp only [hn] at h
        injection h with h
        simp only [Prod.mk.injEq] at h
        obtain ⟨rfl, _⟩ := h
        simp
      | err e => simp [hn] at h

theorem hdecode_length (p v : List Nat) (h : Huffman.hdecode p = .ok v) : v.length ≤ 8 * p.length := by
  unfold Huffman.hdecode at h
  cases hx : Huffman.hdecodeX p with
  | error e => simp [hx] at h
  | ok x =>
    obtain ⟨r, l⟩ := x
    simp only [hx] at h
    injection h with h
    subst h
    have := decodeAll_length _ _ _ _ _ _ hx
    omega

theorem strDecode_consumes (n : Nat) (hn0 : n ≠ 0) (bs v rest : List Nat) (lax : Bool)
    (h : strDecode n bs = .ok (v, rest, lax)) :
    rest.length < bs.length ∧ v.length + 8 ≤ 8 * (bs.length - rest.length) := by
  obtain ⟨flags, len, r1, hd, hlen, hrest, hcase⟩ := strDecode_shape n hn0 bs v rest lax h
  obtain ⟨pre, hpre, hsplit⟩ := decode_suffix _ _ _ _ _ hd
  have hp : 0 < pre.length := List.length_pos_iff.mpr hpre
  have hbl : bs.length = pre.length + r1.length := by rw [hsplit, List.length_append]
  have hrl : rest.length = r1.length - len := by rw [hrest, List.length_drop]
  have hv : v.length ≤ 8 * len := by
    rcases hcase with ⟨_, hv, _⟩ | ⟨_, hh, _⟩
    · rw [hv, List.length_take]; omega
    · have := hdecode_length _ _ hh
      rw [List.length_take] at this; omega
  constructor <;> omega

open H3.Gen.StaticTable (table) in
theorem table_sizes : table.all (fun p => decide (p.1.length ≤ 32) && decide (p.1.length + p.2.length + 32 ≤ 108)) = true := by
  decide +kernel

theorem get_size (i : Nat) (f : Field) (h : StaticTable.get i = some f) :
    f.name.length ≤ 32 ∧ f.memSize ≤ 108 := by
  unfold StaticTable.get at h
  cases ht : H3.Gen.StaticTable.table[i]? with
  | none => simp [ht] at h
  | some p =>
    obtain ⟨n, v⟩ := p
    simp only [ht] at h
    injection h with h
    subst h
    have hm := List.mem_of_getElem? ht
    have := List.all_eq_true.mp table_sizes _ hm
    simp only [Bool.and_eq_true, decide_eq_true_eq] at this
    simp [Field.memSize, H3.Gen.Field.ESTIMATED_OVERHEAD_BYTES]
    omega

theorem indexed_shape (bs : List Nat) (ix : Indexed) (rest : List Nat)
    (h : Indexed.decode bs = .ok (ix, rest)) : ∃ fl j, PrefixInt.decode 6 bs = .ok fl j rest := by
  unfold Indexed.decode at h
  cases hd : PrefixInt.decode 6 bs with
  | endOf => simp [hd] at h
  | overflow => simp [hd] at h
  | ok fl j rest1 =>
    simp only [hd] at h
    refine ⟨fl, j, ?_⟩
    split at h
    · split at h
      · cases h
      · injection h with h; simp only [Prod.mk.injEq] at h; rw [h.2]
    · split at h
      · split at h
        · cases h
        · injection h with h; simp only [Prod.mk.injEq] at h; rw [h.2]
      · cases h

theorem nameRef_shape (bs : List Nat) (lit : LiteralWithNameRef) (rest : List Nat) (lax : Bool)
    (h : LiteralWithNameRef.decode bs = .ok (lit, rest, lax)) :
    ∃ fl j r1 v, PrefixInt.decode 4 bs = .ok fl j r1 ∧ strDecode 8 r1 = .ok (v, rest, lax) ∧
      (lit = .static j v ∨ lit = .dynamic j v) := by
  unfold LiteralWithNameRef.decode at h
  cases hd : PrefixInt.decode 4 bs with
  | endOf => simp [hd] at h
  | overflow => simp [hd] at h
  | ok fl j r1 =>
    simp only [hd] at h
    split at h
    · split at h
      · cases h
      · cases hsd : strDecode 8 r1 with
        | error e => simp [hsd] at h
        | ok x =>
          obtain ⟨v', rest', lax'⟩ := x
          simp only [hsd] at h
          injection h with h
          simp only [Prod.mk.injEq] at h
          obtain ⟨rfl, rfl, rfl⟩ := h
          exact ⟨fl, j, r1, v', rfl, hsd, Or.inl rfl⟩
    · split at h
      · split at h
        · cases h
        · cases hsd : strDecode 8 r1 with
          | error e => simp [hsd] at h
          | ok x =>
            obtain ⟨v', rest', lax'⟩ := x
            simp only [hsd] at h
            injection h with h
            simp only [Prod.mk.injEq] at h
            obtain ⟨rfl, rfl, rfl⟩ := h
            exact ⟨fl, j, r1, v', rfl, hsd, Or.inr rfl⟩
      · cases h

theorem literal_shape (bs name value rest : List Nat) (lax : Bool)
    (h : Literal.decode bs = .ok ((name, value), rest, lax)) :
    ∃ r1 l1 l2, strDecode 4 bs = .ok (name, r1, l1) ∧ strDecode 8 r1 = .ok (value, rest, l2) ∧
      lax = (l1 || l2) := by
  unfold Literal.decode at h
  cases bs with
  | nil => simp at h
  | cons first r =>
    simp only at h
    split at h
    · cases h
    · cases hs1 : strDecode 4 (first :: r) with
      | error e => simp [hs1] at h
      | ok x =>
        obtain ⟨name', r1, lax1⟩ := x
        simp only [hs1] at h
        cases hs2 : strDecode 8 r1 with
        | error e => simp [hs2] at h
        | ok y =>
          obtain ⟨value', r2, lax2⟩ := y
          simp only [hs2] at h
          injection h with h
          simp only [Prod.mk.injEq] at h
          obtain ⟨⟨rfl, rfl⟩, rfl, rfl⟩ := h
          exact ⟨r1, lax1, lax2, rfl, hs2, rfl⟩

/-- a decoded field line consumes at least one octet, and its size (RFC 9114 §4.2.2) is at most
    128 times what it consumes -/
theorem decodeField_consumes (first : Nat) (r : List Nat) (field : Field) (rest : List Nat) (lax : Bool)
    (h : decodeField first (first :: r) = .ok (field, rest, lax)) :
    rest.length < (first :: r).length ∧
      field.memSize ≤ 128 * ((first :: r).length - rest.length) := by
  unfold decodeField at h
  cases hk : HeaderBlockField.decode first with
  | indexedWithPostBase => simp [hk] at h
  | literalWithPostBaseNameRef => simp [hk] at h
  | unknown => simp [hk] at h
  | indexed =>
    simp only [hk] at h
    cases hd : Indexed.decode (first :: r) with
    | error e => simp [hd] at h
    | ok x =>
      obtain ⟨ix, rest1⟩ := x
      cases ix with
      | dynamic j => simp [hd] at h
      | static j =>
        simp only [hd] at h
        cases hg : StaticTable.get j with
        | none => simp [hg] at h
        | some f0 =>
          simp only [hg] at h
          injection h with h
          simp only [Prod.mk.injEq] at h
          obtain ⟨rfl, rfl, _⟩ := h
          obtain ⟨fl, j', hdi⟩ := indexed_shape _ _ _ hd
          obtain ⟨pre, hpre, hsplit⟩ := decode_suffix _ _ _ _ _ hdi
          have hp : 0 < pre.length := List.length_pos_iff.mpr hpre
          have hl : (first :: r).length = pre.length + rest1.length := by rw [hsplit, List.length_append]
          have := (get_size j f0 hg).2
          constructor <;> omega
  | literalWithNameRef =>
    simp only [hk] at h
    cases hd : LiteralWithNameRef.decode (first :: r) with
    | error e => simp [hd] at h
    | ok x =>
      obtain ⟨lit, rest1, lax1⟩ := x
      obtain ⟨fl, j, r1, v, hdi, hsd, hlit⟩ := nameRef_shape _ _ _ _ hd
      obtain ⟨pre, hpre, hsplit⟩ := decode_suffix _ _ _ _ _ hdi
      have hp : 0 < pre.length := List.length_pos_iff.mpr hpre
      have hl : (first :: r).length = pre.length + r1.length := by rw [hsplit, List.length_append]
      obtain ⟨hc1, hc2⟩ := strDecode_consumes 8 (by omega) _ _ _ _ hsd
      rcases hlit with rfl | rfl
      · simp only [hd] at h
        cases hg : StaticTable.get j with
        | none => simp [hg] at h
        | some f0 =>
          simp only [hg] at h
          injection h with h
          simp only [Prod.mk.injEq] at h
          obtain ⟨rfl, rfl, _⟩ := h
          have := (get_size j f0 hg).1
          simp only [Field.memSize, Field.withValue, H3.Gen.Field.ESTIMATED_OVERHEAD_BYTES]
          constructor <;> omega
      · simp [hd] at h
  | literal =>
    simp only [hk] at h
    cases hd : Literal.decode (first :: r) with
    | error e => simp [hd] at h
    | ok x =>
      obtain ⟨⟨name, value⟩, rest1, lax1⟩ := x
      simp only [hd] at h
      injection h with h
      simp only [Prod.mk.injEq] at h
      obtain ⟨rfl, rfl, _⟩ := h
      obtain ⟨r1, l1, l2, hs1, hs2, _⟩ := literal_shape _ _ _ _ _ hd
      obtain ⟨ha1, ha2⟩ := strDecode_consumes 4 (by omega) _ _ _ _ hs1
      obtain ⟨hb1, hb2⟩ := strDecode_consumes 8 (by omega) _ _ _ _ hs2
      simp only [Field.memSize, H3.Gen.Field.ESTIMATED_OVERHEAD_BYTES]
      constructor <;> omega

/-! ### the running size and the limit -/

theorem decodeLoop_cons (max fuel first : Nat) (r : List Nat) (mem : Nat) :
    decodeLoop max (fuel + 1) (first :: r) mem =
      match decodeField first (first :: r) with
      | .error e => (.err e, false)
      | .ok (field, rest, lax) =>
        if mem + field.memSize > max then (.err (.headerTooLong (mem + field.memSize)), lax)
        else
          match decodeLoop max fuel rest (mem + field.memSize) with
          | (.ok fs total, lax') => (.ok (field :: fs) total, lax || lax')
          | (.err e, lax') => (.err e, lax || lax') := by
  rfl

/-- one run of the loop: the model's bound is never reached; an accepted section has exactly the
    RFC 9114 size, within the limit; every reported size is above the limit and at most
    `128 · |input|` more than where it started. -/
theorem decodeLoop_facts (max : Nat) : ∀ (fuel : Nat) (bs : List Nat) (mem : Nat) (res : Res) (lax : Bool),
    decodeLoop max fuel bs mem = (res, lax) → bs.length ≤ fuel →
    res ≠ .err .fuel ∧
    (∀ fs total, res = .ok fs total → total = mem + Spec.Qpack.size (pairs fs) ∧
      (mem ≤ max → total ≤ max) ∧ total ≤ mem + 128 * bs.length) ∧
    (∀ n, res = .err (.headerTooLong n) → max < n ∧ n ≤ mem + 128 * bs.length) := by
  intro fuel
  induction fuel with
  | zero =>
    intro bs mem res lax h hlen
    cases bs with
    | nil =>
      rw [decodeLoop_nil] at h
      simp only [Prod.mk.injEq] at h
      obtain ⟨rfl, _⟩ := h
      refine ⟨by simp, ?_, by simp⟩
      intro fs total he
      injection he with h1 h2
      subst h1 h2
      simp [pairs, Spec.Qpack.size]
    | cons b r => simp at hlen
  | succ fuel ih =>
    intro bs mem res lax h hlen
    cases bs with
    | nil =>
      rw [decodeLoop_nil] at h
      simp only [Prod.mk.injEq] at h
      obtain ⟨rfl, _⟩ := h
      refine ⟨by simp, ?_, by simp⟩
      intro fs total he
      injection he with h1 h2
      subst h1 h2
      simp [pairs, Spec.Qpack.size]
    | cons first r =>
      rw [decodeLoop_cons] at h
      cases hdf : decodeField first (first :: r) with
      | error e =>
        simp only [hdf, Prod.mk.injEq] at h
        obtain ⟨rfl, _⟩ := h
        refine ⟨?_, by simp, ?_⟩
        · intro hc
          injection hc with hc
          subst hc
          -- `decodeField` never yields the loop's own marker
          unfold decodeField at hdf
          cases hk : HeaderBlockField.decode first <;> simp only [hk] at hdf
          · cases hd : Indexed.decode (first :: r) with
            | error e => simp [hd] at hdf; cases e <;> simp [Err.ofParse] at hdf
            | ok x =>
              obtain ⟨ix, rest1⟩ := x
              cases ix with
              | dynamic j => simp [hd] at hdf
              | static j =>
                simp only [hd] at hdf
                cases hg : StaticTable.get j <;> simp [hg] at hdf
          · cases hdf
          · cases hd : LiteralWithNameRef.decode (first :: r) with
            | error e => simp [hd] at hdf; cases e <;> simp [Err.ofParse] at hdf
            | ok x =>
              obtain ⟨lit, rest1, l⟩ := x
              cases lit with
              | dynamic j v => simp [hd] at hdf
              | static j v =>
                simp only [hd] at hdf
                cases hg : StaticTable.get j <;> simp [hg] at hdf
          · cases hdf
          · cases hd : Literal.decode (first :: r) with
            | error e => simp [hd] at hdf; cases e <;> simp [Err.ofParse] at hdf
            | ok x =>
              obtain ⟨⟨n, v⟩, rest1, l⟩ := x
              simp [hd] at hdf
          · cases hdf
        · intro n hc
          injection hc with hc
          subst hc
          unfold decodeField at hdf
          cases hk : HeaderBlockField.decode first <;> simp only [hk] at hdf
          · cases hd : Indexed.decode (first :: r) with
            | error e => simp [hd] at hdf; cases e <;> simp [Err.ofParse] at hdf
            | ok x =>
              obtain ⟨ix, rest1⟩ := x
              cases ix with
              | dynamic j => simp [hd] at hdf
              | static j =>
                simp only [hd] at hdf
                cases hg : StaticTable.get j <;> simp [hg] at hdf
          · cases hdf
          · cases hd : LiteralWithNameRef.decode (first :: r) with
            | error e => simp [hd] at hdf; cases e <;> simp [Err.ofParse] at hdf
            | ok x =>
              obtain ⟨lit, rest1, l⟩ := x
              cases lit with
              | dynamic j v => simp [hd] at hdf
              | static j v =>
                simp only [hd] at hdf
                cases hg : StaticTable.get j <;> simp [hg] at hdf
          · cases hdf
          · cases hd : Literal.decode (first :: r) with
            | error e => simp [hd] at hdf; cases e <;> simp [Err.ofParse] at hdf
            | ok x =>
              obtain ⟨⟨n, v⟩, rest1, l⟩ := x
              simp [hd] at hdf
          · cases hdf
      | ok x =>
        obtain ⟨field, rest, l⟩ := x
        simp only [hdf] at h
        obtain ⟨hc1, hc2⟩ := decodeField_consumes first r field rest l hdf
        simp only [List.length_cons] at hc1 hc2 hlen
        have hlen' : rest.length ≤ fuel := by omega
        by_cases hm : mem + field.memSize > max
        · rw [if_pos hm] at h
          simp only [Prod.mk.injEq] at h
          obtain ⟨rfl, _⟩ := h
          refine ⟨by simp, by simp, ?_⟩
          intro n hc
          injection hc with hc
          injection hc with hc
          subst hc
          simp only [List.length_cons] at hc2 ⊢
          constructor <;> omega
        · rw [if_neg hm] at h
          cases hrec : decodeLoop max fuel rest (mem + field.memSize) with
          | mk res' lax' =>
            obtain ⟨hf, hok, htl⟩ := ih rest (mem + field.memSize) res' lax' hrec hlen'
            cases res' with
            | err e =>
              simp only [hrec, Prod.mk.injEq] at h
              obtain ⟨rfl, _⟩ := h
              refine ⟨hf, by simp, ?_⟩
              intro n hc
              obtain ⟨h1, h2⟩ := htl n hc
              simp only [List.length_cons] at hc2 ⊢
              constructor <;> omega
            | ok fs' total' =>
              simp only [hrec, Prod.mk.injEq] at h
              obtain ⟨rfl, _⟩ := h
              refine ⟨by simp, ?_, by simp⟩
              intro fs total he
              injection he with h1 h2
              subst h1 h2
              obtain ⟨h1, h2, h3⟩ := hok fs' total' rfl
              rw [size_pairs_cons]
              simp only [List.length_cons] at hc2 ⊢
              refine ⟨by omega, fun _ => h2 (by omega), by omega⟩

/-- changing the limit changes nothing but where the loop stops -/
theorem decodeLoop_limit (max0 : Nat) : ∀ (fuel : Nat) (bs : List Nat) (mem : Nat) (fs : List Field)
    (total : Nat) (lax : Bool), decodeLoop max0 fuel bs mem = (.ok fs total, lax) → bs.length ≤ fuel → ∀ L,
    (total ≤ L → decodeLoop L fuel bs mem = (.ok fs total, lax)) ∧
    (L < total → mem ≤ L → ∃ n lax', decodeLoop L fuel bs mem = (.err (.headerTooLong n), lax') ∧
      L < n ∧ n ≤ total) := by
  intro fuel
  induction fuel with
  | zero =>
    intro bs mem fs total lax h hlen L
    cases bs with
    | nil =>
      rw [decodeLoop_nil] at h ⊢
      simp only [Prod.mk.injEq, Res.ok.injEq] at h
      obtain ⟨⟨rfl, rfl⟩, rfl⟩ := h
      exact ⟨fun _ => rfl, fun h1 h2 => by omega⟩
    | cons b r => simp at hlen
  | succ fuel ih =>
    intro bs mem fs total lax h hlen L
    cases bs with
    | nil =>
      rw [decodeLoop_nil] at h ⊢
      simp only [Prod.mk.injEq, Res.ok.injEq] at h
      obtain ⟨⟨rfl, rfl⟩, rfl⟩ := h
      exact ⟨fun _ => rfl, fun h1 h2 => by omega⟩
    | cons first r =>
      rw [decodeLoop_cons] at h ⊢
      cases hdf : decodeField first (first :: r) with
      | error e => simp [hdf] at h
      | ok x =>
        obtain ⟨field, rest, l⟩ := x
        simp only [hdf] at h ⊢
        obtain ⟨hc1, _⟩ := decodeField_consumes first r field rest l hdf
        simp only [List.length_cons] at hc1 hlen
        have hlen' : rest.length ≤ fuel := by omega
        by_cases hm : mem + field.memSize > max0
        · rw [if_pos hm] at h; simp at h
        · rw [if_neg hm] at h
          cases hrec : decodeLoop max0 fuel rest (mem + field.memSize) with
          | mk res' lax' =>
            cases res' with
            | err e => simp [hrec] at h
            | ok fs' total' =>
              simp only [hrec, Prod.mk.injEq, Res.ok.injEq] at h
              obtain ⟨⟨rfl, rfl⟩, rfl⟩ := h
              obtain ⟨_, hok, _⟩ := decodeLoop_facts max0 fuel rest _ _ _ hrec hlen'
              obtain ⟨htot, _, _⟩ := hok fs' total' rfl
              obtain ⟨i1, i2⟩ := ih rest (mem + field.memSize) fs' total' lax' hrec hlen' L
              constructor
              · intro hle
                rw [if_neg (by omega)]
                simp only [i1 hle]
              · intro hlt hmem
                by_cases hL : mem + field.memSize > L
                · rw [if_pos hL]
                  exact ⟨_, _, rfl, hL, by omega⟩
                · rw [if_neg hL]
                  obtain ⟨n, lx, hr, h1, h2⟩ := i2 hlt (by omega)
                  exact ⟨n, l || lx, by simp only [hr], h1, h2⟩

/-- the section prefix does not depend on the limit -/
theorem decodeStatelessX_eq (bs : List Nat) (max : Nat) (res : Res) (lax : Bool)
    (h : decodeStatelessX bs max = (res, lax)) :
    (∃ e, res = .err e ∧ e ≠ .fuel ∧ (∀ n, e ≠ .headerTooLong n) ∧
      ∀ L, decodeStatelessX bs L = (.err e, false)) ∨
    (∃ rest, (∃ pre, bs = pre ++ rest) ∧ ∀ L, decodeStatelessX bs L = decodeLoop L rest.length rest 0) := by
  unfold decodeStatelessX at h
  cases hp : HeaderPrefix.decode bs with
  | error e =>
    simp only [hp, Prod.mk.injEq] at h
    left
    refine ⟨_, h.1.symm, ?_, ?_, ?_⟩
    · cases e <;> simp [Err.ofParse]
    · intro n; cases e <;> simp [Err.ofParse]
    · intro L; simp [decodeStatelessX, hp]
  | ok x =>
    obtain ⟨p, rest⟩ := x
    simp only [hp] at h
    cases hg : p.get with
    | error e =>
      simp only [hg, Prod.mk.injEq] at h
      left
      refine ⟨_, h.1.symm, ?_, ?_, ?_⟩
      · cases e <;> simp [Err.ofParse]
      · intro n; cases e <;> simp [Err.ofParse]
      · intro L; simp [decodeStatelessX, hp, hg]
    | ok y =>
      obtain ⟨req, b⟩ := y
      have hreq : (req, b) = (0, 0) := by
        unfold HeaderPrefix.get at hg
        split at hg
        · cases hg
        · split at hg
          · cases hg
          · injection hg with hg; exact hg.symm
      simp only [Prod.mk.injEq] at hreq
      obtain ⟨rfl, rfl⟩ := hreq
      right
      refine ⟨rest, ?_, ?_⟩
      · -- the prefix is a prefix
        unfold HeaderPrefix.decode at hp
        cases hd1 : PrefixInt.decode 8 bs with
        | endOf => simp [hd1] at hp
        | overflow => simp [hd1] at hp
        | ok f1 ric r1 =>
          simp only [hd1] at hp
          cases hd2 : PrefixInt.decode 7 r1 with
          | endOf => simp [hd2] at hp
          | overflow => simp [hd2] at hp
          | ok sign db r2 =>
            simp only [hd2] at hp
            split at hp
            · cases hp
            · split at hp
              · cases hp
              · injection hp with hp
                simp only [Prod.mk.injEq] at hp
                obtain ⟨_, rfl⟩ := hp
                obtain ⟨pre1, _, hs1⟩ := decode_suffix _ _ _ _ _ hd1
                obtain ⟨pre2, _, hs2⟩ := decode_suffix _ _ _ _ _ hd2
                exact ⟨pre1 ++ pre2, by rw [List.append_assoc, ← hs2]; exact hs1⟩
      · intro L
        simp [decodeStatelessX, hp, hg]

/-! ### what h3 encodes, h3 decodes (model against model) -/

theorem strDecode_encode (h15 : C15Facts) (n flags : Nat) (hn : n = 4 ∨ n = 8) (hf : flags < 2 ^ (8 - n))
    (s : List Nat) (hs : WF s) (hlen : (Huffman.hencode s).length * 8 + 16 < 2 ^ 32) (rest : List Nat) :
    strDecode n (PrefixString.encode n flags s ++ rest) = .ok (s, rest, false) := by
  obtain ⟨_, heq, _, hdec, _⟩ := h15.string_literal_roundtrip n flags (by omega) (by omega) hf s hs hlen rest
  obtain ⟨_, _, _, _, _, _, hlax, _⟩ := h15.huffman_roundtrip s hs (by omega)
  have hf' : 2 * flags + 1 < 2 ^ (8 - (n - 1)) := by
    rcases hn with rfl | rfl
    · simp at hf ⊢; omega
    · simp at hf ⊢; omega
  obtain ⟨_, _, _, hd⟩ := h15.prefix_int_roundtrip (n - 1) (2 * flags + 1) (Huffman.hencode s).length
    (by omega) (by omega) hf' (by omega) (Huffman.hencode s ++ rest)
  unfold strDecode
  rw [hdec]
  simp only
  have hl : strLax n (PrefixString.encode n flags s ++ rest) = false := by
    unfold strLax
    rw [heq, List.append_assoc, hd]
    simp [hlax]
  rw [hl]

theorem decodeField_encode (h15 : C15Facts) (f : Field) (hf : Encodable f) (rest : List Nat) :
    ∃ b first t, encodeField? f = some b ∧ b = first :: t ∧
      decodeField first (b ++ rest) = .ok (f, rest, false) := by
  obtain ⟨hwn, hwv, hln, hlv⟩ := hf
  unfold encodeField?
  cases hfind : StaticTable.find f with
  | some i =>
    have htab := find_sound f i hfind
    have hi := table_index_lt i _ htab
    obtain ⟨hwfe, first, t, hbs, hfl, hlt, _⟩ :=
      rfc_encode h15 6 3 i (by omega) (by omega) (by decide) (by omega) [] (by intro _ h; cases h)
    obtain ⟨_, _, _, hd⟩ := h15.prefix_int_roundtrip 6 3 i (by omega) (by omega) (by decide) (by omega) rest
    refine ⟨_, first, t, rfl, hbs, ?_⟩
    have hk : HeaderBlockField.decode first = .indexed := by
      unfold HeaderBlockField.decode
      rw [if_pos (by omega)]
    have hix : Indexed.decode (Indexed.encode (.static i) ++ rest) = .ok (.static i, rest) := by
      unfold Indexed.decode
      simp only [Indexed.encode, hd, if_true]
      rw [if_neg (by unfold USIZE_MAX; omega)]
    have hg : StaticTable.get i = some f := by simp [StaticTable.get, htab]
    unfold decodeField
    simp only [hk, hix, hg]
  | none =>
    simp only
    have hsv := strDecode_encode h15 8 0 (Or.inr rfl) (by decide) f.value hwv hlv rest
    obtain ⟨hev?, _, _, _, _⟩ := h15.string_literal_roundtrip 8 0 (by omega) (by omega) (by decide) f.value hwv hlv rest
    cases hname : StaticTable.findName f.name with
    | some i =>
      obtain ⟨v0, htab⟩ := findName_sound f.name i hname
      have hi := table_index_lt i _ htab
      obtain ⟨hwfe, first, t, hbs, hfl, hlt, _⟩ :=
        rfc_encode h15 4 5 i (by omega) (by omega) (by decide) (by omega) [] (by intro _ h; cases h)
      obtain ⟨_, _, _, hd⟩ := h15.prefix_int_roundtrip 4 5 i (by omega) (by omega) (by decide) (by omega)
        (PrefixString.encode 8 0 f.value ++ rest)
      refine ⟨PrefixInt.encode 4 5 i ++ PrefixString.encode 8 0 f.value, first,
        t ++ PrefixString.encode 8 0 f.value, ?_, by rw [hbs]; rfl, ?_⟩
      · simp [LiteralWithNameRef.encode?, hev?]
      · have hk : HeaderBlockField.decode first = .literalWithNameRef := by
          unfold HeaderBlockField.decode
          rw [if_neg (by omega), if_neg (by omega), if_pos (by omega)]
        have hlit : LiteralWithNameRef.decode (PrefixInt.encode 4 5 i ++ PrefixString.encode 8 0 f.value ++ rest) =
            .ok (.static i f.value, rest, false) := by
          unfold LiteralWithNameRef.decode
          rw [List.append_assoc, hd]
          simp only
          rw [if_pos (by decide), if_neg (by unfold USIZE_MAX; omega), hsv]
        have hg : StaticTable.get i = some ⟨f.name, v0⟩ := by simp [StaticTable.get, htab]
        unfold decodeField
        simp only [hk, hlit, hg, Field.withValue]
    | none =>
      simp only
      have hsn := strDecode_encode h15 4 2 (Or.inl rfl) (by decide) f.name hwn hln
        (PrefixString.encode 8 0 f.value ++ rest)
      obtain ⟨hen?, _, _, _, _⟩ := h15.string_literal_roundtrip 4 2 (by omega) (by omega) (by decide) f.name hwn hln rest
      obtain ⟨_, _, _, fn0, tn, hcn0, hfn, hltn⟩ :=
        stringLiteral_encode h15 4 2 (Or.inl rfl) (by decide) f.name hwn (by omega) [] (by intro _ h; cases h)
      simp only [List.append_nil, show (4 : Nat) - 1 = 3 from rfl] at hcn0 hfn
      refine ⟨PrefixString.encode 4 2 f.name ++ PrefixString.encode 8 0 f.value, fn0,
        tn ++ PrefixString.encode 8 0 f.value, ?_, by rw [hcn0]; rfl, ?_⟩
      · simp [Literal.encode?, hen?, hev?]
      · have hk : HeaderBlockField.decode fn0 = .literal := by
          unfold HeaderBlockField.decode
          rw [if_neg (by omega), if_neg (by omega), if_neg (by omega), if_neg (by omega), if_pos (by omega)]
        have hlit : Literal.decode (PrefixString.encode 4 2 f.name ++ PrefixString.encode 8 0 f.value ++ rest) =
            .ok ((f.name, f.value), rest, false) := by
          rw [List.append_assoc]
          have hne : PrefixString.encode 4 2 f.name ++ (PrefixString.encode 8 0 f.value ++ rest) =
              fn0 :: (tn ++ (PrefixString.encode 8 0 f.value ++ rest)) := by rw [hcn0]; rfl
          unfold Literal.decode
          rw [hne]
          simp only
          rw [if_neg (by omega), ← hne, hsn]
          simp only [hsv, Bool.or_self]
        unfold decodeField
        simp only [hk, hlit]

theorem decodeLoop_encode (h15 : C15Facts) (max : Nat) : ∀ (fs : List Field) (size mem fuel : Nat) (bs : List Nat)
    (size' : Nat), (∀ f ∈ fs, Encodable f) → encodeFields? fs size = some (bs, size') → bs.length ≤ fuel →
    mem + Spec.Qpack.size (pairs fs) ≤ max →
    decodeLoop max fuel bs mem = (.ok fs (mem + Spec.Qpack.size (pairs fs)), false) := by
  intro fs
  induction fs with
  | nil =>
    intro size mem fuel bs size' _ henc _ _
    simp only [encodeFields?, Option.some.injEq, Prod.mk.injEq] at henc
    rw [← henc.1, decodeLoop_nil]
    simp [pairs, Spec.Qpack.size]
  | cons f fs ih =>
    intro size mem fuel bs size' hall henc hlen hmax
    unfold encodeFields? at henc
    cases hf : encodeField? f with
    | none => simp [hf] at henc
    | some b =>
      simp only [hf] at henc
      cases hr : encodeFields? fs (size + f.memSize) with
      | none => simp [hr] at henc
      | some x =>
        obtain ⟨bs', s'⟩ := x
        simp only [hr, Option.some.injEq, Prod.mk.injEq] at henc
        obtain ⟨rfl, _⟩ := henc
        obtain ⟨b', first, t, hb', hbeq, hdf⟩ := decodeField_encode h15 f (hall f (by simp)) bs'
        rw [hf] at hb'
        injection hb' with hb'
        subst hb'
        rw [size_pairs_cons] at hmax ⊢
        cases fuel with
        | zero => rw [hbeq] at hlen; simp at hlen
        | succ fuel' =>
          have hl' : bs'.length ≤ fuel' := by
            rw [hbeq] at hlen
            simp only [List.cons_append, List.length_cons, List.length_append] at hlen; omega
          have hrec := ih (size + f.memSize) (mem + f.memSize) fuel' bs' s'
            (fun g hg => hall g (List.mem_cons_of_mem _ hg)) hr hl' (by omega)
          have hcons : b ++ bs' = first :: (t ++ bs') := by rw [hbeq]; rfl
          rw [hcons, decodeLoop_cons, ← hcons, hdf]
          simp only
          rw [if_neg (by omega), hrec]
          simp only [Bool.or_self]
          congr 2; omega

/-- a section h3 has encoded is decoded by h3 to the same list whenever the limit allows -/
theorem decodeStateless_encode (h15 : C15Facts) (fs : List Field) (hfs : ∀ f ∈ fs, Encodable f) (L : Nat)
    (hL : Spec.Qpack.size (pairs fs) ≤ L) :
    decodeStatelessX (encodeStateless fs).1 L = (.ok fs (Spec.Qpack.size (pairs fs)), false) := by
  obtain ⟨bs, henc, _, _⟩ := encodeStateless_spec h15 fs (fun f hf => (hfs f hf).writable)
  have he : encodeStateless fs = ([0, 0] ++ bs, Spec.Qpack.size (pairs fs)) := by
    simp [encodeStateless, henc]
  rw [he]
  have hfields : ∃ s', encodeFields? fs 0 = some (bs, s') := by
    unfold encodeStateless? at henc
    cases hf : encodeFields? fs 0 with
    | none => simp [hf] at henc
    | some x =>
      obtain ⟨bs0, s0⟩ := x
      simp only [hf, Option.some.injEq, Prod.mk.injEq] at henc
      have : HeaderPrefix.new0.encode = [0, 0] := by decide
      rw [this] at henc
      have := List.append_cancel_left henc.1
      subst this
      exact ⟨s0, rfl⟩
  obtain ⟨s', hf0⟩ := hfields
  have hp : HeaderPrefix.decode ([0, 0] ++ bs) = .ok (⟨0, false, 0⟩, bs) := by
    simp [HeaderPrefix.decode, PrefixInt.decode, PrefixInt.decode?, USIZE_MAX]
  have hloop := decodeLoop_encode h15 L fs 0 0 bs.length bs s' hfs hf0 (Nat.le_refl _) (by omega)
  unfold decodeStatelessX
  simp only [hp, HeaderPrefix.get]
  simp only [ne_eq, not_true_eq_false, if_false, Bool.false_eq_true]
  rw [if_neg (by omega), hloop]
  simp

end H3.Qpack.Lemmas
