import H3.Model.WriteBuf
import H3.Lemmas.VarintSpec
/-! Lemmas about the `WriteBuf` model: the header array after the `From` conversions, the
    `Buf` view (`remaining`/`chunk`/`advance` against the abstract `view`), one transport step,
    the `poll_ready` loop. -/
namespace H3.WriteBuf
open H3.Varint H3.Gen.Consts H3.Gen.WriteBuf

/-- the cursor is inside the written part of the array, which has its fixed size -/
def WB.WF (w : WB) : Prop :=
  w.pos ≤ w.len ∧ w.len ≤ w.buf.length ∧ w.buf.length = WRITE_BUF_ENCODE_SIZE

theorem new_wf (p : Option Bytes) : (WB.new p).WF := by
  simp [WB.new, WB.WF]

/-- the written part of the header array -/
def WB.hdr (w : WB) : Bytes := w.buf.take w.len

theorem view_eq (w : WB) : w.view = w.hdr.drop w.pos ++ w.pay := rfl

theorem put_spec {w w' : WB} {bs : Bytes} (hwf : w.WF) (h : w.put bs = some w') :
    w'.WF ∧ w'.hdr = w.hdr ++ bs ∧ w'.pos = w.pos ∧ w'.payload = w.payload ∧
    w'.len = w.len + bs.length := by
  obtain ⟨h1, h2, h3⟩ := hwf
  unfold WB.put at h
  split at h
  · rename_i hle
    cases h
    have hl : (List.take w.len w.buf).length = w.len := by simp; omega
    refine ⟨⟨by simp; omega, ?_, ?_⟩, ?_, rfl, rfl, rfl⟩
    · simp; omega
    · simp; omega
    · simp only [WB.hdr]
      rw [List.append_assoc, List.take_append, hl]
      have : w.len + bs.length - w.len = bs.length := by omega
      rw [List.take_of_length_le (by omega), this, List.take_append]
      simp
  · cases h

theorem put_isSome {w : WB} {bs : Bytes} (h : w.len + bs.length ≤ WRITE_BUF_ENCODE_SIZE) :
    ∃ w', w.put bs = some w' := by
  unfold WB.put; rw [if_pos h]; exact ⟨_, rfl⟩

theorem put_none {w : WB} {bs : Bytes} (h : ¬ w.len + bs.length ≤ WRITE_BUF_ENCODE_SIZE) :
    w.put bs = none := by
  unfold WB.put; rw [if_neg h]

theorem pay_eq (w : WB) : w.pay = w.payload.getD [] := by
  unfold WB.pay; cases w.payload <;> rfl

/-- a value encoded into a fresh `WriteBuf` -/
theorem putOpt_new {p : Option Bytes} {ob : Option Bytes} {w : WB}
    (h : (WB.new p).putOpt ob = some w) :
    ∃ bs, ob = some bs ∧ bs.length ≤ WRITE_BUF_ENCODE_SIZE ∧ w.WF ∧ w.pos = 0 ∧ w.hdr = bs ∧
      w.payload = p ∧ w.view = bs ++ p.getD [] := by
  unfold WB.putOpt at h
  cases ob with
  | none => cases h
  | some bs =>
    simp only [Option.bind_some] at h
    have hle : bs.length ≤ WRITE_BUF_ENCODE_SIZE := by
      by_cases hle : (WB.new p).len + bs.length ≤ WRITE_BUF_ENCODE_SIZE
      · simpa [WB.new] using hle
      · rw [put_none hle] at h; cases h
    obtain ⟨hwf, hh, hp, hpl, _⟩ := put_spec (new_wf p) h
    have hh' : w.hdr = bs := by rw [hh]; simp [WB.hdr, WB.new]
    have hp' : w.pos = 0 := by rw [hp]; rfl
    have hpl' : w.payload = p := by rw [hpl]; rfl
    refine ⟨bs, rfl, hle, hwf, hp', hh', hpl', ?_⟩
    rw [view_eq, hh', hp', pay_eq, hpl']; simp

theorem putOpt_new_some (p : Option Bytes) (bs : Bytes) (h : bs.length ≤ WRITE_BUF_ENCODE_SIZE) :
    ∃ w, (WB.new p).putOpt (some bs) = some w := by
  unfold WB.putOpt
  simp only [Option.bind_some]
  exact put_isSome (by simpa [WB.new] using h)

/-- `From<(StreamType, Frame)>`: stream type, then the frame header -/
theorem fromPair_spec {ty : Nat} {f : SFrame} {w : WB} (h : fromPair ty f = some w) :
    ∃ tb hb, writeVar ty = some tb ∧ encodeFrame f = some hb ∧
      (tb ++ hb).length ≤ WRITE_BUF_ENCODE_SIZE ∧ w.WF ∧ w.pos = 0 ∧
      w.view = tb ++ hb ++ (framePayload f).getD [] := by
  unfold fromPair at h
  cases h1 : (WB.new (framePayload f)).putOpt (writeVar ty) with
  | none => rw [h1] at h; cases h
  | some w1 =>
    rw [h1] at h
    simp only [Option.bind_some] at h
    obtain ⟨tb, htb, _, hwf1, hp1, hh1, hpl1, _⟩ := putOpt_new h1
    unfold WB.putOpt at h
    cases h2 : encodeFrame f with
    | none => rw [h2] at h; cases h
    | some hb =>
      rw [h2] at h
      simp only [Option.bind_some] at h
      have hle : w1.len + hb.length ≤ WRITE_BUF_ENCODE_SIZE := by
        by_cases hle : w1.len + hb.length ≤ WRITE_BUF_ENCODE_SIZE
        · exact hle
        · rw [put_none hle] at h; cases h
      obtain ⟨hwf, hh, hp, hpl, _⟩ := put_spec hwf1 h
      have hl1 : w1.len = tb.length := by
        have := congrArg List.length hh1
        simp only [WB.hdr, List.length_take] at this
        obtain ⟨_, h2', _⟩ := hwf1
        omega
      refine ⟨tb, hb, htb, rfl, by simp; omega, hwf, by rw [hp, hp1], ?_⟩
      rw [view_eq, hh, hh1, hp, hp1, pay_eq, hpl, hpl1]; simp

theorem fromPair_some (ty : Nat) (f : SFrame) (tb hb : Bytes) (h1 : writeVar ty = some tb)
    (h2 : encodeFrame f = some hb) (hle : (tb ++ hb).length ≤ WRITE_BUF_ENCODE_SIZE) :
    ∃ w, fromPair ty f = some w := by
  unfold fromPair
  rw [h1, h2]
  obtain ⟨w1, hw1⟩ := putOpt_new_some (framePayload f) tb (by simp at hle; omega)
  rw [hw1]
  simp only [Option.bind_some]
  obtain ⟨bs, hbs, _, hwf1, _, hh1, _, _⟩ := putOpt_new hw1
  cases hbs
  unfold WB.putOpt
  simp only [Option.bind_some]
  apply put_isSome
  have hl1 : w1.len = tb.length := by
    have := congrArg List.length hh1
    simp only [WB.hdr, List.length_take] at this
    obtain ⟨_, h2', _⟩ := hwf1
    omega
  simp at hle; omega

/-! ### the `Buf` view -/

theorem hdr_drop_length (w : WB) (hwf : w.WF) : (w.hdr.drop w.pos).length = w.len - w.pos := by
  obtain ⟨h1, h2, _⟩ := hwf
  simp [WB.hdr]; omega

theorem remaining_eq_view (w : WB) (hwf : w.WF) : w.remaining = w.view.length := by
  simp [WB.remaining, view_eq, hdr_drop_length w hwf]

theorem chunk_prefix (w : WB) (hwf : w.WF) : ∃ t, w.view = w.chunk ++ t := by
  unfold WB.chunk
  split
  · exact ⟨w.pay, rfl⟩
  · rename_i h
    have : w.hdr.drop w.pos = [] := by
      apply List.eq_nil_of_length_eq_zero; rw [hdr_drop_length w hwf]; omega
    exact ⟨[], by rw [view_eq, this]; simp⟩

theorem chunk_ne_nil (w : WB) (hwf : w.WF) (h : w.view ≠ []) : w.chunk ≠ [] := by
  unfold WB.chunk
  split
  · rename_i hpos
    intro hc
    have := congrArg List.length hc
    have hl := hdr_drop_length w hwf
    simp only [WB.hdr] at hl
    simp only [List.length_nil] at this
    omega
  · rename_i hpos
    have : w.hdr.drop w.pos = [] := by
      apply List.eq_nil_of_length_eq_zero; rw [hdr_drop_length w hwf]; omega
    rw [view_eq, this] at h
    simpa using h

theorem drop_view (w : WB) (hwf : w.WF) (cnt : Nat) :
    w.view.drop cnt =
      (w.buf.take w.len).drop (w.pos + cnt) ++ w.pay.drop (cnt - (w.len - w.pos)) := by
  have hl := hdr_drop_length w hwf
  rw [view_eq, List.drop_append, hl]
  simp only [WB.hdr, List.drop_drop]

/-- `advance(cnt)` for `cnt ≤ remaining()`: no panic, exactly `cnt` bytes are dropped from the
    view — also when `cnt` reaches beyond the header part. -/
theorem advance_spec (w : WB) (hwf : w.WF) (cnt : Nat) (hc : cnt ≤ w.remaining) :
    ∃ w', w.advance cnt = some w' ∧ w'.WF ∧ w'.view = w.view.drop cnt := by
  obtain ⟨h1, h2, h3⟩ := hwf
  have hwf : w.WF := ⟨h1, h2, h3⟩
  rw [drop_view w hwf]
  unfold WB.remaining at hc
  unfold WB.advance
  by_cases hr : w.len - w.pos > 0
  · -- some header left
    simp only [hr, if_true]
    by_cases hk : cnt ≤ w.len - w.pos
    · -- stays inside the header
      have hm : min cnt (w.len - w.pos) = cnt := by omega
      have hz : cnt - cnt = 0 := by omega
      have hz' : cnt - (w.len - w.pos) = 0 := by omega
      rw [hm, hz, hz']
      cases hp : w.payload with
      | none =>
        refine ⟨_, rfl, ⟨by simp only []; omega, h2, h3⟩, ?_⟩
        simp only [WB.view, WB.pay, hp, List.drop_zero]
      | some p =>
        simp only [Nat.zero_le, if_true, List.drop_zero]
        refine ⟨_, rfl, ⟨by simp only []; omega, h2, h3⟩, ?_⟩
        simp only [WB.view, WB.pay, hp]
    · -- reaches into the payload
      have hm : min cnt (w.len - w.pos) = w.len - w.pos := by omega
      rw [hm]
      cases hp : w.payload with
      | none =>
        simp only [WB.pay, hp, List.length_nil] at hc
        omega
      | some p =>
        simp only [WB.pay, hp] at hc
        have hle : cnt - (w.len - w.pos) ≤ p.length := by omega
        simp only [hle, if_true]
        refine ⟨_, rfl, ⟨by simp only []; omega, h2, h3⟩, ?_⟩
        simp only [WB.view, WB.pay, hp]
        have e1 : List.drop (w.pos + (w.len - w.pos)) (List.take w.len w.buf) = [] := by
          apply List.drop_eq_nil_of_le; simp only [List.length_take]; omega
        have e2 : List.drop (w.pos + cnt) (List.take w.len w.buf) = [] := by
          apply List.drop_eq_nil_of_le; simp only [List.length_take]; omega
        rw [e1, e2]
  · -- header exhausted
    simp only [hr, if_false]
    have hz' : cnt - (w.len - w.pos) = cnt := by omega
    rw [hz']
    have e0 : List.drop (w.pos + 0) (List.take w.len w.buf) = [] := by
      apply List.drop_eq_nil_of_le; simp only [List.length_take]; omega
    have e2 : List.drop (w.pos + cnt) (List.take w.len w.buf) = [] := by
      apply List.drop_eq_nil_of_le; simp only [List.length_take]; omega
    cases hp : w.payload with
    | none =>
      refine ⟨_, rfl, ⟨by simp only []; omega, h2, h3⟩, ?_⟩
      simp only [WB.view, WB.pay, hp, e0, e2, List.drop_nil]
    | some p =>
      simp only [WB.pay, hp] at hc
      have hle : cnt - 0 ≤ p.length := by omega
      simp only [hle, if_true]
      refine ⟨_, rfl, ⟨by simp only []; omega, h2, h3⟩, ?_⟩
      simp only [WB.view, WB.pay, hp, e0, e2, Nat.sub_zero]

/-- A frame without payload swallows any `advance` silently (no panic, nothing left). -/
theorem advance_no_payload (w : WB) (hp : w.payload = none) (cnt : Nat) :
    ∃ w', w.advance cnt = some w' := by
  unfold WB.advance
  simp only [hp]
  exact ⟨_, rfl⟩

/-- one transport step: it receives a prefix of the view and exactly that is removed -/
theorem step_spec (w : WB) (hwf : w.WF) (k : Nat) :
    ∃ o w', w.step k = some (o, w') ∧ w'.WF ∧ o ++ w'.view = w.view ∧
      o.length = min k w.chunk.length ∧ (0 < k → w.view ≠ [] → o ≠ []) := by
  obtain ⟨t, ht⟩ := chunk_prefix w hwf
  have hle : min k w.chunk.length ≤ w.remaining := by
    rw [remaining_eq_view w hwf]
    have := congrArg List.length ht
    simp only [List.length_append] at this
    omega
  obtain ⟨w', ha, hwf', hv⟩ := advance_spec w hwf _ hle
  refine ⟨w.chunk.take (min k w.chunk.length), w', ?_, hwf', ?_, ?_, ?_⟩
  · unfold WB.step; simp only [ha, Option.map_some]
  · rw [hv]
    conv => rhs; rw [← List.take_append_drop (min k w.chunk.length) w.view]
    congr 1
    rw [ht, List.take_append_of_le_length (by omega)]
  · simp
  · intro hk hne hnil
    have hc := chunk_ne_nil w hwf hne
    have : (w.chunk.take (min k w.chunk.length)).length = 0 := by rw [hnil]; rfl
    have hpos : 0 < w.chunk.length := List.length_pos_iff.mpr hc
    simp only [List.length_take] at this
    omega

/-- the `poll_ready` loop over any acceptance script -/
theorem drain_spec (w : WB) (hwf : w.WF) (ks : List Nat) :
    ∃ o w', w.drain ks = some (o, w') ∧ w'.WF ∧ o ++ w'.view = w.view := by
  induction ks generalizing w with
  | nil => exact ⟨[], w, rfl, hwf, rfl⟩
  | cons k ks ih =>
    obtain ⟨o, w1, hs, hwf1, hv1, _, _⟩ := step_spec w hwf k
    obtain ⟨o', w2, hd, hwf2, hv2⟩ := ih w1 hwf1
    refine ⟨o ++ o', w2, ?_, hwf2, ?_⟩
    · simp only [WB.drain, hs, hd]
    · rw [List.append_assoc, hv2, hv1]

/-- every poll that accepts at least one byte makes progress: a script with as many positive
    entries as there are bytes empties the buffer -/
theorem drain_complete (w : WB) (hwf : w.WF) (ks : List Nat)
    (h : w.view.length ≤ (ks.filter (0 < ·)).length) :
    ∃ o w', w.drain ks = some (o, w') ∧ w'.view = [] ∧ o = w.view := by
  induction ks generalizing w with
  | nil =>
    have : w.view = [] := by
      apply List.eq_nil_of_length_eq_zero; simpa using h
    exact ⟨[], w, rfl, this, this.symm⟩
  | cons k ks ih =>
    obtain ⟨o, w1, hs, hwf1, hv1, _, hprog⟩ := step_spec w hwf k
    have hlen : w.view.length = o.length + w1.view.length := by rw [← hv1]; simp
    have h1 : w1.view.length ≤ (ks.filter (0 < ·)).length := by
      by_cases hk : 0 < k
      · simp only [List.filter_cons, hk, decide_true, if_true, List.length_cons] at h
        by_cases hne : w.view = []
        · rw [hne] at hlen; simp at hlen; omega
        · have := hprog hk hne
          have : 0 < o.length := List.length_pos_iff.mpr this
          omega
      · simp only [List.filter_cons, hk, decide_false] at h
        simp at h
        omega
    obtain ⟨o', w2, hd, hv2, ho'⟩ := ih w1 hwf1 h1
    refine ⟨o ++ o', w2, ?_, hv2, ?_⟩
    · simp only [WB.drain, hs, hd]
    · rw [ho', hv1]

end H3.WriteBuf
