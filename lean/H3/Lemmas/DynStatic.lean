import H3.Lemmas.DynBasic
/-! The two lookup `match`es of `StaticTable` agree with the table itself (finite check). -/
namespace H3.Dyn

theorem findTbl_sound : ∀ p ∈ H3.Gen.QStatic.findTbl, H3.Gen.QStatic.table[p.2]? = some p.1 := by
  decide +kernel

theorem findNameTbl_sound : ∀ p ∈ H3.Gen.QStatic.findNameTbl,
    (H3.Gen.QStatic.table[p.2]?).map (·.1) = some p.1 := by
  decide +kernel

theorem staticFind_sound {f : Field} {i : Nat} (h : staticFind f = some i) : staticGet i = some f := by
  have := findTbl_sound _ (aget_mem h)
  simp only at this
  simp [staticGet, this]

theorem staticFindName_sound {n : Bytes} {i : Nat} (h : staticFindName n = some i) :
    ∃ f, staticGet i = some f ∧ f.name = n := by
  have := findNameTbl_sound _ (aget_mem h)
  simp only at this
  cases hg : H3.Gen.QStatic.table[i]? with
  | none => rw [hg] at this; simp at this
  | some p =>
    rw [hg] at this; simp at this
    exact ⟨⟨p.1, p.2⟩, by simp [staticGet, hg], this⟩

end H3.Dyn
