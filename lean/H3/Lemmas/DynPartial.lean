import H3.Lemmas.DynSysInv
import H3.Lemmas.DynPrefix
/-! Histories without capacity changes and without stream cancellations: a section decodes to
    exactly the original fields, or is reported as blocked. -/
namespace H3.Dyn
open H3.Spec.Dyn (STable size evictCount)

/-! ### decoding the representations -/

theorem decodeRep_static {d : Table} {all : List Field} {base base' : Nat} {r : Rep} {f : Field}
    (hden : denoteRepAll all base r = some f) (hnone : r.absRef base = none) : decodeRep d base' r = .ok f := by
  cases r with
  | indexedStatic i => simp only [denoteRepAll] at hden; simp [decodeRep, staticGetR, hden]
  | litStatic i v =>
    simp only [denoteRepAll] at hden
    cases hg : staticGet i with
    | none => rw [hg] at hden; simp at hden
    | some g => rw [hg] at hden; simp at hden; simp [decodeRep, staticGetR, hg, hden]
  | lit n v => simp only [denoteRepAll] at hden; simp at hden; subst hden; rfl
  | indexedDyn rel => simp [Rep.absRef] at hnone
  | indexedPost i => simp [Rep.absRef] at hnone
  | litDyn rel v => simp [Rep.absRef] at hnone
  | litPost i v => simp [Rep.absRef] at hnone

theorem decodeRep_dyn {d : Table} {stD : STable} {all : List Field} {base : Nat} {r : Rep} {f : Field} {a : Nat}
    (habs : Abs d stD) (hpre : ∃ l, all = stD.all ++ l)
    (hden : denoteRepAll all base r = some f) (hsome : r.absRef base = some a)
    (h1 : stD.dropped < a) (h2 : a ≤ stD.all.length) : decodeRep d base r = .ok f := by
  obtain ⟨l, hl⟩ := hpre
  have hlen := habs.length
  have hdelta : d.vas.delta ≠ 0 := by rw [habs.delta, hlen]; omega
  -- the entry, as the decoder's deque holds it
  have hentry : entry1 all a = d.fields[a - stD.dropped - 1]? := by
    unfold entry1; rw [if_neg (by omega), habs.getElem h1, hl, List.getElem?_append_left (by omega)]
  have hrb : ∀ rel, base - rel = a → d.vas.relativeBase base rel = some (a - stD.dropped - 1) := by
    intro rel he
    unfold Vas.relativeBase; rw [if_neg (by rw [habs.drp]; omega), habs.drp]; congr 1; omega
  have hpb : ∀ i, base + i + 1 = a → d.vas.postBase base i = some (a - stD.dropped - 1) := by
    intro i he
    unfold Vas.postBase; rw [if_neg (by rw [habs.drp, habs.ins]; omega), habs.drp]; congr 1; omega
  cases r with
  | indexedStatic i => simp [Rep.absRef] at hsome
  | litStatic i v => simp [Rep.absRef] at hsome
  | lit n v => simp [Rep.absRef] at hsome
  | indexedDyn rel =>
    simp only [Rep.absRef, Option.some.injEq] at hsome
    simp only [denoteRepAll, hsome, hentry] at hden
    simp only [decodeRep, Table.getRelativeBase, hrb rel hsome, hden]
  | indexedPost i =>
    simp only [Rep.absRef, Option.some.injEq] at hsome
    simp only [denoteRepAll, hsome, hentry] at hden
    simp only [decodeRep, Table.getPostBase, hpb i hsome, hden]
  | litDyn rel v =>
    simp only [Rep.absRef, Option.some.injEq] at hsome
    simp only [denoteRepAll, hsome, hentry] at hden
    cases hg : d.fields[a - stD.dropped - 1]? with
    | none => rw [hg] at hden; simp at hden
    | some g => rw [hg] at hden; simp at hden; simp [decodeRep, Table.getRelativeBase, hrb rel hsome, hg, hden]
  | litPost i v =>
    simp only [Rep.absRef, Option.some.injEq] at hsome
    simp only [denoteRepAll, hsome, hentry] at hden
    cases hg : d.fields[a - stD.dropped - 1]? with
    | none => rw [hg] at hden; simp at hden
    | some g => rw [hg] at hden; simp at hden; simp [decodeRep, Table.getPostBase, hpb i hsome, hg, hden]

theorem denoteAll_cons {all : List Field} {base : Nat} {r : Rep} {rs : List Rep} {fs : List Field}
    (h : denoteAll all base (r :: rs) = some fs) :
    ∃ f fs', fs = f :: fs' ∧ denoteRepAll all base r = some f ∧ denoteAll all base rs = some fs' := by
  simp only [denoteAll] at h
  cases hr : denoteRepAll all base r with
  | none => rw [hr] at h; simp at h
  | some f =>
    rw [hr] at h; simp only [Option.bind_some] at h
    cases hrs : denoteAll all base rs with
    | none => rw [hrs] at h; simp at h
    | some fs' => rw [hrs] at h; simp at h; exact ⟨f, fs', h.symm, rfl, rfl⟩

/-- every representation is decodable, so the section decodes to what it denotes -/
theorem decodeReps_ok {d : Table} {stD : STable} {all : List Field} {base base' : Nat} {reps : List Rep}
    {fs : List Field} (habs : Abs d stD) (hpre : ∃ l, all = stD.all ++ l)
    (hden : denoteAll all base reps = some fs)
    (hrefs : ∀ r ∈ reps, ∀ a, r.absRef base = some a → base' = base ∧ stD.dropped < a ∧ a ≤ stD.all.length) :
    decodeReps d base' reps = .ok fs := by
  induction reps generalizing fs with
  | nil => simp [denoteAll] at hden; subst hden; rfl
  | cons r rs ih =>
    obtain ⟨f, fs', hfs, hr, hrs⟩ := denoteAll_cons hden
    subst hfs
    have hrest := ih hrs (fun r' hr' => hrefs r' (List.mem_cons_of_mem _ hr'))
    have hone : decodeRep d base' r = .ok f := by
      cases ha : r.absRef base with
      | none => exact decodeRep_static hr ha
      | some a =>
        obtain ⟨hb, h1, h2⟩ := hrefs r (by simp) a ha
        subst hb
        exact decodeRep_dyn habs hpre hr ha h1 h2
    simp only [decodeReps, hone, hrest, Res.bind_ok]

/-! ### the additional invariant -/

/-- Section Acknowledgements for `sid` written by the decoder and not yet read by the encoder -/
def inflight (s : Sys) (sid : Nat) : Nat := (s.decQ.drop s.decDel).count (.ack sid)

structure PInv (cap0 : Nat) (s : Sys) (stE stD : STable) : Prop where
  noSU : ∀ i ∈ s.encQ, ∀ c, i ≠ .sizeUpdate c
  notCancelled : ∀ sid, (s.stream sid).cancelled = false
  noCancelInstr : ∀ i ∈ s.decQ.drop s.decDel, ∀ sid, i ≠ .cancel sid
  decDelLe : s.decDel ≤ s.decQ.length
  acks : ∀ sid, (s.stream sid).npop + inflight s sid ≤ (s.stream sid).done.length
  doneReq : ∀ sid, ∀ b ∈ (s.stream sid).done, b.required ≤ stD.all.length
  unrecv : ∀ a, stD.all.length < a → a ≤ stE.all.length →
    ∃ sid, ∃ b ∈ (s.stream sid).todo, 1 ≤ cnt b.refMap a ∧ a ≤ b.required
  window : ∀ sid, ∀ b ∈ (s.stream sid).todo, b.required ≤ stD.all.length + cap0 / 32 ∧
    ∃ T, b.required ≤ T ∧ prefixNew b.required b.base T cap0 = .ok b.blk.pfx

theorem STable.apply_noSU_cap {st st' : STable} {i : EncInstr} (h : st.apply i = some st')
    (hn : ∀ c, i ≠ .sizeUpdate c) : st'.cap = st.cap := by
  cases i with
  | sizeUpdate c => exact absurd rfl (hn c)
  | insertLit n v => simp only [STable.apply] at h; exact (STable.insert_all h).2.1
  | insertStatic idx v =>
    simp only [STable.apply] at h
    cases hg : staticGet idx with
    | none => rw [hg] at h; simp at h
    | some f => rw [hg] at h; simp only [Option.bind_some] at h; exact (STable.insert_all h).2.1
  | insertDyn rel v =>
    simp only [STable.apply] at h
    cases hg : st.relEntry rel with
    | none => rw [hg] at h; simp at h
    | some f => rw [hg] at h; simp only [Option.bind_some] at h; exact (STable.insert_all h).2.1
  | dup rel =>
    simp only [STable.apply] at h
    cases hg : st.relEntry rel with
    | none => rw [hg] at h; simp at h
    | some f => rw [hg] at h; simp only [Option.bind_some] at h; exact (STable.insert_all h).2.1

theorem STable.run_noSU_cap {st st' : STable} {ins : List EncInstr} (h : st.run ins = some st')
    (hn : ∀ i ∈ ins, ∀ c, i ≠ .sizeUpdate c) : st'.cap = st.cap := by
  induction ins generalizing st with
  | nil => simp [STable.run] at h; subst h; rfl
  | cons i r ih =>
    simp only [STable.run] at h
    cases hi : st.apply i with
    | none => rw [hi] at h; simp at h
    | some st1 =>
      rw [hi] at h; simp only [Option.bind_some] at h
      rw [ih h (fun j hj => hn j (List.mem_cons_of_mem _ hj)), STable.apply_noSU_cap hi (hn i (by simp))]

section Derived
variable {cap0 : Nat} {s : Sys} {stE stD : STable}

theorem PInv.capE (h : SysInv cap0 s stE stD) (p : PInv cap0 s stE stD) : stE.cap = cap0 := by
  rw [STable.run_noSU_cap h.enc.run p.noSU]; rfl

theorem PInv.capD (h : SysInv cap0 s stE stD) (p : PInv cap0 s stE stD) : stD.cap = cap0 := by
  rw [STable.run_noSU_cap h.decRun (fun i hi => p.noSU i (List.mem_of_mem_take hi))]; rfl

/-- the decoder's abstract table is an earlier stage of the encoder's -/
theorem SysInv.prefix (h : SysInv cap0 s stE stD) : (∃ l, stE.all = stD.all ++ l) ∧ stD.dropped ≤ stE.dropped := by
  have hr := h.enc.run
  rw [← List.take_append_drop s.encDel s.encQ] at hr
  obtain ⟨s1, h1, h2⟩ := STable.run_prefix hr
  rw [h.decRun] at h1; simp at h1; subst h1
  obtain ⟨⟨l, hl, _⟩, hd⟩ := STable.run_mono h2
  exact ⟨⟨l, hl⟩, hd⟩

/-- an undecoded block is still tracked (no acknowledgement can have released it) -/
theorem PInv.todo_unreleased (p : PInv cap0 s stE stD) {sid : Nat} {b : BlockRec} (hb : b ∈ (s.stream sid).todo) :
    b ∈ ((s.stream sid).done ++ (s.stream sid).todo).drop (s.stream sid).npop := by
  have := p.acks sid
  rw [List.drop_append_of_le_length (by omega)]
  exact List.mem_append_right _ hb

theorem qsum_ge_of_mem' {q : List RefMap} {m : RefMap} (h : m ∈ q) (a : Nat) : cnt m a ≤ qsum q a := by
  induction q with
  | nil => simp at h
  | cons x r ih =>
    rcases List.mem_cons.mp h with e | e
    · subst e; simp
    · have := ih e; simp; omega

/-- whatever an unreleased block's reference map counts is live in the encoder's table -/
theorem SysInv.unreleased_live (h : SysInv cap0 s stE stD) {sid : Nat} {b : BlockRec}
    (hb : b ∈ ((s.stream sid).done ++ (s.stream sid).todo).drop (s.stream sid).npop) {a : Nat}
    (hc : 1 ≤ cnt b.refMap a) : stE.dropped < a ∧ a ≤ stE.all.length := by
  have hq := h.queues sid
  have hmem : b.refMap ∈ (qOf (s.stream sid)).getD [] := by
    rw [getD_qOf]; exact List.mem_map.mpr ⟨b, hb, rfl⟩
  rw [← hq] at hmem
  cases hg : aget s.enc.trackBlocks sid with
  | none => rw [hg] at hmem; simp at hmem
  | some q =>
    rw [hg] at hmem; simp at hmem
    have h1 := qsum_ge_of_mem' hmem a
    have h2 := qsum_le_total a hg
    have h3 := h.enc.track.sum a
    have := h.enc.track.live a (by simp at h3; omega)
    rw [h.enc.abs.drp, h.enc.abs.ins] at this; exact this

/-- the encoder has evicted nothing the decoder has not received -/
theorem dropped_le_of (h : SysInv cap0 s stE stD)
    (hnp : ∀ sid, (s.stream sid).npop ≤ (s.stream sid).done.length)
    (hun : ∀ a, stD.all.length < a → a ≤ stE.all.length →
      ∃ sid, ∃ b ∈ (s.stream sid).todo, 1 ≤ cnt b.refMap a ∧ a ≤ b.required) : stE.dropped ≤ stD.all.length := by
  apply Nat.le_of_not_lt; intro hlt
  obtain ⟨sid, b, hb, hc, _⟩ := hun stE.dropped hlt h.enc.abs.le
  have hmem : b ∈ ((s.stream sid).done ++ (s.stream sid).todo).drop (s.stream sid).npop := by
    rw [List.drop_append_of_le_length (hnp sid)]; exact List.mem_append_right _ hb
  have := (h.unreleased_live hmem hc).1
  omega

theorem PInv.dropped_le (h : SysInv cap0 s stE stD) (p : PInv cap0 s stE stD) : stE.dropped ≤ stD.all.length :=
  dropped_le_of h (fun sid => by have := p.acks sid; omega) p.unrecv

/-- at most `capacity / 32` entries are in the table -/
theorem Abs.length_le {t : Table} {st : STable} (h : Abs t st) : st.all.length - st.dropped ≤ st.cap / 32 := by
  have h1 := size_ge_length t.fields
  have h2 := h.curr; have h3 := h.cap; have h4 := h.max; have h5 := h.length
  rw [Nat.le_div_iff_mul_le (by omega)]; omega

end Derived

/-! ### the oldest undecoded block of a stream -/

theorem decode_head {cap0 : Nat} {s : Sys} {stE stD : STable} (h : SysInv cap0 s stE stD) (p : PInv cap0 s stE stD)
    {sid : Nat} {b : BlockRec} {rest : List BlockRec} (ht : (s.stream sid).todo = b :: rest) :
    (b.required ≤ stD.all.length → decodeHeader s.dec b.blk = .ok (b.orig, decide (b.required > 0))) ∧
    (stD.all.length < b.required → decodeHeader s.dec b.blk = .err (.missingRefs b.required)) := by
  have hb : b ∈ (s.stream sid).todo := by rw [ht]; simp
  have hbk : BlockOK stE.all b := h.blocks sid b (List.mem_append_right _ hb)
  obtain ⟨hwin, T, hT, hpfx⟩ := p.window sid b hb
  have hmax : s.dec.maxSize = cap0 := by rw [h.decAbs.max, p.capD h]
  have htot : s.dec.totalInserted = stD.all.length := h.decAbs.ins
  obtain ⟨hpre, hdm⟩ := h.prefix
  have hunrel := p.todo_unreleased hb
  unfold decodeHeader
  rw [hmax, htot]
  by_cases hr0 : b.required = 0
  · -- nothing dynamic is referenced
    have hp0 := prefix_zero b.base T cap0 stD.all.length
    rw [hr0] at hpfx
    rw [hp0.1] at hpfx; simp at hpfx
    rw [← hpfx, hp0.2]
    simp only [Res.bind_ok]
    refine ⟨fun _ => ?_, fun hlt => by omega⟩
    rw [if_neg (by omega)]
    have hdec : decodeReps s.dec 0 b.blk.reps = .ok b.orig :=
      decodeReps_ok h.decAbs hpre hbk.den (fun r hr a ha => by
        have := hbk.refs r hr a ha; omega)
    rw [hdec]; simp [hr0]
  · have hpos : 0 < b.required := Nat.pos_of_ne_zero hr0
    -- the Required Insert Count is itself a referenced, hence live, entry
    have hlive : stE.dropped < b.required ∧ b.required ≤ stE.all.length := by
      rcases hbk.req with h0 | ⟨r, hr, ha⟩
      · exact absurd h0 hr0
      · exact h.unreleased_live hunrel (hbk.refs r hr _ ha).1
    have hlen := h.enc.abs.length_le
    rw [p.capE h] at hlen
    obtain ⟨l, hl⟩ := hpre
    have hle : stD.all.length ≤ stE.all.length := by rw [hl]; simp
    obtain ⟨p', hp1, hp2⟩ := prefix_roundtrip b.required b.base T cap0 stD.all.length hpos hT (by omega) hwin (by omega)
    rw [hp1] at hpfx; simp at hpfx; subst hpfx
    rw [hp2]; simp only [Res.bind_ok]
    refine ⟨fun hle' => ?_, fun hlt => by rw [if_pos hlt]⟩
    rw [if_neg (by omega)]
    have hdec : decodeReps s.dec b.base b.blk.reps = .ok b.orig :=
      decodeReps_ok h.decAbs ⟨l, hl⟩ hbk.den (fun r hr a ha => by
        have h1 := hbk.refs r hr a ha
        have h2 := (h.unreleased_live hunrel h1.1).1
        exact ⟨rfl, by omega, by omega⟩)
    rw [hdec]; simp [hpos]

/-! ### preservation -/

theorem pinv_init {cap bl : Nat} {s : Sys} (h : Sys.init cap bl = .ok s) : PInv cap s (initST cap) (initST cap) := by
  unfold Sys.init at h
  cases hc : Table.configured cap bl with
  | err e => rw [hc] at h; simp at h
  | panic p => rw [hc] at h; simp at h
  | ok t =>
    rw [hc] at h; simp at h; subst h
    exact {
      noSU := by intro i hi; simp at hi
      notCancelled := by intro sid; simp [Sys.stream]
      noCancelInstr := by intro i hi; simp at hi
      decDelLe := by simp
      acks := by intro sid; simp [Sys.stream, inflight]
      doneReq := by intro sid b hb; simp [Sys.stream] at hb
      unrecv := by intro a h1 h2; simp [initST] at h1 h2; omega
      window := by intro sid b hb; simp [Sys.stream] at hb }

theorem pinv_encode {cap0 : Nat} {s s' : Sys} {stE stD : STable} {sid : Nat} {fields : List Field} {out : Out}
    (h : SysInv cap0 s stE stD) (p : PInv cap0 s stE stD) (hs : step s (.encode sid fields) = .ok (s', out)) :
    ∃ stE', SysInv cap0 s' stE' stD ∧ PInv cap0 s' stE' stD := by
  obtain ⟨enc, stE', _, hi, hf, he, hq, hd, hdel, hdq, hdd, hst⟩ := step_encode_inv h hs
  refine ⟨stE', hi, ?_⟩
  obtain ⟨l, hl⟩ := hf.grow
  have hstream := stream_of_aset hst
  have hinfl : ∀ x, inflight s' x = inflight s x := by intro x; simp [inflight, hdq, hdd]
  have hacks : ∀ x, (s'.stream x).npop + inflight s' x ≤ (s'.stream x).done.length := by
    intro x; rw [hinfl, hstream x]
    by_cases hx : sid = x
    · subst hx; rw [if_pos rfl]; exact p.acks sid
    · rw [if_neg hx]; exact p.acks x
  have hun : ∀ a, stD.all.length < a → a ≤ stE'.all.length →
      ∃ x, ∃ b ∈ (s'.stream x).todo, 1 ≤ cnt b.refMap a ∧ a ≤ b.required := by
    intro a h1 h2
    by_cases ha : a ≤ stE.all.length
    · obtain ⟨x, b, hb, hc⟩ := p.unrecv a h1 ha
      refine ⟨x, b, ?_, hc⟩
      rw [hstream x]
      by_cases hx : sid = x
      · subst hx; rw [if_pos rfl]; exact List.mem_append_left _ hb
      · rw [if_neg hx]; exact hb
    · refine ⟨sid, .ofEncoded fields enc s.enc.maxSize, ?_, hf.new a (by omega) h2⟩
      rw [hstream sid, if_pos rfl]; simp
  have hW := dropped_le_of hi (fun x => by have := hacks x; omega) hun
  have hcapE : stE.cap = cap0 := p.capE h
  exact {
    noSU := by
      intro i hi' c; rw [hq] at hi'
      rcases List.mem_append.mp hi' with h1 | h1
      · exact p.noSU i h1 c
      · exact hf.noSU i h1 c
    notCancelled := by
      intro x; rw [hstream x]
      by_cases hx : sid = x
      · subst hx; rw [if_pos rfl]; exact p.notCancelled sid
      · rw [if_neg hx]; exact p.notCancelled x
    noCancelInstr := by rw [hdq, hdd]; exact p.noCancelInstr
    decDelLe := by rw [hdq, hdd]; exact p.decDelLe
    acks := hacks
    doneReq := by
      intro x b hb; rw [hstream x] at hb
      by_cases hx : sid = x
      · subst hx; rw [if_pos rfl] at hb; exact p.doneReq sid b hb
      · rw [if_neg hx] at hb; exact p.doneReq x b hb
    unrecv := hun
    window := by
      intro x b hb; rw [hstream x] at hb
      have hnewb : (BlockRec.ofEncoded fields enc s.enc.maxSize).required ≤ stD.all.length + cap0 / 32 ∧
          ∃ T, (BlockRec.ofEncoded fields enc s.enc.maxSize).required ≤ T ∧
            prefixNew (BlockRec.ofEncoded fields enc s.enc.maxSize).required
              (BlockRec.ofEncoded fields enc s.enc.maxSize).base T cap0 =
              .ok (BlockRec.ofEncoded fields enc s.enc.maxSize).blk.pfx := by
        have hlen := hi.enc.abs.length_le
        rw [hf.cap, hcapE] at hlen
        refine ⟨by have := hf.reqLe; simp only [BlockRec.ofEncoded]; omega, stE'.all.length, hf.reqLe, ?_⟩
        have := hf.pfx; rw [hcapE] at this; exact this
      by_cases hx : sid = x
      · subst hx; rw [if_pos rfl] at hb
        simp only [List.mem_append, List.mem_singleton] at hb
        rcases hb with hb | hb
        · exact p.window sid b hb
        · subst hb; exact hnewb
      · rw [if_neg hx] at hb; exact p.window x b hb }

theorem pinv_deliverEnc {cap0 : Nat} {s s' : Sys} {stE stD : STable} {k : Nat} {out : Out}
    (h : SysInv cap0 s stE stD) (p : PInv cap0 s stE stD) (hs : step s (.deliverEnc k) = .ok (s', out)) :
    ∃ stD', SysInv cap0 s' stE stD' ∧ PInv cap0 s' stE stD' := by
  obtain ⟨s2, out2, stD', h2, hi, he, hst, hq, hdd, hmono, hdq⟩ := step_deliverEnc_ok h k
  rw [h2] at hs; simp at hs; obtain ⟨e1, _⟩ := hs; subst e1
  refine ⟨stD', hi, ?_⟩
  have hstream := stream_of_eq hst
  have hdrop : ∀ x, (s2.decQ.drop s2.decDel).count (.ack x) = (s.decQ.drop s.decDel).count (.ack x) := by
    intro x
    rcases hdq with e | ⟨n, e⟩
    · rw [e, hdd]
    · have hle : s.decDel ≤ s.decQ.length ∨ s.decQ.length < s.decDel := Nat.lt_or_ge _ _ |>.symm
      rw [e, hdd]
      rcases hle with hle | hle
      · rw [List.drop_append_of_le_length hle, List.count_append]; simp
      · rw [List.drop_eq_nil_of_le (by simp; omega), List.drop_eq_nil_of_le (by omega)]
  exact {
    noSU := by rw [hq]; exact p.noSU
    notCancelled := by intro x; rw [hstream x]; exact p.notCancelled x
    noCancelInstr := by
      intro i hi' x
      rcases hdq with e | ⟨n, e⟩
      · rw [e, hdd] at hi'; exact p.noCancelInstr i hi' x
      · rw [e, hdd] at hi'
        have : i ∈ s.decQ.drop s.decDel ∨ i = .incr n := by
          rcases (Nat.lt_or_ge s.decQ.length s.decDel).symm with hle | hle
          · rw [List.drop_append_of_le_length hle] at hi'
            rcases List.mem_append.mp hi' with h1 | h1
            · exact Or.inl h1
            · simp at h1; exact Or.inr h1
          · have := List.mem_of_mem_drop hi'
            rcases List.mem_append.mp this with h1 | h1
            · exfalso
              rw [List.drop_eq_nil_of_le (by simp; omega)] at hi'; simp at hi'
            · simp at h1; exact Or.inr h1
        rcases this with h1 | h1
        · exact p.noCancelInstr i h1 x
        · subst h1; simp
    decDelLe := by
      have := p.decDelLe
      rcases hdq with e | ⟨n, e⟩
      · rw [e, hdd]; exact this
      · rw [e, hdd]; simp; omega
    acks := by intro x; simp only [inflight]; rw [hdrop x, hstream x]; exact p.acks x
    doneReq := by intro x b hb; rw [hstream x] at hb; have := p.doneReq x b hb; omega
    unrecv := by
      intro a h1 h2'
      obtain ⟨x, b, hb, hc⟩ := p.unrecv a (by omega) h2'
      exact ⟨x, b, by rw [hstream x]; exact hb, hc⟩
    window := by
      intro x b hb; rw [hstream x] at hb
      obtain ⟨w1, w2⟩ := p.window x b hb
      exact ⟨by omega, w2⟩ }

theorem pinv_deliverBlock {cap0 : Nat} {s s' : Sys} {stE stD : STable} {sid : Nat} {out : Out}
    (h : SysInv cap0 s stE stD) (p : PInv cap0 s stE stD) (hs : step s (.deliverBlock sid) = .ok (s', out)) :
    SysInv cap0 s' stE stD ∧ PInv cap0 s' stE stD := by
  obtain ⟨hi, he, hd, hq, hdel, hdd, hcase⟩ := step_deliverBlock_inv h hs
  refine ⟨hi, ?_⟩
  rcases hcase with ⟨e, _⟩ | ⟨b, rest, dynRef, fs, ht, hc, hdec, _, hst, hdq⟩
  · subst e; exact p
  · have hstream := stream_of_aset hst
    -- the block was not blocked, so the decoder had everything it requires
    have hreq : b.required ≤ stD.all.length := by
      apply Nat.le_of_not_lt; intro hlt
      rw [(decode_head h p ht).2 hlt] at hdec; simp at hdec
    have hcount : ∀ x, (s'.decQ.drop s'.decDel).count (.ack x) ≤
        (s.decQ.drop s.decDel).count (.ack x) + (if sid = x then 1 else 0) := by
      intro x; rw [hdq, hdd]
      split
      · rw [List.drop_append_of_le_length p.decDelLe, List.count_append]
        by_cases hx : sid = x
        · subst hx; simp
        · simp [hx]
      · omega
    exact {
      noSU := by rw [hq]; exact p.noSU
      notCancelled := by
        intro x; rw [hstream x]
        by_cases hx : sid = x
        · subst hx; rw [if_pos rfl]; exact p.notCancelled sid
        · rw [if_neg hx]; exact p.notCancelled x
      noCancelInstr := by
        intro i hi' x; rw [hdq, hdd] at hi'
        split at hi'
        · rw [List.drop_append_of_le_length p.decDelLe] at hi'
          rcases List.mem_append.mp hi' with h1 | h1
          · exact p.noCancelInstr i h1 x
          · simp at h1; subst h1; simp
        · exact p.noCancelInstr i hi' x
      decDelLe := by
        rw [hdq, hdd]; have := p.decDelLe
        split
        · simp; omega
        · exact this
      acks := by
        intro x
        have h1 := hcount x
        have h2 := p.acks x
        simp only [inflight] at h2 ⊢
        rw [hstream x]
        by_cases hx : sid = x
        · subst hx; rw [if_pos rfl] at h1 ⊢; simp only [List.length_append, List.length_singleton]; omega
        · rw [if_neg hx] at h1 ⊢; omega
      doneReq := by
        intro x b' hb'; rw [hstream x] at hb'
        by_cases hx : sid = x
        · subst hx; rw [if_pos rfl] at hb'
          simp only [List.mem_append, List.mem_singleton] at hb'
          rcases hb' with hb' | hb'
          · exact p.doneReq sid b' hb'
          · subst hb'; exact hreq
        · rw [if_neg hx] at hb'; exact p.doneReq x b' hb'
      unrecv := by
        intro a h1 h2
        obtain ⟨x, b', hb', hc1, hc2⟩ := p.unrecv a h1 h2
        refine ⟨x, b', ?_, hc1, hc2⟩
        rw [hstream x]
        by_cases hx : sid = x
        · subst hx; rw [if_pos rfl]; simp only
          rw [ht] at hb'
          rcases List.mem_cons.mp hb' with e | e
          · subst e; omega
          · exact e
        · rw [if_neg hx]; exact hb'
      window := by
        intro x b' hb'; rw [hstream x] at hb'
        by_cases hx : sid = x
        · subst hx; rw [if_pos rfl] at hb'; simp only at hb'
          exact p.window sid b' (by rw [ht]; exact List.mem_cons_of_mem _ hb')
        · rw [if_neg hx] at hb'; exact p.window x b' hb' }

/-! #### acknowledgements -/

theorem deliverAcks_counts {t t' : Table} {ss ss' : List (Nat × StreamSt)} {ins : List DecInstr} (rest : List DecInstr)
    (hno : ∀ i ∈ ins, ∀ sid, i ≠ .cancel sid) (hok : deliverAcks t ss ins = .ok (t', ss'))
    (hacks : ∀ sid, ((aget ss sid).getD {}).npop + (ins ++ rest).count (.ack sid) ≤ ((aget ss sid).getD {}).done.length) :
    (∀ sid, ((aget ss' sid).getD {}).done = ((aget ss sid).getD {}).done ∧
            ((aget ss' sid).getD {}).todo = ((aget ss sid).getD {}).todo ∧
            ((aget ss' sid).getD {}).cancelled = ((aget ss sid).getD {}).cancelled) ∧
    (∀ sid, ((aget ss' sid).getD {}).npop + rest.count (.ack sid) ≤ ((aget ss' sid).getD {}).done.length) := by
  induction ins generalizing t ss with
  | nil => simp [deliverAcks] at hok; obtain ⟨_, e⟩ := hok; subst e; exact ⟨fun _ => ⟨rfl, rfl, rfl⟩, by simpa using hacks⟩
  | cons i r ih =>
    simp only [deliverAcks] at hok
    cases hd : decoderInstr t i with
    | err e => rw [hd] at hok; simp at hok
    | panic p => rw [hd] at hok; simp at hok
    | ok t1 =>
      rw [hd] at hok; simp only [Res.bind_ok] at hok
      have hview : ∀ sid, ((aget (popGhost t ss i) sid).getD {}).done = ((aget ss sid).getD {}).done ∧
          ((aget (popGhost t ss i) sid).getD {}).todo = ((aget ss sid).getD {}).todo ∧
          ((aget (popGhost t ss i) sid).getD {}).cancelled = ((aget ss sid).getD {}).cancelled ∧
          ((aget (popGhost t ss i) sid).getD {}).npop = ((aget ss sid).getD {}).npop + (if i = .ack sid then 1 else 0) := by
        intro sid
        cases i with
        | cancel x => exact absurd rfl (hno _ (by simp) x)
        | incr n => simp [popGhost]
        | ack x =>
          simp only [popGhost, stream_aset]
          by_cases hx : x = sid
          · subst hx; simp
          · simp [hx]
      obtain ⟨h1, h2⟩ := ih (fun j hj => hno j (List.mem_cons_of_mem _ hj)) hok (by
        intro sid
        obtain ⟨v1, _, _, v4⟩ := hview sid
        have := hacks sid
        rw [v1, v4]
        simp only [List.cons_append, List.count_cons] at this
        have hb : (i == DecInstr.ack sid) = decide (i = .ack sid) := by
          by_cases hi : i = .ack sid <;> simp [hi]
        rw [hb] at this
        by_cases hi : i = .ack sid
        · simp [hi] at this ⊢; omega
        · simp [hi] at this ⊢; omega)
      refine ⟨fun sid => ?_, h2⟩
      obtain ⟨v1, v2, v3, _⟩ := hview sid
      obtain ⟨w1, w2, w3⟩ := h1 sid
      exact ⟨w1.trans v1, w2.trans v2, w3.trans v3⟩

theorem drop_take_length (l : List α) (k : Nat) : l.drop (l.take k).length = l.drop k := by
  rw [List.length_take]
  rcases Nat.le_total k l.length with h | h
  · rw [Nat.min_eq_left h]
  · rw [Nat.min_eq_right h, List.drop_eq_nil_of_le (Nat.le_refl _), List.drop_eq_nil_of_le h]

theorem pinv_deliverAck {cap0 : Nat} {s s' : Sys} {stE stD : STable} {k : Nat} {out : Out}
    (h : SysInv cap0 s stE stD) (p : PInv cap0 s stE stD) (hs : step s (.deliverAck k) = .ok (s', out)) :
    SysInv cap0 s' stE stD ∧ PInv cap0 s' stE stD := by
  rcases step_deliverAck_inv h k with ⟨e, he⟩ | ⟨s2, out2, h2, hi, hc, hd, hq, hdel, hdq⟩
  · rw [he] at hs; simp at hs
  · rw [h2] at hs; simp at hs; obtain ⟨e1, _⟩ := hs; subst e1
    refine ⟨hi, ?_⟩
    -- what `step` did, once more, to get at the ghost bookkeeping
    simp only [step] at h2
    cases hda : deliverAcks s.enc s.streams ((s.decQ.drop s.decDel).take k) with
    | err e => rw [hda] at h2; simp at h2
    | panic p' => rw [hda] at h2; simp at h2
    | ok r =>
      obtain ⟨t', ss'⟩ := r
      rw [hda] at h2; simp only [Res.bind_ok, Res.ok.injEq, Prod.mk.injEq] at h2; obtain ⟨e2, _⟩ := h2; subst e2
      have hsplit : (s.decQ.drop s.decDel).take k ++ s.decQ.drop (s.decDel + ((s.decQ.drop s.decDel).take k).length) =
          s.decQ.drop s.decDel := by
        rw [← List.drop_drop, drop_take_length, List.take_append_drop]
      obtain ⟨hv, hacks⟩ := deliverAcks_counts (s.decQ.drop (s.decDel + ((s.decQ.drop s.decDel).take k).length))
        (fun i hi' => p.noCancelInstr i (List.mem_of_mem_take hi')) hda (by
          intro sid; rw [hsplit]; exact p.acks sid)
      exact {
        noSU := p.noSU
        notCancelled := by intro x; exact (hv x).2.2.trans (p.notCancelled x)
        noCancelInstr := by
          intro i hi' x
          simp only at hi'
          rw [← List.drop_drop] at hi'
          exact p.noCancelInstr i (List.mem_of_mem_drop hi') x
        decDelLe := by
          simp only [List.length_take, List.length_drop]; have := p.decDelLe; omega
        acks := by intro x; exact hacks x
        doneReq := by
          intro x b hb
          exact p.doneReq x b (by show b ∈ ((aget s.streams x).getD {}).done; rw [← (hv x).1]; exact hb)
        unrecv := by
          intro a h1 h2
          obtain ⟨x, b, hb, hc'⟩ := p.unrecv a h1 h2
          exact ⟨x, b, by show b ∈ ((aget ss' x).getD {}).todo; rw [(hv x).2.1]; exact hb, hc'⟩
        window := by
          intro x b hb
          exact p.window x b (by show b ∈ ((aget s.streams x).getD {}).todo; rw [← (hv x).2.1]; exact hb) }

/-! ### histories without capacity changes and cancellations -/

def Event.plain : Event → Bool
  | .setCapacity _ => false
  | .cancel _ => false
  | _ => true

/-- the decidable predicate that delimits the partial theorem: no `setCapacity`, no `cancel` -/
def plainHistory (evs : List Event) : Bool := evs.all Event.plain

theorem run_pinv' {cap0 : Nat} {s s' : Sys} {stE stD : STable} {evs : List Event}
    (h : SysInv cap0 s stE stD) (p : PInv cap0 s stE stD) (hp : plainHistory evs = true)
    (hr : run s evs = some s') : ∃ stE' stD', SysInv cap0 s' stE' stD' ∧ PInv cap0 s' stE' stD' := by
  induction evs generalizing s stE stD with
  | nil => simp [run] at hr; subst hr; exact ⟨stE, stD, h, p⟩
  | cons ev r ih =>
    simp only [plainHistory, List.all_cons, Bool.and_eq_true] at hp
    obtain ⟨hp1, hp2⟩ := hp
    simp only [run] at hr
    cases hs : step s ev with
    | err e => rw [hs] at hr; simp at hr
    | panic p' => rw [hs] at hr; simp at hr
    | ok x =>
      obtain ⟨s1, out⟩ := x
      rw [hs] at hr; simp only at hr
      cases ev with
      | encode sid fields =>
        obtain ⟨stE1, h1, p1⟩ := pinv_encode h p hs
        exact ih h1 p1 hp2 hr
      | deliverEnc k =>
        obtain ⟨stD1, h1, p1⟩ := pinv_deliverEnc h p hs
        exact ih h1 p1 hp2 hr
      | deliverBlock sid =>
        obtain ⟨h1, p1⟩ := pinv_deliverBlock h p hs
        exact ih h1 p1 hp2 hr
      | deliverAck k =>
        obtain ⟨h1, p1⟩ := pinv_deliverAck h p hs
        exact ih h1 p1 hp2 hr
      | setCapacity c => simp [Event.plain] at hp1
      | cancel sid => simp [Event.plain] at hp1

theorem run_pinv {cap bl : Nat} {s0 s : Sys} {evs : List Event} (h0 : Sys.init cap bl = .ok s0)
    (hp : plainHistory evs = true) (hr : run s0 evs = some s) :
    ∃ stE stD, SysInv cap s stE stD ∧ PInv cap s stE stD :=
  run_pinv' (init_inv h0) (pinv_init h0) hp hr

/-! ### totality in histories without capacity changes and cancellations -/

/-- what one instruction other than a Stream Cancellation does to the ghost bookkeeping -/
theorem popGhost_view (t : Table) (ss : List (Nat × StreamSt)) {i : DecInstr} (hno : ∀ sid, i ≠ .cancel sid)
    (sid : Nat) :
    ((aget (popGhost t ss i) sid).getD {}).done = ((aget ss sid).getD {}).done ∧
    ((aget (popGhost t ss i) sid).getD {}).npop = ((aget ss sid).getD {}).npop + (if i = .ack sid then 1 else 0) := by
  cases i with
  | cancel x => exact absurd rfl (hno x)
  | incr n => simp [popGhost]
  | ack x =>
    simp only [popGhost, stream_aset]
    by_cases hx : x = sid
    · subst hx; simp
    · simp [hx]

/-- the encoder accepts an Insert Count Increment, and a Section Acknowledgement for a stream that
    has a decoded block it has not released yet -/
theorem decoderInstr_ok {cap0 log stE t ss} (h : AckInv cap0 log stE t ss) {i : DecInstr}
    (hno : ∀ sid, i ≠ .cancel sid)
    (hack : ∀ sid, i = .ack sid → ((aget ss sid).getD {}).npop < ((aget ss sid).getD {}).done.length) :
    ∃ t', decoderInstr t i = .ok t' := by
  cases i with
  | cancel x => exact absurd rfl (hno x)
  | incr n =>
    -- `blocked_count` is the sum over `blocked_streams`: the checked subtraction cannot fail
    obtain ⟨t', hok, _⟩ := updateLargestReceived_spec h.tinv.blocked n
    exact ⟨t', hok⟩
  | ack sid =>
    simp only [decoderInstr]
    cases hu : t.untrackBlock sid with
    | panic p => exact absurd hu (untrackBlock_no_panic h.tinv.track sid p)
    | ok t' => exact ⟨t', rfl⟩
    | err e =>
      -- an error means `track_blocks` has no queue for the stream: every block on it is released
      exfalso
      have hn := untrackBlock_err_none h.tinv.track hu
      have hq := h.queues sid
      rw [hn] at hq
      have hlt := hack sid rfl
      unfold qOf at hq
      split at hq
      · rename_i hnil
        have hlen := congrArg List.length hnil
        simp only [List.length_map, List.length_drop, List.length_append, List.length_nil] at hlen
        omega
      · simp at hq

/-- `Encoder::on_decoder_recv` accepts every batch of instructions in which each Section
    Acknowledgement has its own decoded, unreleased block and no Stream Cancellation occurs -/
theorem deliverAcks_ok {cap0 log stE t ss} (h : AckInv cap0 log stE t ss) {ins : List DecInstr} (rest : List DecInstr)
    (hno : ∀ i ∈ ins, ∀ sid, i ≠ .cancel sid)
    (hacks : ∀ sid, ((aget ss sid).getD {}).npop + (ins ++ rest).count (.ack sid) ≤ ((aget ss sid).getD {}).done.length) :
    ∃ t' ss', deliverAcks t ss ins = .ok (t', ss') := by
  induction ins generalizing t ss with
  | nil => exact ⟨t, ss, rfl⟩
  | cons i r ih =>
    have hnoi : ∀ sid, i ≠ .cancel sid := hno i (by simp)
    obtain ⟨t1, h1⟩ := decoderInstr_ok h hnoi (by
      intro sid hi
      have := hacks sid
      subst hi
      simp only [List.cons_append, List.count_cons_self] at this
      omega)
    simp only [deliverAcks, h1, Res.bind_ok]
    rcases decoderInstr_inv h i with ⟨e, he⟩ | ⟨t1', h1', hi1, _⟩
    · rw [h1] at he; simp at he
    · rw [h1] at h1'; simp only [Res.ok.injEq] at h1'; subst h1'
      apply ih hi1 (fun j hj => hno j (List.mem_cons_of_mem _ hj))
      intro sid
      obtain ⟨v1, v2⟩ := popGhost_view t ss hnoi sid
      have := hacks sid
      rw [v1, v2]
      simp only [List.cons_append, List.count_cons] at this
      by_cases hi : i = .ack sid
      · simp [hi] at this ⊢; omega
      · have hb : (i == DecInstr.ack sid) = false := by simp [hi]
        rw [hb] at this
        simp [hi] at this ⊢; omega

/-- **`deliverAck` is total** in the states of plain histories: whatever the decoder has written is
    accepted by the encoder -/
theorem step_deliverAck_ok {cap0 : Nat} {s : Sys} {stE stD : STable} (h : SysInv cap0 s stE stD)
    (p : PInv cap0 s stE stD) (k : Nat) :
    ∃ s', step s (.deliverAck k) = .ok (s', .ackRecv (min k (s.decQ.length - s.decDel))) ∧
      s'.decDel = s.decDel + min k (s.decQ.length - s.decDel) ∧ s'.decQ = s.decQ := by
  have hsplit : (s.decQ.drop s.decDel).take k ++ s.decQ.drop (s.decDel + ((s.decQ.drop s.decDel).take k).length) =
      s.decQ.drop s.decDel := by
    rw [← List.drop_drop, drop_take_length, List.take_append_drop]
  obtain ⟨t', ss', hok⟩ := deliverAcks_ok h.toAck (s.decQ.drop (s.decDel + ((s.decQ.drop s.decDel).take k).length))
    (fun i hi' => p.noCancelInstr i (List.mem_of_mem_take hi')) (by
      intro sid; rw [hsplit]; exact p.acks sid)
  have hlen : ((s.decQ.drop s.decDel).take k).length = min k (s.decQ.length - s.decDel) := by
    simp [List.length_take, List.length_drop]
  simp only [step, hok, Res.bind_ok, hlen]
  exact ⟨_, rfl, rfl, rfl⟩

theorem step_plain_ok {cap0 : Nat} {s : Sys} {stE stD : STable} (h : SysInv cap0 s stE stD)
    (p : PInv cap0 s stE stD) {ev : Event} (hp : ev.plain = true) : ∃ s' out, step s ev = .ok (s', out) := by
  cases ev with
  | encode sid fields =>
    obtain ⟨enc, stE', he, _⟩ := encode_spec h.enc sid fields
    simp only [step, he, Res.bind_ok]
    exact ⟨_, _, rfl⟩
  | deliverEnc k =>
    obtain ⟨s', out, _, hs, _⟩ := step_deliverEnc_ok h k
    exact ⟨s', out, hs⟩
  | deliverBlock sid =>
    have hnc := p.notCancelled sid
    cases ht : (s.stream sid).todo with
    | nil => exact ⟨s, .skip, by simp [step, hnc, ht]⟩
    | cons b rest =>
      obtain ⟨hd1, hd2⟩ := decode_head h p ht
      rcases Nat.lt_or_ge stD.all.length b.required with hlt | hle
      · exact ⟨s, .blocked b.required, by simp only [step, hnc, ht, hd2 hlt]⟩
      · simp only [step, hnc, ht, hd1 hle]
        exact ⟨_, _, rfl⟩
  | deliverAck k =>
    obtain ⟨s', hs, _⟩ := step_deliverAck_ok h p k
    exact ⟨s', _, hs⟩
  | setCapacity c => simp [Event.plain] at hp
  | cancel sid => simp [Event.plain] at hp

theorem run_plain_total' {cap0 : Nat} {s : Sys} {stE stD : STable} {evs : List Event}
    (h : SysInv cap0 s stE stD) (p : PInv cap0 s stE stD) (hp : plainHistory evs = true) :
    ∃ s', run s evs = some s' := by
  induction evs generalizing s stE stD with
  | nil => exact ⟨s, rfl⟩
  | cons ev r ih =>
    simp only [plainHistory, List.all_cons, Bool.and_eq_true] at hp
    obtain ⟨hp1, hp2⟩ := hp
    obtain ⟨s1, out, hs⟩ := step_plain_ok h p hp1
    simp only [run, hs]
    cases ev with
    | encode sid fields =>
      obtain ⟨stE1, h1, p1⟩ := pinv_encode h p hs
      exact ih h1 p1 hp2
    | deliverEnc k =>
      obtain ⟨stD1, h1, p1⟩ := pinv_deliverEnc h p hs
      exact ih h1 p1 hp2
    | deliverBlock sid =>
      obtain ⟨h1, p1⟩ := pinv_deliverBlock h p hs
      exact ih h1 p1 hp2
    | deliverAck k =>
      obtain ⟨h1, p1⟩ := pinv_deliverAck h p hs
      exact ih h1 p1 hp2
    | setCapacity c => simp [Event.plain] at hp1
    | cancel sid => simp [Event.plain] at hp1

theorem run_plain_total {cap bl : Nat} {s0 : Sys} {evs : List Event} (h0 : Sys.init cap bl = .ok s0)
    (hp : plainHistory evs = true) : ∃ s, run s0 evs = some s :=
  run_plain_total' (init_inv h0) (pinv_init h0) hp

/-! ### link to the oracle's notions -/

theorem foldl_max_eq {L : List Nat} {init r : Nat} (hle : ∀ x ∈ L, x ≤ r) (hi : init ≤ r)
    (hatt : init = r ∨ r ∈ L) : L.foldl max init = r := by
  induction L generalizing init with
  | nil => simp at hatt ⊢; exact hatt
  | cons x xs ih =>
    simp only [List.foldl_cons]
    apply ih (fun y hy => hle y (List.mem_cons_of_mem _ hy))
    · exact Nat.max_le.mpr ⟨hi, hle x (by simp)⟩
    · rcases hatt with h | h
      · subst h; left; exact Nat.max_eq_left (hle x (by simp))
      · rcases List.mem_cons.mp h with e | e
        · subst e; left; exact Nat.max_eq_right hi
        · exact Or.inr e

/-- the oracle's absolute index (0-based) + 1 is the code's absolute index, for references ≥ 1 -/
theorem absIndex_absRef (base : Nat) (r : Rep) :
    H3.Spec.Dyn.insertCountOf base r =
    (match r.absRef base with | some a => if 1 ≤ a then some a else none | none => none) := by
  cases r <;> simp only [H3.Spec.Dyn.insertCountOf, H3.Spec.Dyn.absIndex, Rep.absRef]
  · rename_i rel
    by_cases h : rel < base
    · simp only [if_pos h]; rw [if_pos (by omega)]; congr 1; omega
    · simp only [if_neg h]; rw [if_neg (by omega)]
  · rename_i i; simp
  · rename_i rel v
    by_cases h : rel < base
    · simp only [if_pos h]; rw [if_pos (by omega)]; congr 1; omega
    · simp only [if_neg h]; rw [if_neg (by omega)]
  · rename_i i v; simp

theorem BlockOK.required_eq_spec {all : List Field} {b : BlockRec} (h : BlockOK all b) :
    b.required = H3.Spec.Dyn.requiredInsertCount b.base b.blk.reps := by
  unfold H3.Spec.Dyn.requiredInsertCount
  symm
  apply foldl_max_eq
  · intro x hx
    obtain ⟨r, hr, he⟩ := List.mem_filterMap.mp hx
    have := absIndex_absRef b.base r
    rw [he] at this
    cases ha : r.absRef b.base with
    | none => rw [ha] at this; simp at this
    | some a =>
      rw [ha] at this; simp only at this
      split at this
      · simp at this; rw [this]; exact (h.refs r hr a ha).2.1
      · simp at this
  · omega
  · rcases h.req with h0 | ⟨r, hr, ha⟩
    · exact Or.inl h0.symm
    · right
      apply List.mem_filterMap.mpr
      refine ⟨r, hr, ?_⟩
      have := absIndex_absRef b.base r
      rw [ha] at this; simp only at this
      rw [if_pos (h.refs r hr _ ha).2.2] at this
      exact this

theorem denoteRep_of_all {st : STable} {base : Nat} {r : Rep} {f : Field}
    (hden : denoteRepAll st.all base r = some f)
    (hlive : ∀ a, r.absRef base = some a → st.dropped < a) : H3.Spec.Dyn.denoteRep st base r = some f := by
  have hent : ∀ a, st.dropped < a → entry1 st.all a = st.entry (a - 1) := by
    intro a ha; unfold entry1 STable.entry; rw [if_neg (by omega), if_neg (by omega)]
  cases r with
  | indexedStatic i => simpa [denoteRepAll, H3.Spec.Dyn.denoteRep] using hden
  | litStatic i v =>
    simp only [denoteRepAll] at hden; simp only [H3.Spec.Dyn.denoteRep]
    cases hg : staticGet i with
    | none => rw [hg] at hden; simp at hden
    | some g => rw [hg] at hden; simp [Field.withValue] at hden ⊢; exact hden
  | lit n v => simpa [denoteRepAll, H3.Spec.Dyn.denoteRep] using hden
  | indexedDyn rel =>
    have hl := hlive (base - rel) rfl
    simp only [denoteRepAll, hent _ hl] at hden; simp only [H3.Spec.Dyn.denoteRep]
    rw [if_pos (by omega)]
    have : base - 1 - rel = base - rel - 1 := by omega
    rw [this]; exact hden
  | indexedPost i =>
    have hl := hlive (base + i + 1) rfl
    simp only [denoteRepAll, hent _ hl] at hden; simp only [H3.Spec.Dyn.denoteRep]
    simpa using hden
  | litDyn rel v =>
    have hl := hlive (base - rel) rfl
    simp only [denoteRepAll, hent _ hl] at hden; simp only [H3.Spec.Dyn.denoteRep]
    rw [if_pos (by omega)]
    have : base - 1 - rel = base - rel - 1 := by omega
    rw [this]
    cases hg : st.entry (base - rel - 1) with
    | none => rw [hg] at hden; simp at hden
    | some g => rw [hg] at hden; simp [Field.withValue] at hden ⊢; exact hden
  | litPost i v =>
    have hl := hlive (base + i + 1) rfl
    simp only [denoteRepAll, hent _ hl] at hden; simp only [H3.Spec.Dyn.denoteRep]
    simp only [Nat.add_sub_cancel] at hden
    cases hg : st.entry (base + i) with
    | none => rw [hg] at hden; simp at hden
    | some g => rw [hg] at hden; simp [Field.withValue] at hden ⊢; exact hden

theorem denote_of_all {st : STable} {base : Nat} {reps : List Rep} {fs : List Field}
    (hden : denoteAll st.all base reps = some fs)
    (hlive : ∀ r ∈ reps, ∀ a, r.absRef base = some a → st.dropped < a) :
    H3.Spec.Dyn.denote st base reps = some fs := by
  induction reps generalizing fs with
  | nil => simpa [denoteAll, H3.Spec.Dyn.denote] using hden
  | cons r rs ih =>
    obtain ⟨f, fs', hfs, hr, hrs⟩ := denoteAll_cons hden
    subst hfs
    simp only [H3.Spec.Dyn.denote, denoteRep_of_all hr (hlive r (by simp)), Option.bind_some,
      ih hrs (fun r' hr' => hlive r' (List.mem_cons_of_mem _ hr')), Option.map_some]

end H3.Dyn
