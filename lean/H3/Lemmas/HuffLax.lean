import H3.Lemmas.HuffSpec
import H3.Lemmas.HuffLoop
/-! The D-15 flag, exactly.  `hdecodeX` ends with `Ok(None)` from `check_eof`, reached at the level of the decode
    tree whose `lookup` bits are not there.  Of the bits `tail` behind the last complete symbol, the levels above
    have consumed `c` (a path of the tree up to a level boundary) and `check_eof` judges the rest `q` only:
    `walkL root tail = .short q`, `tail = c ++ q`, and it accepts `q = []` (`Ordering::Greater`) or `q` = at most
    eight ones (`Ordering::Equal`) — `eofOK q`.  `hdecodeX_iff`: that is ALL the decoder accepts, and the ghost flag
    is `!validPad tail`.  So the flagged set (accepted although RFC 7541 §5.2 forbids it) is exactly: such a
    `c ++ q` that is longer than 7 bits or has a zero bit in `c` (`lax_iff`, `C15_huffman_lax_set_exact`). -/
namespace H3.Huffman
open H3.Bits H3.Spec.Huffman
open H3.Gen.HuffDec (Level Entry root)

/-- `decode_next` answers `Ok(None)` exactly when the walk from the cursor runs out of bits at a level whose
    remaining bits `check_eof` accepts -/
theorem step_done_iff (inp : List Nat) (hinp : WF inp) (w : BitWindow) (hpos : w.endPos ≤ 8 * inp.length) :
    (decodeNext root w inp).2 = .done ↔
      ∃ q, walkL root ((bitsOf inp).drop w.endPos) = .short q ∧ eofOK q = true := by
  have hb := bridgeL inp hinp root w hpos
  cases hw : walkL root ((bitsOf inp).drop w.endPos) with
  | sym s rest =>
    rw [hw] at hb
    obtain ⟨h1, _⟩ := hb
    constructor
    · intro h; rw [h1] at h; cases h
    · rintro ⟨q, h, _⟩; cases h
  | short q =>
    rw [hw] at hb
    obtain ⟨h1, h2, _⟩ := hb
    constructor
    · intro h
      refine ⟨q, rfl, ?_⟩
      cases hq : eofOK q
      · obtain ⟨_, h'⟩ := h2 hq; rw [h'] at h; cases h
      · rfl
    · rintro ⟨q', h, hq⟩
      cases h
      exact h1 hq
  | unhandled =>
    rw [hw] at hb
    obtain ⟨_, _, h1⟩ := hb
    constructor
    · intro h; rw [h1] at h; cases h
    · rintro ⟨q, h, _⟩; cases h

theorem decodeAll_sound_lax (inp : List Nat) (hinp : WF inp) : ∀ (fuel : Nat) (w : BitWindow)
    (s : List Nat) (lax : Bool), w.endPos ≤ 8 * inp.length →
    decodeAll root fuel w inp = .ok (s, lax) →
    (∀ x ∈ s, x < 256) ∧ ∃ tail q, (bitsOf inp).drop w.endPos = enc s ++ tail ∧ lax = !validPad tail ∧
      walkL root tail = .short q ∧ eofOK q = true := by
  intro fuel
  induction fuel with
  | zero => intro w s lax _ h; simp [decodeAll] at h
  | succ fuel ih =>
    intro w s lax hpos h
    rw [decodeAll_succ] at h
    rcases hres : decodeNext root w inp with ⟨w', st⟩
    rw [hres] at h
    cases st with
    | sym x =>
      simp only at h
      obtain ⟨hx, hpos', _, hd⟩ := step_sym inp hinp w w' x hpos hres
      cases hrec : decodeAll root fuel w' inp with
      | error e => rw [hrec] at h; simp at h
      | ok v =>
        obtain ⟨r, lax'⟩ := v
        rw [hrec] at h
        simp only [Except.ok.injEq, Prod.mk.injEq] at h
        obtain ⟨rfl, rfl⟩ := h
        obtain ⟨hr, tail, q, ht, hl, hwq, hq⟩ := ih w' r lax' hpos' hrec
        refine ⟨?_, tail, q, ?_, hl, hwq, hq⟩
        · intro y hy
          rcases List.mem_cons.mp hy with rfl | hy
          · exact hx
          · exact hr y hy
        · rw [hd, ht, enc, List.append_assoc]
    | done =>
      simp only [Except.ok.injEq, Prod.mk.injEq] at h
      obtain ⟨rfl, rfl⟩ := h
      have hd : (decodeNext root w inp).2 = .done := by rw [hres]
      obtain ⟨q, hwq, hq⟩ := (step_done_iff inp hinp w hpos).mp hd
      exact ⟨by simp, (bitsOf inp).drop w.endPos, q, by simp [enc],
        by rw [laxAt_eq inp hinp w w' hpos hres, padOK_eq], hwq, hq⟩
    | err e => simp at h

theorem decodeAll_complete_lax (inp : List Nat) (hinp : WF inp) : ∀ (s : List Nat) (fuel : Nat)
    (w : BitWindow) (tail q : List Bool), w.endPos ≤ 8 * inp.length → (∀ x ∈ s, x < 256) →
    s.length < fuel → (bitsOf inp).drop w.endPos = enc s ++ tail → walkL root tail = .short q →
    eofOK q = true → decodeAll root fuel w inp = .ok (s, !validPad tail) := by
  intro s
  induction s with
  | nil =>
    intro fuel w tail q hpos _ hf hd hwq hq
    obtain ⟨f, rfl⟩ : ∃ f, fuel = f + 1 := ⟨fuel - 1, by simp at hf; omega⟩
    simp only [enc, List.nil_append] at hd
    have hdone : (decodeNext root w inp).2 = .done :=
      (step_done_iff inp hinp w hpos).mpr ⟨q, by rw [hd]; exact hwq, hq⟩
    rw [decodeAll_succ]
    rcases hres : decodeNext root w inp with ⟨w', st⟩
    rw [hres] at hdone
    simp only at hdone
    subst hdone
    simp only [laxAt_eq inp hinp w w' hpos hres, padOK_eq, hd]
  | cons x s ih =>
    intro fuel w tail q hpos hs hf hd hwq hq
    obtain ⟨f, rfl⟩ : ∃ f, fuel = f + 1 := ⟨fuel - 1, by simp at hf; omega⟩
    have hx : x < 256 := hs x (by simp)
    rw [enc, List.append_assoc] at hd
    obtain ⟨w', hres, hpos', hd'⟩ := step_code inp hinp w x _ hpos hx hd
    rw [decodeAll_succ, hres]
    simp only
    rw [ih f w' tail q hpos' (fun y hy => hs y (by simp [hy])) (by simp at hf; omega) hd' hwq hq]

/-- EVERYTHING the decoder accepts, with its flag: a concatenation of code words followed by a tail on which the
    walk runs out of bits at a level whose remaining bits `q` `check_eof` accepts (none: `Ordering::Greater`; at
    most eight ones: `Ordering::Equal`); the flag is "the tail is not a valid padding". -/
theorem hdecodeX_iff (b : List Nat) (hb : WF b) (s : List Nat) (l : Bool) :
    hdecodeX b = .ok (s, l) ↔
      (∀ x ∈ s, x < 256) ∧ ∃ tail q, bitsOf b = enc s ++ tail ∧ walkL root tail = .short q ∧
        eofOK q = true ∧ l = !validPad tail := by
  constructor
  · intro h
    obtain ⟨hs, tail, q, ht, hl, hwq, hq⟩ :=
      decodeAll_sound_lax b hb _ ⟨0, 0, 0⟩ s l (by simp [BitWindow.endPos]) h
    exact ⟨hs, tail, q, by simpa [BitWindow.endPos] using ht, hwq, hq, hl⟩
  · rintro ⟨hs, tail, q, ht, hwq, hq, rfl⟩
    apply decodeAll_complete_lax b hb s _ ⟨0, 0, 0⟩ tail q (by simp [BitWindow.endPos]) hs
    · have h1 := length_enc_ge s hs
      have h2 := congrArg List.length ht
      simp at h2; omega
    · simpa [BitWindow.endPos] using ht
    · exact hwq
    · exact hq

theorem eofOK_iff (q : List Bool) : eofOK q = true ↔ q = [] ∨ (q.length ≤ 8 ∧ ∀ x ∈ q, x = true) := by
  simp only [eofOK, Bool.or_eq_true, Bool.and_eq_true, decide_eq_true_eq, List.isEmpty_iff, List.all_eq_true,
    beq_iff_eq]

/-- the flagged set, exactly -/
theorem lax_iff (b : List Nat) (hb : WF b) (s : List Nat) :
    hdecodeX b = .ok (s, true) ↔
      (∀ x ∈ s, x < 256) ∧ ∃ c q, bitsOf b = enc s ++ (c ++ q) ∧ walkL root (c ++ q) = .short q ∧
        (q = [] ∨ (q.length ≤ 8 ∧ ∀ x ∈ q, x = true)) ∧
        (7 < c.length + q.length ∨ ∃ x ∈ c, x = false) := by
  rw [hdecodeX_iff b hb s true]
  constructor
  · rintro ⟨hs, tail, q, ht, hwq, hq, hl⟩
    obtain ⟨c, rfl⟩ := walkL_short_suffix root tail q hwq
    have hq' := (eofOK_iff q).mp hq
    refine ⟨hs, c, q, ht, hwq, hq', ?_⟩
    have hv : validPad (c ++ q) = false := by
      cases hvp : validPad (c ++ q)
      · rfl
      · rw [hvp] at hl; cases hl
    by_cases hlen : 7 < c.length + q.length
    · exact Or.inl hlen
    · right
      apply Classical.byContradiction
      intro hno
      have hall : ∀ x ∈ c ++ q, x = true := by
        intro x hx
        rcases List.mem_append.mp hx with h | h
        · cases x with
          | true => rfl
          | false => exact absurd ⟨false, h, rfl⟩ hno
        · rcases hq' with rfl | ⟨_, hq2⟩
          · cases h
          · exact hq2 x h
      have : validPad (c ++ q) = true :=
        (validPad_iff _).mpr ⟨by rw [List.length_append]; omega, hall⟩
      rw [this] at hv; cases hv
  · rintro ⟨hs, c, q, ht, hwq, hq', hbad⟩
    refine ⟨hs, c ++ q, q, ht, hwq, (eofOK_iff q).mpr hq', ?_⟩
    have hv : validPad (c ++ q) = false := by
      cases hvp : validPad (c ++ q)
      · rfl
      · obtain ⟨h1, h2⟩ := (validPad_iff _).mp hvp
        rw [List.length_append] at h1
        rcases hbad with h | ⟨x, hx, rfl⟩
        · omega
        · have := h2 false (List.mem_append_left q hx); cases this
    rw [hv]; rfl

end H3.Huffman
