import H3.Model.Frame
import H3.Lemmas.Varint
/-! Lemmas about `Varint.decode` on prefixes/extensions of a buffer and a *view* of
    `Frame.decode` through the two varints of the frame header (`hdr2`), from which the three
    decoder laws follow by arithmetic.  No well-formedness of the bytes is needed here. -/
namespace H3.Varint

/-- encoded length announced by the first byte, as `Varint.decode` reads it -/
def vlen (b0 : Nat) : Nat :=
  if b0 / 64 = 0 then 1 else if b0 / 64 = 1 then 2 else if b0 / 64 = 2 then 4 else 8

/-- the `k` of `UnexpectedEnd(k)` for a cut-off varint starting with `b0` -/
def vk (b0 : Nat) : Nat :=
  if b0 / 64 = 0 then 0 else if b0 / 64 = 1 then 1 else if b0 / 64 = 2 then 2 else 3

def vval (b0 : Nat) (t : Bytes) : Nat := beVal (b0 % 64 :: t.take (vlen b0 - 1))

theorem vlen_pos (b0 : Nat) : 1 ≤ vlen b0 := by
  unfold vlen; repeat' split
  all_goals omega

theorem vk_lt_vlen (b0 : Nat) : vk b0 + 1 ≤ vlen b0 := by
  unfold vlen vk; repeat' split
  all_goals omega

theorem decode_cons_short (b0 : Nat) (r : Bytes) (h : r.length + 1 < vlen b0) :
    decode (b0 :: r) = .endOf (vk b0) := by
  unfold vlen at h
  unfold vk decode
  by_cases h0 : b0 / 64 = 0
  · simp [h0] at h
  · by_cases h1 : b0 / 64 = 1
    · have : r.length < 1 := by simp [h1] at h; omega
      simp [h1, this]
    · by_cases h2 : b0 / 64 = 2
      · have : r.length < 3 := by simp [h2] at h; omega
        simp [h2, this]
      · have : r.length < 7 := by simp [h0, h1, h2] at h; omega
        simp [h0, h1, h2, this]

theorem decode_cons_ok (b0 : Nat) (r : Bytes) (h : vlen b0 ≤ r.length + 1) :
    decode (b0 :: r) = .ok (vval b0 r) (r.drop (vlen b0 - 1)) := by
  unfold vlen at h
  unfold vval vlen decode
  by_cases h0 : b0 / 64 = 0
  · simp [h0, beVal]
  · by_cases h1 : b0 / 64 = 1
    · have : ¬ r.length < 1 := by simp [h1] at h; omega
      simp [h1, this]
    · by_cases h2 : b0 / 64 = 2
      · have : ¬ r.length < 3 := by simp [h2] at h; omega
        simp [h2, this]
      · have : ¬ r.length < 7 := by simp [h0, h1, h2] at h; omega
        simp [h0, h1, h2, this]

/-- the varint at the head of `b`, if it is completely there: value and encoded length -/
def vhead (b : Bytes) : Option (Nat × Nat) :=
  match b with
  | [] => none
  | b0 :: t => if t.length + 1 < vlen b0 then none else some (vval b0 t, vlen b0)

/-- the `k` of `UnexpectedEnd(k)` on a buffer whose head varint is cut off -/
def vkOf (b : Bytes) : Nat :=
  match b with
  | [] => 0
  | b0 :: _ => vk b0

theorem decode_vhead (b : Bytes) :
    decode b = match vhead b with
      | none => .endOf (vkOf b)
      | some (v, n) => .ok v (b.drop n) := by
  cases b with
  | nil => rfl
  | cons b0 t =>
    simp only [vhead]
    by_cases h : t.length + 1 < vlen b0
    · rw [if_pos h]; exact decode_cons_short b0 t h
    · rw [if_neg h]
      simp only
      rw [decode_cons_ok b0 t (by omega)]
      have := vlen_pos b0
      obtain ⟨m, hm⟩ : ∃ m, vlen b0 = m + 1 := ⟨vlen b0 - 1, by omega⟩
      simp [hm]

theorem vhead_bounds {b : Bytes} {v n : Nat} (h : vhead b = some (v, n)) : 1 ≤ n ∧ n ≤ b.length := by
  cases b with
  | nil => cases h
  | cons b0 t =>
    simp only [vhead] at h
    split at h
    · cases h
    · cases h
      exact ⟨vlen_pos b0, by simp; omega⟩

theorem vhead_append {b : Bytes} {v n : Nat} (h : vhead b = some (v, n)) (c : Bytes) :
    vhead (b ++ c) = some (v, n) := by
  cases b with
  | nil => cases h
  | cons b0 t =>
    simp only [vhead] at h
    split at h
    · cases h
    · rename_i hlen
      cases h
      simp only [List.cons_append, vhead]
      rw [if_neg (by simp; omega)]
      simp only [vval]
      rw [List.take_append_of_le_length (by omega)]

theorem vhead_take {b : Bytes} {v n : Nat} (h : vhead b = some (v, n)) (k : Nat) :
    vhead (b.take k) = if k < n then none else some (v, n) := by
  cases b with
  | nil => cases h
  | cons b0 t =>
    simp only [vhead] at h
    split at h
    · cases h
    · rename_i hlen
      cases h
      cases k with
      | zero =>
        have := vlen_pos b0
        simp [vhead]
        omega
      | succ k =>
        simp only [List.take_succ_cons, vhead, List.length_take]
        by_cases hk : k + 1 < vlen b0
        · rw [if_pos hk, if_pos (by omega)]
        · rw [if_neg hk, if_neg (by omega)]
          simp only [vval]
          rw [List.take_take]
          have : min (vlen b0 - 1) k = vlen b0 - 1 := by omega
          rw [this]

/-- a cut-off head varint stays cut off on every prefix, and an extension that completes it is
    longer than the buffer and than the `k` reported -/
theorem vhead_none_append {b c : Bytes} {v n : Nat} (h : vhead b = none)
    (h' : vhead (b ++ c) = some (v, n)) : b.length < n ∧ vkOf b + 1 ≤ n := by
  cases b with
  | nil =>
    have := (vhead_bounds h').1
    exact ⟨by simp; omega, by simp [vkOf]; omega⟩
  | cons b0 t =>
    simp only [vhead] at h
    split at h
    · rename_i hlen
      simp only [List.cons_append, vhead] at h'
      split at h'
      · cases h'
      · cases h'
        exact ⟨by simpa using hlen, vk_lt_vlen b0⟩
    · cases h

theorem vhead_none_take {b : Bytes} (h : vhead b = none) (k : Nat) : vhead (b.take k) = none := by
  cases h' : vhead (b.take k) with
  | none => rfl
  | some p =>
    obtain ⟨v, n⟩ := p
    have := vhead_append h' (b.drop k)
    rw [List.take_append_drop, h] at this
    cases this

end H3.Varint

namespace H3.Frame
open H3.Varint H3.Gen.Consts

/-- both varints of the frame header, if completely there: type (or WebTransport marker),
    second varint (length / session id), header size -/
def hdr2 (b : Bytes) : Option (Nat × Nat × Nat) :=
  match vhead b with
  | none => none
  | some (ty, n1) =>
    match vhead (b.drop n1) with
    | none => none
    | some (x, n2) => some (ty, x, n1 + n2)

/-- the number in `Incomplete(_)` when the header is not complete -/
def incN (b : Bytes) : Nat :=
  match vhead b with
  | none => b.length + 1
  | some (ty, n1) => if ty = FRAME_WEBTRANSPORT_BI_STREAM then vkOf (b.drop n1) else b.length + 1

/-- `Frame::decode` once the header `(ty, x, h)` has been read -/
def body (ty x h : Nat) (b : Bytes) : DecRes :=
  if ty = FRAME_WEBTRANSPORT_BI_STREAM then .frame (.webTransport x) h
  else if ty = FRAME_DATA then .frame (.data x) h
  else if b.length - h < x then .incomplete (2 + x)
  else typed ty ((b.drop h).take x) (h + x)

theorem decode_view (b : Bytes) :
    decode b = match hdr2 b with
      | none => .incomplete (incN b)
      | some (ty, x, h) => body ty x h b := by
  unfold decode hdr2 incN
  rw [decode_vhead b]
  cases h1 : vhead b with
  | none => rfl
  | some p =>
    obtain ⟨ty, n1⟩ := p
    have ⟨hn1, hn1'⟩ := vhead_bounds h1
    simp only
    by_cases hwt : ty = FRAME_WEBTRANSPORT_BI_STREAM
    · rw [if_pos hwt, if_pos hwt, decode_vhead (b.drop n1)]
      cases h2 : vhead (b.drop n1) with
      | none => rfl
      | some q =>
        obtain ⟨x, n2⟩ := q
        have ⟨hn2, hn2'⟩ := vhead_bounds h2
        simp only [List.length_drop] at hn2'
        simp only [body, if_pos hwt, List.length_drop]
        congr 1
        omega
    · rw [if_neg hwt, if_neg hwt]
      unfold afterType
      rw [decode_vhead (b.drop n1)]
      cases h2 : vhead (b.drop n1) with
      | none => rfl
      | some q =>
        obtain ⟨x, n2⟩ := q
        have ⟨hn2, hn2'⟩ := vhead_bounds h2
        simp only [List.length_drop] at hn2'
        simp only [body, if_neg hwt, List.length_drop, List.drop_drop]
        have e1 : b.length - (b.length - (n1 + n2)) = n1 + n2 := by omega
        rw [e1]

theorem hdr2_bounds {b : Bytes} {ty x h : Nat} (hh : hdr2 b = some (ty, x, h)) :
    2 ≤ h ∧ h ≤ b.length := by
  unfold hdr2 at hh
  cases h1 : vhead b with
  | none => rw [h1] at hh; cases hh
  | some p =>
    obtain ⟨ty', n1⟩ := p
    rw [h1] at hh
    simp only at hh
    cases h2 : vhead (b.drop n1) with
    | none => rw [h2] at hh; cases hh
    | some q =>
      obtain ⟨x', n2⟩ := q
      rw [h2] at hh
      cases hh
      have ⟨a1, a2⟩ := vhead_bounds h1
      have ⟨a3, a4⟩ := vhead_bounds h2
      simp only [List.length_drop] at a4
      omega

theorem hdr2_append {b : Bytes} {t : Nat × Nat × Nat} (hh : hdr2 b = some t) (c : Bytes) :
    hdr2 (b ++ c) = some t := by
  unfold hdr2 at hh ⊢
  cases h1 : vhead b with
  | none => rw [h1] at hh; cases hh
  | some p =>
    obtain ⟨ty', n1⟩ := p
    rw [h1] at hh
    simp only at hh
    cases h2 : vhead (b.drop n1) with
    | none => rw [h2] at hh; cases hh
    | some q =>
      obtain ⟨x', n2⟩ := q
      rw [h2] at hh
      have ⟨a1, a2⟩ := vhead_bounds h1
      rw [vhead_append h1 c]
      simp only
      rw [List.drop_append_of_le_length a2, vhead_append h2 c]
      exact hh

theorem hdr2_take {b : Bytes} {ty x h : Nat} (hh : hdr2 b = some (ty, x, h)) (k : Nat) :
    hdr2 (b.take k) = if k < h then none else some (ty, x, h) := by
  unfold hdr2 at hh ⊢
  cases h1 : vhead b with
  | none => rw [h1] at hh; cases hh
  | some p =>
    obtain ⟨ty', n1⟩ := p
    rw [h1] at hh
    simp only at hh
    cases h2 : vhead (b.drop n1) with
    | none => rw [h2] at hh; cases hh
    | some q =>
      obtain ⟨x', n2⟩ := q
      rw [h2] at hh
      cases hh
      have ⟨a1, a2⟩ := vhead_bounds h1
      have ⟨a3, a4⟩ := vhead_bounds h2
      rw [vhead_take h1 k]
      by_cases hk1 : k < n1
      · rw [if_pos hk1, if_pos (by omega)]
      · rw [if_neg hk1]
        simp only
        have : (b.take k).drop n1 = (b.drop n1).take (k - n1) := by
          rw [List.drop_take]
        rw [this, vhead_take h2 (k - n1)]
        by_cases hk2 : k - n1 < n2
        · rw [if_pos hk2, if_pos (by omega)]
        · rw [if_neg hk2, if_neg (by omega)]

theorem hdr2_none_append {b c : Bytes} {ty x h : Nat} (hn : hdr2 b = none)
    (hh : hdr2 (b ++ c) = some (ty, x, h)) : incN b ≤ h ∧ b.length < h := by
  unfold hdr2 at hn hh
  unfold incN
  cases h1 : vhead b with
  | none =>
    cases h1' : vhead (b ++ c) with
    | none => rw [h1'] at hh; cases hh
    | some p =>
      obtain ⟨ty', n1⟩ := p
      rw [h1'] at hh
      simp only at hh
      cases h2' : vhead ((b ++ c).drop n1) with
      | none => rw [h2'] at hh; cases hh
      | some q =>
        obtain ⟨x', n2⟩ := q
        rw [h2'] at hh
        cases hh
        have := (vhead_none_append h1 h1').1
        have := (vhead_bounds h2').1
        simp only
        omega
  | some p =>
    obtain ⟨ty', n1⟩ := p
    rw [h1] at hn
    simp only at hn
    have ⟨a1, a2⟩ := vhead_bounds h1
    rw [vhead_append h1 c] at hh
    simp only at hh
    rw [List.drop_append_of_le_length a2] at hh
    cases h2 : vhead (b.drop n1) with
    | some q => rw [h2] at hn; cases hn
    | none =>
      cases h2' : vhead (b.drop n1 ++ c) with
      | none => rw [h2'] at hh; cases hh
      | some q =>
        obtain ⟨x', n2⟩ := q
        rw [h2'] at hh
        cases hh
        have ⟨b1, b2⟩ := vhead_none_append h2 h2'
        simp only [List.length_drop] at b1
        simp only
        refine ⟨?_, by omega⟩
        split
        · omega
        · omega

theorem hdr2_none_take {b : Bytes} (hn : hdr2 b = none) (k : Nat) : hdr2 (b.take k) = none := by
  cases h' : hdr2 (b.take k) with
  | none => rfl
  | some t =>
    have := hdr2_append h' (b.drop k)
    rw [List.take_append_drop, hn] at this
    cases this

end H3.Frame
