import H3.Lemmas.ReqRecv
set_option linter.unusedSimpArgs false
/-! A simulation between two frame layers *up to the answers that end the documented call
    pattern*.  `FrameSim` (in `H3/Lemmas/ReqRecv.lean`) asks related states to stay related after
    every answer; no relation between the `FrameStream` model over a transport script and the
    token source can satisfy that once the script has a `Pending` in the middle (the model answers
    `Pending` and later a frame; the token source answers its ending for ever), and after an
    error it would need the model to repeat the error for ever.  The documented pattern never
    calls the frame layer again after `Pending` or an error, so `FrameSimP` asks for related
    successors only after a frame, a data piece or `None`.  Everything `same_documented` gives
    for `FrameSim` is proved here for `FrameSimP`. -/
namespace H3.ReqRecv
open H3.Frame H3.Gen.Consts

/-- answers of the frame layer after which the request layer may call it again -/
def contOut : FOut → Bool
  | .frame _ => true
  | .data _ => true
  | .none => true
  | _ => false

/-- answers of the request layer after which the documented pattern goes on -/
def contRes : Res → Bool
  | .head _ => true
  | .data _ => true
  | .end_ => true
  | _ => false

/-- Two frame layers answer alike as long as the documented pattern goes on. -/
structure FrameSimP {σ₁ σ₂ : Type} (S₁ : Src σ₁) (S₂ : Src σ₂) (R : σ₁ → σ₂ → Prop) : Prop where
  hasData : ∀ c a, R c a → S₁.hasData c = S₂.hasData a
  next : ∀ c a, R c a → (S₁.pollNext c).1 = (S₂.pollNext a).1 ∧
    (contOut (S₂.pollNext a).1 = true → R (S₁.pollNext c).2 (S₂.pollNext a).2)
  data : ∀ c a, R c a → (S₁.pollData c).1 = (S₂.pollData a).1 ∧
    (contOut (S₂.pollData a).1 = true → R (S₁.pollData c).2 (S₂.pollData a).2)
  eosL : ∀ c a, R c a → S₁.isEos c = true → S₂.isEos a = false → S₂.hasData a = false →
    (S₂.pollNext a).1 = .none ∧ R c (S₂.pollNext a).2
  eosR : ∀ c a, R c a → S₁.isEos c = false → S₂.isEos a = true → S₂.hasData a = false →
    (S₁.pollNext c).1 = .none ∧ R (S₁.pollNext c).2 a

variable {σ₁ σ₂ : Type} {S₁ : Src σ₁} {S₂ : Src σ₂} {R : σ₁ → σ₂ → Prop}

theorem FrameSim.toP (sim : FrameSim S₁ S₂ R) : FrameSimP S₁ S₂ R where
  hasData := sim.hasData
  next := fun c a h => ⟨(sim.next c a h).1, fun _ => (sim.next c a h).2⟩
  data := fun c a h => ⟨(sim.data c a h).1, fun _ => (sim.data c a h).2⟩
  eosL := sim.eosL
  eosR := sim.eosR

/-- trailers and environment agree; the frame-layer states are related if `b` -/
def RelP (R : σ₁ → σ₂ → Prop) (b : Bool) (x : St σ₁) (y : St σ₂) : Prop :=
  (b = true → R x.src y.src) ∧ x.trailers = y.trailers ∧ x.env = y.env

/-- same answer; states related as far as the pattern still needs them -/
def SameP (R : σ₁ → σ₂ → Prop) (x : Res × St σ₁) (y : Res × St σ₂) : Prop :=
  x.1 = y.1 ∧ RelP R (contRes y.1) x.2 y.2

theorem relP_false {x : St σ₁} {y : St σ₂} (ht : x.trailers = y.trailers) (he : x.env = y.env) :
    RelP R false x y :=
  ⟨fun hc => Bool.noConfusion hc, ht, he⟩

theorem RelP.weaken {b : Bool} {x : St σ₁} {y : St σ₂} (h : RelP R b x y) : RelP R false x y :=
  relP_false h.2.1 h.2.2

theorem sameP_connErr {b : Bool} {x : St σ₁} {y : St σ₂} (h : RelP R b x y) (code : Nat) :
    SameP R (connErr x code) (connErr y code) := by
  obtain ⟨_, ht, he⟩ := h
  unfold connErr
  rw [he]
  split
  · exact ⟨rfl, relP_false ht he⟩
  · exact ⟨rfl, relP_false ht (by simp [he])⟩

theorem sameP_fsErr {b : Bool} {x : St σ₁} {y : St σ₂} (h : RelP R b x y) (o : FOut) :
    SameP R (fsErr x o) (fsErr y o) := by
  cases o <;> simp only [fsErr] <;>
    first
      | exact sameP_connErr h _
      | exact ⟨rfl, h.weaken⟩

theorem sameP_pollResolve (sim : FrameSimP S₁ S₂ R) (H : Hdr) {x : St σ₁} {y : St σ₂}
    (h : RelP R true x y) : SameP R (pollResolve S₁ H x) (pollResolve S₂ H y) := by
  obtain ⟨hs, ht, he⟩ := h
  obtain ⟨ho, hr⟩ := sim.next _ _ (hs rfl)
  unfold pollResolve
  rcases h1 : S₁.pollNext x.src with ⟨o1, c1⟩
  rcases h2 : S₂.pollNext y.src with ⟨o2, a2⟩
  rw [h1, h2] at ho hr
  simp only at ho hr
  subst ho
  have hrel : RelP R (contOut o1) { x with src := c1 } { y with src := a2 } := ⟨hr, ht, he⟩
  cases o1 with
  | frame f =>
    cases f with
    | headers enc =>
      simp only
      cases H.head enc
      · exact ⟨rfl, fun _ => hr rfl, ht, he⟩
      · exact ⟨rfl, relP_false ht (by simp [he])⟩
      · exact sameP_connErr hrel _
    | _ => exact sameP_connErr hrel _
  | none =>
    exact ⟨rfl, relP_false ht (by simp [he])⟩
  | pending => exact ⟨rfl, relP_false ht he⟩
  | _ => exact sameP_fsErr hrel _

theorem sameP_pollRecvResponse (sim : FrameSimP S₁ S₂ R) (H : Hdr) {x : St σ₁} {y : St σ₂}
    (h : RelP R true x y) : SameP R (pollRecvResponse S₁ H x) (pollRecvResponse S₂ H y) := by
  obtain ⟨hs, ht, he⟩ := h
  obtain ⟨ho, hr⟩ := sim.next _ _ (hs rfl)
  unfold pollRecvResponse
  rcases h1 : S₁.pollNext x.src with ⟨o1, c1⟩
  rcases h2 : S₂.pollNext y.src with ⟨o2, a2⟩
  rw [h1, h2] at ho hr
  simp only at ho hr
  subst ho
  have hrel : RelP R (contOut o1) { x with src := c1 } { y with src := a2 } := ⟨hr, ht, he⟩
  cases o1 with
  | frame f =>
    cases f with
    | headers enc =>
      simp only
      cases H.head enc
      · exact ⟨rfl, fun _ => hr rfl, ht, he⟩
      · exact ⟨rfl, relP_false ht (by simp [he])⟩
      · exact sameP_connErr hrel _
    | _ => exact sameP_connErr hrel _
  | none => exact ⟨rfl, relP_false ht he⟩
  | pending => exact ⟨rfl, relP_false ht he⟩
  | _ => exact sameP_fsErr hrel _

theorem sameP_pollHead (sim : FrameSimP S₁ S₂ R) (role : Role) (H : Hdr) {x : St σ₁} {y : St σ₂}
    (h : RelP R true x y) : SameP R (pollHead role S₁ H x) (pollHead role S₂ H y) := by
  cases role
  · exact sameP_pollResolve sim H h
  · exact sameP_pollRecvResponse sim H h

theorem sameP_dataOut {x : St σ₁} {y : St σ₂} (o : FOut) (h : RelP R (contOut o) x y) :
    SameP R (dataOut x o) (dataOut y o) := by
  cases o <;> simp only [dataOut] <;>
    first
      | exact ⟨rfl, fun _ => h.1 rfl, h.2⟩
      | exact ⟨rfl, h.weaken⟩
      | exact sameP_fsErr h _

theorem sameP_pollRecvData (sim : FrameSimP S₁ S₂ R) (fuel : Nat) :
    ∀ {x : St σ₁} {y : St σ₂}, RelP R true x y →
      SameP R (pollRecvData S₁ fuel x) (pollRecvData S₂ fuel y) := by
  induction fuel with
  | zero => intro x y h; exact ⟨rfl, h.weaken⟩
  | succ f ih =>
    intro x y h
    obtain ⟨hs, ht, he⟩ := h
    rw [pollRecvData, pollRecvData, sim.hasData _ _ (hs rfl)]
    by_cases hd : S₂.hasData y.src = true
    · rw [if_pos hd, if_pos hd]
      obtain ⟨ho, hr⟩ := sim.data _ _ (hs rfl)
      rcases h1 : S₁.pollData x.src with ⟨o1, c1⟩
      rcases h2 : S₂.pollData y.src with ⟨o2, a2⟩
      rw [h1, h2] at ho hr
      simp only at ho hr
      subst ho
      exact sameP_dataOut o1
        (show RelP R (contOut o1) { x with src := c1 } { y with src := a2 } from ⟨hr, ht, he⟩)
    · rw [if_neg hd, if_neg hd]
      obtain ⟨ho, hr⟩ := sim.next _ _ (hs rfl)
      rcases h1 : S₁.pollNext x.src with ⟨o1, c1⟩
      rcases h2 : S₂.pollNext y.src with ⟨o2, a2⟩
      rw [h1, h2] at ho hr
      simp only at ho hr
      subst ho
      have hrel : RelP R (contOut o1) { x with src := c1 } { y with src := a2 } := ⟨hr, ht, he⟩
      cases o1 with
      | frame fr =>
        cases fr with
        | headers enc => exact ⟨rfl, fun _ => hr rfl, rfl, he⟩
        | data n => exact ih (show RelP R true { x with src := c1 } { y with src := a2 } from ⟨fun _ => hr rfl, ht, he⟩)
        | _ => exact sameP_connErr hrel _
      | none => exact ⟨rfl, fun _ => hr rfl, ht, he⟩
      | pending => exact ⟨rfl, relP_false ht he⟩
      | data d => exact ⟨rfl, relP_false ht he⟩
      | _ => exact sameP_fsErr hrel _

theorem sameP_decodeTrailers (H : Hdr) {b : Bool} {x : St σ₁} {y : St σ₂} (h : RelP R b x y)
    (enc : Bytes) : SameP R (decodeTrailers H x enc) (decodeTrailers H y enc) := by
  unfold decodeTrailers
  cases H.trailer enc
  · exact ⟨rfl, h.weaken⟩
  · obtain ⟨_, ht, he⟩ := h
    exact ⟨rfl, relP_false ht (by simp [he])⟩
  · exact sameP_connErr h _

theorem sameP_trailersCheck (sim : FrameSimP S₁ S₂ R) (H : Hdr) {x : St σ₁} {y : St σ₂}
    (h : RelP R true x y) (enc : Bytes) :
    SameP R (trailersCheck S₁ H x enc) (trailersCheck S₂ H y enc) := by
  obtain ⟨hs, ht, he⟩ := h
  unfold trailersCheck
  obtain ⟨ho, hr⟩ := sim.next _ _ (hs rfl)
  rcases h1 : S₁.pollNext x.src with ⟨o1, c1⟩
  rcases h2 : S₂.pollNext y.src with ⟨o2, a2⟩
  rw [h1, h2] at ho hr
  simp only at ho hr
  subst ho
  have hrel : RelP R (contOut o1) { x with src := c1 } { y with src := a2 } := ⟨hr, ht, he⟩
  cases o1 with
  | frame fr => exact sameP_connErr hrel _
  | none => exact sameP_decodeTrailers H hrel enc
  | pending => exact ⟨rfl, relP_false rfl he⟩
  | data d => exact ⟨rfl, relP_false ht he⟩
  | _ => exact sameP_fsErr hrel _

theorem sameP_trailersTail (sim : FrameSimP S₁ S₂ R) (H : Hdr) {x : St σ₁} {y : St σ₂}
    (h : RelP R true x y) (hd : S₂.hasData y.src = false) (enc : Bytes) :
    SameP R (trailersTail S₁ H x enc) (trailersTail S₂ H y enc) := by
  have hchk := sameP_trailersCheck sim H h enc
  obtain ⟨hs, ht, he⟩ := h
  unfold trailersTail
  cases h1 : S₁.isEos x.src <;> cases h2 : S₂.isEos y.src
  · simpa using hchk
  · obtain ⟨ho, hr⟩ := sim.eosR _ _ (hs rfl) h1 h2 hd
    simp only [Bool.false_eq_true, if_false, if_true]
    unfold trailersCheck
    rcases h3 : S₁.pollNext x.src with ⟨o1, c1⟩
    rw [h3] at ho hr
    simp only at ho hr
    subst ho
    exact sameP_decodeTrailers H (show RelP R true { x with src := c1 } y from ⟨fun _ => hr, ht, he⟩) enc
  · obtain ⟨ho, hr⟩ := sim.eosL _ _ (hs rfl) h1 h2 hd
    simp only [Bool.false_eq_true, if_false, if_true]
    unfold trailersCheck
    rcases h3 : S₂.pollNext y.src with ⟨o2, a2⟩
    rw [h3] at ho hr
    simp only at ho hr
    subst ho
    exact sameP_decodeTrailers H (show RelP R true x { y with src := a2 } from ⟨fun _ => hr, ht, he⟩) enc
  · simp only [if_true]
    exact sameP_decodeTrailers H (show RelP R true x y from ⟨hs, ht, he⟩) enc

theorem sameP_trailersFirst (sim : FrameSimP S₁ S₂ R) (hS : HdrNoData S₂) (H : Hdr) {x : St σ₁}
    {y : St σ₂} (h : RelP R true x y) : SameP R (trailersFirst S₁ H x) (trailersFirst S₂ H y) := by
  obtain ⟨hs, ht, he⟩ := h
  obtain ⟨ho, hr⟩ := sim.next _ _ (hs rfl)
  have hlaw := hS y.src
  unfold trailersFirst
  rcases h1 : S₁.pollNext x.src with ⟨o1, c1⟩
  rcases h2 : S₂.pollNext y.src with ⟨o2, a2⟩
  rw [h1, h2] at ho hr
  rw [h2] at hlaw
  simp only at ho hr
  subst ho
  have hrel : RelP R (contOut o1) { x with src := c1 } { y with src := a2 } := ⟨hr, ht, he⟩
  cases o1 with
  | frame fr =>
    cases fr with
    | headers enc =>
      exact sameP_trailersTail sim H
        (show RelP R true { x with src := c1 } { y with src := a2 } from ⟨fun _ => hr rfl, ht, he⟩)
        (hlaw enc rfl) enc
    | _ => exact sameP_connErr hrel _
  | none => exact ⟨rfl, relP_false ht he⟩
  | pending => exact ⟨rfl, relP_false ht he⟩
  | data d => exact ⟨rfl, relP_false ht he⟩
  | _ => exact sameP_fsErr hrel _

theorem sameP_pollRecvTrailers (sim : FrameSimP S₁ S₂ R) (hS : HdrNoData S₂) (H : Hdr) {x : St σ₁}
    {y : St σ₂} (h : RelP R true x y) (hinv : y.trailers ≠ none → S₂.hasData y.src = false) :
    SameP R (pollRecvTrailers S₁ H x) (pollRecvTrailers S₂ H y) := by
  have hf := sameP_trailersFirst sim hS H h
  obtain ⟨hs, ht, he⟩ := h
  unfold pollRecvTrailers
  rw [ht]
  cases hy : y.trailers with
  | some enc =>
    exact sameP_trailersTail sim H
      (show RelP R true { x with trailers := none } { y with trailers := none } from ⟨hs, rfl, he⟩)
      (hinv (by simp [hy])) enc
  | none => exact hf

theorem getLast?_cons_ne {α : Type} (a : α) (l : List α) (h : l ≠ []) :
    (a :: l).getLast? = l.getLast? := by
  have := getLast?_append_ne [a] l h
  simpa using this

/-- the `recv_data` loop: the same answers; the states stay related if it ended with `None` -/
theorem sameP_drain (sim : FrameSimP S₁ S₂ R) (fuel : Nat) :
    ∀ {x : St σ₁} {y : St σ₂}, RelP R true x y →
      (drain S₁ fuel x).1 = (drain S₂ fuel y).1 ∧
      RelP R (decide ((drain S₂ fuel y).1.getLast? = some .end_)) (drain S₁ fuel x).2 (drain S₂ fuel y).2 := by
  induction fuel with
  | zero =>
    intro x y h
    exact ⟨rfl, h.weaken⟩
  | succ f ih =>
    intro x y h
    obtain ⟨hres, hrel⟩ := sameP_pollRecvData sim (f + 1) h
    have hne := drain_ne_nil S₂ f
    rw [drain, drain]
    rcases h1 : pollRecvData S₁ (f + 1) x with ⟨r1, x1⟩
    rcases h2 : pollRecvData S₂ (f + 1) y with ⟨r2, y1⟩
    rw [h1, h2] at hres hrel
    simp only at hres hrel
    subst hres
    cases r1 with
    | data d =>
      obtain ⟨h3, h4⟩ := ih (show RelP R true x1 y1 from hrel)
      refine ⟨by simp [h3], ?_⟩
      simp only [getLast?_cons_ne _ _ (hne y1)]
      exact h4
    | end_ => exact ⟨rfl, fun _ => hrel.1 rfl, hrel.2⟩
    | _ => exact ⟨rfl, hrel.weaken⟩

theorem sameP_bodyRun (sim : FrameSimP S₁ S₂ R) (hS : HdrNoData S₂) (H : Hdr) (fuel : Nat)
    {x : St σ₁} {y : St σ₂} (h : RelP R true x y) (hy : y.trailers = none) :
    bodyRun S₁ H fuel x = bodyRun S₂ H fuel y := by
  obtain ⟨h1, h2⟩ := sameP_drain sim fuel h
  unfold bodyRun
  simp only [h1]
  split
  · rename_i hlast
    have h2' : RelP R true (drain S₁ fuel x).2 (drain S₂ fuel y).2 := by
      simpa [hlast] using h2
    obtain ⟨h3, _, _, h4⟩ := sameP_pollRecvTrailers sim hS H h2' (drain_inv S₂ hS fuel y hy)
    simp [h3, h4]
  · simp [h2.2.2]

/-- the documented pattern sees no difference between two frame layers that answer alike as long
    as it goes on -/
theorem same_documentedP (sim : FrameSimP S₁ S₂ R) (hS : HdrNoData S₂) (role : Role) (H : Hdr)
    (fuel : Nat) {x : St σ₁} {y : St σ₂} (h : RelP R true x y) (hy : y.trailers = none) :
    documented role S₁ H fuel x = documented role S₂ H fuel y := by
  obtain ⟨hres, hrel⟩ := sameP_pollHead sim role H h
  have hy1 := pollHead_trailers role S₂ H y
  rw [hy] at hy1
  unfold documented
  rcases h1 : pollHead role S₁ H x with ⟨r1, x1⟩
  rcases h2 : pollHead role S₂ H y with ⟨r2, y1⟩
  rw [h1, h2] at hres hrel
  rw [h2] at hy1
  simp only at hres hrel hy1
  subst hres
  cases r1 with
  | head b => simp only [sameP_bodyRun sim hS H fuel (show RelP R true x1 y1 from hrel) hy1]
  | _ => simp [hrel.2.2]

end H3.ReqRecv
