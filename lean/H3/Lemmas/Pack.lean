import H3.Lemmas.Bits
/-! Lemmas about `H3.Bits.pack` (groups of eight bits as bytes, last group filled with ones). -/
namespace H3.Bits

/-- `n` one bits -/
abbrev ones (n : Nat) : List Bool := List.replicate n true

theorem val_ones (n : Nat) : val (ones n) = 2 ^ n - 1 := by
  induction n with
  | zero => rfl
  | succ n ih =>
    have hp : 0 < 2 ^ n := Nat.two_pow_pos _
    simp only [ones] at ih
    simp only [ones, List.replicate_succ, val, ih, List.length_replicate, Nat.pow_succ]
    simp
    omega

theorem ones_add (a b : Nat) : ones (a + b) = ones a ++ ones b := by
  simp [ones, List.replicate_append_replicate]

theorem val_pad (R : List Bool) (k : Nat) : val (R ++ ones k) = val R * 2 ^ k + (2 ^ k - 1) := by
  rw [val_append, val_ones]; simp

theorem pack_nil : pack [] = [] := by simp [pack]

theorem pack_append8 (a r : List Bool) (h : a.length = 8) : pack (a ++ r) = val a :: pack r := by
  rcases a with _|⟨b7, _|⟨b6, _|⟨b5, _|⟨b4, _|⟨b3, _|⟨b2, _|⟨b1, _|⟨b0, _|⟨x, a⟩⟩⟩⟩⟩⟩⟩⟩⟩ <;>
    simp at h
  simp [pack]

theorem pack_short (l : List Bool) (h0 : 0 < l.length) (h : l.length < 8) :
    pack l = [val (l ++ ones (8 - l.length))] := by
  rcases l with _|⟨b7, _|⟨b6, _|⟨b5, _|⟨b4, _|⟨b3, _|⟨b2, _|⟨b1, _|⟨b0, r⟩⟩⟩⟩⟩⟩⟩⟩ <;>
    simp only [List.length_cons, List.length_nil] at h h0 <;>
    first | omega | simp [pack, List.replicate_succ]

/-- the three shapes of an argument of `pack` -/
theorem pack_cases (l : List Bool) :
    l = [] ∨ (0 < l.length ∧ l.length < 8) ∨
      ∃ a r, a.length = 8 ∧ l = a ++ r := by
  by_cases h : l.length < 8
  · by_cases h0 : l = []
    · exact Or.inl h0
    · refine Or.inr (Or.inl ⟨?_, h⟩)
      cases l with
      | nil => exact absurd rfl h0
      | cons => simp
  · refine Or.inr (Or.inr ⟨l.take 8, l.drop 8, ?_, (List.take_append_drop 8 l).symm⟩)
    simp; omega

theorem pack_append (a b : List Bool) (h : 8 ∣ a.length) : pack (a ++ b) = pack a ++ pack b := by
  obtain ⟨k, hk⟩ := h
  induction k generalizing a with
  | zero =>
    have : a = [] := by simpa using hk
    subst this; simp [pack_nil]
  | succ k ih =>
    have e : a = a.take 8 ++ a.drop 8 := (List.take_append_drop 8 a).symm
    have h8 : (a.take 8).length = 8 := by simp; omega
    have hd : (a.drop 8).length = 8 * k := by simp; omega
    rw [e, List.append_assoc, pack_append8 _ _ h8, pack_append8 _ _ h8, ih _ hd]
    rfl

theorem pack_ones (n : Nat) : pack (ones (8 * n)) = List.replicate n 255 := by
  induction n with
  | zero => simp [pack_nil]
  | succ n ih =>
    have e : ones (8 * (n + 1)) = ones 8 ++ ones (8 * n) := by
      simp only [ones, List.replicate_append_replicate]; congr 1; omega
    rw [e, pack_append8 _ _ (by simp), ih, List.replicate_succ]
    rfl

theorem length_pack (l : List Bool) : (pack l).length = (l.length + 7) / 8 := by
  generalize hn : l.length = n
  induction n using Nat.strongRecOn generalizing l with
  | _ n ih =>
    rcases pack_cases l with rfl | ⟨h0, h8⟩ | ⟨a, r, ha, rfl⟩
    · simp at hn; subst hn; simp [pack_nil]
    · rw [pack_short l h0 h8]; simp; omega
    · rw [pack_append8 a r ha]
      simp only [List.length_append] at hn
      rw [List.length_cons, ih r.length (by omega) r rfl]
      omega

theorem pack_lt (l : List Bool) : ∀ b ∈ pack l, b < 256 := by
  generalize hn : l.length = n
  induction n using Nat.strongRecOn generalizing l with
  | _ n ih =>
    rcases pack_cases l with rfl | ⟨h0, h8⟩ | ⟨a, r, ha, rfl⟩
    · simp [pack_nil]
    · rw [pack_short l h0 h8]
      intro b hb
      simp only [List.mem_singleton] at hb
      subst hb
      have := val_lt (l ++ ones (8 - l.length))
      have e : (l ++ ones (8 - l.length)).length = 8 := by simp; omega
      rw [e] at this; exact this
    · rw [pack_append8 a r ha]
      simp only [List.length_append] at hn
      intro b hb
      rcases List.mem_cons.mp hb with rfl | hb
      · have := val_lt a
        rw [ha] at this; exact this
      · exact ih r.length (by omega) r rfl b hb

theorem bitsOf_pack (l : List Bool) :
    bitsOf (pack l) = l ++ List.replicate ((8 - l.length % 8) % 8) true := by
  generalize hn : l.length = n
  induction n using Nat.strongRecOn generalizing l with
  | _ n ih =>
    rcases pack_cases l with rfl | ⟨h0, h8⟩ | ⟨a, r, ha, rfl⟩
    · simp at hn; subst hn; simp [pack_nil, bitsOf]
    · rw [pack_short l h0 h8]
      have e : (l ++ ones (8 - l.length)).length = 8 := by simp; omega
      have := bitsN_val (l ++ ones (8 - l.length))
      rw [e] at this
      simp only [bitsOf, this, List.append_nil]
      have : (8 - n % 8) % 8 = 8 - l.length := by omega
      rw [this]
    · rw [pack_append8 a r ha]
      simp only [List.length_append] at hn
      have := bitsN_val a
      rw [ha] at this
      rw [bitsOf, this, ih r.length (by omega) r rfl, List.append_assoc]
      congr 3
      omega

theorem pack_bitsOf (bs : List Nat) (h : ∀ b ∈ bs, b < 256) : pack (bitsOf bs) = bs := by
  induction bs with
  | nil => simp [bitsOf, pack_nil]
  | cons b r ih =>
    rw [bitsOf, pack_append8 _ _ (length_bitsN 8 b), val_bitsN,
      ih (fun x hx => h x (List.mem_cons_of_mem _ hx))]
    have := h b List.mem_cons_self
    congr 1
    omega

/-- filling up with ones to the byte boundary changes nothing -/
theorem pack_pad (l : List Bool) : pack (l ++ ones ((8 - l.length % 8) % 8)) = pack l := by
  rw [← bitsOf_pack, pack_bitsOf _ (pack_lt l)]

end H3.Bits
