import H3.Lemmas.C06Req
/-! C06 without the call-pattern hypothesis: `recv_data` and the repaired `recv_trailers`
    (`pollRecvTrailersG`) do not panic from ANY state of a request stream — any buffer, any
    `remaining_data`, any saved trailers, whatever was called before and whatever it answered.
    `poll_recv_data` tests `has_data()` before it chooses between `poll_data` (which has no
    `assert!`) and `poll_next`; `poll_recv_trailers` now does the same.  Only the frame-layer facts
    that need no invariant are used (`pollNext_safe` from `remaining_data = 0`, `pollData_safe`). -/
namespace H3.C06
open H3.ReqRecv H3.Frame H3.Gen.Consts

theorem connErr_ne_panic (st : RSt) (c : Nat) : (connErr st c).1 ≠ .panic := by
  unfold connErr; split <;> simp

theorem decodeTrailers_ne_panic (H : Hdr) (st : RSt) (enc : Bytes) : (decodeTrailers H st enc).1 ≠ .panic := by
  unfold decodeTrailers
  split
  · simp
  · exact connErr_ne_panic _ _
  · simp

theorem fsErr_ne_panic (st : RSt) (o : FOut) (h : o ≠ .panic) : (fsErr st o).1 ≠ .panic := by
  cases o <;> simp [fsErr] <;> first | exact connErr_ne_panic _ _ | exact h rfl

theorem hasData_false_iff (c : FSt) : fsSrc.hasData c = false ↔ c.1.remaining = 0 := by
  simp [fsSrc]

/-- `recv_data` from any state -/
theorem pollRecvData_never_panics : ∀ (N : Nat) (st : RSt), (pollRecvData fsSrc N st).1 ≠ .panic := by
  intro N
  induction N with
  | zero => intro st; simp [pollRecvData]
  | succ N ih =>
    intro st
    rw [pollRecvData]
    by_cases hd : fsSrc.hasData st.src = true
    · rw [if_pos hd]
      have hD := pollData_safe (F := Frame) (E := FrameErr) st.src.1 st.src.2
      rcases hp : FS.pollData (F := Frame) (E := FrameErr) st.src.1 st.src.2 with ⟨o, s', r⟩
      rw [hp] at hD
      rw [fs_data st.src o s' r hp]
      have hout := hD.out
      cases o with
      | data d => simp [dataOut]
      | none => simp [dataOut]
      | pending => simp [dataOut]
      | errEnd => simp only [dataOut, fsErr]; exact connErr_ne_panic _ _
      | errQuic c => simp [dataOut, fsErr]
      | frame f => exact hout.elim
      | errProto e => exact hout.elim
      | panic => exact hout.elim
    · rw [if_neg hd]
      have h0 : st.src.1.remaining = 0 := (hasData_false_iff _).mp (by simpa using hd)
      have hN := pollNext_safe FS.frameDec st.src.1 st.src.2 h0
      rcases hp : FS.pollNext FS.frameDec st.src.1 st.src.2 with ⟨o, s', r⟩
      rw [hp] at hN
      rw [fs_next st.src o s' r hp]
      have hout := hN.out
      cases o with
      | frame f =>
        cases f with
        | headers enc => simp
        | data n => exact ih _
        | _ => exact connErr_ne_panic _ _
      | none => simp
      | pending => simp
      | data d => exact hout.elim
      | panic => exact hout.elim
      | errProto e => exact fsErr_ne_panic _ _ (by simp)
      | errEnd => exact fsErr_ne_panic _ _ (by simp)
      | errQuic c => exact fsErr_ne_panic _ _ (by simp)

/-- the look at the frame behind the trailers, from `remaining_data = 0` -/
theorem trailersTail_never_panics (H : Hdr) (st : RSt) (enc : Bytes) (h0 : st.src.1.remaining = 0) :
    (trailersTail fsSrc H st enc).1 ≠ .panic := by
  unfold trailersTail
  split
  · exact decodeTrailers_ne_panic _ _ _
  · unfold trailersCheck
    have hN := pollNext_safe FS.frameDec st.src.1 st.src.2 h0
    rcases hp : FS.pollNext FS.frameDec st.src.1 st.src.2 with ⟨o, s', r⟩
    rw [hp] at hN
    rw [fs_next st.src o s' r hp]
    have hout := hN.out
    cases o with
    | frame f => exact connErr_ne_panic _ _
    | none => exact decodeTrailers_ne_panic _ _ _
    | pending => simp
    | data d => exact hout.elim
    | panic => exact hout.elim
    | errProto e => exact fsErr_ne_panic _ _ (by simp)
    | errEnd => exact fsErr_ne_panic _ _ (by simp)
    | errQuic c => exact fsErr_ne_panic _ _ (by simp)

/-- everything behind the guard, from `remaining_data = 0` (no other assumption on the state) -/
theorem pollRecvTrailers_never_panics (H : Hdr) (st : RSt) (h0 : st.src.1.remaining = 0) :
    (pollRecvTrailers fsSrc H st).1 ≠ .panic := by
  unfold pollRecvTrailers
  cases ht : st.trailers with
  | some enc => exact trailersTail_never_panics H { st with trailers := none } enc h0
  | none =>
    simp only
    unfold trailersFirst
    have hN := pollNext_safe FS.frameDec st.src.1 st.src.2 h0
    rcases hp : FS.pollNext FS.frameDec st.src.1 st.src.2 with ⟨o, s', r⟩
    rw [hp] at hN
    rw [fs_next st.src o s' r hp]
    have hout := hN.out
    have hrem := hN.rem
    cases o with
    | frame f =>
      cases f with
      | headers enc => exact trailersTail_never_panics H { st with src := (s', r) } enc hrem
      | _ => exact connErr_ne_panic _ _
    | none => simp
    | pending => simp
    | data d => exact hout.elim
    | panic => exact hout.elim
    | errProto e => exact fsErr_ne_panic _ _ (by simp)
    | errEnd => exact fsErr_ne_panic _ _ (by simp)
    | errQuic c => exact fsErr_ne_panic _ _ (by simp)

/-- the repaired `recv_trailers` from any state -/
theorem pollRecvTrailersG_never_panics (H : Hdr) (st : RSt) : (pollRecvTrailersG fsSrc H st).1 ≠ .panic := by
  unfold pollRecvTrailersG
  by_cases hd : fsSrc.hasData st.src = true
  · rw [if_pos hd]; simp
  · rw [if_neg hd]
    exact pollRecvTrailers_never_panics H st ((hasData_false_iff _).mp (by simpa using hd))

/-- behind the guard the repaired function is the old one: in particular in every configuration
    of the documented pattern (`PhaseOK .trailers`) -/
theorem pollRecvTrailersG_eq (H : Hdr) (st : RSt) (h0 : st.src.1.remaining = 0) :
    pollRecvTrailersG fsSrc H st = pollRecvTrailers fsSrc H st := by
  unfold pollRecvTrailersG
  rw [if_neg (by simp [(hasData_false_iff st.src).mpr h0])]

/-- the message head (`resolve_request` / `recv_response`) from `remaining_data = 0` -/
theorem pollHead_never_panics (role : Role) (H : Hdr) (st : RSt) (h0 : st.src.1.remaining = 0) :
    (pollHead role fsSrc H st).1 ≠ .panic := by
  have hN := pollNext_safe FS.frameDec st.src.1 st.src.2 h0
  rcases hp : FS.pollNext FS.frameDec st.src.1 st.src.2 with ⟨o, s', r⟩
  rw [hp] at hN
  simp only at hN
  have hfs := fs_next st.src o s' r hp
  have hout := hN.out
  cases role
  all_goals
    first
      | (show (pollResolve fsSrc H st).1 ≠ .panic; unfold pollResolve)
      | (show (pollRecvResponse fsSrc H st).1 ≠ .panic; unfold pollRecvResponse)
    rw [hfs]
    simp only
    cases o with
    | frame f =>
      cases f with
      | headers enc =>
        simp only
        cases H.head enc with
        | ok => simp
        | malformed => simp
        | qpack => exact connErr_ne_panic _ _
      | _ => exact connErr_ne_panic _ _
    | none => first | exact connErr_ne_panic _ _ | simp
    | pending => simp
    | data d => exact hout.elim
    | panic => exact hout.elim
    | errProto e => exact fsErr_ne_panic _ _ (by simp)
    | errEnd => exact fsErr_ne_panic _ _ (by simp)
    | errQuic c => exact fsErr_ne_panic _ _ (by simp)

/-! ## Completion from ANY state once the transport's next answer is an error or the end was read

`AtEnd c`: the end of the stream has been read (`eos`), or an error — `reset x`: a RESET_STREAM, or,
lowered by `H3.ConnClose`, the connection error of a closed connection — is what the transport
answers next.  No call then answers `Pending`, whatever the state (no call-pattern hypothesis). -/

theorem connErr_ne_pending (st : RSt) (c : Nat) : (connErr st c).1 ≠ .pending := by
  unfold connErr; split <;> simp

theorem decodeTrailers_ne_pending (H : Hdr) (st : RSt) (enc : Bytes) : (decodeTrailers H st enc).1 ≠ .pending := by
  unfold decodeTrailers
  split
  · simp
  · exact connErr_ne_pending _ _
  · simp

theorem fsErr_ne_pending (st : RSt) (o : FOut) : (fsErr st o).1 ≠ .pending := by
  cases o <;> simp [fsErr] <;> exact connErr_ne_pending _ _

theorem pollRecvData_atEnd : ∀ (N : Nat) (st : RSt), AtEnd st.src → (pollRecvData fsSrc N st).1 ≠ .pending := by
  intro N
  induction N with
  | zero => intro st _; simp [pollRecvData]
  | succ N ih =>
    intro st hE
    rw [pollRecvData]
    by_cases hd : fsSrc.hasData st.src = true
    · rw [if_pos hd]
      have h0 : st.src.1.remaining ≠ 0 := by simpa [fsSrc] using hd
      have hD := pollData_safe (F := Frame) (E := FrameErr) st.src.1 st.src.2
      rcases hp : FS.pollData (F := Frame) (E := FrameErr) st.src.1 st.src.2 with ⟨o, s', r⟩
      rw [hp] at hD
      rw [fs_data st.src o s' r hp]
      have hne := (atEnd_data h0 hp hD hE).1
      cases o with
      | pending => exact absurd rfl hne
      | data d => simp [dataOut]
      | none => simp [dataOut]
      | frame f => simp [dataOut]
      | _ => simp only [dataOut]; exact fsErr_ne_pending _ _
    · rw [if_neg hd]
      have h0 : st.src.1.remaining = 0 := (hasData_false_iff _).mp (by simpa using hd)
      have hN := pollNext_safe FS.frameDec st.src.1 st.src.2 h0
      rcases hp : FS.pollNext FS.frameDec st.src.1 st.src.2 with ⟨o, s', r⟩
      rw [hp] at hN
      rw [fs_next st.src o s' r hp]
      have hA := atEnd_next h0 hp hN hE
      cases o with
      | frame f =>
        cases f with
        | headers enc => simp
        | data n => exact ih _ (hA.2 (Or.inl ⟨_, rfl⟩))
        | _ => exact connErr_ne_pending _ _
      | none => simp
      | pending => exact absurd rfl hA.1
      | data d => simp
      | _ => exact fsErr_ne_pending _ _

theorem trailersTail_atEnd (H : Hdr) (st : RSt) (enc : Bytes) (h0 : st.src.1.remaining = 0) (hE : AtEnd st.src) :
    (trailersTail fsSrc H st enc).1 ≠ .pending := by
  unfold trailersTail
  split
  · exact decodeTrailers_ne_pending _ _ _
  · unfold trailersCheck
    have hN := pollNext_safe FS.frameDec st.src.1 st.src.2 h0
    rcases hp : FS.pollNext FS.frameDec st.src.1 st.src.2 with ⟨o, s', r⟩
    rw [hp] at hN
    rw [fs_next st.src o s' r hp]
    have hA := atEnd_next h0 hp hN hE
    cases o with
    | frame f => exact connErr_ne_pending _ _
    | none => exact decodeTrailers_ne_pending _ _ _
    | pending => exact absurd rfl hA.1
    | data d => simp
    | _ => exact fsErr_ne_pending _ _

theorem pollRecvTrailersG_atEnd (H : Hdr) (st : RSt) (hE : AtEnd st.src) :
    (pollRecvTrailersG fsSrc H st).1 ≠ .pending := by
  unfold pollRecvTrailersG
  by_cases hd : fsSrc.hasData st.src = true
  · rw [if_pos hd]; simp
  · rw [if_neg hd]
    have h0 : st.src.1.remaining = 0 := (hasData_false_iff _).mp (by simpa using hd)
    unfold pollRecvTrailers
    cases ht : st.trailers with
    | some enc => exact trailersTail_atEnd H { st with trailers := none } enc h0 hE
    | none =>
      simp only
      unfold trailersFirst
      have hN := pollNext_safe FS.frameDec st.src.1 st.src.2 h0
      rcases hp : FS.pollNext FS.frameDec st.src.1 st.src.2 with ⟨o, s', r⟩
      rw [hp] at hN
      rw [fs_next st.src o s' r hp]
      have hA := atEnd_next h0 hp hN hE
      have hrem := hN.rem
      cases o with
      | frame f =>
        cases f with
        | headers enc =>
          exact trailersTail_atEnd H { st with src := (s', r) } enc hrem (hA.2 (Or.inl ⟨_, rfl⟩))
        | _ => exact connErr_ne_pending _ _
      | none => simp
      | pending => exact absurd rfl hA.1
      | data d => simp
      | _ => exact fsErr_ne_pending _ _

theorem pollHead_atEnd (role : Role) (H : Hdr) (st : RSt) (h0 : st.src.1.remaining = 0) (hE : AtEnd st.src) :
    (pollHead role fsSrc H st).1 ≠ .pending := by
  have hN := pollNext_safe FS.frameDec st.src.1 st.src.2 h0
  rcases hp : FS.pollNext FS.frameDec st.src.1 st.src.2 with ⟨o, s', r⟩
  rw [hp] at hN
  simp only at hN
  have hfs := fs_next st.src o s' r hp
  have hA := atEnd_next h0 hp hN hE
  cases role
  all_goals
    first
      | (show (pollResolve fsSrc H st).1 ≠ .pending; unfold pollResolve)
      | (show (pollRecvResponse fsSrc H st).1 ≠ .pending; unfold pollRecvResponse)
    rw [hfs]
    simp only
    cases o with
    | frame f =>
      cases f with
      | headers enc =>
        simp only
        cases H.head enc with
        | ok => simp
        | malformed => simp
        | qpack => exact connErr_ne_pending _ _
      | _ => exact connErr_ne_pending _ _
    | none => first | exact connErr_ne_pending _ _ | simp
    | pending => exact absurd rfl hA.1
    | data d => exact fsErr_ne_pending _ _
    | _ => exact fsErr_ne_pending _ _

/-- the error that is the transport's next answer is what the calls return (`eos` not yet read),
    and the state is left as it was: the error stays the transport's next answer -/
theorem calls_on_error (role : Role) (H : Hdr) (N : Nat) (st : RSt) (x : Nat) (r : List FS.Ev)
    (hs : st.src.2 = .reset x :: r) (heos : st.src.1.eos = false) :
    pollRecvData fsSrc (N + 1) st = (.errReset x, st) ∧
    (st.src.1.remaining = 0 → st.trailers = none → pollRecvTrailersG fsSrc H st = (.errReset x, st)) ∧
    (st.src.1.remaining = 0 → pollHead role fsSrc H st = (.errReset x, st)) := by
  obtain ⟨⟨s, sc⟩, tr, env⟩ := st
  simp only at hs heos
  subst hs
  refine ⟨?_, ?_, ?_⟩
  · rw [pollRecvData]
    by_cases h0 : s.remaining = 0
    · have hp := pollNext_reset FS.frameDec s x r h0 heos
      simp [fsSrc, h0, hp, fsErr]
    · have hp := pollData_reset (F := Frame) (E := FrameErr) s x r h0 heos
      simp [fsSrc, h0, hp, dataOut, fsErr]
  · intro h0 ht
    simp only at h0 ht
    subst ht
    have hp := pollNext_reset FS.frameDec s x r h0 heos
    simp [pollRecvTrailersG, pollRecvTrailers, trailersFirst, fsSrc, h0, hp, fsErr]
  · intro h0
    simp only at h0
    have hp := pollNext_reset FS.frameDec s x r h0 heos
    cases role <;> simp [pollHead, pollResolve, pollRecvResponse, fsSrc, hp, fsErr]

end H3.C06
