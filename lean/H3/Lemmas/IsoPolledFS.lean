import H3.Lemmas.IsoLift
/-! C07, a healthy stream whose polls are interleaved with its deliveries — the frame layer.

    The transport script of a request in `H3.Iso` only grows at its end (`Req.deliver`), and the
    `FrameStream` model answers `Pending` when it finds the script used up.  `HInv w D out c`: of a
    stream whose wire bytes are `w`, the events `D` have been delivered so far (non-empty chunks
    carrying a prefix of `w`; then FIN once all of `w` is there), the configuration `c` of the
    frame-stream model satisfies the C02 invariant relative to `D`, and it has handed out the
    tokens `out` so far.  `healthy_next` / `healthy_data`: from such a configuration of a stream
    whose bytes are a sequence of complete frames (`Wire`), `poll_next` answers a frame, `Pending`
    (only while FIN is outstanding) or `None` (only with every token handed out), `poll_data` a
    piece of the payload or `Pending` — never an error — and `HInv` holds again with the answer
    appended to `out`.  All answers are characterised through `pollNext_preserves` /
    `pollData_spec` (C02); the bytes being valid excludes the error answers. -/
namespace H3.Iso
open H3.ReqRecv H3.Frame

/-- the wire bytes `w` of the stream are a sequence of complete frames on which the reference
    automaton emits `T`, none of them a WebTransport header -/
structure Wire (w : FS.Bytes) (T : List RefTok) : Prop where
  run : FS.run FS.frameDec (.hdr []) w = (.hdr [], T)
  noraw : NoRaw w

/-- what has been delivered so far of a stream with wire bytes `w` -/
def Deliv (w : FS.Bytes) (D : List FS.Ev) : Prop :=
  ∃ cs : List FS.Bytes, (∀ b ∈ cs, b ≠ []) ∧
    ((D = cs.map FS.Ev.chunk ∧ cs.flatten <+: w) ∨ (D = cs.map FS.Ev.chunk ++ [FS.Ev.fin] ∧ cs.flatten = w))

theorem chunk_mem_map {cs : List FS.Bytes} {ev : FS.Ev} (h : ev ∈ cs.map FS.Ev.chunk) : ∃ b ∈ cs, ev = .chunk b := by
  obtain ⟨b, hb, rfl⟩ := List.mem_map.mp h
  exact ⟨b, hb, rfl⟩

theorem deliv_facts {w : FS.Bytes} {D : List FS.Ev} (h : Deliv w D) :
    FS.ScriptOK D ∧ FS.Ev.pend ∉ D ∧ ∀ c, FS.Ev.reset c ∉ D := by
  obtain ⟨cs, hne, h | h⟩ := h
  · obtain ⟨rfl, _⟩ := h
    refine ⟨?_, ?_, ?_⟩
    · intro b hb
      obtain ⟨b', hb', he⟩ := chunk_mem_map hb
      cases he; exact hne b hb'
    · intro hm; obtain ⟨_, _, he⟩ := chunk_mem_map hm; cases he
    · intro c hm; obtain ⟨_, _, he⟩ := chunk_mem_map hm; cases he
  · obtain ⟨rfl, _⟩ := h
    refine ⟨?_, ?_, ?_⟩
    · intro b hb
      rcases List.mem_append.mp hb with hb | hb
      · obtain ⟨b', hb', he⟩ := chunk_mem_map hb
        cases he; exact hne b hb'
      · simp at hb
    · intro hm
      rcases List.mem_append.mp hm with hm | hm
      · obtain ⟨_, _, he⟩ := chunk_mem_map hm; cases he
      · simp at hm
    · intro c hm
      rcases List.mem_append.mp hm with hm | hm
      · obtain ⟨_, _, he⟩ := chunk_mem_map hm; cases he
      · simp at hm

theorem fin_not_mem_chunks (cs : List FS.Bytes) : FS.Ev.fin ∉ cs.map FS.Ev.chunk := by
  intro hm; obtain ⟨_, _, he⟩ := chunk_mem_map hm; cases he

theorem evBytes_prefix {a b : List FS.Ev} : FS.evBytes a <+: FS.evBytes (a ++ b) := by
  rw [FS.evBytes_append]; exact List.prefix_append _ _

/-- the bytes a configuration has taken from the transport are a prefix of `w`, all of `w` once
    FIN has been taken -/
theorem deliv_taken {w : FS.Bytes} {D taken rest : List FS.Ev} {eos : Bool} (h : Deliv w D)
    (hs : D = taken ++ rest) (htk : FS.TakenOK false eos taken) :
    FS.evBytes taken <+: w ∧ (eos = true → FS.evBytes taken = w) ∧ (eos = false → FS.Ev.fin ∉ taken) := by
  simp only [FS.TakenOK, Bool.false_eq_true, if_false] at htk
  obtain ⟨cs, _, h | h⟩ := h
  · obtain ⟨rfl, hp⟩ := h
    have hb : FS.evBytes taken <+: w := by
      have h1 : FS.evBytes taken <+: FS.evBytes (cs.map FS.Ev.chunk) := by rw [hs]; exact evBytes_prefix
      rw [evBytes_chunks] at h1
      exact h1.trans hp
    refine ⟨hb, ?_, ?_⟩
    · intro he
      rw [he] at htk
      simp only [if_true] at htk
      obtain ⟨p, hp', _⟩ := htk.2
      exact absurd (by rw [hs, hp']; simp) (fin_not_mem_chunks cs)
    · intro he
      rw [he] at htk
      simpa using htk.2
  · obtain ⟨rfl, hp⟩ := h
    have hb : FS.evBytes taken <+: w := by
      have h1 : FS.evBytes taken <+: FS.evBytes (cs.map FS.Ev.chunk ++ [FS.Ev.fin]) := by
        rw [hs]; exact evBytes_prefix
      rw [evBytes_snoc_fin, evBytes_chunks, hp] at h1
      exact h1
    refine ⟨hb, ?_, ?_⟩
    · intro he
      rw [he] at htk
      simp only [if_true] at htk
      obtain ⟨p, hp', hpf⟩ := htk.2
      have hs' : (p ++ [FS.Ev.fin]) ++ rest = cs.map FS.Ev.chunk ++ FS.Ev.fin :: [] := by
        rw [← hp', ← hs]
      rw [hp', split_at hs' hpf (fin_not_mem_chunks cs), evBytes_snoc_fin, evBytes_chunks, hp]
    · intro he
      rw [he] at htk
      simpa using htk.2

/-- one more event arrives -/
theorem deliv_snoc_chunk {w : FS.Bytes} {cs : List FS.Bytes} {b : FS.Bytes} (hne : ∀ x ∈ cs ++ [b], x ≠ [])
    (hp : (cs ++ [b]).flatten <+: w) : Deliv w (cs.map FS.Ev.chunk ++ [FS.Ev.chunk b]) :=
  ⟨cs ++ [b], hne, Or.inl ⟨by simp, hp⟩⟩

/-- the invariant of a healthy stream's frame layer -/
def HInv (w : FS.Bytes) (D : List FS.Ev) (out : List RefTok) (c : FSt) : Prop :=
  Deliv w D ∧ FS.CInv FS.frameDec D out c.1 c.2

theorem hinv_init (w : FS.Bytes) : HInv w [] [] ({}, []) :=
  ⟨⟨[], by simp, Or.inl ⟨rfl, by simp⟩⟩, [], rfl, by simp [FS.TakenOK],
    by simpa [FS.evBytes] using FS.inv_init FS.frameDec⟩

/-- events arriving change nothing but the script -/
theorem hinv_arrive {w : FS.Bytes} {D : List FS.Ev} {out : List RefTok} {c : FSt} (evs : List FS.Ev)
    (h : HInv w D out c) (hD : Deliv w (D ++ evs)) : HInv w (D ++ evs) out (c.1, c.2 ++ evs) := by
  obtain ⟨_, taken, hs, htk, hI⟩ := h
  exact ⟨hD, taken, by rw [hs, List.append_assoc], htk, hI⟩

/-- what has been handed out is a prefix of the tokens of the whole message -/
theorem hinv_prefix {w : FS.Bytes} {T : List RefTok} (hw : Wire w T) {D : List FS.Ev} {out : List RefTok}
    {c : FSt} (h : HInv w D out c) : out <+: T := by
  obtain ⟨hD, taken, hs, htk, hI⟩ := h
  obtain ⟨⟨x, hx⟩, _⟩ := deliv_taken hD hs htk
  obtain ⟨more, hm⟩ := FS.inv_toks_prefix FS.frameDec hI x
  rw [hx, hw.run] at hm
  exact ⟨more, hm.symm⟩

theorem hinv_rem_bound {w : FS.Bytes} {T : List RefTok} (hw : Wire w T) {D : List FS.Ev} {out : List RefTok}
    {c : FSt} (h : HInv w D out c) : c.1.remaining < FS.USIZE_MAX := by
  obtain ⟨more, hm⟩ := hinv_prefix hw h
  obtain ⟨_, taken, _, _, hI⟩ := h
  refine FS.inv_rem_bound FS.frameDec FS.USIZE_MAX hI ?_ FS.usize_pos
  intro f hf
  apply hw.noraw f
  rw [hw.run, ← hm]
  exact List.mem_append_left _ hf

/-- `poll_next` on a healthy stream: a frame, `Pending` (FIN not delivered yet), or `None` (everything
    handed out) -/
theorem healthy_next {w : FS.Bytes} {T : List RefTok} (hw : Wire w T) {D : List FS.Ev} {out : List RefTok}
    {s : FS.St} {sc : List FS.Ev} (hI : HInv w D out (s, sc)) (h0 : s.remaining = 0) :
    ∃ o s' sc', FS.pollNext FS.frameDec s sc = (o, s', sc') ∧
      ((∃ f, o = .frame f ∧ HInv w D (out ++ [.frame f]) (s', sc') ∧ s'.remaining = (FS.frameDec.kind f).rem) ∨
       (o = .pending ∧ HInv w D out (s', sc') ∧ s'.remaining = 0 ∧ FS.Ev.fin ∉ D) ∨
       (o = .none ∧ HInv w D out (s', sc') ∧ s'.remaining = 0 ∧ out = T ∧ s'.eos = true ∧ s'.flat = [])) := by
  obtain ⟨hD, taken, hsplit, htk, hInv⟩ := hI
  obtain ⟨hscD, hpend, hreset⟩ := deliv_facts hD
  have hsc : FS.ScriptOK sc := by rw [hsplit] at hscD; exact FS.scriptOK_suffix hscD
  simp only at hsplit htk hInv
  rcases FS.pollNext_preserves FS.frameDec FS.frameDec_laws _ out s sc hInv hsc with ⟨hne, _⟩ | ⟨_, hp⟩
  · exact absurd h0 hne
  · cases hres : FS.pollNext FS.frameDec s sc with
    | mk o rest =>
    obtain ⟨s', sc'⟩ := rest
    rw [hres] at hp
    obtain ⟨tk, hs, htk', hout⟩ := hp
    have htkF := FS.takenOK_trans htk htk'
    have hD' : D = (taken ++ tk) ++ sc' := by rw [hsplit, hs, List.append_assoc]
    obtain ⟨⟨x, hx⟩, hfull, hnofin⟩ := deliv_taken hD hD' htkF
    rw [FS.evBytes_append] at hx hfull
    refine ⟨o, s', sc', rfl, ?_⟩
    cases o with
    | frame f =>
      refine Or.inl ⟨f, rfl, ⟨hD, taken ++ tk, hD', htkF, by rw [FS.evBytes_append]; exact hout⟩, ?_⟩
      exact FS.pollNext_frame_rem FS.frameDec s s' sc sc' f hres
    | pending =>
      obtain ⟨hI', hstuck, heos', hrem⟩ := hout
      have heosf : s.eos = false := by
        cases hse : s.eos with
        | false => rfl
        | true =>
          rw [hse] at htk'
          simp only [FS.TakenOK, if_true] at htk'
          rw [htk'.2.2] at heos'; cases heos'
      have hpl : FS.pollNextLoop FS.frameDec s sc = (.pending, s', sc') := by
        have : FS.pollNext FS.frameDec s sc = FS.pollNextLoop FS.frameDec s sc := by
          unfold FS.pollNext; rw [if_neg (by simp [h0])]
        rw [← this]; exact hres
      obtain ⟨tk2, ht2, hwhy⟩ := FS.pollNextLoop_pending_why FS.frameDec sc s s' sc' hpl heosf
      have hnil : sc' = [] := by
        rcases hwhy with h | h
        · exact h
        · exact absurd (by rw [hsplit, ht2]; simp [h]) hpend
      refine Or.inr (Or.inl ⟨rfl, ⟨hD, taken ++ tk, hD', htkF, by rw [FS.evBytes_append]; exact hI'⟩, hrem, ?_⟩)
      rw [hD', hnil, List.append_nil]
      exact hnofin heos'
    | none =>
      obtain ⟨hI', hfl, heos', hrem⟩ := hout
      refine Or.inr (Or.inr ⟨rfl, ⟨hD, taken ++ tk, hD', htkF, by rw [FS.evBytes_append]; exact hI'⟩, hrem, ?_,
        heos', hfl⟩)
      obtain ⟨c, hseen, hrun⟩ := hI'.split
      rw [hfl, List.append_nil] at hseen
      rw [hrem, FS.PSt.ofRem_zero, ← hseen, hfull heos', hw.run] at hrun
      simp only [Prod.mk.injEq, true_and] at hrun
      exact hrun.symm
    | errEnd =>
      exfalso
      obtain ⟨hI', hne, hinc, heos', hrem⟩ := hout
      obtain ⟨c, hseen, hrun⟩ := hI'.split
      rw [hrem, FS.PSt.ofRem_zero] at hrun
      have := hw.run
      rw [← hfull heos', hseen, FS.run_append, hrun,
        FS.run_incomplete FS.frameDec FS.frameDec_laws s'.flat (Or.inr hinc)] at this
      simp only [Prod.mk.injEq, FS.PSt.hdr.injEq] at this
      exact hne this.1
    | errProto e =>
      exfalso
      obtain ⟨c, k, hseen, hrun, hk1, hk2, hrunE⟩ := hout
      have := hw.run
      rw [← hx, hseen, ← List.take_append_drop k s'.flat, List.append_assoc, List.append_assoc, FS.run_append, hrun,
        FS.run_append, hrunE, FS.run_dead] at this
      simp at this
    | errQuic c =>
      exfalso
      obtain ⟨_, ⟨r, hr⟩, _⟩ := hout
      exact hreset c (by rw [hD', hr]; simp)
    | data _ => exact absurd hout id
    | panic => exact absurd hout id

/-- `poll_data` on a healthy stream: a non-empty piece of the payload, or `Pending` (FIN not delivered
    yet) -/
theorem healthy_data {w : FS.Bytes} {T : List RefTok} (hw : Wire w T) {D : List FS.Ev} {out : List RefTok}
    {s : FS.St} {sc : List FS.Ev} (hI : HInv w D out (s, sc)) (h0 : s.remaining ≠ 0) :
    ∃ o s' sc', FS.pollData (F := Frame) (E := FrameErr) s sc = (o, s', sc') ∧
      ((∃ d, o = .data d ∧ d ≠ [] ∧ HInv w D (out ++ d.map .byte) (s', sc') ∧
          s'.remaining = s.remaining - d.length) ∨
       (o = .pending ∧ HInv w D out (s', sc') ∧ s'.remaining = s.remaining ∧ FS.Ev.fin ∉ D)) := by
  have hbound := hinv_rem_bound hw hI
  obtain ⟨hD, taken, hsplit, htk, hInv⟩ := hI
  obtain ⟨hscD, hpend, hreset⟩ := deliv_facts hD
  have hsc : FS.ScriptOK sc := by rw [hsplit] at hscD; exact FS.scriptOK_suffix hscD
  simp only at hsplit htk hInv hbound
  have hp := FS.pollData_spec FS.frameDec _ out s sc hInv hsc
  cases hres : FS.pollData (F := Frame) (E := FrameErr) s sc with
  | mk o rest =>
  obtain ⟨s', sc'⟩ := rest
  rw [hres] at hp
  obtain ⟨tk, hs, htk', hout⟩ := hp
  have htkF := FS.takenOK_trans htk htk'
  have hD' : D = (taken ++ tk) ++ sc' := by rw [hsplit, hs, List.append_assoc]
  obtain ⟨⟨x, hx⟩, hfull, hnofin⟩ := deliv_taken hD hD' htkF
  rw [FS.evBytes_append] at hx hfull
  refine ⟨o, s', sc', rfl, ?_⟩
  cases o with
  | data d =>
    obtain ⟨hd, _, hrem', hI'⟩ := hout
    exact Or.inl ⟨d, rfl, hd, ⟨hD, taken ++ tk, hD', htkF, by rw [FS.evBytes_append]; exact hI'⟩, hrem'⟩
  | pending =>
    obtain ⟨hI', hfl, heos', hrem'⟩ := hout
    obtain ⟨tk2, ht2, hwhy⟩ := FS.pollData_pending_why s s' sc sc' hres
    have hnil : sc' = [] := by
      rcases hwhy with h | h
      · exact h
      · exact absurd (by rw [hsplit, ht2]; simp [h]) hpend
    refine Or.inr ⟨rfl, ⟨hD, taken ++ tk, hD', htkF, by rw [FS.evBytes_append]; exact hI'⟩, hrem', ?_⟩
    rw [hD', hnil, List.append_nil]
    exact hnofin heos'
  | errEnd =>
    exfalso
    obtain ⟨heos', _, c, rest, hseen, hrun, hlt⟩ := hout
    have := hw.run
    rw [← hfull heos', hseen, FS.run_append, hrun, FS.run_data_short FS.frameDec _ rest hlt] at this
    simp at this
  | errQuic c =>
    exfalso
    obtain ⟨_, ⟨r, hr⟩, _⟩ := hout
    exact hreset c (by rw [hD', hr]; simp)
  | none =>
    exfalso
    obtain ⟨_, hcase⟩ := hout
    rcases hcase with ⟨hz, _⟩ | ⟨hmax, _⟩
    · exact h0 hz
    · omega
  | frame _ => exact absurd hout id
  | errProto _ => exact absurd hout id
  | panic => exact absurd hout id

/-- once a configuration has taken FIN with nothing buffered, `poll_next` answers `None` again -/
theorem healthy_next_at_end (s : FS.St) (sc : List FS.Ev) (h0 : s.remaining = 0) (he : s.eos = true)
    (hf : s.flat = []) : ∃ s' sc', FS.pollNext FS.frameDec s sc = (.none, s', sc') := by
  have := FS.pollNext_at_end FS.frameDec s sc h0 he hf
  cases hres : FS.pollNext FS.frameDec s sc with
  | mk o rest =>
  rw [hres] at this
  simp only at this
  subst this
  exact ⟨rest.1, rest.2, rfl⟩

end H3.Iso
