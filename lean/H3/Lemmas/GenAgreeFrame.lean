import H3.Model.Frame
import H3.Model.FrameStream
import H3.Gen.FrameDispatch
import H3.Gen.FrameErrCodes
/-! Agreement of the frame decoder model (`H3.Frame.decode`, C02/C06) with the dispatch table the
    translator reads out of `Frame::decode` (`h3/src/proto/frame.rs`) on every run
    (`H3.Gen.FrameDispatch`: which frame type goes to which payload parser and which `Frame`
    variant, which types are refused as HTTP/2-reserved, everything else skipped as unknown), and
    of the decoder loop's three classes of failure with the arms of `FrameDecoder::decode`
    (`H3.Gen.FrameErrCodes.decoder`). -/
namespace H3.GenAgree.Frame
open H3.Frame H3.Varint H3.Gen.Consts
open H3.Gen.FrameDispatch (Kind Parse Disp dispatch)

abbrev DRes := H3.Frame.DecRes

/-- a payload that has to be exactly one varint -/
def one (payload : Bytes) (n : Nat) (mk : Nat → Frame) : DRes :=
  match oneVarint payload with
  | none => .error .malformed
  | some v => .frame (mk v) n

/-- the model's reading of "`Ok(Frame::<k>(<p>))`" for the arms of the `match ty` (the payload is
    buffered in full; bytes left over make the frame malformed: `oneVarint`).  `none`: a pairing
    of variant and parser the model does not know. -/
def parse (payload : Bytes) (n : Nat) : Kind → Parse → Option DRes
  | .headers, .bytes => some (.frame (.headers payload) n)
  | .settings, .settings =>
    some (match settingsDecode payload with
          | .error e => .error (.settings e)
          | .ok es => .frame (.settings es) n)
  | .cancelPush, .pushId => some (one payload n .cancelPush)
  | .pushPromise, .pushPromise =>
    some (match Varint.decode payload with
          | .endOf _ => .error .malformed
          | .ok id rest => .frame (.pushPromise id rest) n)
  | .goaway, .varint => some (one payload n .goaway)
  | .maxPushId, .pushId => some (one payload n .maxPushId)
  | _, _ => none

/-- `Frame::decode` written over the generated dispatch table -/
def genDecode (bs : Bytes) : Option DRes :=
  match Varint.decode bs with
  | .endOf _ => some (.incomplete (bs.length + 1))
  | .ok ty r1 =>
    match dispatch ty with
    | .frame .webTransportStream .sessionId =>
      -- the early return in front of the length field
      match Varint.decode r1 with
      | .endOf k => some (.incomplete k)
      | .ok sid r2 => some (.frame (.webTransport sid) (bs.length - r2.length))
    | d =>
      match Varint.decode r1 with
      | .endOf _ => some (.incomplete (bs.length + 1))
      | .ok len r2 =>
        match d with
        | .frame .data .lenOnly => some (.frame (.data len) (bs.length - r2.length))
        | .frame k p =>
          if r2.length < len then some (.incomplete (2 + len))
          else parse (r2.take len) (bs.length - r2.length + len) k p
        | .unsupported =>
          if r2.length < len then some (.incomplete (2 + len)) else some (.error (.unsupported ty))
        | .unknown =>
          if r2.length < len then some (.incomplete (2 + len))
          else some (.unknown (bs.length - r2.length + len))

/-- the frame types the table knows; for every other value it answers `unknown` -/
def known : List Nat :=
  [FRAME_DATA, FRAME_HEADERS, FRAME_H2_PRIORITY, FRAME_CANCEL_PUSH, FRAME_SETTINGS, FRAME_PUSH_PROMISE,
   FRAME_H2_PING, FRAME_GOAWAY, FRAME_H2_WINDOW_UPDATE, FRAME_H2_CONTINUATION, FRAME_MAX_PUSH_ID,
   FRAME_WEBTRANSPORT_BI_STREAM]

theorem dispatch_other (ty : Nat) (h : ty ∉ known) : dispatch ty = .unknown := by
  simp only [known, FRAME_DATA, FRAME_HEADERS, FRAME_H2_PRIORITY, FRAME_CANCEL_PUSH, FRAME_SETTINGS,
    FRAME_PUSH_PROMISE, FRAME_H2_PING, FRAME_GOAWAY, FRAME_H2_WINDOW_UPDATE, FRAME_H2_CONTINUATION,
    FRAME_MAX_PUSH_ID, FRAME_WEBTRANSPORT_BI_STREAM, List.mem_cons, List.not_mem_nil, or_false, not_or] at h
  simp [dispatch, h]

theorem typed_other (ty : Nat) (payload : Bytes) (n : Nat) (h : ty ∉ known) : typed ty payload n = .unknown n := by
  simp only [known, FRAME_DATA, FRAME_HEADERS, FRAME_H2_PRIORITY, FRAME_CANCEL_PUSH, FRAME_SETTINGS,
    FRAME_PUSH_PROMISE, FRAME_H2_PING, FRAME_GOAWAY, FRAME_H2_WINDOW_UPDATE, FRAME_H2_CONTINUATION,
    FRAME_MAX_PUSH_ID, FRAME_WEBTRANSPORT_BI_STREAM, List.mem_cons, List.not_mem_nil, or_false, not_or] at h
  simp [typed, isH2, h, FRAME_HEADERS, FRAME_H2_PRIORITY, FRAME_CANCEL_PUSH, FRAME_SETTINGS,
    FRAME_PUSH_PROMISE, FRAME_H2_PING, FRAME_GOAWAY, FRAME_H2_WINDOW_UPDATE, FRAME_H2_CONTINUATION,
    FRAME_MAX_PUSH_ID]

/-- `isH2` is the list of the types the `match ty` answers with `UnsupportedFrame` -/
theorem isH2_agrees : ∀ ty, isH2 ty = decide (ty ∈ Gen.FrameDispatch.unsupportedIds) := by
  intro ty
  rw [Bool.eq_iff_iff]
  simp [isH2, Gen.FrameDispatch.unsupportedIds, FRAME_H2_PRIORITY, FRAME_H2_PING, FRAME_H2_WINDOW_UPDATE,
    FRAME_H2_CONTINUATION, or_assoc]

/-- The model decoder is the generated dispatch table, for every byte string. -/
theorem decode_agrees : ∀ bs : Bytes, some (H3.Frame.decode bs) = genDecode bs := by
  intro bs
  unfold H3.Frame.decode genDecode
  cases h0 : Varint.decode bs with
  | endOf k => rfl
  | ok ty r1 =>
    by_cases hk : ty ∈ known
    · -- one of the twelve known types: both sides compute
      simp only [known, List.mem_cons, List.not_mem_nil, or_false] at hk
      rcases hk with h | h | h | h | h | h | h | h | h | h | h | h <;> subst h <;>
        (simp only [afterType, typed, isH2, dispatch, FRAME_DATA, FRAME_HEADERS, FRAME_H2_PRIORITY, FRAME_CANCEL_PUSH,
          FRAME_SETTINGS, FRAME_PUSH_PROMISE, FRAME_H2_PING, FRAME_GOAWAY, FRAME_H2_WINDOW_UPDATE,
          FRAME_H2_CONTINUATION, FRAME_MAX_PUSH_ID, FRAME_WEBTRANSPORT_BI_STREAM]
         cases Varint.decode r1 <;> simp [parse, one] <;> (try split) <;> first | rfl | (simp_all; done) | (simp_all; rfl))
    · have hd := dispatch_other ty hk
      have hwt : ty ≠ FRAME_WEBTRANSPORT_BI_STREAM := fun h => hk (by simp [known, h])
      have hda : ty ≠ FRAME_DATA := fun h => hk (by simp [known, h])
      simp only [hd, if_neg hwt, afterType]
      cases Varint.decode r1 with
      | endOf k => rfl
      | ok len r2 =>
        simp only [if_neg hda, typed_other ty _ _ hk]
        split <;> rfl

/-! ### the decoder loop's classes of failure (`FrameDecoder::decode`) -/

/-- `H3.FS.decLoop` skips on `unknown`, waits on `incomplete`, fails on `error`: these are the arms
    of `FrameDecoder::decode` for `UnknownFrame`, `Incomplete` and the errors the model has. -/
theorem decoder_classes :
    Gen.FrameErrCodes.decoder .unknownFrame = .skip ∧
    Gen.FrameErrCodes.decoder .incomplete = .needMore ∧
    Gen.FrameErrCodes.decoder .malformed = .proto .malformed ∧
    Gen.FrameErrCodes.decoder .unsupportedFrame = .proto .forbiddenFrame ∧
    Gen.FrameErrCodes.decoder .settings = .proto .settings :=
  ⟨rfl, rfl, rfl, rfl, rfl⟩

end H3.GenAgree.Frame
