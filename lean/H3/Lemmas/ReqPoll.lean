import H3.Lemmas.ReqRetry
import H3.Lemmas.ReqLift
import H3.Lemmas.FrameStreamPend
import H3.Lemmas.C06Frame
set_option linter.unusedSimpArgs false
/-! Re-polling over the `FrameStream` model, for EVERY frame sequence and every script.

    A transport script with `pend` events anywhere IS a schedule of deliveries and polls: each
    `pend` is a poll of the transport that found nothing new (the model's `poll_next` /
    `poll_data` answer `Pending` there, exactly as on an exhausted script), and the next poll finds
    what was delivered meanwhile.  `documentedPolledChunks` runs the documented call pattern over
    such a script with every call polled again while it answers `Pending` and events are left.

    * `fsLaws`: `Pending` answers of the model are inert (`PendLaws fsSrc`), so by `ReqRetry` the
      re-polled pattern is the one-poll-per-call pattern over `waitSrc`, the model with waiting calls.
    * `FutS` / `futS_exists`: the answers `waitSrc` gives the canonical reader from a configuration
      satisfying the C02 invariant (`Pending` with events left is skipped), well formed and tied to
      the bytes exactly as `Fut` is — except that the ending `open_` now means: the script is used up.
    * `liftRS_sim : FrameSimP waitSrc tokSrc LiftRS`, `liftS_exists`, `TiedS`, `tiedS_fin_exact`,
      `tiedS_open_exact` (the script may contain `pend` anywhere).
    * `tok_no_invalid`: over the token source the documented pattern never answers the model
      artefact `invalid` when the loop bounds suffice. -/
namespace H3.ReqRecv
open H3.Frame

/-- what is still to come: the events left in the transport script -/
def flen (c : FSt) : Nat := c.2.length

theorem fsLaws : PendLaws fsSrc flen where
  next_len := fun c => FS.pollNext_len FS.frameDec c.1 c.2
  data_len := fun c => FS.pollData_len (F := Frame) (E := FrameErr) c.1 c.2
  next_pend := by
    intro c h
    obtain ⟨s, sc⟩ := c
    rcases hq : FS.pollNext FS.frameDec s sc with ⟨o, s', sc'⟩
    have hx : fsSrc.pollNext (s, sc) = (o, (s', sc')) := by simp only [fsSrc, hq]
    rw [hx] at h ⊢
    cases o <;> simp [isPend] at h
    obtain ⟨h1, h2, h3⟩ := FS.pollNext_pending_st FS.frameDec s s' sc sc' hq
    refine ⟨by simp [fsSrc, h2], by simp [fsSrc, h1], ?_⟩
    intro hne
    exact h3 (by intro hc; simp [flen, hc] at hne)
  data_pend := by
    intro c h
    obtain ⟨s, sc⟩ := c
    rcases hq : FS.pollData (F := Frame) (E := FrameErr) s sc with ⟨o, s', sc'⟩
    have hx : fsSrc.pollData (s, sc) = (o, (s', sc')) := by simp only [fsSrc, hq]
    rw [hx] at h ⊢
    cases o <;> simp [isPend] at h
    obtain ⟨h1, _, h3⟩ := FS.pollData_pending_st s s' sc sc' hq
    refine ⟨by simp [fsSrc, h1], ?_⟩
    intro hne
    exact h3 (by intro hc; simp [flen, hc] at hne)

/-- the `FrameStream` model whose `poll_next` / `poll_data` wait out the `Pending` answers while the
    script has events left -/
def waitSrc : Src FSt := skipSrc fsSrc flen

/-- both layers composed, with re-polling: every call of the documented pattern is polled again
    while it answers `Pending` and the script has events left -/
def documentedPolledChunks (role : Role) (H : Hdr) (script : List FS.Ev) : Trace :=
  documentedR role fsSrc flen H (fsFuel ({}, script)) (script.length + 1) (fsFuel ({}, script))
    { src := ({}, script) }

/-! ### the answers of the waiting model -/

inductive FutS : FS.St → List FS.Ev → List Item → Term → Prop
  | frame {s sc f s' sc' items t} (h0 : s.remaining = 0)
      (hc : FS.pollNext FS.frameDec s sc = (.frame f, s', sc')) (hr : FutS s' sc' items t) :
      FutS s sc (.frame f :: items) t
  | piece {s sc d s' sc' items t} (h0 : s.remaining ≠ 0)
      (hc : FS.pollData (F := Frame) (E := FrameErr) s sc = (.data d, s', sc'))
      (hr : FutS s' sc' items t) : FutS s sc (.piece d :: items) t
  /-- `Pending` with events left: the call is repeated -/
  | skipN {s sc s' sc' items t} (h0 : s.remaining = 0)
      (hc : FS.pollNext FS.frameDec s sc = (.pending, s', sc')) (hne : sc' ≠ [])
      (hr : FutS s' sc' items t) : FutS s sc items t
  | skipD {s sc s' sc' items t} (h0 : s.remaining ≠ 0)
      (hc : FS.pollData (F := Frame) (E := FrameErr) s sc = (.pending, s', sc')) (hne : sc' ≠ [])
      (hr : FutS s' sc' items t) : FutS s sc items t
  | nextEnd {s sc t} (h0 : s.remaining = 0)
      (hc : (FS.pollNext FS.frameDec s sc).1 = t.next)
      (hfin : t = .open_ → (FS.pollNext FS.frameDec s sc).2.2 = []) : FutS s sc [] t
  | dataEnd {s sc t} (h0 : s.remaining ≠ 0)
      (hc : (FS.pollData (F := Frame) (E := FrameErr) s sc).1 = t.data)
      (hfin : t = .open_ → (FS.pollData (F := Frame) (E := FrameErr) s sc).2.2 = []) : FutS s sc [] t

open H3.C06 (mu)

theorem futS_exists (sc0 : List FS.Ev) (hsc0 : FS.ScriptOK sc0)
    (hraw : ∀ f, FS.Tok.frame f ∈ (FS.run FS.frameDec (.hdr []) (FS.evBytes (FS.upToFin sc0))).2 →
      (FS.frameDec.kind f).rem < FS.USIZE_MAX) :
    ∀ (n : Nat) (s : FS.St) (script : List FS.Ev) (toks : List RefTok),
      FS.CInv FS.frameDec sc0 toks s script → mu s script < n →
      ∃ items t, FutS s script items t ∧ Run s.remaining items t ∧
        items.length ≤ mu s script ∧
        ∃ takenF restF eosF, sc0 = takenF ++ restF ∧ FS.TakenOK false eosF takenF ∧
          TermOK (FS.run FS.frameDec (.hdr []) (FS.evBytes takenF)) (toks ++ itemToks items)
            eosF takenF restF t ∧ (t = .open_ → restF = []) := by
  intro n
  induction n with
  | zero => intro s script toks _ h; omega
  | succ n ih =>
    intro s script toks hC hn
    obtain ⟨taken, hsc0eq, htk0, hI⟩ := hC
    have hsc : FS.ScriptOK script := by rw [hsc0eq] at hsc0; exact FS.scriptOK_suffix hsc0
    have hG : H3.C06.Good FS.frameDec s script := ⟨⟨_, _, hI⟩, hsc⟩
    have hpre : ∀ (tkn rest' : List FS.Ev) (toks' : List RefTok) (s' : FS.St),
        sc0 = tkn ++ rest' → FS.TakenOK false s'.eos tkn →
        FS.Inv FS.frameDec (FS.evBytes tkn) toks' s' →
        ∀ f, FS.Tok.frame f ∈ toks' → (FS.frameDec.kind f).rem < FS.USIZE_MAX := by
      intro tkn rest' toks' s' h0' htk' hI' f hf
      obtain ⟨more, hm⟩ := toks_in_wire h0' htk' hI'
      apply hraw f
      rw [hm]
      exact List.mem_append_left _ hf
    by_cases h0 : s.remaining = 0
    · -- `poll_next`
      rcases FS.pollNext_preserves FS.frameDec FS.frameDec_laws _ toks s script hI hsc with
        ⟨hne, _⟩ | ⟨_, hp⟩
      · exact absurd h0 hne
      · cases hres : FS.pollNext FS.frameDec s script with
        | mk o rest =>
        obtain ⟨s', script'⟩ := rest
        have hlive := (H3.C06.pollNext_live FS.frameDec FS.frameDec_laws s script hG h0 o s' script' hres).2
        rw [hres] at hp
        obtain ⟨tk, hs, htk, hout⟩ := hp
        have htkF := FS.takenOK_trans htk0 htk
        have hsc0' : sc0 = (taken ++ tk) ++ script' := by rw [hsc0eq, hs, List.append_assoc]
        cases o with
        | frame f =>
          have hI' : FS.Inv FS.frameDec (FS.evBytes taken ++ FS.evBytes tk) (toks ++ [.frame f]) s' := hout
          have hmu : mu s' script' < mu s script := hlive.2
          have hC' : FS.CInv FS.frameDec sc0 (toks ++ [.frame f]) s' script' :=
            ⟨taken ++ tk, hsc0', htkF, by rw [FS.evBytes_append]; exact hI'⟩
          obtain ⟨items, t, hF, hR, hlen, tF, rF, eF, h1, h2, h3, h4⟩ := ih s' script' _ hC' (by omega)
          have hrem := FS.pollNext_frame_rem FS.frameDec s s' _ script' f hres
          refine ⟨.frame f :: items, t, FutS.frame h0 hres hF, ?_, by simp only [List.length_cons]; omega,
            tF, rF, eF, h1, h2, ?_, h4⟩
          · rw [h0]
            refine Run.frame ?_ (by rw [kindLen_eq, ← hrem]; exact hR)
            intro x hx
            subst hx
            have := hpre (taken ++ tk) script' _ s' hsc0' htkF (by rw [FS.evBytes_append]; exact hI')
              (.webTransport x) (by simp)
            exact absurd this (Nat.lt_irrefl _)
          · simpa [itemToks, List.append_assoc] using h3
        | pending =>
          obtain ⟨hI', hstuck, heos', hrem⟩ := hout
          by_cases hnil : script' = []
          · -- nothing more will arrive: the last word
            refine ⟨[], .open_, FutS.nextEnd h0 (by rw [hres]; rfl) (fun _ => by rw [hres]; exact hnil),
              by rw [h0]; exact Run.nil0, by simp,
              taken ++ tk, script', s'.eos, hsc0', htkF, ?_, fun _ => hnil⟩
            obtain ⟨c, hseen, hrun⟩ := hI'.split
            rw [hrem, FS.PSt.ofRem_zero] at hrun
            simp only [TermOK, itemToks, List.append_nil]
            rw [FS.evBytes_append, hseen, FS.run_append, hrun,
              FS.run_incomplete FS.frameDec FS.frameDec_laws s'.flat hstuck]
            exact ⟨heos', by simp, (by intro hc; cases hc), Or.inl hnil⟩
          · -- events are left: the call is repeated
            have hsne : script ≠ [] := by
              intro hc; rw [hc] at hs
              have := (List.append_eq_nil_iff.mp hs.symm).2
              exact hnil this
            have hmu : mu s' script' < mu s script := hlive.2.2.1 hsne
            have hC' : FS.CInv FS.frameDec sc0 toks s' script' :=
              ⟨taken ++ tk, hsc0', htkF, by rw [FS.evBytes_append]; exact hI'⟩
            obtain ⟨items, t, hF, hR, hlen, rest⟩ := ih s' script' _ hC' (by omega)
            exact ⟨items, t, FutS.skipN h0 hres hnil hF, by rw [h0, ← hrem]; exact hR, by omega, rest⟩
        | none =>
          obtain ⟨hI', hfl, heos', hrem⟩ := hout
          refine ⟨[], .fin, FutS.nextEnd h0 (by rw [hres]; rfl) (fun hc => by cases hc),
            by rw [h0]; exact Run.nil0, by simp,
            taken ++ tk, script', s'.eos, hsc0', htkF, ?_, fun hc => by cases hc⟩
          obtain ⟨c, hseen, hrun⟩ := hI'.split
          rw [hrem, FS.PSt.ofRem_zero] at hrun
          rw [hfl, List.append_nil] at hseen
          simp only [TermOK, itemToks, List.append_nil]
          rw [FS.evBytes_append, hseen, hrun]
          exact ⟨heos', rfl, rfl⟩
        | errEnd =>
          obtain ⟨hI', hne, hinc, heos', hrem⟩ := hout
          refine ⟨[], .truncated, FutS.nextEnd h0 (by rw [hres]; rfl) (fun hc => by cases hc),
            by rw [h0]; exact Run.nil0, by simp,
            taken ++ tk, script', s'.eos, hsc0', htkF, ?_, fun hc => by cases hc⟩
          obtain ⟨c, hseen, hrun⟩ := hI'.split
          rw [hrem, FS.PSt.ofRem_zero] at hrun
          simp only [TermOK, itemToks, List.append_nil]
          rw [FS.evBytes_append, hseen, FS.run_append, hrun,
            FS.run_incomplete FS.frameDec FS.frameDec_laws s'.flat (Or.inr hinc)]
          exact ⟨heos', Or.inl ⟨s'.flat, hne, rfl, by simp⟩⟩
        | errProto e =>
          obtain ⟨c, k, hseen, hrun, hk1, hk2, hrunE⟩ := hout
          refine ⟨[], .proto e, FutS.nextEnd h0 (by rw [hres]; rfl) (fun hc => by cases hc),
            by rw [h0]; exact Run.nil0, by simp,
            taken ++ tk, script', s'.eos, hsc0', htkF, ?_, fun hc => by cases hc⟩
          simp only [TermOK, itemToks, List.append_nil]
          rw [FS.evBytes_append, hseen, ← List.take_append_drop k s'.flat, FS.run_append, hrun,
            FS.run_append, hrunE, FS.run_dead]
          exact ⟨rfl, by simp⟩
        | errQuic c =>
          obtain ⟨hI', ⟨r, hr⟩, heos'⟩ := hout
          refine ⟨[], .reset c, FutS.nextEnd h0 (by rw [hres]; rfl) (fun hc => by cases hc),
            by rw [h0]; exact Run.nil0, by simp,
            taken ++ tk, script', s'.eos, hsc0', htkF, ?_, fun hc => by cases hc⟩
          obtain ⟨more, hm⟩ := FS.inv_toks_prefix FS.frameDec hI' []
          simp only [TermOK, itemToks, List.append_nil]
          rw [List.append_nil] at hm
          rw [FS.evBytes_append]
          exact ⟨heos', ⟨r, hr⟩, more, hm⟩
        | data _ => exact absurd hout id
        | panic => exact absurd hout id
    · -- `poll_data`
      have hbound : s.remaining < FS.USIZE_MAX :=
        FS.inv_rem_bound FS.frameDec FS.USIZE_MAX hI
          (hpre taken script toks s hsc0eq htk0 hI) FS.usize_pos
      have hp := FS.pollData_spec FS.frameDec _ toks s script hI hsc
      cases hres : FS.pollData (F := Frame) (E := FrameErr) s script with
      | mk o rest =>
      obtain ⟨s', script'⟩ := rest
      have hlive := (H3.C06.pollData_live FS.frameDec s script hG o s' script' hres).2
      rw [hres] at hp
      obtain ⟨tk, hs, htk, hout⟩ := hp
      have htkF := FS.takenOK_trans htk0 htk
      have hsc0' : sc0 = (taken ++ tk) ++ script' := by rw [hsc0eq, hs, List.append_assoc]
      cases o with
      | data d =>
        obtain ⟨hd, hdle, hrem', hI'⟩ := hout
        have hmu : mu s' script' < mu s script := hlive.2.2
        have hC' : FS.CInv FS.frameDec sc0 (toks ++ d.map .byte) s' script' :=
          ⟨taken ++ tk, hsc0', htkF, by rw [FS.evBytes_append]; exact hI'⟩
        obtain ⟨items, t, hF, hR, hlen, tF, rF, eF, h1, h2, h3, h4⟩ := ih s' script' _ hC' (by omega)
        rw [hrem'] at hR
        refine ⟨.piece d :: items, t, FutS.piece h0 hres hF, Run.piece h0 hd hdle hR,
          by simp only [List.length_cons]; omega, tF, rF, eF, h1, h2, ?_, h4⟩
        simpa [itemToks, List.append_assoc] using h3
      | pending =>
        obtain ⟨hI', hfl, heos', hrem'⟩ := hout
        by_cases hnil : script' = []
        · refine ⟨[], .open_, FutS.dataEnd h0 (by rw [hres]; rfl) (fun _ => by rw [hres]; exact hnil),
            Run.nilD h0 (by intro e h; cases h), by simp,
            taken ++ tk, script', s'.eos, hsc0', htkF, ?_, fun _ => hnil⟩
          obtain ⟨c, hseen, hrun⟩ := hI'.split
          rw [hfl, List.append_nil] at hseen
          rw [hrem', FS.PSt.ofRem_pos h0] at hrun
          simp only [TermOK, itemToks, List.append_nil]
          rw [FS.evBytes_append, hseen, hrun]
          exact ⟨heos', rfl, (by intro hc; cases hc), Or.inl hnil⟩
        · have hsne : script ≠ [] := by
            intro hc; rw [hc] at hs
            have := (List.append_eq_nil_iff.mp hs.symm).2
            exact hnil this
          have hmu : mu s' script' < mu s script := hlive.2.2.1 hsne
          have hC' : FS.CInv FS.frameDec sc0 toks s' script' :=
            ⟨taken ++ tk, hsc0', htkF, by rw [FS.evBytes_append]; exact hI'⟩
          obtain ⟨items, t, hF, hR, hlen, rest⟩ := ih s' script' _ hC' (by omega)
          exact ⟨items, t, FutS.skipD h0 hres hnil hF, by rw [← hrem']; exact hR, by omega, rest⟩
      | errEnd =>
        obtain ⟨heos', _, c, rest, hseen, hrun, hlt⟩ := hout
        refine ⟨[], .truncated, FutS.dataEnd h0 (by rw [hres]; rfl) (fun hc => by cases hc),
          Run.nilD h0 (by intro e h; cases h), by simp,
          taken ++ tk, script', s'.eos, hsc0', htkF, ?_, fun hc => by cases hc⟩
        simp only [TermOK, itemToks, List.append_nil]
        rw [FS.evBytes_append, hseen, FS.run_append, hrun, FS.run_data_short FS.frameDec _ rest hlt]
        exact ⟨heos', Or.inr ⟨_, rest, by omega, rfl, rfl⟩⟩
      | errQuic c =>
        obtain ⟨hs', ⟨r, hr⟩, heosf⟩ := hout
        refine ⟨[], .reset c, FutS.dataEnd h0 (by rw [hres]; rfl) (fun hc => by cases hc),
          Run.nilD h0 (by intro e h; cases h), by simp,
          taken ++ tk, script', s'.eos, hsc0', htkF, ?_, fun hc => by cases hc⟩
        obtain ⟨more, hm⟩ := FS.inv_toks_prefix FS.frameDec hI (FS.evBytes tk)
        simp only [TermOK, itemToks, List.append_nil]
        rw [FS.evBytes_append]
        exact ⟨by rw [hs']; exact heosf, ⟨r, hr⟩, more, hm⟩
      | none =>
        obtain ⟨_, hcase⟩ := hout
        rcases hcase with ⟨hz, _⟩ | ⟨hmax, _⟩
        · exact absurd hz h0
        · omega
      | frame _ => exact absurd hout id
      | errProto _ => exact absurd hout id
      | panic => exact absurd hout id

/-! ### the simulation -/

/-- the configuration `c` satisfies the C02 invariant and the token source `a` holds the answers the
    WAITING model is going to give the canonical reader from `c` -/
def LiftRS (c : FSt) (a : TS) : Prop :=
  FutS c.1 c.2 a.items a.term ∧ a.rem = c.1.remaining ∧
    ∃ seen toks, FS.Inv FS.frameDec seen toks c.1 ∧ FS.ScriptOK c.2

theorem wait_next_unfold (c : FSt) :
    waitSrc.pollNext c =
      if isPend (fsSrc.pollNext c).1 = true ∧ flen (fsSrc.pollNext c).2 ≠ 0 then waitSrc.pollNext (fsSrc.pollNext c).2
      else fsSrc.pollNext c := skipNext_unfold fsLaws c

theorem wait_data_unfold (c : FSt) :
    waitSrc.pollData c =
      if isPend (fsSrc.pollData c).1 = true ∧ flen (fsSrc.pollData c).2 ≠ 0 then waitSrc.pollData (fsSrc.pollData c).2
      else fsSrc.pollData c := skipData_unfold fsLaws c

theorem term_next_pending {t : Term} (h : isPend t.next = true) : t = .open_ := by
  cases t <;> simp [Term.next, isPend] at h
  rfl

theorem term_data_pending {t : Term} (h : isPend t.data = true) : t = .open_ := by
  cases t <;> simp [Term.data, isPend] at h
  rfl

theorem futS_next {s : FS.St} {sc : List FS.Ev} {items : List Item} {t : Term} (hF : FutS s sc items t) :
    ∀ (seen : FS.Bytes) (toks : List RefTok), s.remaining = 0 → FS.Inv FS.frameDec seen toks s → FS.ScriptOK sc →
      (waitSrc.pollNext (s, sc)).1 = (tokSrc.pollNext { items := items, term := t, rem := 0 }).1 ∧
      (contOut (tokSrc.pollNext { items := items, term := t, rem := 0 }).1 = true →
        LiftRS (waitSrc.pollNext (s, sc)).2 (tokSrc.pollNext { items := items, term := t, rem := 0 }).2) := by
  induction hF with
  | @frame s sc f s' sc' items t h0 hc hr _ =>
    intro seen toks _ hI hsc
    have hx := fs_pollNext s sc _ s' sc' hc
    rw [wait_next_unfold, hx, if_neg (by simp [isPend]), tok_next_frame]
    refine ⟨rfl, fun _ => ⟨hr, ?_, ?_⟩⟩
    · exact (kindLen_eq f).trans (FS.pollNext_frame_rem FS.frameDec s s' sc sc' f hc).symm
    · rcases FS.pollNext_preserves FS.frameDec FS.frameDec_laws seen toks s sc hI hsc with ⟨hne, _⟩ | ⟨_, hp⟩
      · exact absurd h0 hne
      · rw [hc] at hp
        obtain ⟨tk, hs, htk, hout⟩ := hp
        exact ⟨_, _, hout, by rw [hs] at hsc; exact FS.scriptOK_suffix hsc⟩
  | @skipN s sc s' sc' items t h0 hc hne hr ih =>
    intro seen toks _ hI hsc
    have hx := fs_pollNext s sc _ s' sc' hc
    rw [wait_next_unfold, hx, if_pos ⟨rfl, by simpa [flen] using hne⟩]
    rcases FS.pollNext_preserves FS.frameDec FS.frameDec_laws seen toks s sc hI hsc with ⟨hne', _⟩ | ⟨_, hp⟩
    · exact absurd h0 hne'
    · rw [hc] at hp
      obtain ⟨tk, hs, htk, hI', _, _, hrem⟩ := hp
      exact ih _ _ hrem hI' (by rw [hs] at hsc; exact FS.scriptOK_suffix hsc)
  | @nextEnd s sc t h0 hc hfin =>
    intro seen toks _ hI hsc
    rcases hq : FS.pollNext FS.frameDec s sc with ⟨o, s1, sc1⟩
    have hx := fs_pollNext s sc _ s1 sc1 hq
    rw [hq] at hc hfin
    simp only at hc hfin
    have hcond : ¬ (isPend o = true ∧ flen (s1, sc1) ≠ 0) := by
      rintro ⟨h1, h2⟩
      rw [hc] at h1
      have := hfin (term_next_pending h1)
      simp [flen, this] at h2
    rw [wait_next_unfold, hx, if_neg hcond, tok_next_nil]
    refine ⟨hc, fun hcont => ?_⟩
    cases t with
    | fin =>
      simp only [Term.next] at hc
      subst hc
      rcases FS.pollNext_preserves FS.frameDec FS.frameDec_laws seen toks s sc hI hsc with ⟨hne', _⟩ | ⟨_, hp⟩
      · exact absurd h0 hne'
      · rw [hq] at hp
        obtain ⟨tk, hs, htk, hI', hfl, heos', hrem'⟩ := hp
        have hsc1 : FS.ScriptOK sc1 := by rw [hs] at hsc; exact FS.scriptOK_suffix hsc
        refine ⟨FutS.nextEnd hrem' ?_ (fun hc => by cases hc), by simp only; rw [hrem'], _, _, hI', hsc1⟩
        rw [FS.pollNext_at_end FS.frameDec s1 sc1 hrem' heos' hfl]
        rfl
    | _ => simp [Term.next, contOut] at hcont
  | piece h0 _ _ _ => intro _ _ h; exact absurd h h0
  | skipD h0 _ _ _ _ => intro _ _ h; exact absurd h h0
  | dataEnd h0 _ _ => intro _ _ h; exact absurd h h0

theorem futS_data {s : FS.St} {sc : List FS.Ev} {items : List Item} {t : Term} (hF : FutS s sc items t) :
    ∀ (seen : FS.Bytes) (toks : List RefTok), s.remaining ≠ 0 → FS.Inv FS.frameDec seen toks s → FS.ScriptOK sc →
      (waitSrc.pollData (s, sc)).1 = (tokSrc.pollData { items := items, term := t, rem := s.remaining }).1 ∧
      (contOut (tokSrc.pollData { items := items, term := t, rem := s.remaining }).1 = true →
        LiftRS (waitSrc.pollData (s, sc)).2 (tokSrc.pollData { items := items, term := t, rem := s.remaining }).2) := by
  induction hF with
  | @piece s sc d s' sc' items t h0 hc hr _ =>
    intro seen toks _ hI hsc
    have hx := fs_pollData s sc _ s' sc' hc
    rw [wait_data_unfold, hx, if_neg (by simp [isPend]), tok_data_piece d items t s.remaining h0]
    have hp := FS.pollData_spec FS.frameDec seen toks s sc hI hsc
    rw [hc] at hp
    obtain ⟨tk, hs, htk, _, _, hrem', hI'⟩ := hp
    exact ⟨rfl, fun _ => ⟨hr, hrem'.symm, _, _, hI', by rw [hs] at hsc; exact FS.scriptOK_suffix hsc⟩⟩
  | @skipD s sc s' sc' items t h0 hc hne hr ih =>
    intro seen toks _ hI hsc
    have hx := fs_pollData s sc _ s' sc' hc
    rw [wait_data_unfold, hx, if_pos ⟨rfl, by simpa [flen] using hne⟩]
    have hp := FS.pollData_spec FS.frameDec seen toks s sc hI hsc
    rw [hc] at hp
    obtain ⟨tk, hs, htk, hI', _, _, hrem'⟩ := hp
    have := ih _ _ (by rw [hrem']; exact h0) hI' (by rw [hs] at hsc; exact FS.scriptOK_suffix hsc)
    rw [hrem'] at this
    exact this
  | @dataEnd s sc t h0 hc hfin =>
    intro seen toks _ hI hsc
    rcases hq : FS.pollData (F := Frame) (E := FrameErr) s sc with ⟨o, s1, sc1⟩
    have hx := fs_pollData s sc _ s1 sc1 hq
    rw [hq] at hc hfin
    simp only at hc hfin
    have hcond : ¬ (isPend o = true ∧ flen (s1, sc1) ≠ 0) := by
      rintro ⟨h1, h2⟩
      rw [hc] at h1
      have := hfin (term_data_pending h1)
      simp [flen, this] at h2
    rw [wait_data_unfold, hx, if_neg hcond, tok_data_nil t s.remaining h0]
    refine ⟨hc, fun hcont => ?_⟩
    cases t <;> simp [Term.data, contOut] at hcont
  | frame h0 _ _ _ => intro _ _ h; exact absurd h0 h
  | skipN h0 _ _ _ _ => intro _ _ h; exact absurd h0 h
  | nextEnd h0 _ _ => intro _ _ h; exact absurd h0 h

theorem liftRS_eosL (c : FSt) (a : TS) (h : LiftRS c a) (he : fsSrc.isEos c = true)
    (hd : tokSrc.hasData a = false) : (tokSrc.pollNext a).1 = .none ∧ LiftRS c (tokSrc.pollNext a).2 := by
  obtain ⟨s, sc⟩ := c
  obtain ⟨items, term, rem⟩ := a
  have h' := h
  obtain ⟨hF, hrem, seen, toks, hI, hsc⟩ := h
  simp only at hF hrem hI hsc
  subst hrem
  have h0 : s.remaining = 0 := by simpa using hd
  have heos : s.eos = true ∧ s.flat = [] := by
    simpa [fsSrc] using he
  have hnone := FS.pollNext_at_end FS.frameDec s sc h0 heos.1 heos.2
  cases hF with
  | frame _ hc _ => rw [hc] at hnone; cases hnone
  | skipN _ hc _ _ => rw [hc] at hnone; cases hnone
  | nextEnd _ hc _ =>
    rw [hnone] at hc
    have e2 : tokSrc.pollNext { items := [], term := term, rem := s.remaining } =
        (term.next, { items := [], term := term, rem := s.remaining }) := by
      rw [h0]; exact tok_next_nil _
    rw [e2]
    exact ⟨hc.symm, h'⟩
  | piece h0' _ _ => exact absurd h0 h0'
  | skipD h0' _ _ _ => exact absurd h0 h0'
  | dataEnd h0' _ _ => exact absurd h0 h0'

/-- the WAITING `FrameStream` model over any transport script answers like the token source holding
    its future answers, as long as the documented pattern goes on -/
theorem liftRS_sim : FrameSimP waitSrc tokSrc LiftRS where
  hasData := by
    intro c a h
    obtain ⟨_, hrem, _⟩ := h
    show fsSrc.hasData c = _
    simp only [fsSrc, tok_hasData, hrem]
  next := by
    intro c a h
    obtain ⟨s, sc⟩ := c
    obtain ⟨items, term, rem⟩ := a
    obtain ⟨hF, hrem, seen, toks, hI, hsc⟩ := h
    simp only at hF hrem hI hsc
    subst hrem
    by_cases h0 : s.remaining = 0
    · have := futS_next hF seen toks h0 hI hsc
      rw [h0]
      exact this
    · -- `poll_next` inside a DATA payload: the `assert!` on both sides
      have hp : FS.pollNext FS.frameDec s sc = (.panic, s, sc) := by
        unfold FS.pollNext; rw [if_pos h0]
      have hx := fs_pollNext s sc _ s sc hp
      rw [wait_next_unfold, hx, if_neg (by simp [isPend])]
      have e2 : tokSrc.pollNext { items := items, term := term, rem := s.remaining } =
          (.panic, { items := items, term := term, rem := s.remaining }) := by
        simp [tokSrc, h0]
      rw [e2]
      exact ⟨rfl, fun hc => by simp [contOut] at hc⟩
  data := by
    intro c a h
    obtain ⟨s, sc⟩ := c
    obtain ⟨items, term, rem⟩ := a
    have h' := h
    obtain ⟨hF, hrem, seen, toks, hI, hsc⟩ := h
    simp only at hF hrem hI hsc
    subst hrem
    by_cases h0 : s.remaining = 0
    · have hp : FS.pollData (F := Frame) (E := FrameErr) s sc = (.none, s, sc) := by
        unfold FS.pollData; rw [if_pos h0]
      have hx := fs_pollData s sc _ s sc hp
      rw [wait_data_unfold, hx, if_neg (by simp [isPend])]
      have e2 : tokSrc.pollData { items := items, term := term, rem := s.remaining } =
          (.none, { items := items, term := term, rem := s.remaining }) := by
        simp [tokSrc, h0]
      rw [e2]
      exact ⟨rfl, fun _ => h'⟩
    · exact futS_data hF seen toks h0 hI hsc
  eosL := fun c a h he _ hd => liftRS_eosL c a h he hd
  eosR := by
    intro c a _ _ h
    simp at h


/-! ### the token list of a script, for the waiting model -/

/-- as `Tied`, and the ending `open_` means that the script is used up (every `Pending` before was
    waited out) -/
def TiedS (sc : List FS.Ev) (toks : List Tok) (e : Ending) : Prop :=
  (∃ taken rest eos, sc = taken ++ rest ∧ FS.TakenOK false eos taken ∧
    TermOK (FS.run FS.frameDec (.hdr []) (FS.evBytes taken)) (itemToks (compile toks e).1) eos taken
      rest (compile toks e).2 ∧ ((compile toks e).2 = .open_ → rest = [])) ∧
  toks.map kind = kindsOf (itemToks (compile toks e).1 ++ protoToks (compile toks e).2)

theorem TiedS.tied {sc : List FS.Ev} {toks : List Tok} {e : Ending} (h : TiedS sc toks e) : Tied sc toks e := by
  obtain ⟨⟨taken, rest, eos, h1, h2, h3, _⟩, hk⟩ := h
  exact ⟨⟨taken, rest, eos, h1, h2, h3⟩, hk⟩

theorem liftS_exists (sc : List FS.Ev) (hsc : FS.ScriptOK sc)
    (hraw : NoRaw (FS.evBytes (FS.upToFin sc))) :
    ∃ toks e, LiftRS ({}, sc) (TS.ofToks toks e) ∧ (∀ tok ∈ toks, TokWF tok) ∧
      (compile toks e).1.length + 2 ≤ fsFuel ({}, sc) ∧ TiedS sc toks e := by
  have hC : FS.CInv FS.frameDec sc [] {} sc :=
    ⟨[], by simp, by simp [FS.TakenOK], by simpa [FS.evBytes] using FS.inv_init FS.frameDec⟩
  obtain ⟨items, t, hF, hR, hlen, tF, rF, eF, h1, h2, h3, h4⟩ :=
    futS_exists sc hsc hraw (mu {} sc + 1) {} sc [] hC (by omega)
  have hR0 : Run 0 items t := hR
  obtain ⟨hc, _, hwf⟩ := compile_decompile hR0
  have hc := hc rfl
  refine ⟨(decompile items t).1, (decompile items t).2, ?_, hwf, ?_, ⟨tF, rF, eF, h1, h2, ?_, ?_⟩, ?_⟩
  · refine ⟨?_, ?_, [], [], FS.inv_init FS.frameDec, hsc⟩
    · simp only [TS.ofToks, hc]; exact hF
    · simp only [TS.ofToks]
  · rw [hc]
    simp only [fsFuel, scriptBytes_eq]
    simp only [mu, FS.St.flat, List.flatten_nil, List.length_nil] at hlen ⊢
    omega
  · rw [hc]
    simpa using h3
  · rw [hc]
    exact h4
  · rw [hc]
    exact decompile_kinds t items

/-- chunks and `Pending`s only: no FIN, no RESET -/
def NoEnd (l : List FS.Ev) : Prop := ∀ ev ∈ l, (∃ b, ev = FS.Ev.chunk b) ∨ ev = FS.Ev.pend

def noEndB (sc : List FS.Ev) : Bool :=
  sc.all fun ev => match ev with | .chunk _ => true | .pend => true | _ => false

theorem noEnd_iff (sc : List FS.Ev) : NoEnd sc ↔ noEndB sc = true := by
  unfold NoEnd noEndB
  rw [List.all_eq_true]
  constructor
  · intro h ev hev
    rcases h ev hev with ⟨b, rfl⟩ | rfl <;> rfl
  · intro h ev hev
    have := h ev hev
    cases ev with
    | chunk b => exact Or.inl ⟨b, rfl⟩
    | pend => exact Or.inr rfl
    | _ => simp at this

instance (sc : List FS.Ev) : Decidable (NoEnd sc) := decidable_of_iff _ (noEnd_iff sc).symm

theorem noEnd_fin {l : List FS.Ev} (h : NoEnd l) : FS.Ev.fin ∉ l := fun hm => by
  rcases h _ hm with ⟨b, hb⟩ | hb <;> cases hb

theorem noEnd_reset {l : List FS.Ev} (h : NoEnd l) (c : Nat) : FS.Ev.reset c ∉ l := fun hm => by
  rcases h _ hm with ⟨b, hb⟩ | hb <;> cases hb

/-- FIN behind chunks and `Pending`s in any order, the bytes ending on a frame boundary or inside a
    frame header / a payload other than DATA: the ending is the one the reference automaton's final
    state dictates, and the recogniser's input is read off its tokens over the bytes — the same for
    every cutting and every schedule -/
theorem tiedS_fin_exact {pre post : List FS.Ev} {toks : List Tok} {e : Ending} {acc : FS.Bytes}
    (hpre : NoEnd pre) (h : TiedS (pre ++ .fin :: post) toks e)
    (hc : (FS.run FS.frameDec (.hdr []) (FS.evBytes pre)).1 = .hdr acc) :
    e = (if acc = [] then .fin else .truncated) ∧
    toks.map kind = kindsOf (FS.run FS.frameDec (.hdr []) (FS.evBytes pre)).2 := by
  obtain ⟨⟨taken, rest, eos, hsplit, htk, hT, hopen⟩, hk⟩ := h
  have hfin := noEnd_fin hpre
  have hreset := noEnd_reset hpre
  simp only [FS.TakenOK, Bool.false_eq_true, if_false] at htk
  have key_false : eos = false → ∃ y, pre = taken ++ y ∧ rest = y ++ .fin :: post := by
    intro he
    rw [he] at htk
    exact split_before hsplit.symm (by simpa using htk.2)
  have key_true : eos = true → FS.evBytes taken = FS.evBytes pre := by
    intro he
    rw [he] at htk
    simp only [if_true] at htk
    obtain ⟨p, hp, hpf⟩ := htk.2
    rw [hp] at hsplit
    rw [hp, split_at hsplit.symm hpf hfin, evBytes_snoc_fin]
  have hend := (ending_of_term (e := e) (toks := toks)).1
  have hsnd := compile_snd e toks
  revert hend hk hT hopen hsnd
  generalize (compile toks e).2 = t
  generalize itemToks (compile toks e).1 = all
  intro hk hT hopen hend hsnd
  cases t with
  | fin =>
    obtain ⟨he, h1, h2⟩ := hT
    rw [key_true he] at h1 h2
    rw [hc] at h1
    simp only [FS.PSt.hdr.injEq] at h1
    refine ⟨by rw [if_pos h1]; exact hend rfl, ?_⟩
    rw [hk, h2]
    simp [protoToks]
  | truncated =>
    obtain ⟨he, h1⟩ := hT
    rw [key_true he, hc] at h1
    rcases h1 with ⟨acc', hne, h2, h3⟩ | ⟨_, _, _, h2, _⟩
    · simp only [FS.PSt.hdr.injEq] at h2
      subst h2
      refine ⟨?_, ?_⟩
      · rw [if_neg hne]
        rcases hsnd with hs | ⟨err, hs⟩
        · cases e <;> simp [Ending.term] at hs
          rfl
        · cases hs
      · rw [hk, h3]
        simp [protoToks]
    · cases h2
  | open_ =>
    obtain ⟨he, _, _, _⟩ := hT
    obtain ⟨y, _, h2⟩ := key_false he
    have := hopen rfl
    rw [this] at h2
    simp at h2
  | reset c =>
    obtain ⟨he, ⟨r, hr⟩, _⟩ := hT
    obtain ⟨y, h1, h2⟩ := key_false he
    rw [hr] at h2
    cases y with
    | nil => simp at h2
    | cons z y' =>
      simp only [List.cons_append, List.cons.injEq] at h2
      exact absurd (by rw [h1, ← h2.1]; simp) (hreset c)
  | proto err =>
    obtain ⟨h1, _⟩ := hT
    exfalso
    cases he : eos with
    | true =>
      rw [key_true he, hc] at h1
      cases h1
    | false =>
      obtain ⟨y, h2, _⟩ := key_false he
      rw [h2, FS.evBytes_append, FS.run_append, h1, FS.run_dead] at hc
      cases hc

/-- chunks and `Pending`s in any order, nothing else (the stream is still open), no protocol error in
    the bytes: the ending is `open_` — reached only when the script is used up, every `Pending`
    before waited out — and the recogniser's input is read off the automaton's tokens over ALL
    the bytes -/
theorem tiedS_open_exact {sc : List FS.Ev} {toks : List Tok} {e : Ending} (hsc : NoEnd sc)
    (h : TiedS sc toks e) (hc : (FS.run FS.frameDec (.hdr []) (FS.evBytes sc)).1 ≠ .dead) :
    e = .open_ ∧ toks.map kind = kindsOf (FS.run FS.frameDec (.hdr []) (FS.evBytes sc)).2 := by
  obtain ⟨⟨taken, rest, eos, hsplit, htk, hT, hopen⟩, hk⟩ := h
  have hfin := noEnd_fin hsc
  have hreset := noEnd_reset hsc
  simp only [FS.TakenOK, Bool.false_eq_true, if_false] at htk
  have key_true : eos = true → False := by
    intro he
    rw [he] at htk
    simp only [if_true] at htk
    obtain ⟨p, hp, _⟩ := htk.2
    exact hfin (by rw [hsplit, hp]; simp)
  have hend := (ending_of_term (e := e) (toks := toks)).2
  revert hend hk hT hopen
  generalize (compile toks e).2 = t
  generalize itemToks (compile toks e).1 = all
  intro hk hT hopen hend
  cases t with
  | fin => exact (key_true hT.1).elim
  | truncated => exact (key_true hT.1).elim
  | open_ =>
    obtain ⟨_, h2, _, _⟩ := hT
    have hr := hopen rfl
    rw [hr, List.append_nil] at hsplit
    rw [← hsplit] at h2
    refine ⟨hend rfl, ?_⟩
    rw [hk, h2]
    simp [protoToks]
  | reset c =>
    obtain ⟨_, ⟨r, hr⟩, _⟩ := hT
    exact absurd (by rw [hsplit, hr]; simp) (hreset c)
  | proto err =>
    obtain ⟨h1, _⟩ := hT
    exfalso
    apply hc
    rw [hsplit, FS.evBytes_append, FS.run_append, h1, FS.run_dead]

/-! ### the token source never answers the model artefact `invalid` -/

theorem tok_prd : ∀ (items : List Item) (f : Nat) (st : St TS), st.src.items = items → items.length + 1 ≤ f →
    (pollRecvData tokSrc f st).1 ≠ .invalid ∧
    (∀ d, (pollRecvData tokSrc f st).1 = .data d → (pollRecvData tokSrc f st).2.src.items.length < items.length) := by
  intro items
  induction items with
  | nil =>
    intro f st hi hf
    obtain ⟨f', rfl⟩ : ∃ f', f = f' + 1 := ⟨f - 1, by omega⟩
    obtain ⟨⟨its, t, k⟩, tr, env⟩ := st
    simp only at hi; subst hi
    unfold pollRecvData
    by_cases hk : k = 0
    · subst hk
      cases t <;> simp [tok_next_nil, Term.next, fsErr, connErr, frameErrCode] <;> (try split) <;> simp
    · cases t <;> simp [hk, tok_data_nil, Term.data, dataOut, fsErr, connErr, frameErrCode] <;> (try split) <;> simp
  | cons it r ih =>
    intro f st hi hf
    obtain ⟨f', rfl⟩ : ∃ f', f = f' + 1 := ⟨f - 1, by omega⟩
    obtain ⟨⟨its, t, k⟩, tr, env⟩ := st
    simp only at hi; subst hi
    rw [pollRecvData]
    by_cases hk : k = 0
    · subst hk
      cases it with
      | piece b => simp [tokSrc, fsErr]
      | frame fr =>
        cases fr with
        | data n =>
          simp only [tok_hasData, tok_next_frame]
          simp only [bne_self_eq_false, Bool.false_eq_true, if_false]
          obtain ⟨h1, h2⟩ := ih f' { src := { items := r, term := t, rem := kindLen (.data n) }, trailers := tr, env := env }
            rfl (by simp at hf; omega)
          refine ⟨h1, fun d hd => ?_⟩
          have := h2 d hd
          simp only [List.length_cons]
          omega
        | headers enc => simp [tok_next_frame]
        | _ => simp [tok_next_frame, connErr] <;> split <;> simp
    · cases it with
      | piece b => simp [hk, tok_data_piece, dataOut]
      | frame fr => simp [hk, tokSrc, dataOut, fsErr]

theorem tok_drain_no_invalid : ∀ (fuel : Nat) (st : St TS), st.src.items.length + 1 ≤ fuel →
    ∀ r ∈ (drain tokSrc fuel st).1, r ≠ .invalid := by
  intro fuel
  induction fuel with
  | zero => intro st h; omega
  | succ f ih =>
    intro st h r hr
    obtain ⟨h1, h2⟩ := tok_prd st.src.items (f + 1) st rfl h
    rw [drain] at hr
    rcases hq : pollRecvData tokSrc (f + 1) st with ⟨x, st'⟩
    rw [hq] at hr h1 h2
    simp only at h1 h2
    cases x with
    | data d =>
      simp only [List.mem_cons] at hr
      rcases hr with rfl | hr
      · simp
      · exact ih st' (by have := h2 d rfl; omega) r hr
    | invalid => exact absurd rfl h1
    | _ => simp only [List.mem_singleton] at hr; subst hr; simp

theorem tok_next_items (a : TS) : (tokSrc.pollNext a).2.items.length ≤ a.items.length := by
  obtain ⟨items, t, k⟩ := a
  simp only [tokSrc]
  by_cases hk : k = 0
  · subst hk
    cases items with
    | nil => simp
    | cons it r => cases it <;> simp
  · simp [hk]

theorem documentedFrames_no_invalid (role : Role) (H : Hdr) (fuel : Nat) (toks : List Tok) (e : Ending)
    (h : (compile toks e).1.length + 2 ≤ fuel) :
    ∀ r ∈ (documentedFrames role H fuel toks e).body, r ≠ .invalid := by
  unfold documentedFrames documented
  have hlen : (pollHead role tokSrc H { src := TS.ofToks toks e }).2.src.items.length ≤ (compile toks e).1.length := by
    rw [pollHead_eq, headOut_src]
    exact tok_next_items _
  rcases hq : pollHead role tokSrc H { src := TS.ofToks toks e } with ⟨hd, st1⟩
  rw [hq] at hlen
  simp only at hlen
  cases hd with
  | head b =>
    simp only [bodyRun]
    intro r hr
    have : r ∈ (drain tokSrc fuel st1).1 := by
      revert hr
      split <;> exact id
    exact tok_drain_no_invalid fuel st1 (by omega) r this
  | _ => intro r hr; simp at hr


end H3.ReqRecv
