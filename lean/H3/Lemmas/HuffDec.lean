import H3.Model.Huffman
import H3.Lemmas.Bits
import H3.Lemmas.HuffWalk
/-! Byte level → bit level for the Huffman decoder model: `read_bits`, `check_eof`. -/
namespace H3.Huffman
open H3.Bits
open H3.Gen.HuffDec (Level Entry)

/-- all elements are bytes -/
def WF (bs : List Nat) : Prop := ∀ b ∈ bs, b < 256

theorem getD_of_drop (src : List Nat) (i a : Nat) (post : List Nat) (h : src.drop i = a :: post) :
    src.getD i 0 = a := by
  have : (src.drop i)[0]? = some a := by rw [h]; rfl
  rw [List.getElem?_drop, Nat.add_zero] at this
  simp [List.getD, this]

private theorem arith1 : ∀ a < 256, ∀ bit < 8, ∀ len < 9, 1 ≤ len → bit + len ≤ 8 →
    ((a <<< bit) % 256) >>> (8 - len) = a / 2 ^ (8 - bit - len) % 2 ^ len := by decide +kernel

private theorem arith2 (x bit len : Nat) (hbit : bit < 8) (hl : len ≤ 8)
    (hs : 8 < bit + len) :
    (((x <<< bit) % 65536) >>> (16 - len)) % 256 = x / 2 ^ (16 - bit - len) % 2 ^ len := by
  rw [Nat.shiftLeft_eq, Nat.shiftRight_eq_div_pow]
  have hb : bit = 1 ∨ bit = 2 ∨ bit = 3 ∨ bit = 4 ∨ bit = 5 ∨ bit = 6 ∨ bit = 7 := by omega
  have hl : len = 2 ∨ len = 3 ∨ len = 4 ∨ len = 5 ∨ len = 6 ∨ len = 7 ∨ len = 8 := by omega
  rcases hb with rfl | rfl | rfl | rfl | rfl | rfl | rfl <;>
    rcases hl with rfl | rfl | rfl | rfl | rfl | rfl | rfl <;>
    first | omega | (simp only [Nat.reducePow, Nat.reduceSub]; omega)

theorem readBits_none (src : List Nat) (byte bit len : Nat)
    (h : len = 0 ∨ len > 8 ∨ src.length * 8 < byte * 8 + bit + len) :
    readBits src byte bit len = none := by
  unfold readBits; rw [if_pos h]

/-- `read_bits` returns the addressed bits, as a big-endian number. -/
theorem readBits_eq (src : List Nat) (hsrc : WF src) (byte bit len : Nat) (hbit : bit < 8)
    (hl1 : 1 ≤ len) (hl8 : len ≤ 8) (hfit : byte * 8 + bit + len ≤ src.length * 8) :
    readBits src byte bit len = some (val (((bitsOf src).drop (8 * byte + bit)).take len)) := by
  unfold readBits
  rw [if_neg (by omega)]
  have hb8 : bit / 8 = 0 := by omega
  simp only [hb8, Nat.add_zero, Nat.zero_mul, Nat.sub_zero]
  have hlt : byte < src.length := by omega
  obtain ⟨a, post, hd⟩ : ∃ a post, src.drop byte = a :: post := by
    cases h : src.drop byte with
    | nil => simp at h; omega
    | cons a post => exact ⟨a, post, rfl⟩
  have ha : a < 256 := hsrc a (List.mem_of_mem_drop (by rw [hd]; simp))
  have hga := getD_of_drop src byte a post hd
  have hdrop : (bitsOf src).drop (8 * byte + bit) = (bitsN 8 a ++ bitsOf post).drop bit := by
    rw [← List.drop_drop, drop_bitsOf, hd, bitsOf]
  rw [hdrop, hga]
  by_cases hs : bit + len ≤ 8
  · rw [if_pos hs]
    congr 1
    rw [List.drop_append_of_le_length (by simp; omega),
      List.take_append_of_le_length (by simp; omega), val_take_drop_bitsN 8 bit len a hs]
    exact arith1 a ha bit hbit len (by omega) hl1 hs
  · rw [if_neg hs]
    have hlt2 : byte + 1 < src.length := by omega
    obtain ⟨b, post', hp⟩ : ∃ b post', post = b :: post' := by
      cases post with
      | nil =>
        have := congrArg List.length hd
        simp at this; omega
      | cons b post' => exact ⟨b, post', rfl⟩
    subst hp
    have hb : b < 256 := hsrc b (List.mem_of_mem_drop (by rw [hd]; simp))
    have hd1 : src.drop (byte + 1) = b :: post' := by
      rw [← List.drop_drop, hd]; rfl
    have hgb := getD_of_drop src (byte + 1) b post' hd1
    rw [hgb]
    congr 1
    have hor : (a <<< 8) ||| b = a * 256 + b := by
      rw [← Nat.shiftLeft_add_eq_or_of_lt (by simpa using hb), Nat.shiftLeft_eq]
    rw [hor, bitsOf, ← List.append_assoc, bitsN8_pair a b hb,
      List.drop_append_of_le_length (by simp; omega),
      List.take_append_of_le_length (by simp; omega),
      val_take_drop_bitsN 16 bit len _ (by omega)]
    exact arith2 _ bit len hbit hl8 (by omega)

/-! ### `check_eof` -/

/-- what `check_eof` makes of the bits `q` between the current level's start and the end of the
    input: accepted iff there are none, or at most eight (the rest of the last byte), all ones -/
def eofOK (q : List Bool) : Bool := q.isEmpty || (decide (q.length ≤ 8) && q.all (· == true))

private theorem filler_eq : ∀ bit < 8, ((2 <<< (8 - bit % 8 - 1)) - 1) % 256 = 2 ^ (8 - bit) - 1 := by
  decide

theorem checkEof_spec (inp : List Nat) (hinp : WF inp) (w : BitWindow) (hbit : w.bit < 8)
    (hstart : 8 * w.byte + w.bit ≤ 8 * inp.length) :
    (eofOK ((bitsOf inp).drop (8 * w.byte + w.bit)) = true → checkEof w inp = .ok ()) ∧
    (eofOK ((bitsOf inp).drop (8 * w.byte + w.bit)) = false →
      ∃ w', checkEof w inp = .error (.missingBits w')) := by
  have hql : ((bitsOf inp).drop (8 * w.byte + w.bit)).length = 8 * inp.length - (8 * w.byte + w.bit) := by
    simp
  generalize hq : (bitsOf inp).drop (8 * w.byte + w.bit) = q at hql
  unfold checkEof
  by_cases h1 : w.byte + 1 > inp.length
  · rw [if_pos h1]
    have : q = [] := List.eq_nil_of_length_eq_zero (by omega)
    subst this
    simp [eofOK]
  · rw [if_neg h1]
    by_cases h2 : w.byte + 1 = inp.length
    · rw [if_pos h2]
      have hlen : q.length = 8 - w.bit := by omega
      have hrd : readBits inp w.opposite.byte w.opposite.bit w.opposite.count = some (val q) := by
        have hc : w.opposite.count = 8 - w.bit := by
          simp only [BitWindow.opposite]; omega
        rw [hc]
        simp only [BitWindow.opposite]
        rw [readBits_eq inp hinp w.byte w.bit (8 - w.bit) hbit (by omega) (by omega) (by omega), hq,
          List.take_of_length_le (by omega)]
      simp only [hrd]
      have hf : ((2 <<< (w.opposite.count - 1)) - 1) % 256 = 2 ^ q.length - 1 := by
        simp only [BitWindow.opposite]
        rw [hlen]; exact filler_eq w.bit hbit
      rw [hf, Nat.and_two_pow_sub_one_eq_mod, Nat.mod_eq_of_lt (val_lt q)]
      have hne : q.isEmpty = false := by
        cases q with
        | nil => simp at hlen; omega
        | cons _ _ => rfl
      have hle : decide (q.length ≤ 8) = true := by simp; omega
      simp only [eofOK, hne, hle, Bool.false_or, Bool.true_and]
      constructor
      · intro h
        rw [if_pos ((val_eq_ones_iff q).mpr h)]
      · intro h
        rw [if_neg (fun hv => by rw [(val_eq_ones_iff q).mp hv] at h; cases h)]
        exact ⟨_, rfl⟩
    · rw [if_neg h2]
      have hlen : q.length > 8 := by omega
      have hne : q.isEmpty = false := by
        cases q with
        | nil => simp at hlen
        | cons _ _ => rfl
      have hle : decide (q.length ≤ 8) = false := by simp; omega
      simp only [eofOK, hne, hle, Bool.false_or, Bool.false_and]
      exact ⟨fun h => Bool.noConfusion h, fun _ => ⟨_, rfl⟩⟩

/-! ### the level walker on bytes is the level walker on bits -/

/-- `res` (a `decode_next` result on `inp`) is what the bit-level walk predicts -/
def Rel (inp : List Nat) (res : BitWindow × Step) : WalkRes → Prop
  | .sym s rest => res.2 = .sym s ∧ res.1.endPos + rest.length = 8 * inp.length
  | .short q => (eofOK q = true → res.2 = .done) ∧
      (eofOK q = false → ∃ w, res.2 = .err (.missingBits w)) ∧
      8 * res.1.byte + res.1.bit + q.length = 8 * inp.length
  | .unhandled => ∃ w v, res.2 = .err (.unhandled w v)

theorem forwards_start (w : BitWindow) (k : Nat) :
    8 * (w.forwards k).byte + (w.forwards k).bit = w.endPos ∧ (w.forwards k).bit < 8 ∧
    (w.forwards k).count = k := by
  refine ⟨?_, ?_, rfl⟩ <;> simp only [BitWindow.forwards, BitWindow.endPos] <;> omega

mutual
theorem bridgeL (inp : List Nat) (hinp : WF inp) : ∀ (l : Level) (w : BitWindow),
    w.endPos ≤ 8 * inp.length →
    Rel inp (decodeNext l w inp) (walkL l ((bitsOf inp).drop w.endPos))
  | .mk k tbl, w, hpos => by
    obtain ⟨hs, hb, hc⟩ := forwards_start w k
    have htl : ((bitsOf inp).drop w.endPos).length = 8 * inp.length - w.endPos := by simp
    rw [decodeNext, walkL_mk]
    by_cases hcond : k = 0 ∨ k > 8 ∨ ((bitsOf inp).drop w.endPos).length < k
    · rw [if_pos hcond]
      have hrd : readBits inp (w.forwards k).byte (w.forwards k).bit (w.forwards k).count = none := by
        apply readBits_none
        rw [hc]; omega
      simp only [hrd]
      have hce := checkEof_spec inp hinp (w.forwards k) hb (by omega)
      rw [hs] at hce
      simp only [Rel]
      refine ⟨?_, ?_, ?_⟩
      · intro h; rw [hce.1 h]
      · intro h; obtain ⟨w', hw'⟩ := hce.2 h; rw [hw']; exact ⟨w', rfl⟩
      · cases hck : checkEof (w.forwards k) inp with
        | ok u => cases u; simp only; omega
        | error e => simp only; omega
    · rw [if_neg hcond]
      have hrd : readBits inp (w.forwards k).byte (w.forwards k).bit (w.forwards k).count =
          some (val (((bitsOf inp).drop w.endPos).take k)) := by
        rw [hc, readBits_eq inp hinp _ _ k hb (by omega) (by omega) (by omega), hs]
      simp only [hrd]
      have he : (w.forwards k).endPos = w.endPos + k := by
        simp only [BitWindow.endPos] at hs ⊢; omega
      have := bridgeT inp hinp tbl (val (((bitsOf inp).drop w.endPos).take k))
        (val (((bitsOf inp).drop w.endPos).take k)) (w.forwards k) (by omega)
      rw [he, ← List.drop_drop] at this
      exact this
theorem bridgeT (inp : List Nat) (hinp : WF inp) : ∀ (tbl : List Entry) (i v : Nat) (w : BitWindow),
    w.endPos ≤ 8 * inp.length →
    Rel inp (tableGet tbl i v w inp) (walkT tbl i ((bitsOf inp).drop w.endPos))
  | [], i, v, w, _ => by
    rw [tableGet, walkT]; exact ⟨w, v, rfl⟩
  | e :: _, 0, v, w, hpos => by
    rw [tableGet, walkT]; exact bridgeE inp hinp e w hpos
  | _ :: es, i+1, v, w, hpos => by
    rw [tableGet, walkT]; exact bridgeT inp hinp es i v w hpos
theorem bridgeE (inp : List Nat) (hinp : WF inp) : ∀ (e : Entry) (w : BitWindow),
    w.endPos ≤ 8 * inp.length →
    Rel inp (entryGo e w inp) (walkE e ((bitsOf inp).drop w.endPos))
  | .sym s, w, hpos => by
    rw [entryGo, walkE]
    refine ⟨rfl, ?_⟩
    simp; omega
  | .sub l, w, hpos => by
    rw [entryGo, walkE]; exact bridgeL inp hinp l w hpos
end

end H3.Huffman
