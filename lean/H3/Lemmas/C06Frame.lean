import H3.Lemmas.FrameStreamReader
import H3.Lemmas.FrameLaws
import H3.Lemmas.C04
import H3.Props.C16
/-! Frame-layer facts for C06 (`H3.FS.pollNext` / `H3.FS.pollData`).

    Part 1 ("safe") needs no invariant and no assumption on the chunking: what the two calls can
    answer, what they do to `remaining_data` and to `eos`, that bytes stay bytes, and that nothing
    is `Pending` once the end of the stream has been read or a reset is the next event.

    Part 2 ("live") adds the C02 invariant (`Inv`, for scripts of non-empty chunks): every answer
    other than an error keeps the invariant, frames / data pieces / retried `Pending`s strictly
    decrease the measure `mu` (events + bytes still to come + bytes buffered), and a script that
    contains the end of the stream keeps containing it until it has been read. -/
namespace H3.C06
open H3.FS
open H3.Varint (WF)
open H3.Lemmas.C04 (ScriptWF)

variable {F E : Type}

/-! ## Part 1: facts that need no invariant -/

/-- every buffered chunk consists of bytes -/
def BufWF (s : St) : Prop := ∀ c ∈ s.buf, WF c

theorem wf_drop {a : Bytes} (n : Nat) (h : WF a) : WF (a.drop n) :=
  fun x hx => h x (List.mem_of_mem_drop hx)

theorem wf_flatten {bs : List Bytes} (h : ∀ c ∈ bs, WF c) : WF bs.flatten := by
  intro x hx
  obtain ⟨c, hc, hxc⟩ := List.mem_flatten.mp hx
  exact h c hc x hxc

theorem advance_wf (n : Nat) (bs : List Bytes) (h : ∀ c ∈ bs, WF c) : ∀ c ∈ advance n bs, WF c := by
  induction bs generalizing n with
  | nil => cases n <;> simp [advance]
  | cons c cs ih =>
    cases n with
    | zero => simpa [advance] using h
    | succ n =>
      unfold advance
      split
      · exact ih _ (fun c hc => h c (List.mem_cons_of_mem _ hc))
      · intro x hx
        simp only [List.mem_cons] at hx
        rcases hx with rfl | hx
        · exact wf_drop _ (h c (List.mem_cons_self ..))
        · exact h x (List.mem_cons_of_mem _ hx)

theorem scriptWF_tail {e : Ev} {r : List Ev} (h : ScriptWF (e :: r)) : ScriptWF r :=
  fun b hb => h b (List.mem_cons_of_mem _ hb)

theorem scriptWF_append {a b : List Ev} (ha : ScriptWF a) (hb : ScriptWF b) : ScriptWF (a ++ b) := by
  intro x hx
  rcases List.mem_append.mp hx with h | h
  · exact ha x h
  · exact hb x h

theorem bufWF_push {s : St} {b : Bytes} (h : BufWF s) (hb : WF b) : BufWF (s.push b) := by
  intro c hc
  simp only [St.push, List.mem_append, List.mem_singleton] at hc
  rcases hc with hc | rfl
  · exact h c hc
  · exact hb

/-- a frame answered by the `FrameDecoder::decode` loop is the decoder's answer on a suffix of the
    buffer -/
theorem decLoop_frame_origin (D : Dec F E) : ∀ (fuel : Nat) (flat : Bytes) (exp : Option Nat) (dropped d : Nat)
    (f : F), decLoop D fuel flat exp dropped = .frame d f → ∃ k n, D.dec (flat.drop k) = .frame f n := by
  intro fuel
  induction fuel with
  | zero => intro flat exp dropped d f h; simp [decLoop] at h
  | succ fuel ih =>
    intro flat exp dropped d f h
    unfold decLoop at h
    by_cases hnil : flat = []
    · rw [if_pos hnil] at h; cases h
    · rw [if_neg hnil] at h
      by_cases hexp : expBlocks exp flat.length = true
      · rw [if_pos hexp] at h; cases h
      · rw [if_neg hexp] at h
        cases hdec : D.dec flat with
        | incomplete m => rw [hdec] at h; cases h
        | error e => rw [hdec] at h; cases h
        | frame f' n =>
          rw [hdec] at h
          simp only [DL.frame.injEq] at h
          exact ⟨0, n, by rw [List.drop_zero, hdec, h.2]⟩
        | unknown n =>
          rw [hdec] at h
          obtain ⟨k, m, hk⟩ := ih _ _ _ _ _ h
          exact ⟨n + k, m, by rw [← List.drop_drop]; exact hk⟩

/-- what one decode step can answer, and what it does to `eos`, `remaining_data` and the buffer -/
def AfterOut (D : Dec F E) (s : St) (e : End) (s' : St) : Out F E → Prop
  | .frame f => s'.remaining = (D.kind f).rem ∧ ∃ k n, D.dec (s.flat.drop k) = .frame f n
  | .errProto _ => s'.remaining = s.remaining
  | .pending => s'.remaining = s.remaining ∧ e = .pending
  | .none => s'.remaining = s.remaining ∧ e = .eos
  | .errEnd => s'.remaining = s.remaining ∧ e = .eos
  | _ => False

theorem afterRecv_safe (D : Dec F E) (s : St) (e : End) (o : Out F E) (s' : St)
    (h : afterRecv D s e = some (o, s')) :
    s'.eos = s.eos ∧ AfterOut D s e s' o ∧ ∃ d, s'.buf = advance d s.buf := by
  refine ⟨?_, ?_, afterRecv_buf D s e o s' h⟩
  all_goals
    unfold afterRecv at h
    cases hdl : decLoop D (s.flat.length + 1) s.flat s.expected 0 with
    | frame d f =>
      rw [hdl] at h
      simp only [Option.some.injEq, Prod.mk.injEq] at h
      obtain ⟨rfl, rfl⟩ := h
      first
        | (cases D.kind f <;> rfl)
        | exact ⟨by cases D.kind f <;> rfl, decLoop_frame_origin D _ _ _ _ _ _ hdl⟩
    | error d exp e' =>
      rw [hdl] at h
      simp only [Option.some.injEq, Prod.mk.injEq] at h
      obtain ⟨rfl, rfl⟩ := h
      first | rfl | exact (rfl : _ = s.remaining)
    | none d exp =>
      rw [hdl] at h
      cases e with
      | more => cases h
      | pending =>
        simp only [Option.some.injEq, Prod.mk.injEq] at h
        obtain ⟨rfl, rfl⟩ := h
        first | rfl | exact ⟨rfl, rfl⟩
      | eos =>
        simp only at h
        split at h
        all_goals
          simp only [Option.some.injEq, Prod.mk.injEq] at h
          obtain ⟨rfl, rfl⟩ := h
          first | rfl | exact ⟨rfl, rfl⟩

/-- the decode step answers unless it was asked to go on reading (`more`) -/
theorem afterRecv_isSome (D : Dec F E) (s : St) (e : End) (he : e ≠ .more) :
    ∃ o s', afterRecv D s e = some (o, s') := by
  unfold afterRecv
  cases decLoop D (s.flat.length + 1) s.flat s.expected 0 with
  | frame d f => exact ⟨_, _, rfl⟩
  | error d exp e' => exact ⟨_, _, rfl⟩
  | none d exp =>
    cases e with
    | more => exact absurd rfl he
    | pending => exact ⟨_, _, rfl⟩
    | eos =>
      simp only
      split <;> exact ⟨_, _, rfl⟩

/-- `afterRecv … more = none` means the decoder loop found nothing to hand out -/
theorem afterRecv_none (D : Dec F E) (s : St) (e : End) (h : afterRecv D s e = none) :
    ∃ d exp, decLoop D (s.flat.length + 1) s.flat s.expected 0 = .none d exp := by
  unfold afterRecv at h
  cases hdl : decLoop D (s.flat.length + 1) s.flat s.expected 0 with
  | frame d f => rw [hdl] at h; cases h
  | error d exp e' => rw [hdl] at h; cases h
  | none d exp => exact ⟨d, exp, rfl⟩

/-- the last step of every branch of `pollNextLoop` that does not read on -/
theorem finish_step (D : Dec F E) (sX sY : St) (eX : End) (rX : List Ev) (o : Out F E) (s' : St)
    (r' : List Ev) (he : eX ≠ .more)
    (h : (match afterRecv D sX eX with
          | some (o, s') => (o, s', rX)
          | none => (Out.pending, sY, rX)) = (o, s', r')) :
    afterRecv D sX eX = some (o, s') ∧ r' = rX := by
  obtain ⟨o1, s1, h1⟩ := afterRecv_isSome D sX eX he
  rw [h1] at h
  simp only [Prod.mk.injEq] at h
  obtain ⟨rfl, rfl, rfl⟩ := h
  exact ⟨h1, rfl⟩

/-- `poll_next` (called with `remaining_data = 0`) never answers the panic outcome or a data piece -/
def NextOutOK : Out F E → Prop
  | .panic => False
  | .data _ => False
  | _ => True

/-- `remaining_data` after an answer of `poll_next` -/
def NextRem (D : Dec F E) (s s' : St) : Out F E → Prop
  | .frame f => s'.remaining = (D.kind f).rem
  | _ => s'.remaining = s.remaining

/-- everything C06 needs to know about one answer of the `poll_next` loop, whatever the state -/
structure NextSafe (D : Dec F E) (s : St) (script : List Ev) (o : Out F E) (s' : St) (r : List Ev) :
    Prop where
  suffix : ∃ taken, script = taken ++ r
  out : NextOutOK o
  rem : NextRem D s s' o
  sticky : s.eos = true → s'.eos = true ∧ o ≠ .pending ∧ r = script
  pend : o = .pending → s'.eos = false
  wf : BufWF s → ScriptWF script →
    BufWF s' ∧ ScriptWF r ∧ ∀ f, o = .frame f → ∃ b n, WF b ∧ D.dec b = .frame f n

theorem nextSafe_of_after (D : Dec F E) (s sX : St) (eX : End) (script taken r : List Ev) (o : Out F E)
    (s' : St) (hA : afterRecv D sX eX = some (o, s')) (hs : script = taken ++ r)
    (hrem : sX.remaining = s.remaining)
    (hsticky : s.eos = true → sX.eos = true ∧ eX = .eos ∧ r = script)
    (hpend : eX = .pending → sX.eos = false)
    (hwf : BufWF s → ScriptWF script → BufWF sX) :
    NextSafe D s script o s' r := by
  obtain ⟨heos, hout, d, hbuf⟩ := afterRecv_safe D sX eX o s' hA
  refine ⟨⟨taken, hs⟩, ?_, ?_, ?_, ?_, ?_⟩
  · cases o <;> simp only [AfterOut] at hout <;> first | exact trivial | exact hout.elim
  · cases o <;> simp only [AfterOut] at hout <;>
      first
        | exact hout.1
        | exact hout.trans hrem
        | exact hout.1.trans hrem
        | exact hout.elim
  · intro h
    obtain ⟨h1, h2, h3⟩ := hsticky h
    refine ⟨by rw [heos]; exact h1, ?_, h3⟩
    intro hp
    subst hp
    simp only [AfterOut] at hout
    rw [h2] at hout
    cases hout.2
  · intro hp
    subst hp
    simp only [AfterOut] at hout
    rw [heos]
    exact hpend hout.2
  · intro h1 h2
    have hX := hwf h1 h2
    refine ⟨?_, ?_, ?_⟩
    · intro c hc
      rw [hbuf] at hc
      exact advance_wf d sX.buf hX c hc
    · rw [hs] at h2
      exact fun b hb => h2 b (List.mem_append_right _ hb)
    · intro f hf
      subst hf
      simp only [AfterOut] at hout
      obtain ⟨_, k, n, hk⟩ := hout
      exact ⟨sX.flat.drop k, n, wf_drop k (wf_flatten hX), hk⟩

theorem pollNextLoop_safe (D : Dec F E) (script : List Ev) :
    ∀ (s : St) (o : Out F E) (s' : St) (r : List Ev), pollNextLoop D s script = (o, s', r) →
      NextSafe D s script o s' r := by
  have hEos : ∀ (script : List Ev) (s : St) (o : Out F E) (s' : St) (r : List Ev), s.eos = true →
      (match afterRecv D s .eos with
        | some (o, s') => (o, s', script)
        | none => (.pending, s, script)) = (o, s', r) → NextSafe D s script o s' r := by
    intro script s o s' r heos h
    obtain ⟨hA, rfl⟩ := finish_step D s s .eos script o s' r (by simp) h
    exact nextSafe_of_after D s s .eos r [] r o s' hA (by simp) rfl
      (fun _ => ⟨heos, rfl, rfl⟩) (fun h => by cases h) (fun h _ => h)
  induction script with
  | nil =>
    intro s o s' r h
    rw [pollNextLoop] at h
    by_cases heos : s.eos = true
    · rw [if_pos heos] at h; exact hEos [] s o s' r heos h
    · rw [if_neg heos] at h
      obtain ⟨hA, rfl⟩ := finish_step D s s .pending [] o s' r (by simp) h
      exact nextSafe_of_after D s s .pending [] [] [] o s' hA (by simp) rfl
        (fun h => absurd h heos) (fun _ => by simpa using heos) (fun h _ => h)
  | cons ev rest ih =>
    intro s o s' r h
    by_cases heos : s.eos = true
    · have : pollNextLoop D s (ev :: rest) = (match afterRecv D s .eos with
          | some (o, s') => (o, s', ev :: rest)
          | none => (.pending, s, ev :: rest)) := by
        cases ev <;> rw [pollNextLoop, if_pos heos] <;> rfl
      rw [this] at h
      exact hEos (ev :: rest) s o s' r heos h
    · have heosf : s.eos = false := by simpa using heos
      cases ev with
      | pend =>
        rw [pollNextLoop, if_neg heos] at h
        obtain ⟨hA, rfl⟩ := finish_step D s s .pending rest o s' r (by simp) h
        exact nextSafe_of_after D s s .pending (.pend :: r) [.pend] r o s' hA (by simp) rfl
          (fun h => absurd h heos) (fun _ => heosf) (fun h _ => h)
      | fin =>
        rw [pollNextLoop, if_neg heos] at h
        obtain ⟨hA, rfl⟩ := finish_step D { s with eos := true } s .eos rest o s' r (by simp) h
        exact nextSafe_of_after D s { s with eos := true } .eos (.fin :: r) [.fin] r o s' hA (by simp) rfl
          (fun h => absurd h heos) (fun h => by cases h) (fun h _ => h)
      | reset c =>
        rw [pollNextLoop, if_neg heos] at h
        simp only [Prod.mk.injEq] at h
        obtain ⟨rfl, rfl, rfl⟩ := h
        exact ⟨⟨[], by simp⟩, trivial, rfl, fun h => absurd h heos, (fun h => by cases h),
          fun h1 h2 => ⟨h1, h2, fun f hf => by cases hf⟩⟩
      | chunk b =>
        rw [pollNextLoop, if_neg heos] at h
        simp only at h
        cases hres : afterRecv D (s.push b) .more with
        | some p =>
          obtain ⟨o1, s1⟩ := p
          rw [hres] at h
          simp only [Prod.mk.injEq] at h
          obtain ⟨rfl, rfl, rfl⟩ := h
          exact nextSafe_of_after D s (s.push b) .more (.chunk b :: rest) [.chunk b] rest o1 s1 hres (by simp) rfl
            (fun h => absurd h heos) (fun h => by cases h)
            (fun h1 h2 => bufWF_push h1 (h2 b (List.mem_cons_self ..)))
        | none =>
          rw [hres] at h
          simp only at h
          obtain ⟨d, exp, hdl⟩ := afterRecv_none D (s.push b) .more hres
          rw [hdl] at h
          simp only at h
          have hn := ih _ o s' r h
          obtain ⟨taken, htk⟩ := hn.suffix
          refine ⟨⟨.chunk b :: taken, by simp [htk]⟩, hn.out, ?_, fun h => absurd h heos, hn.pend, ?_⟩
          · have := hn.rem
            cases o <;> simpa [NextRem, St.push] using this
          · intro h1 h2
            refine hn.wf ?_ (scriptWF_tail h2)
            intro c hc
            exact advance_wf d _ (bufWF_push h1 (h2 b (List.mem_cons_self ..))) c hc

/-- `poll_next` from a state with `remaining_data = 0` -/
theorem pollNext_safe (D : Dec F E) (s : St) (script : List Ev) (h0 : s.remaining = 0) :
    NextSafe D s script (pollNext D s script).1 (pollNext D s script).2.1 (pollNext D s script).2.2 := by
  unfold pollNext
  rw [if_neg (by simpa using h0)]
  exact pollNextLoop_safe D script s _ _ _ rfl

/-- a reset that is the next event is reported at once -/
theorem pollNext_reset (D : Dec F E) (s : St) (c : Nat) (r : List Ev) (h0 : s.remaining = 0)
    (heos : s.eos = false) : pollNext D s (.reset c :: r) = (.errQuic c, s, .reset c :: r) := by
  unfold pollNext
  rw [if_neg (by simpa using h0), pollNextLoop, if_neg (by simp [heos])]

/-- what `poll_data` can answer and what the answer does to `remaining_data` -/
def DataOutOK (s s' : St) : Out F E → Prop
  | .data d => s'.remaining = s.remaining - d.length
  | .pending => s'.remaining = s.remaining
  | .none => s'.remaining = s.remaining ∧ (s.remaining = 0 ∨ s.remaining = USIZE_MAX)
  | .errEnd => True
  | .errQuic _ => True
  | _ => False

/-- `poll_data`: what it can answer and what it does to the state -/
structure DataSafe (s : St) (script : List Ev) (o : Out F E) (s' : St) (r : List Ev) : Prop where
  suffix : ∃ taken, script = taken ++ r
  out : DataOutOK s s' o
  sticky : s.eos = true → s'.eos = true ∧ o ≠ .pending ∧ r = script
  pend : o = .pending → s'.eos = false
  wf : BufWF s → ScriptWF script → BufWF s' ∧ ScriptWF r

theorem takeChunk_wf (max : Nat) (bs : List Bytes) (h : ∀ c ∈ bs, WF c) :
    ∀ c ∈ (takeChunk max bs).2, WF c := by
  cases bs with
  | nil => simp [takeChunk]
  | cons c cs =>
    simp only [takeChunk]
    split
    · exact fun x hx => h x (List.mem_cons_of_mem _ hx)
    · intro x hx
      simp only [List.mem_cons] at hx
      rcases hx with rfl | hx
      · exact wf_drop _ (h c (List.mem_cons_self ..))
      · exact h x (List.mem_cons_of_mem _ hx)

/-- `try_recv` as `poll_data` uses it -/
theorem recvForData_safe (s : St) (script : List Ev) (e : Bool) (s1 : St) (r : List Ev)
    (h : recvForData s script = .ok (e, s1, r)) :
    (∃ taken, script = taken ++ r) ∧ s1.remaining = s.remaining ∧ e = s1.eos ∧
    (s.eos = true → s1 = s ∧ r = script) ∧
    (BufWF s → ScriptWF script → BufWF s1 ∧ ScriptWF r) := by
  unfold recvForData at h
  by_cases heos : s.eos = true
  · rw [if_pos heos] at h
    simp only [Except.ok.injEq, Prod.mk.injEq] at h
    obtain ⟨rfl, rfl, rfl⟩ := h
    exact ⟨⟨[], by simp⟩, rfl, heos.symm, fun _ => ⟨rfl, rfl⟩, fun h1 h2 => ⟨h1, h2⟩⟩
  · rw [if_neg heos] at h
    have heosf : s.eos = false := by simpa using heos
    cases script with
    | nil =>
      simp only [Except.ok.injEq, Prod.mk.injEq] at h
      obtain ⟨rfl, rfl, rfl⟩ := h
      exact ⟨⟨[], by simp⟩, rfl, heosf.symm, fun h => absurd h heos, fun h1 h2 => ⟨h1, h2⟩⟩
    | cons ev rest =>
      cases ev with
      | pend =>
        simp only [Except.ok.injEq, Prod.mk.injEq] at h
        obtain ⟨rfl, rfl, rfl⟩ := h
        exact ⟨⟨[.pend], by simp⟩, rfl, heosf.symm, fun h => absurd h heos,
          fun h1 h2 => ⟨h1, scriptWF_tail h2⟩⟩
      | fin =>
        simp only [Except.ok.injEq, Prod.mk.injEq] at h
        obtain ⟨rfl, rfl, rfl⟩ := h
        exact ⟨⟨[.fin], by simp⟩, rfl, rfl, fun h => absurd h heos, fun h1 h2 => ⟨h1, scriptWF_tail h2⟩⟩
      | reset c => cases h
      | chunk b =>
        simp only [Except.ok.injEq, Prod.mk.injEq] at h
        obtain ⟨rfl, rfl, rfl⟩ := h
        exact ⟨⟨[.chunk b], by simp⟩, rfl, by simp [St.push, heosf], fun h => absurd h heos,
          fun h1 h2 => ⟨bufWF_push h1 (h2 b (List.mem_cons_self ..)), scriptWF_tail h2⟩⟩

theorem pollData_safe (s : St) (script : List Ev) :
    DataSafe (F := F) (E := E) s script (pollData (F := F) (E := E) s script).1
      (pollData (F := F) (E := E) s script).2.1 (pollData (F := F) (E := E) s script).2.2 := by
  unfold pollData
  by_cases h0 : s.remaining = 0
  · rw [if_pos h0]
    exact ⟨⟨[], by simp⟩, ⟨rfl, Or.inl h0⟩, fun h => ⟨h, by simp, rfl⟩, (fun h => by cases h),
      fun h1 h2 => ⟨h1, h2⟩⟩
  · rw [if_neg h0]
    cases hr : recvForData s script with
    | error c =>
      exact ⟨⟨[], by simp⟩, trivial,
        (fun h => by
          unfold recvForData at hr
          rw [if_pos h] at hr
          cases hr),
        (fun h => by cases h), fun h1 h2 => ⟨h1, h2⟩⟩
    | ok p =>
      obtain ⟨e, s1, r⟩ := p
      obtain ⟨hsuf, hrem, he, hst, hwf⟩ := recvForData_safe s script e s1 r hr
      simp only
      have hTwf := takeChunk_wf s1.remaining s1.buf
      cases hres : takeChunk s1.remaining s1.buf with
      | mk od buf' =>
      rw [hres] at hTwf
      simp only at hTwf
      cases od with
      | none =>
        simp only
        by_cases hE : e = true
        · rw [if_pos hE]
          have hs1 : s1.eos = true := by rw [← he]; exact hE
          by_cases hmax : s1.remaining ≠ USIZE_MAX
          · rw [if_pos hmax]
            exact ⟨hsuf, trivial, fun h => ⟨hs1, by simp, (hst h).2⟩, (fun h => by cases h), hwf⟩
          · rw [if_neg hmax]
            have hmax' : s1.remaining = USIZE_MAX := by simpa using hmax
            exact ⟨hsuf, ⟨hrem, Or.inr (by rw [← hrem]; exact hmax')⟩, fun h => ⟨hs1, by simp, (hst h).2⟩,
              (fun h => by cases h), hwf⟩
        · rw [if_neg hE]
          have hs1 : s1.eos = false := by rw [← he]; simpa using hE
          refine ⟨hsuf, hrem, ?_, fun _ => hs1, hwf⟩
          intro h
          rw [(hst h).1, h] at hs1
          cases hs1
      | some d =>
        simp only
        split
        · rename_i hc
          simp only [Bool.and_eq_true, decide_eq_true_eq, List.isEmpty_iff] at hc
          have hs1 : s1.eos = true := by rw [← he]; exact hc.1.1
          refine ⟨hsuf, trivial, fun h => ⟨hs1, by simp, (hst h).2⟩, (fun h => by cases h), ?_⟩
          intro h1 h2
          exact ⟨fun c hc' => hTwf (hwf h1 h2).1 c hc', (hwf h1 h2).2⟩
        · refine ⟨hsuf, by simp [DataOutOK, hrem], ?_, (fun h => by cases h), ?_⟩
          · intro h
            obtain ⟨rfl, rfl⟩ := hst h
            exact ⟨h, by simp, rfl⟩
          · intro h1 h2
            exact ⟨fun c hc' => hTwf (hwf h1 h2).1 c hc', (hwf h1 h2).2⟩

/-- a reset that is the next event is reported at once -/
theorem pollData_reset (s : St) (c : Nat) (r : List Ev) (h0 : s.remaining ≠ 0) (heos : s.eos = false) :
    pollData (F := F) (E := E) s (.reset c :: r) = (.errQuic c, s, .reset c :: r) := by
  unfold pollData
  rw [if_neg h0]
  simp [recvForData, heos]

/-! ### the length of a DATA frame is below 2^62 -/

theorem varint_ok_bound (bs : Bytes) (hwf : WF bs) (v : Nat) (r : Bytes)
    (h : H3.Varint.decode bs = .ok v r) : v < 2 ^ 62 ∧ WF r := by
  obtain ⟨h1, h2⟩ := H3.Props.C16.C16_decode_total bs hwf
  cases hr : H3.Varint.rfcDecode bs with
  | none =>
    obtain ⟨k, hk⟩ := h2 hr
    rw [hk] at h; cases h
  | some p =>
    obtain ⟨v', r'⟩ := p
    obtain ⟨hd, hv⟩ := h1 v' r' hr
    rw [hd] at h
    simp only [H3.Varint.DecRes.ok.injEq] at h
    obtain ⟨rfl, rfl⟩ := h
    refine ⟨hv, ?_⟩
    cases bs with
    | nil => simp [H3.Varint.rfcDecode] at hr
    | cons b0 t =>
      simp only [H3.Varint.rfcDecode] at hr
      split at hr
      · cases hr
      · simp only [Option.some.injEq, Prod.mk.injEq] at hr
        rw [← hr.2]
        exact wf_drop _ hwf

/-- a DATA frame announces fewer than 2^62 bytes (its length is a QUIC varint) -/
theorem frame_data_bound (b : Bytes) (hwf : WF b) (len n : Nat)
    (h : H3.Frame.decode b = .frame (.data len) n) : len < 2 ^ 62 := by
  unfold H3.Frame.decode at h
  cases h1 : H3.Varint.decode b with
  | endOf k => rw [h1] at h; cases h
  | ok ty r1 =>
    rw [h1] at h
    simp only at h
    have hr1 := (varint_ok_bound b hwf ty r1 h1).2
    split at h
    · cases h2 : H3.Varint.decode r1 with
      | endOf k => rw [h2] at h; cases h
      | ok sid r2 => rw [h2] at h; cases h
    · unfold H3.Frame.afterType at h
      cases h2 : H3.Varint.decode r1 with
      | endOf k => rw [h2] at h; cases h
      | ok l r2 =>
        rw [h2] at h
        simp only at h
        have hl := (varint_ok_bound r1 hr1 l r2 h2).1
        split at h
        · simp only [H3.Frame.DecRes.frame.injEq, H3.Frame.Frame.data.injEq] at h
          rw [← h.1]; exact hl
        · split at h
          · cases h
          · exfalso
            revert h
            unfold H3.Frame.typed
            repeat' split
            all_goals intro h; cases h

/-- the kinds of frames after which `remaining_data` is below `usize::MAX` -/
def FrameOK : H3.Frame.Frame → Prop
  | .data n => n < 2 ^ 62
  | _ => True

theorem frameDec_frameOK (b : Bytes) (hwf : WF b) (f : H3.Frame.Frame) (n : Nat)
    (h : frameDec.dec b = .frame f n) : FrameOK f := by
  have h' : H3.Frame.decode b = .frame f n := by
    simp only [frameDec] at h
    cases hd : H3.Frame.decode b with
    | frame f' n' => rw [hd] at h; simp only [liftRes, DecRes.frame.injEq] at h; rw [h.1, h.2]
    | unknown k => rw [hd] at h; cases h
    | incomplete m => rw [hd] at h; cases h
    | error e => rw [hd] at h; cases h
  cases f with
  | data len => exact frame_data_bound b hwf len n h'
  | _ => trivial

/-! ## Part 2: with the C02 invariant — progress and the promised end of the stream -/

/-- what is still to be processed: events, bytes to come, bytes buffered -/
def mu (s : St) (script : List Ev) : Nat := script.length + (evBytes script).length + s.flat.length

/-- the end of the stream has been read or is still to come in the script -/
def Ends (s : St) (script : List Ev) : Prop :=
  s.eos = true ∨ Ev.fin ∈ script ∨ ∃ c, Ev.reset c ∈ script

/-- the state satisfies the C02 invariant for some history, and the chunks to come are non-empty -/
def Good (D : Dec F E) (s : St) (script : List Ev) : Prop :=
  (∃ seen toks, Inv D seen toks s) ∧ ScriptOK script

theorem good_init (D : Dec F E) (script : List Ev) (h : ScriptOK script) : Good D {} script :=
  ⟨⟨[], [], inv_init D⟩, h⟩

theorem ends_step {s s' : St} {taken r : List Ev} (htk : TakenOK s.eos s'.eos taken)
    (h : Ends s (taken ++ r)) : Ends s' r := by
  unfold TakenOK at htk
  obtain ⟨hnr, htk⟩ := htk
  rcases h with h | h | ⟨c, h⟩
  · rw [if_pos h] at htk
    exact Or.inl htk.2
  · by_cases he : s.eos = true
    · rw [if_pos he] at htk; exact Or.inl htk.2
    · rw [if_neg he] at htk
      by_cases he' : s'.eos = true
      · exact Or.inl he'
      · rw [if_neg he'] at htk
        rcases List.mem_append.mp h with h | h
        · exact absurd h htk
        · exact Or.inr (Or.inl h)
  · rcases List.mem_append.mp h with h | h
    · exact absurd h (hnr c)
    · exact Or.inr (Or.inr ⟨c, h⟩)

theorem mu_split (s s' : St) (taken r : List Ev)
    (h : s'.flat.length ≤ s.flat.length + (evBytes taken).length) :
    mu s' r + taken.length ≤ mu s (taken ++ r) := by
  simp only [mu, List.length_append, evBytes_append]
  omega

/-- what a `poll_next` answer other than an error means for the rest of the run -/
def NextLive (D : Dec F E) (s : St) (script : List Ev) (s' : St) (r : List Ev) : Out F E → Prop
  | .frame _ => Good D s' r ∧ mu s' r < mu s script
  | .pending => Good D s' r ∧ mu s' r ≤ mu s script ∧ (script ≠ [] → mu s' r < mu s script) ∧
      (script = [] → r = [])
  | .none => Good D s' r ∧ mu s' r ≤ mu s script
  | _ => True

theorem pollNext_live (D : Dec F E) (L : Laws D) (s : St) (script : List Ev) (hG : Good D s script)
    (h0 : s.remaining = 0) (o : Out F E) (s' : St) (r : List Ev) (h : pollNext D s script = (o, s', r)) :
    (Ends s script → Ends s' r) ∧ NextLive D s script s' r o := by
  obtain ⟨⟨seen, toks, hI⟩, hsc⟩ := hG
  rcases pollNext_preserves D L seen toks s script hI hsc with ⟨hn, _⟩ | ⟨_, hp⟩
  · exact absurd h0 hn
  · rw [h] at hp
    obtain ⟨taken, rfl, htk, hout⟩ := hp
    have hsc' : ScriptOK r := scriptOK_suffix hsc
    refine ⟨ends_step htk, ?_⟩
    cases o with
    | frame f =>
      have hI' : Inv D (seen ++ evBytes taken) (toks ++ [.frame f]) s' := hout
      have hprog := inv_progress D hI hI' (by simp)
      have := mu_split s s' taken r (by omega)
      refine ⟨⟨⟨_, _, hI'⟩, hsc'⟩, ?_⟩
      simp only [mu, List.length_append, evBytes_append] at this ⊢
      omega
    | pending =>
      obtain ⟨hI', _, heos', _⟩ := hout
      have hpl : pollNextLoop D s (taken ++ r) = (.pending, s', r) := by
        unfold pollNext at h
        rw [if_neg (by simpa using h0)] at h
        exact h
      obtain ⟨tk2, htk2, hlen, hne⟩ := pollNextLoop_pending D (taken ++ r) s s' r hpl
      have hteq : tk2 = taken := (List.append_cancel_right htk2).symm
      subst hteq
      have hse : s.eos = false := by
        cases hs : s.eos with
        | false => rfl
        | true =>
          rw [hs] at htk
          simp only [TakenOK, if_true] at htk
          rw [htk.2.2] at heos'
          cases heos'
      have hm := mu_split s s' tk2 r hlen
      refine ⟨⟨⟨_, _, hI'⟩, hsc'⟩, by omega, ?_, ?_⟩
      · intro hne'
        have : tk2 ≠ [] := hne hse hne'
        have : 0 < tk2.length := List.length_pos_iff.mpr this
        omega
      · intro hnil
        exact (List.append_eq_nil_iff.mp hnil).2
    | none =>
      obtain ⟨hI', hfl, _, _⟩ := hout
      have hm := mu_split s s' taken r (by rw [hfl]; simp)
      exact ⟨⟨⟨_, _, hI'⟩, hsc'⟩, by omega⟩
    | _ => trivial

/-- what a `poll_data` answer other than an error means for the rest of the run -/
def DataLive (D : Dec F E) (s : St) (script : List Ev) (s' : St) (r : List Ev) : Out F E → Prop
  | .data d => d ≠ [] ∧ Good D s' r ∧ mu s' r < mu s script
  | .pending => Good D s' r ∧ mu s' r ≤ mu s script ∧ (script ≠ [] → mu s' r < mu s script) ∧
      (script = [] → r = [])
  | .none => Good D s' r ∧ mu s' r ≤ mu s script
  | _ => True

theorem pollData_live (D : Dec F E) (s : St) (script : List Ev) (hG : Good D s script)
    (o : Out F E) (s' : St) (r : List Ev) (h : pollData (F := F) (E := E) s script = (o, s', r)) :
    (Ends s script → Ends s' r) ∧ DataLive D s script s' r o := by
  obtain ⟨⟨seen, toks, hI⟩, hsc⟩ := hG
  have hp := pollData_spec D seen toks s script hI hsc
  rw [h] at hp
  obtain ⟨taken, rfl, htk, hout⟩ := hp
  have hsc' : ScriptOK r := scriptOK_suffix hsc
  refine ⟨ends_step htk, ?_⟩
  cases o with
  | data d =>
    obtain ⟨hd, _, _, hI'⟩ := hout
    have hprog := inv_progress D hI hI' (by simpa using hd)
    have := mu_split s s' taken r (by omega)
    refine ⟨hd, ⟨⟨_, _, hI'⟩, hsc'⟩, ?_⟩
    simp only [mu, List.length_append, evBytes_append] at this ⊢
    omega
  | pending =>
    obtain ⟨hI', hfl, heos', _⟩ := hout
    obtain ⟨tk2, htk2, hne⟩ := pollData_pending (F := F) (E := E) s s' (taken ++ r) r h
    have hteq : tk2 = taken := (List.append_cancel_right htk2).symm
    subst hteq
    have hse : s.eos = false := by
      cases hs : s.eos with
      | false => rfl
      | true =>
        rw [hs] at htk
        simp only [TakenOK, if_true] at htk
        rw [htk.2.2] at heos'
        cases heos'
    have hm := mu_split s s' tk2 r (by rw [hfl]; simp)
    refine ⟨⟨⟨_, _, hI'⟩, hsc'⟩, by omega, ?_, ?_⟩
    · intro hne'
      have : tk2 ≠ [] := hne hse hne'
      have : 0 < tk2.length := List.length_pos_iff.mpr this
      omega
    · intro hnil
      exact (List.append_eq_nil_iff.mp hnil).2
  | none =>
    obtain ⟨hI', hcase⟩ := hout
    refine ⟨⟨⟨_, _, hI'⟩, hsc'⟩, ?_⟩
    rcases hcase with ⟨_, rfl⟩ | ⟨_, _, _, hfl⟩
    · have := mu_split s' s' taken r (by omega)
      omega
    · have := mu_split s s' taken r (by rw [hfl]; simp)
      omega
  | _ => trivial

theorem frameDec_good_init (script : List Ev) (h : ScriptOK script) : Good frameDec {} script :=
  good_init frameDec script h

/-- the state in which `into_stream` hands a stream to `FrameStream::new`: what was read behind the
    stream header is buffered as one chunk (or nothing), the end of the stream may have been seen -/
theorem good_leftover (D : Dec F E) (b : Bytes) (e : Bool) (script : List Ev) (h : ScriptOK script) :
    Good D { buf := if b = [] then [] else [b], eos := e } script := by
  refine ⟨⟨b, [], ?_, ⟨[], ?_, rfl⟩, expSound_none D _, fun h0 => absurd rfl h0⟩, h⟩
  · intro c hc
    by_cases hb : b = []
    · simp [hb] at hc
    · simp only [if_neg hb, List.mem_singleton] at hc
      subst hc
      exact hb
  · by_cases hb : b = []
    · simp [St.flat, hb]
    · simp [St.flat, hb]

end H3.C06
