import H3.Lemmas.DynEnc
/-! Invariants of the connected system that hold for *every* history. -/
namespace H3.Dyn
open H3.Spec.Dyn (STable size evictCount)

def initST (cap : Nat) : STable := { cap := cap }

/-- the queue `track_blocks` must hold for a stream, from the harness's bookkeeping -/
def qOf (st : StreamSt) : Option (List RefMap) :=
  if ((st.done ++ st.todo).drop st.npop).map (·.refMap) = [] then none
  else some (((st.done ++ st.todo).drop st.npop).map (·.refMap))

/-- what is recorded about an emitted header block stays true as the encoder's table grows -/
structure BlockOK (all : List Field) (b : BlockRec) : Prop where
  den : denoteAll all b.base b.blk.reps = some b.orig
  refs : ∀ r ∈ b.blk.reps, ∀ a, r.absRef b.base = some a → 1 ≤ cnt b.refMap a ∧ a ≤ b.required ∧ 1 ≤ a
  req : b.required = 0 ∨ ∃ r ∈ b.blk.reps, r.absRef b.base = some b.required
  reqLe : b.required ≤ all.length
  wf : RefMapWF b.refMap

theorem BlockOK.append {all : List Field} {b : BlockRec} (h : BlockOK all b) (l : List Field) :
    BlockOK (all ++ l) b :=
  ⟨denoteAll_append_all l h.den, h.refs, h.req, by have := h.reqLe; simp; omega, h.wf⟩

structure SysInv (cap0 : Nat) (s : Sys) (stE stD : STable) : Prop where
  enc : TableInv (initST cap0) s.encQ s.enc stE
  decRun : (initST cap0).run (s.encQ.take s.encDel) = some stD
  decAbs : Abs s.dec stD
  decUn : Untracked s.dec
  delLe : s.encDel ≤ s.encQ.length
  queues : ∀ sid, aget s.enc.trackBlocks sid = qOf (s.stream sid)
  npopLe : ∀ sid, (s.stream sid).npop ≤ ((s.stream sid).done ++ (s.stream sid).todo).length
  blocks : ∀ sid, ∀ b ∈ (s.stream sid).done ++ (s.stream sid).todo, BlockOK stE.all b

theorem stream_aset (ss : List (Nat × StreamSt)) (sid x : Nat) (st : StreamSt) :
    (aget (aset ss sid st) x).getD {} = if sid = x then st else (aget ss x).getD {} := by
  rw [aget_aset]; split <;> rfl

theorem stream_of_aset {s s' : Sys} {sid : Nat} {st : StreamSt} (h : s'.streams = aset s.streams sid st) (x : Nat) :
    s'.stream x = if sid = x then st else s.stream x := by
  unfold Sys.stream; rw [h, stream_aset]

theorem stream_of_eq {s s' : Sys} (h : s'.streams = s.streams) (x : Nat) : s'.stream x = s.stream x := by
  unfold Sys.stream; rw [h]

/-! ### start -/

theorem configured_spec {cap bl : Nat} {t : Table} (h : Table.configured cap bl = .ok t) :
    t = { maxSize := cap, blockedMax := bl } ∧ cap ≤ SETTINGS_MAX_TABLE_CAPACITY_MAX := by
  unfold Table.configured Table.setMaxSize Table.setMaxBlocked at h
  by_cases h1 : cap > SETTINGS_MAX_TABLE_CAPACITY_MAX
  · simp [h1] at h
  · simp only [h1, if_false] at h
    have : cap ≥ ({} : Table).maxSize := by simp
    rw [if_pos this] at h
    simp only [Res.bind_ok] at h
    split at h
    · simp at h
    · simp at h; exact ⟨h.symm, by omega⟩

theorem init_inv {cap bl : Nat} {s : Sys} (h : Sys.init cap bl = .ok s) :
    SysInv cap s (initST cap) (initST cap) := by
  unfold Sys.init at h
  cases hc : Table.configured cap bl with
  | err e => rw [hc] at h; simp at h
  | panic p => rw [hc] at h; simp at h
  | ok t =>
    rw [hc] at h; simp at h; subst h
    obtain ⟨ht, _⟩ := configured_spec hc
    subst ht
    have habs : Abs ({ maxSize := cap, blockedMax := bl } : Table) (initST cap) :=
      ⟨rfl, rfl, rfl, rfl, rfl, rfl, by simp [initST], by simp⟩
    exact {
      enc := ⟨rfl, habs, ⟨by intro f a h; simp at h, by intro f a h; simp at h⟩,
        ⟨by intro a; rfl, by intro a h; simp at h, by simp [keys], by intro p hp; simp at hp, by intro p hp; simp at hp⟩,
        ⟨rfl⟩⟩
      decRun := rfl
      decAbs := habs
      decUn := rfl
      delLe := by simp
      queues := by intro sid; simp [Sys.stream, qOf]
      npopLe := by intro sid; simp [Sys.stream]
      blocks := by intro sid b hb; simp [Sys.stream] at hb }

/-! ### `encode` -/

theorem getD_qOf (st : StreamSt) :
    (qOf st).getD [] = ((st.done ++ st.todo).drop st.npop).map (·.refMap) := by
  unfold qOf; split
  · rename_i h; rw [h]; rfl
  · rfl

theorem qOf_push (st : StreamSt) (b : BlockRec) (h : st.npop ≤ (st.done ++ st.todo).length) :
    qOf { st with todo := st.todo ++ [b] } = some ((qOf st).getD [] ++ [b.refMap]) := by
  rw [getD_qOf]
  unfold qOf
  simp only
  have : (st.done ++ (st.todo ++ [b])).drop st.npop = (st.done ++ st.todo).drop st.npop ++ [b] := by
    rw [← List.append_assoc, List.drop_append_of_le_length h]
  rw [this]; simp

theorem step_encode_inv {cap0 : Nat} {s s' : Sys} {stE stD : STable} {sid : Nat} {fields : List Field} {out : Out}
    (h : SysInv cap0 s stE stD) (hs : step s (.encode sid fields) = .ok (s', out)) :
    ∃ enc stE', out = .encoded enc ∧ SysInv cap0 s' stE' stD ∧ EncodeFacts s.enc stE sid fields enc stE' ∧
      s'.enc = enc.table ∧ s'.encQ = s.encQ ++ enc.instrs ∧ s'.dec = s.dec ∧ s'.encDel = s.encDel ∧
      s'.decQ = s.decQ ∧ s'.decDel = s.decDel ∧
      s'.streams = aset s.streams sid { s.stream sid with todo := (s.stream sid).todo ++ [.ofEncoded fields enc s.enc.maxSize] } := by
  obtain ⟨enc, stE', he, hti, hf⟩ := encode_spec h.enc sid fields
  simp only [step, he, Res.bind_ok] at hs
  simp at hs
  obtain ⟨hs1, hs2⟩ := hs
  subst hs1; subst hs2
  refine ⟨enc, stE', rfl, ?_, hf, rfl, rfl, rfl, rfl, rfl, rfl, rfl⟩
  obtain ⟨l, hl⟩ := hf.grow
  have hnew : BlockOK stE'.all (.ofEncoded fields enc s.enc.maxSize) :=
    ⟨hf.den, fun r hr a ha => ⟨(hf.refs r hr a ha).1, (hf.refs r hr a ha).2, hf.refPos r hr a ha⟩, hf.req, hf.reqLe, hf.wf⟩
  exact {
    enc := hti
    decRun := by
      simp only
      rw [List.take_append_of_le_length h.delLe]; exact h.decRun
    decAbs := h.decAbs
    decUn := h.decUn
    delLe := by simp only [List.length_append]; have := h.delLe; omega
    queues := by
      intro x
      rw [stream_of_aset rfl x]
      by_cases hx : sid = x
      · subst hx
        rw [if_pos rfl, hf.queue, h.queues sid]
        exact (qOf_push (s.stream sid) (.ofEncoded fields enc s.enc.maxSize) (h.npopLe sid)).symm
      · rw [if_neg hx, hf.others x (Ne.symm hx)]; exact h.queues x
    npopLe := by
      intro x
      rw [stream_of_aset rfl x]
      by_cases hx : sid = x
      · subst hx; rw [if_pos rfl]; have := h.npopLe sid; simp at this ⊢; omega
      · rw [if_neg hx]; exact h.npopLe x
    blocks := by
      intro x b hb
      rw [stream_of_aset rfl x] at hb
      by_cases hx : sid = x
      · subst hx; rw [if_pos rfl] at hb
        simp only [← List.append_assoc, List.mem_append, List.mem_singleton] at hb
        rcases hb with hb | hb
        · rw [hl]; exact (h.blocks sid b (by simpa using hb)).append l
        · subst hb; exact hnew
      · rw [if_neg hx] at hb
        rw [hl]; exact (h.blocks x b hb).append l }

/-! ### `deliverEnc` -/

theorem STable.run_prefix {st st' : STable} {a b : List EncInstr} (h : st.run (a ++ b) = some st') :
    ∃ s1, st.run a = some s1 ∧ s1.run b = some st' := by
  rw [STable.run_append] at h
  cases ha : st.run a with
  | none => rw [ha] at h; simp at h
  | some s1 => rw [ha] at h; exact ⟨s1, rfl, by simpa using h⟩

theorem take_add_drop_take (l : List α) (d k : Nat) :
    l.take (d + ((l.drop d).take k).length) = l.take d ++ (l.drop d).take k := by
  rw [List.take_add]
  congr 1
  rw [List.length_take]
  rcases Nat.le_total k (l.drop d).length with hk | hk
  · rw [Nat.min_eq_left hk]
  · rw [Nat.min_eq_right hk, List.take_of_length_le (Nat.le_refl _), List.take_of_length_le hk]

theorem step_deliverEnc_ok {cap0 : Nat} {s : Sys} {stE stD : STable} (h : SysInv cap0 s stE stD) (k : Nat) :
    ∃ s' out stD', step s (.deliverEnc k) = .ok (s', out) ∧ SysInv cap0 s' stE stD' ∧
      s'.enc = s.enc ∧ s'.streams = s.streams ∧ s'.encQ = s.encQ ∧ s'.decDel = s.decDel ∧
      stD.all.length ≤ stD'.all.length ∧
      (s'.decQ = s.decQ ∨ ∃ n, s'.decQ = s.decQ ++ [.incr n]) := by
  -- the instructions handed over, and the oracle state after them
  have hsplit : s.encQ = s.encQ.take (s.encDel + ((s.encQ.drop s.encDel).take k).length) ++
      s.encQ.drop (s.encDel + ((s.encQ.drop s.encDel).take k).length) := (List.take_append_drop _ _).symm
  have hrunE := h.enc.run
  rw [hsplit] at hrunE
  obtain ⟨stD', hrunD', _⟩ := STable.run_prefix hrunE
  rw [take_add_drop_take] at hrunD'
  obtain ⟨s1, hs1, hs1'⟩ := STable.run_prefix hrunD'
  rw [h.decRun] at hs1; simp at hs1; subst hs1
  obtain ⟨d', hd', habs', haux'⟩ := encoderInstrs_spec h.decAbs h.decUn hs1'
  have hmono := (STable.run_mono hs1').1
  obtain ⟨l, hl, _⟩ := hmono
  have hins : s.dec.vas.inserted ≤ d'.vas.inserted := by
    rw [h.decAbs.ins, habs'.ins, hl]; simp
  have hstep : ∃ w, onEncoderRecv s.dec ((s.encQ.drop s.encDel).take k) = (d', w, .ok d'.totalInserted) ∧
      (w = [] ∨ ∃ n, w = [.incr n]) := by
    unfold onEncoderRecv
    rw [hd']; simp only [Table.totalInserted]
    by_cases hne : d'.vas.inserted = s.dec.vas.inserted
    · refine ⟨[], ?_, Or.inl rfl⟩; simp [hne]
    · refine ⟨[.incr (d'.vas.inserted - s.dec.vas.inserted)], ?_, Or.inr ⟨_, rfl⟩⟩
      have : ¬ d'.vas.inserted < s.dec.vas.inserted := by omega
      simp [hne, this]
  obtain ⟨w, hw, hwf⟩ := hstep
  have hstepeq : step s (.deliverEnc k) = .ok ({ s with dec := d', encDel := s.encDel + ((s.encQ.drop s.encDel).take k).length, decQ := s.decQ ++ w }, .encRecv ((s.encQ.drop s.encDel).take k).length d'.totalInserted (incrOf w)) := by
    simp only [step, hw]
  refine ⟨_, _, stD', hstepeq, ?_, rfl, rfl, rfl, rfl, by rw [hl]; simp, ?_⟩
  · exact {
      enc := h.enc
      decRun := by simp only; rw [take_add_drop_take]; exact hrunD'
      decAbs := habs'
      decUn := h.decUn.of_aux haux'
      delLe := by
        simp only [List.length_take, List.length_drop]; have := h.delLe; omega
      queues := h.queues
      npopLe := h.npopLe
      blocks := h.blocks }
  · rcases hwf with hw0 | ⟨n, hn⟩
    · left; simp [hw0]
    · right; exact ⟨n, by simp [hn]⟩

/-! ### `deliverBlock` -/

theorem step_deliverBlock_inv {cap0 : Nat} {s s' : Sys} {stE stD : STable} {sid : Nat} {out : Out}
    (h : SysInv cap0 s stE stD) (hs : step s (.deliverBlock sid) = .ok (s', out)) :
    SysInv cap0 s' stE stD ∧ s'.enc = s.enc ∧ s'.dec = s.dec ∧ s'.encQ = s.encQ ∧ s'.encDel = s.encDel ∧
    s'.decDel = s.decDel ∧
    ((s' = s ∧ (out = .skip ∨ ∃ r, out = .blocked r)) ∨
     ∃ b rest dynRef fs, (s.stream sid).todo = b :: rest ∧ (s.stream sid).cancelled = false ∧
       decodeHeader s.dec b.blk = .ok (fs, dynRef) ∧ out = .blockOk fs ∧
       s'.streams = aset s.streams sid { s.stream sid with done := (s.stream sid).done ++ [b], todo := rest } ∧
       s'.decQ = if dynRef then s.decQ ++ [.ack sid] else s.decQ) := by
  simp only [step] at hs
  cases hc : (s.stream sid).cancelled with
  | true =>
    rw [hc] at hs; simp at hs; obtain ⟨h1, h2⟩ := hs; subst h1; subst h2
    exact ⟨h, rfl, rfl, rfl, rfl, rfl, Or.inl ⟨rfl, Or.inl rfl⟩⟩
  | false =>
    rw [hc] at hs
    cases ht : (s.stream sid).todo with
    | nil =>
      rw [ht] at hs; simp at hs; obtain ⟨h1, h2⟩ := hs; subst h1; subst h2
      exact ⟨h, rfl, rfl, rfl, rfl, rfl, Or.inl ⟨rfl, Or.inl rfl⟩⟩
    | cons b rest =>
      rw [ht] at hs; simp only at hs
      cases hd : decodeHeader s.dec b.blk with
      | panic p => rw [hd] at hs; simp at hs
      | err e =>
        rw [hd] at hs
        cases e <;> simp at hs
        obtain ⟨h1, h2⟩ := hs; subst h1; subst h2
        exact ⟨h, rfl, rfl, rfl, rfl, rfl, Or.inl ⟨rfl, Or.inr ⟨_, rfl⟩⟩⟩
      | ok r =>
        obtain ⟨fs, dynRef⟩ := r
        rw [hd] at hs; simp at hs; obtain ⟨h1, h2⟩ := hs; subst h1; subst h2
        have hlist : ((s.stream sid).done ++ [b]) ++ rest = (s.stream sid).done ++ (s.stream sid).todo := by
          rw [ht]; simp
        refine ⟨?_, rfl, rfl, rfl, rfl, rfl, Or.inr ⟨b, rest, dynRef, fs, rfl, rfl, hd, rfl, by simp [hc], rfl⟩⟩
        exact {
          enc := h.enc, decRun := h.decRun, decAbs := h.decAbs, decUn := h.decUn, delLe := h.delLe
          queues := by
            intro x; rw [stream_of_aset rfl x]
            by_cases hx : sid = x
            · subst hx; rw [if_pos rfl, h.queues sid]; unfold qOf; simp only; rw [hlist]
            · rw [if_neg hx]; exact h.queues x
          npopLe := by
            intro x; rw [stream_of_aset rfl x]
            by_cases hx : sid = x
            · subst hx; rw [if_pos rfl]; simp only; rw [hlist]; exact h.npopLe sid
            · rw [if_neg hx]; exact h.npopLe x
          blocks := by
            intro x b' hb'; rw [stream_of_aset rfl x] at hb'
            by_cases hx : sid = x
            · subst hx; rw [if_pos rfl] at hb'; simp only at hb'; rw [hlist] at hb'; exact h.blocks sid b' hb'
            · rw [if_neg hx] at hb'; exact h.blocks x b' hb' }

/-! ### `deliverAck` -/

/-- the part of the invariant `Encoder::on_decoder_recv` works on -/
structure AckInv (cap0 : Nat) (log : List EncInstr) (stE : STable) (t : Table) (ss : List (Nat × StreamSt)) : Prop where
  tinv : TableInv (initST cap0) log t stE
  queues : ∀ sid, aget t.trackBlocks sid = qOf ((aget ss sid).getD {})
  npopLe : ∀ sid, ((aget ss sid).getD {}).npop ≤ (((aget ss sid).getD {}).done ++ ((aget ss sid).getD {}).todo).length
  blocks : ∀ sid, ∀ b ∈ ((aget ss sid).getD {}).done ++ ((aget ss sid).getD {}).todo, BlockOK stE.all b

theorem AckInv.congr {cap0 log stE t ss ss'} (h : AckInv cap0 log stE t ss)
    (hv : ∀ sid, (aget ss' sid).getD {} = (aget ss sid).getD {}) : AckInv cap0 log stE t ss' :=
  ⟨h.tinv, fun sid => by rw [hv]; exact h.queues sid, fun sid => by rw [hv]; exact h.npopLe sid,
    fun sid => by rw [hv]; exact h.blocks sid⟩

theorem Abs.of_core {t t' : Table} {st : STable} (h : Abs t st) (h1 : t'.fields = t.fields)
    (h2 : t'.currSize = t.currSize) (h3 : t'.maxSize = t.maxSize) (h4 : t'.vas = t.vas) : Abs t' st :=
  ⟨by rw [h1]; exact h.fields, by rw [h4]; exact h.ins, by rw [h4]; exact h.drp, by rw [h4, h1]; exact h.delta,
    by rw [h2, h1]; exact h.curr, by rw [h3]; exact h.max, h.le, by rw [h2, h3]; exact h.cap⟩

/-- same contents and counters -/
def SameCore (t' t : Table) : Prop :=
  t'.fields = t.fields ∧ t'.currSize = t.currSize ∧ t'.maxSize = t.maxSize ∧ t'.vas = t.vas ∧
  t'.blockedMax = t.blockedMax

theorem map_drop_succ {l : List BlockRec} {n : Nat} {m : RefMap} {rest : List RefMap}
    (h : (l.drop n).map (·.refMap) = m :: rest) :
    (l.drop (n + 1)).map (·.refMap) = rest ∧ n + 1 ≤ l.length := by
  have hne : l.drop n ≠ [] := by intro e; rw [e] at h; simp at h
  have hlen : n < l.length := by
    apply Nat.lt_of_not_le; intro hle; exact hne (List.drop_eq_nil_of_le hle)
  refine ⟨?_, hlen⟩
  rw [← List.drop_drop, List.map_drop, h]; rfl

/-- one successful `untrack_block`: the oldest tracked block of the stream is released -/
theorem untrack_inv {cap0 log stE t ss} (h : AckInv cap0 log stE t ss) {sid : Nat} {t' : Table}
    (ht : t.untrackBlock sid = .ok t') :
    AckInv cap0 log stE t' (aset ss sid { (aget ss sid).getD {} with npop := ((aget ss sid).getD {}).npop + 1 }) ∧
    SameCore t' t ∧ t'.lkr = t.lkr ∧
    ∃ m rest, aget t.trackBlocks sid = some (m :: rest) ∧ (∀ a, cnt t'.trackMap a = cnt t.trackMap a - cnt m a) ∧
      ((((aget ss sid).getD {}).done ++ ((aget ss sid).getD {}).todo)[((aget ss sid).getD {}).npop]?).map (·.refMap) = some m := by
  rcases untrackBlock_spec h.tinv.track sid with ⟨_, he⟩ | ⟨m, rest, t'', hq, hok, htk, hq', hoth, hcnt, e1, e2, e3, e4, e5, e6, e7, e8, e9, e10⟩
  · rw [he] at ht; simp at ht
  · rw [hok] at ht; simp at ht; subst ht
    have hqs := h.queues sid
    rw [hq] at hqs
    have hmap : ((((aget ss sid).getD {}).done ++ ((aget ss sid).getD {}).todo).drop ((aget ss sid).getD {}).npop).map
        (·.refMap) = m :: rest := by
      unfold qOf at hqs; split at hqs
      · simp at hqs
      · simp only [Option.some.injEq] at hqs; exact hqs.symm
    obtain ⟨hdrop, hlen⟩ := map_drop_succ hmap
    refine ⟨?_, ⟨e1, e2, e3, e4, e8⟩, e7, m, rest, hq, hcnt, ?_⟩
    · exact {
        tinv := ⟨h.tinv.run, h.tinv.abs.of_core e1 e2 e3 e4, h.tinv.maps.congr e5 e6, htk,
          ⟨by rw [e9, e10]; exact h.tinv.blocked.sum⟩⟩
        queues := by
          intro x; rw [stream_aset]
          by_cases hx : sid = x
          · subst hx; rw [if_pos rfl, hq']; unfold qOf; simp only; rw [hdrop]
          · rw [if_neg hx, hoth x (Ne.symm hx)]; exact h.queues x
        npopLe := by
          intro x; rw [stream_aset]
          by_cases hx : sid = x
          · subst hx; rw [if_pos rfl]; exact hlen
          · rw [if_neg hx]; exact h.npopLe x
        blocks := by
          intro x b hb; rw [stream_aset] at hb
          by_cases hx : sid = x
          · subst hx; rw [if_pos rfl] at hb; exact h.blocks sid b hb
          · rw [if_neg hx] at hb; exact h.blocks x b hb }
    · have : (((aget ss sid).getD {}).done ++ ((aget ss sid).getD {}).todo).drop ((aget ss sid).getD {}).npop ≠ [] := by
        intro e; rw [e] at hmap; simp at hmap
      have hh := congrArg List.head? hmap
      simp only [List.head?_map, List.head?_drop] at hh
      simpa using hh

theorem SameCore.refl (t : Table) : SameCore t t := ⟨rfl, rfl, rfl, rfl, rfl⟩
theorem SameCore.trans {a b c : Table} (h1 : SameCore a b) (h2 : SameCore b c) : SameCore a c :=
  ⟨h1.1.trans h2.1, h1.2.1.trans h2.2.1, h1.2.2.1.trans h2.2.2.1, h1.2.2.2.1.trans h2.2.2.2.1,
   h1.2.2.2.2.trans h2.2.2.2.2⟩

theorem untrackBlock_no_panic {t : Table} {x : RefMap} (h : TrackOKx t x) (sid : Nat) (p : Site) :
    t.untrackBlock sid ≠ .panic p := by
  rcases untrackBlock_spec h sid with ⟨_, he⟩ | ⟨m, rest, t'', _, hok, _⟩
  · rw [he]; simp
  · rw [hok]; simp

theorem untrackBlock_err_none {t : Table} {x : RefMap} (h : TrackOKx t x) {sid : Nat} {e : Err}
    (he : t.untrackBlock sid = .err e) : aget t.trackBlocks sid = none := by
  rcases untrackBlock_spec h sid with ⟨hn, _⟩ | ⟨m, rest, t'', _, hok, _⟩
  · exact hn
  · rw [hok] at he; simp at he

theorem StreamSt.npop_add_zero (st : StreamSt) : { st with npop := st.npop + 0 } = st := by
  cases st; rfl

/-- every decoder-stream instruction keeps the invariant; none can panic -/
theorem decoderInstr_inv {cap0 log stE t ss} (h : AckInv cap0 log stE t ss) (i : DecInstr) :
    (∃ e, decoderInstr t i = .err e) ∨
    ∃ t', decoderInstr t i = .ok t' ∧ AckInv cap0 log stE t' (popGhost t ss i) ∧ SameCore t' t := by
  cases i with
  | ack sid =>
    simp only [decoderInstr, popGhost]
    cases hu : t.untrackBlock sid with
    | panic p => exact absurd hu (untrackBlock_no_panic h.tinv.track sid p)
    | err e => exact Or.inl ⟨e, rfl⟩
    | ok t' =>
      obtain ⟨h1, h2, _⟩ := untrack_inv h hu
      exact Or.inr ⟨t', rfl, h1, h2⟩
  | incr n =>
    simp only [decoderInstr, popGhost]
    obtain ⟨t', hok, hb, e1, e2, e3, e4, e5, e6, e7, e8, e9, e10⟩ := updateLargestReceived_spec h.tinv.blocked n
    refine Or.inr ⟨t', hok, ?_, ⟨e1, e2, e3, e4, e9⟩⟩
    exact {
      tinv := ⟨h.tinv.run, h.tinv.abs.of_core e1 e2 e3 e4, h.tinv.maps.congr e5 e6,
        ⟨by rw [e7, e8]; exact h.tinv.track.sum, by rw [e7, e4]; exact h.tinv.track.live,
         by rw [e8]; exact h.tinv.track.nodup, by rw [e8]; exact h.tinv.track.wf,
         by rw [e8]; exact h.tinv.track.nonempty⟩, hb⟩
      queues := by intro x; rw [e8]; exact h.queues x
      npopLe := h.npopLe
      blocks := h.blocks }
  | cancel sid =>
    right
    simp only [decoderInstr, popGhost]
    cases hu : t.untrackBlock sid with
    | panic p => exact absurd hu (untrackBlock_no_panic h.tinv.track sid p)
    | err e =>
      have hn := untrackBlock_err_none h.tinv.track hu
      refine ⟨t, rfl, ?_, SameCore.refl t⟩
      apply h.congr
      intro x; rw [stream_aset, hn]
      by_cases hx : sid = x
      · subst hx; simp
      · simp [hx]
    | ok t1 =>
      obtain ⟨h1, hc1, _, m, rest, hq, _, _⟩ := untrack_inv h hu
      simp only
      cases hu2 : t1.untrackBlock sid with
      | panic p => exact absurd hu2 (untrackBlock_no_panic h1.tinv.track sid p)
      | err e =>
        have hn := untrackBlock_err_none h1.tinv.track hu2
        have hq1 := h1.queues sid
        rw [hn, stream_aset, if_pos rfl] at hq1
        -- the queue had exactly one element
        have hrest : rest = [] := by
          have hqs := h.queues sid; rw [hq] at hqs
          unfold qOf at hqs hq1
          split at hqs
          · simp at hqs
          · simp only [Option.some.injEq] at hqs
            obtain ⟨hd, _⟩ := map_drop_succ hqs.symm
            simp only at hq1
            rw [hd] at hq1
            split at hq1
            · assumption
            · simp at hq1
        refine ⟨t1, rfl, ?_, hc1⟩
        rw [hq, hrest]; simpa using h1
      | ok t2 =>
        obtain ⟨h2, hc2, _, m2, rest2, hq2, _, _⟩ := untrack_inv h1 hu2
        refine ⟨t2, rfl, ?_, hc2.trans hc1⟩
        have hlen : 2 ≤ ((aget t.trackBlocks sid).getD []).length := by
          rw [hq]; simp
          -- the second pop succeeded, so `rest` was not empty
          rcases untrackBlock_spec h.tinv.track sid with ⟨hn, _⟩ | ⟨m', rest', t'', hq', hok', _, hq'', _⟩
          · rw [hn] at hq; simp at hq
          · rw [hok'] at hu; simp at hu; subst hu
            rw [hq] at hq'; simp at hq'; obtain ⟨_, hr⟩ := hq'; subst hr
            rw [hq2] at hq''
            split at hq''
            · simp at hq''
            · rename_i hne; cases rest with
              | nil => exact absurd rfl hne
              | cons _ _ => simp
        rw [Nat.min_eq_left hlen]
        apply h2.congr
        intro x
        simp only [stream_aset]
        by_cases hx : sid = x
        · subst hx; simp
        · simp [hx]

theorem deliverAcks_inv {cap0 log stE t ss} (h : AckInv cap0 log stE t ss) (ins : List DecInstr) :
    (∃ e, deliverAcks t ss ins = .err e) ∨
    ∃ t' ss', deliverAcks t ss ins = .ok (t', ss') ∧ AckInv cap0 log stE t' ss' ∧ SameCore t' t := by
  induction ins generalizing t ss with
  | nil => exact Or.inr ⟨t, ss, rfl, h, SameCore.refl t⟩
  | cons i r ih =>
    simp only [deliverAcks]
    rcases decoderInstr_inv h i with ⟨e, he⟩ | ⟨t1, h1, hi1, hc1⟩
    · left; exact ⟨e, by rw [he]; rfl⟩
    · rw [h1]; simp only [Res.bind_ok]
      rcases ih hi1 with ⟨e, he⟩ | ⟨t2, ss2, h2, hi2, hc2⟩
      · exact Or.inl ⟨e, he⟩
      · exact Or.inr ⟨t2, ss2, h2, hi2, hc2.trans hc1⟩

theorem SysInv.toAck {cap0 s stE stD} (h : SysInv cap0 s stE stD) : AckInv cap0 s.encQ stE s.enc s.streams :=
  ⟨h.enc, h.queues, h.npopLe, h.blocks⟩

theorem step_deliverAck_inv {cap0 : Nat} {s : Sys} {stE stD : STable} (h : SysInv cap0 s stE stD) (k : Nat) :
    (∃ e, step s (.deliverAck k) = .err e) ∨
    ∃ s' out, step s (.deliverAck k) = .ok (s', out) ∧ SysInv cap0 s' stE stD ∧ SameCore s'.enc s.enc ∧
      s'.dec = s.dec ∧ s'.encQ = s.encQ ∧ s'.encDel = s.encDel ∧ s'.decQ = s.decQ := by
  simp only [step]
  rcases deliverAcks_inv h.toAck ((s.decQ.drop s.decDel).take k) with ⟨e, he⟩ | ⟨t', ss', hok, hi, hc⟩
  · left; exact ⟨e, by rw [he]; rfl⟩
  · right
    rw [hok]; simp only [Res.bind_ok]
    refine ⟨_, _, rfl, ?_, hc, rfl, rfl, rfl, rfl⟩
    exact ⟨hi.tinv, h.decRun, h.decAbs, h.decUn, h.delLe, hi.queues, hi.npopLe, hi.blocks⟩

/-! ### `setCapacity` and `cancel` -/

theorem step_setCapacity_inv {cap0 : Nat} {s : Sys} {stE stD : STable} (h : SysInv cap0 s stE stD) (c : Nat) :
    (∃ e, step s (.setCapacity c) = .err e) ∨
    ∃ s' out stE', step s (.setCapacity c) = .ok (s', out) ∧ SysInv cap0 s' stE' stD ∧ s'.dec = s.dec := by
  simp only [step, setDynamicTableSize]
  have ho := setMaxSize_spec h.enc.abs c
  generalize s.enc.setMaxSize c = r at ho
  cases ho with
  | tooLarge _ => exact Or.inl ⟨_, rfl⟩
  | pinned _ _ _ => exact Or.inl ⟨_, rfl⟩
  | done t' hle habs haux hsub hm hunt =>
    right
    simp only [Res.bind_ok]
    have htm : t'.trackMap = s.enc.trackMap := by simpa [Table.aux] using congrArg (·.1) haux
    have htb : t'.trackBlocks = s.enc.trackBlocks := by simpa [Table.aux] using congrArg (·.2.1) haux
    have haux' : t'.blockedCount = s.enc.blockedCount ∧ t'.blockedStreams = s.enc.blockedStreams := by
      simp only [Table.aux, Prod.mk.injEq] at haux; exact ⟨haux.2.2.2.2.1, haux.2.2.2.2.2⟩
    refine ⟨_, _, stE.setCap c, rfl, ?_, rfl⟩
    exact {
      enc := {
        run := by
          simp only
          rw [STable.run_append, h.enc.run]
          simp only [Option.bind_some, STable.run, STable.apply]
          rw [if_neg (by simp [SETTINGS_MAX_TABLE_CAPACITY_MAX] at hle; omega)]; rfl
        abs := habs
        maps := hm h.enc.maps
        track := {
          sum := by rw [htm, htb]; exact h.enc.track.sum
          live := by
            intro a ha; rw [htm] at ha
            have hl := h.enc.track.live a ha
            rw [habs.drp, habs.ins]; rw [h.enc.abs.drp, h.enc.abs.ins] at hl
            refine ⟨?_, by simpa [STable.setCap] using hl.2⟩
            apply Nat.lt_of_not_le; intro hle'
            have := (isTracked_false_iff s.enc a).mp (hunt a hl.1 hle')
            omega
          nodup := by rw [htb]; exact h.enc.track.nodup
          wf := by rw [htb]; exact h.enc.track.wf
          nonempty := by rw [htb]; exact h.enc.track.nonempty }
        blocked := ⟨by rw [haux'.1, haux'.2]; exact h.enc.blocked.sum⟩ }
      decRun := by simp only; rw [List.take_append_of_le_length h.delLe]; exact h.decRun
      decAbs := h.decAbs
      decUn := h.decUn
      delLe := by simp only [List.length_append]; have := h.delLe; omega
      queues := by intro x; simp only; rw [htb]; exact h.queues x
      npopLe := h.npopLe
      blocks := by intro x b hb; simpa [STable.setCap] using h.blocks x b hb }

theorem step_cancel_inv {cap0 : Nat} {s : Sys} {stE stD : STable} (h : SysInv cap0 s stE stD) (sid : Nat) :
    ∃ s' out, step s (.cancel sid) = .ok (s', out) ∧ SysInv cap0 s' stE stD ∧ s'.enc = s.enc ∧ s'.dec = s.dec := by
  refine ⟨_, _, rfl, ?_, rfl, rfl⟩
  exact {
    enc := h.enc, decRun := h.decRun, decAbs := h.decAbs, decUn := h.decUn, delLe := h.delLe
    queues := by
      intro x; rw [stream_of_aset rfl x]
      by_cases hx : sid = x
      · subst hx; rw [if_pos rfl]; exact h.queues sid
      · rw [if_neg hx]; exact h.queues x
    npopLe := by
      intro x; rw [stream_of_aset rfl x]
      by_cases hx : sid = x
      · subst hx; rw [if_pos rfl]; exact h.npopLe sid
      · rw [if_neg hx]; exact h.npopLe x
    blocks := by
      intro x b hb; rw [stream_of_aset rfl x] at hb
      by_cases hx : sid = x
      · subst hx; rw [if_pos rfl] at hb; exact h.blocks sid b hb
      · rw [if_neg hx] at hb; exact h.blocks x b hb }

/-! ### every history -/

theorem step_inv {cap0 : Nat} {s s' : Sys} {stE stD : STable} {ev : Event} {out : Out}
    (h : SysInv cap0 s stE stD) (hs : step s ev = .ok (s', out)) : ∃ stE' stD', SysInv cap0 s' stE' stD' := by
  cases ev with
  | encode sid fields =>
    obtain ⟨enc, stE', _, hi, _⟩ := step_encode_inv h hs
    exact ⟨stE', stD, hi⟩
  | deliverEnc k =>
    obtain ⟨s2, out2, stD', h2, hi, _⟩ := step_deliverEnc_ok h k
    rw [h2] at hs; simp at hs; obtain ⟨e1, _⟩ := hs; subst e1
    exact ⟨stE, stD', hi⟩
  | deliverBlock sid => exact ⟨stE, stD, (step_deliverBlock_inv h hs).1⟩
  | deliverAck k =>
    rcases step_deliverAck_inv h k with ⟨e, he⟩ | ⟨s2, out2, h2, hi, _⟩
    · rw [he] at hs; simp at hs
    · rw [h2] at hs; simp at hs; obtain ⟨e1, _⟩ := hs; subst e1; exact ⟨stE, stD, hi⟩
  | setCapacity c =>
    rcases step_setCapacity_inv h c with ⟨e, he⟩ | ⟨s2, out2, stE', h2, hi, _⟩
    · rw [he] at hs; simp at hs
    · rw [h2] at hs; simp at hs; obtain ⟨e1, _⟩ := hs; subst e1; exact ⟨stE', stD, hi⟩
  | cancel sid =>
    obtain ⟨s2, out2, h2, hi, _⟩ := step_cancel_inv h sid
    rw [h2] at hs; simp at hs; obtain ⟨e1, _⟩ := hs; subst e1; exact ⟨stE, stD, hi⟩

theorem run_inv' {cap0 : Nat} {s s' : Sys} {stE stD : STable} {evs : List Event}
    (h : SysInv cap0 s stE stD) (hr : run s evs = some s') : ∃ stE' stD', SysInv cap0 s' stE' stD' := by
  induction evs generalizing s stE stD with
  | nil => simp [run] at hr; subst hr; exact ⟨stE, stD, h⟩
  | cons ev r ih =>
    simp only [run] at hr
    cases hs : step s ev with
    | err e => rw [hs] at hr; simp at hr
    | panic p => rw [hs] at hr; simp at hr
    | ok x =>
      obtain ⟨s1, out⟩ := x
      rw [hs] at hr; simp only at hr
      obtain ⟨stE1, stD1, h1⟩ := step_inv h hs
      exact ih h1 hr

theorem run_inv {cap bl : Nat} {s0 s : Sys} {evs : List Event} (h0 : Sys.init cap bl = .ok s0)
    (hr : run s0 evs = some s) : ∃ stE stD, SysInv cap s stE stD :=
  run_inv' (init_inv h0) hr

/-- the encoder-side and transport-side operations never hit a panic site -/
theorem step_no_panic {cap0 : Nat} {s : Sys} {stE stD : STable} (h : SysInv cap0 s stE stD) (ev : Event)
    (hne : ∀ sid, ev ≠ .deliverBlock sid) (p : Site) : step s ev ≠ .panic p := by
  cases ev with
  | encode sid fields =>
    obtain ⟨enc, stE', he, _⟩ := encode_spec h.enc sid fields
    simp [step, he]
  | deliverEnc k =>
    obtain ⟨s2, out2, stD', h2, _⟩ := step_deliverEnc_ok h k
    rw [h2]; simp
  | deliverBlock sid => exact absurd rfl (hne sid)
  | deliverAck k =>
    rcases step_deliverAck_inv h k with ⟨e, he⟩ | ⟨s2, out2, h2, _⟩
    · rw [he]; simp
    · rw [h2]; simp
  | setCapacity c =>
    rcases step_setCapacity_inv h c with ⟨e, he⟩ | ⟨s2, out2, stE', h2, _⟩
    · rw [he]; simp
    · rw [h2]; simp
  | cancel sid =>
    obtain ⟨s2, out2, h2, _⟩ := step_cancel_inv h sid
    rw [h2]; simp

/-! ### the instruction log only grows -/

theorem step_encQ_mono {s s' : Sys} {ev : Event} {out : Out} (hs : step s ev = .ok (s', out)) :
    ∃ l, s'.encQ = s.encQ ++ l := by
  cases ev with
  | encode sid fields =>
    simp only [step] at hs
    cases h : encode s.enc sid fields with
    | err e => rw [h] at hs; simp at hs
    | panic p => rw [h] at hs; simp at hs
    | ok e => rw [h] at hs; simp at hs; obtain ⟨e1, _⟩ := hs; subst e1; exact ⟨_, rfl⟩
  | deliverEnc k =>
    simp only [step] at hs
    split at hs
    · simp at hs
    · simp at hs
    · simp at hs; obtain ⟨e1, _⟩ := hs; subst e1; exact ⟨[], by simp⟩
  | deliverBlock sid =>
    simp only [step] at hs
    split at hs
    · simp at hs; obtain ⟨e1, _⟩ := hs; subst e1; exact ⟨[], by simp⟩
    · simp at hs; obtain ⟨e1, _⟩ := hs; subst e1; exact ⟨[], by simp⟩
    · split at hs
      · simp at hs; obtain ⟨e1, _⟩ := hs; subst e1; exact ⟨[], by simp⟩
      · simp at hs
      · simp at hs
      · simp at hs; obtain ⟨e1, _⟩ := hs; subst e1; exact ⟨[], by simp⟩
  | deliverAck k =>
    simp only [step] at hs
    cases h : deliverAcks s.enc s.streams ((s.decQ.drop s.decDel).take k) with
    | err e => rw [h] at hs; simp at hs
    | panic p => rw [h] at hs; simp at hs
    | ok r => rw [h] at hs; simp at hs; obtain ⟨e1, _⟩ := hs; subst e1; exact ⟨[], by simp⟩
  | setCapacity c =>
    simp only [step] at hs
    cases h : setDynamicTableSize s.enc c with
    | err e => rw [h] at hs; simp at hs
    | panic p => rw [h] at hs; simp at hs
    | ok r => rw [h] at hs; simp at hs; obtain ⟨e1, _⟩ := hs; subst e1; exact ⟨_, rfl⟩
  | cancel sid =>
    simp only [step] at hs; simp at hs; obtain ⟨e1, _⟩ := hs; subst e1; exact ⟨[], by simp⟩

theorem run_encQ_mono {s s' : Sys} {evs : List Event} (hr : run s evs = some s') : ∃ l, s'.encQ = s.encQ ++ l := by
  induction evs generalizing s with
  | nil => simp [run] at hr; subst hr; exact ⟨[], by simp⟩
  | cons ev r ih =>
    simp only [run] at hr
    cases hs : step s ev with
    | err e => rw [hs] at hr; simp at hr
    | panic p => rw [hs] at hr; simp at hr
    | ok x =>
      obtain ⟨s1, out⟩ := x
      rw [hs] at hr; simp only at hr
      obtain ⟨l1, h1⟩ := step_encQ_mono hs
      obtain ⟨l2, h2⟩ := ih hr
      exact ⟨l1 ++ l2, by rw [h2, h1, List.append_assoc]⟩

theorem run_append {s : Sys} {a b : List Event} :
    run s (a ++ b) = (run s a).bind fun s1 => run s1 b := by
  induction a generalizing s with
  | nil => simp [run]
  | cons ev r ih =>
    simp only [List.cons_append, run]
    cases step s ev with
    | err e => simp
    | panic p => simp
    | ok x => simp [ih]

end H3.Dyn
