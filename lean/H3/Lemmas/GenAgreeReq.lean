import H3.Model.ReqRecv
import H3.Gen.ReqArms
import H3.Gen.FirstFrame
import H3.Gen.FrameErrCodes
/-! Agreement of the request-stream model (`H3.ReqRecv`, C03/C06/C07) with the decision tables the
    translator reads out of the Rust sources on every run:

    * `H3.Gen.ReqArms`    — the arms of the `match`es of `RequestStream::poll_recv_data` and
                            `poll_recv_trailers` (`h3/src/connection.rs`),
    * `H3.Gen.FirstFrame` — server `accept_with_frame`, client `recv_response`,
    * `H3.Gen.FrameErrCodes` — `got_frame_error`, `handle_frame_stream_error_on_request_stream`.

    The model's step functions decide inline (a `match` on the frame layer's answer inside
    `pollRecvData`, `trailersFirst`, `trailersCheck`, `pollResolve`, `pollRecvResponse`); their
    definitions are left untouched (some 150 proof steps unfold them).  Instead, every theorem
    here says: *on this answer of the frame layer the step function does exactly what the
    generated table says, read through a fixed interpretation of the table's action names*
    (`bodyReact`, `firstReact`, `afterReact`, `headReact`).  When an arm of the Rust source
    changes, the generated table changes and the theorem about it stops to hold. -/
namespace H3.GenAgree.Req
open H3.Frame H3.ReqRecv H3.Gen.Consts

variable {σ : Type}

/-! ### the variants of `enum Frame` and the frames of the model -/

def kindOf : Frame → Gen.ReqArms.Kind
  | .data _ => .data
  | .headers _ => .headers
  | .cancelPush _ => .cancelPush
  | .settings _ => .settings
  | .pushPromise _ _ => .pushPromise
  | .goaway _ => .goaway
  | .maxPushId _ => .maxPushId
  | .webTransport _ => .webTransportStream

def kindOf1 : Frame → Gen.FirstFrame.Kind
  | .data _ => .data
  | .headers _ => .headers
  | .cancelPush _ => .cancelPush
  | .settings _ => .settings
  | .pushPromise _ _ => .pushPromise
  | .goaway _ => .goaway
  | .maxPushId _ => .maxPushId
  | .webTransport _ => .webTransportStream

/-- Every variant of the Rust `enum Frame` is a frame of the model, except `Grease` (which only the
    send side builds; `Frame::decode` has no arm producing it — `H3.GenAgree.Frame`).  A variant
    added to the enum makes this fail. -/
theorem kindOf_covers : ∀ k : Gen.ReqArms.Kind, k = .grease ∨ ∃ f, kindOf f = k := by
  intro k
  cases k
  · exact .inr ⟨.data 0, rfl⟩
  · exact .inr ⟨.headers [], rfl⟩
  · exact .inr ⟨.cancelPush 0, rfl⟩
  · exact .inr ⟨.settings [], rfl⟩
  · exact .inr ⟨.pushPromise 0 [], rfl⟩
  · exact .inr ⟨.goaway 0, rfl⟩
  · exact .inr ⟨.maxPushId 0, rfl⟩
  · exact .inr ⟨.webTransport 0, rfl⟩
  · exact .inl rfl

theorem kindOf1_covers : ∀ k : Gen.FirstFrame.Kind, k = .grease ∨ ∃ f, kindOf1 f = k := by
  intro k
  cases k
  · exact .inr ⟨.data 0, rfl⟩
  · exact .inr ⟨.headers [], rfl⟩
  · exact .inr ⟨.cancelPush 0, rfl⟩
  · exact .inr ⟨.settings [], rfl⟩
  · exact .inr ⟨.pushPromise 0 [], rfl⟩
  · exact .inr ⟨.goaway 0, rfl⟩
  · exact .inr ⟨.maxPushId 0, rfl⟩
  · exact .inr ⟨.webTransport 0, rfl⟩
  · exact .inl rfl

/-- the block a pattern `Frame::Headers(block)` binds -/
def blockOf : Frame → Option Bytes
  | .headers enc => some enc
  | _ => none

/-! ### `handle_frame_stream_error_on_request_stream` -/

/-- the frame-error classes of the model and the variants of `FrameProtocolError` they stand for -/
def protoOf : FrameErr → Gen.FrameErrCodes.ProtoErr
  | .malformed => .malformed
  | .unsupported _ => .forbiddenFrame
  | .settings _ => .settings

/-- `got_frame_error` -/
theorem frameErrCode_agrees : ∀ e, frameErrCode e = Gen.FrameErrCodes.code (protoOf e) := by
  intro e
  cases e <;> rfl

/-- the three arms: `Quic(e)` is the stream's own error, `Proto(e)` a connection error with the code
    of `got_frame_error`, `UnexpectedEnd` a connection error with the generated code -/
theorem fsErr_agrees (st : St σ) :
    (∀ c, fsErr st (.errQuic c) = (.errReset c, st)) ∧
    (∀ e, fsErr st (.errProto e) = connErr st (Gen.FrameErrCodes.code (protoOf e))) ∧
    fsErr st .errEnd = connErr st Gen.FrameErrCodes.requestStreamUnexpectedEnd :=
  ⟨fun _ => rfl, fun e => by cases e <;> rfl, rfl⟩

/-! ### `poll_recv_data` -/

/-- what the model does for an action of the `match` inside `while !has_data()`; `st'` is the
    state after `poll_next`, `o` its answer -/
def bodyReact (S : Src σ) (fuel : Nat) (st' : St σ) (o : FOut) (block : Option Bytes) :
    Gen.ReqArms.Act → Res × St σ
  | .fsErr => fsErr st' o
  | .none_ => (.end_, st')
  | .keepTrailers =>
    match block with
    | some enc => (.end_, { st' with trailers := some enc })
    | none => (.invalid, st')
  | .goOn => pollRecvData S fuel st'
  | .connErr c => connErr st' c
  | _ => (.invalid, st')

theorem pollRecvData_frame (S : Src σ) (fuel : Nat) (st : St σ) (f : Frame) (s' : σ)
    (hd : S.hasData st.src = false) (hn : S.pollNext st.src = (.frame f, s')) :
    pollRecvData S (fuel + 1) st =
      bodyReact S fuel { st with src := s' } (.frame f) (blockOf f) (Gen.ReqArms.body (kindOf f)) := by
  rw [pollRecvData]
  simp only [hd, hn]
  cases f <;> rfl

theorem pollRecvData_fin (S : Src σ) (fuel : Nat) (st : St σ) (s' : σ)
    (hd : S.hasData st.src = false) (hn : S.pollNext st.src = (.none, s')) :
    pollRecvData S (fuel + 1) st =
      bodyReact S fuel { st with src := s' } .none none Gen.ReqArms.bodyOnFin := by
  rw [pollRecvData]
  simp only [hd, hn]
  rfl

/-- the answers `Err(_)` of `poll_next` -/
def IsErr : FOut → Prop
  | .errQuic _ | .errProto _ | .errEnd => True
  | _ => False

theorem pollRecvData_err (S : Src σ) (fuel : Nat) (st : St σ) (o : FOut) (s' : σ) (ho : IsErr o)
    (hd : S.hasData st.src = false) (hn : S.pollNext st.src = (o, s')) :
    pollRecvData S (fuel + 1) st =
      bodyReact S fuel { st with src := s' } o none Gen.ReqArms.bodyOnErr := by
  rw [pollRecvData]
  simp only [hd, hn]
  cases o <;> first | rfl | exact absurd ho (by simp [IsErr])

/-! ### `poll_recv_trailers` -/

/-- the first `match` (no trailers remembered by `poll_recv_data`) -/
def firstReact (S : Src σ) (H : Hdr) (st' : St σ) (o : FOut) (block : Option Bytes) :
    Gen.ReqArms.Act → Res × St σ
  | .fsErr => fsErr st' o
  | .none_ => (.noTrailers, st')
  | .block =>
    match block with
    | some enc => trailersTail S H st' enc
    | none => (.invalid, st')
  | .connErr c => connErr st' c
  | _ => (.invalid, st')

theorem trailersFirst_frame (S : Src σ) (H : Hdr) (st : St σ) (f : Frame) (s' : σ)
    (hn : S.pollNext st.src = (.frame f, s')) :
    trailersFirst S H st =
      firstReact S H { st with src := s' } (.frame f) (blockOf f) (Gen.ReqArms.trailers (kindOf f)) := by
  unfold trailersFirst
  simp only [hn]
  cases f <;> rfl

theorem trailersFirst_fin (S : Src σ) (H : Hdr) (st : St σ) (s' : σ)
    (hn : S.pollNext st.src = (.none, s')) :
    trailersFirst S H st = firstReact S H { st with src := s' } .none none Gen.ReqArms.trailersOnFin := by
  unfold trailersFirst
  simp only [hn]
  rfl

theorem trailersFirst_err (S : Src σ) (H : Hdr) (st : St σ) (o : FOut) (s' : σ) (ho : IsErr o)
    (hn : S.pollNext st.src = (o, s')) :
    trailersFirst S H st = firstReact S H { st with src := s' } o none Gen.ReqArms.trailersOnErr := by
  unfold trailersFirst
  simp only [hn]
  cases o <;> first | rfl | exact absurd ho (by simp [IsErr])

/-- the trailers' QPACK failure code -/
theorem decodeTrailers_qpack (H : Hdr) (st : St σ) (enc : Bytes) (h : H.trailer enc = .qpack) :
    decodeTrailers H st enc = connErr st Gen.ReqArms.trailersQpackErr := by
  unfold decodeTrailers
  rw [h]
  rfl

/-- the second `match` (`if !self.stream.is_eos()`): the look behind the trailers -/
def afterReact (H : Hdr) (st' : St σ) (o : FOut) (enc : Bytes) : Gen.ReqArms.Act → Res × St σ
  | .fsErr => fsErr st' o
  | .goOn => decodeTrailers H st' enc
  | .keepPending => (.pending, { st' with trailers := some enc })
  | .connErr c => connErr st' c
  | _ => (.invalid, st')

theorem trailersCheck_frame (S : Src σ) (H : Hdr) (st : St σ) (enc : Bytes) (f : Frame) (s' : σ)
    (hn : S.pollNext st.src = (.frame f, s')) :
    trailersCheck S H st enc =
      afterReact H { st with src := s' } (.frame f) enc (Gen.ReqArms.after (kindOf f)) := by
  unfold trailersCheck
  simp only [hn]
  cases f <;> rfl

theorem trailersCheck_fin (S : Src σ) (H : Hdr) (st : St σ) (enc : Bytes) (s' : σ)
    (hn : S.pollNext st.src = (.none, s')) :
    trailersCheck S H st enc = afterReact H { st with src := s' } .none enc Gen.ReqArms.afterOnFin := by
  unfold trailersCheck
  simp only [hn]
  rfl

theorem trailersCheck_pending (S : Src σ) (H : Hdr) (st : St σ) (enc : Bytes) (s' : σ)
    (hn : S.pollNext st.src = (.pending, s')) :
    trailersCheck S H st enc = afterReact H { st with src := s' } .pending enc Gen.ReqArms.afterOnPending := by
  unfold trailersCheck
  simp only [hn]
  rfl

theorem trailersCheck_err (S : Src σ) (H : Hdr) (st : St σ) (enc : Bytes) (o : FOut) (s' : σ) (ho : IsErr o)
    (hn : S.pollNext st.src = (o, s')) :
    trailersCheck S H st enc = afterReact H { st with src := s' } o enc Gen.ReqArms.afterOnErr := by
  unfold trailersCheck
  simp only [hn]
  cases o <;> first | rfl | exact absurd ho (by simp [IsErr])

/-! ### the first frame: server `accept_with_frame`, client `recv_response` -/

def firstTable : Role → Gen.FirstFrame.Kind → Gen.FirstFrame.Act
  | .server => Gen.FirstFrame.server
  | .client => Gen.FirstFrame.client

def firstOnFin : Role → Gen.FirstFrame.Act
  | .server => Gen.FirstFrame.serverOnFin
  | .client => Gen.FirstFrame.clientOnFin

def firstOnErr : Role → Gen.FirstFrame.Act
  | .server => Gen.FirstFrame.serverOnErr
  | .client => Gen.FirstFrame.clientOnErr

def qpackErr : Role → Nat
  | .server => Gen.FirstFrame.serverQpackErr
  | .client => Gen.FirstFrame.clientQpackErr

/-- a message head that QPACK-decodes but is not well-formed (the codes are C12's:
    `H3.Gen.Headers.resolveCode`, `recvResponseArms`) -/
def malformedHead (role : Role) (st' : St σ) : Res × St σ :=
  match role with
  | .server =>
    (.errStream CODE_H3_MESSAGE_ERROR,
     { st' with env := { st'.env with rst := first st'.env.rst CODE_H3_MESSAGE_ERROR,
                                      stop := first st'.env.stop CODE_H3_MESSAGE_ERROR } })
  | .client =>
    (.errStream CODE_H3_MESSAGE_ERROR,
     { st' with env := { st'.env with stop := first st'.env.stop CODE_H3_MESSAGE_ERROR } })

def headReact (role : Role) (H : Hdr) (st' : St σ) (o : FOut) (block : Option Bytes) :
    Gen.FirstFrame.Act → Res × St σ
  | .fsErr => fsErr st' o
  | .accept =>
    match block with
    | some enc =>
      match H.head enc with
      | .ok => (.head enc, st')
      | .qpack => connErr st' (qpackErr role)
      | .malformed => malformedHead role st'
    | none => (.invalid, st')
  | .connErr c => connErr st' c
  | .resetStreamErr r c => (.errStream c, { st' with env := { st'.env with rst := first st'.env.rst r } })
  | .streamErr c => (.errStream c, st')

theorem pollHead_frame (role : Role) (S : Src σ) (H : Hdr) (st : St σ) (f : Frame) (s' : σ)
    (hn : S.pollNext st.src = (.frame f, s')) :
    pollHead role S H st =
      headReact role H { st with src := s' } (.frame f) (blockOf f) (firstTable role (kindOf1 f)) := by
  cases role
  · unfold pollHead pollResolve
    simp only [hn]
    cases f <;> first | rfl | (simp only [headReact, firstTable, kindOf1, Gen.FirstFrame.server, blockOf]; split <;> rfl)
  · unfold pollHead pollRecvResponse
    simp only [hn]
    cases f <;> first | rfl | (simp only [headReact, firstTable, kindOf1, Gen.FirstFrame.client, blockOf]; split <;> rfl)

theorem pollHead_fin (role : Role) (S : Src σ) (H : Hdr) (st : St σ) (s' : σ)
    (hn : S.pollNext st.src = (.none, s')) :
    pollHead role S H st = headReact role H { st with src := s' } .none none (firstOnFin role) := by
  cases role
  · unfold pollHead pollResolve
    simp only [hn]
    rfl
  · unfold pollHead pollRecvResponse
    simp only [hn]
    rfl

theorem pollHead_err (role : Role) (S : Src σ) (H : Hdr) (st : St σ) (o : FOut) (s' : σ) (ho : IsErr o)
    (hn : S.pollNext st.src = (o, s')) :
    pollHead role S H st = headReact role H { st with src := s' } o none (firstOnErr role) := by
  cases role
  · unfold pollHead pollResolve
    simp only [hn]
    cases o <;> first | rfl | exact absurd ho (by simp [IsErr])
  · unfold pollHead pollRecvResponse
    simp only [hn]
    cases o <;> first | rfl | exact absurd ho (by simp [IsErr])

/-! ### the guard in front of `poll_recv_trailers` (repair of D-06t) -/

/-- When the source has the guard `if self.stream.has_data() { return Ready(Err(StreamError::StreamError
    { code, .. })) }` (`Gen.ReqArms.trailersGuard = some code`), the model of the whole function,
    `pollRecvTrailersG`, answers that very stream error while a DATA payload is outstanding and leaves
    the state alone; behind the guard it is `pollRecvTrailers`, whose arms are tied above.  (On a
    source without the guard the table says `none` and this lemma says nothing: there the function is
    `pollRecvTrailers` alone, `assert!` included.) -/
theorem trailersGuard_agrees (c : Nat) (hc : Gen.ReqArms.trailersGuard = some c) (S : Src σ) (H : Hdr) (st : St σ) :
    (S.hasData st.src = true → pollRecvTrailersG S H st = (.errStream c, st)) ∧
    (S.hasData st.src = false → pollRecvTrailersG S H st = pollRecvTrailers S H st) := by
  have hcode : c = CODE_H3_FRAME_UNEXPECTED := by
    unfold Gen.ReqArms.trailersGuard at hc
    first
      | (cases hc; rfl)
      | cases hc
  subst hcode
  constructor
  · intro hd; simp [pollRecvTrailersG, hd]
  · intro hd; simp [pollRecvTrailersG, hd]

/-- the function the scenario machine calls (`pollRecvTrailersT`, driven by the generated table) is the
    repaired function when the source has the guard, and the unguarded one when it has not -/
theorem pollRecvTrailersT_eq (S : Src σ) (H : Hdr) (st : St σ) :
    (∀ c, Gen.ReqArms.trailersGuard = some c → pollRecvTrailersT S H st = pollRecvTrailersG S H st) ∧
    (Gen.ReqArms.trailersGuard = none → pollRecvTrailersT S H st = pollRecvTrailers S H st) := by
  constructor
  · intro c hc
    have hcode : c = CODE_H3_FRAME_UNEXPECTED := by
      have hc' := hc
      unfold Gen.ReqArms.trailersGuard at hc'
      first
        | (cases hc'; rfl)
        | cases hc'
    subst hcode
    unfold pollRecvTrailersT pollRecvTrailersG
    rw [hc]
  · intro hn
    unfold pollRecvTrailersT
    rw [hn]

end H3.GenAgree.Req
