import H3.Lemmas.ReqLiftRun
set_option linter.unusedSimpArgs false
/-! Reading a well-formed sequence of frame-layer answers (`Run`) back as a frame sequence in the
    vocabulary of the C03 theorems (`Tok`: a DATA frame together with the pieces its payload is
    handed out in): `decompile`, with `compile (decompile items t) = (items, t)`. -/
namespace H3.ReqRecv
open H3.Frame

/-- the data pieces at the front of the answers -/
def leadPieces : List Item → List Bytes
  | .piece b :: r => b :: leadPieces r
  | _ => []

/-- the answers behind the leading data pieces -/
def dropPieces : List Item → List Item
  | .piece _ :: r => dropPieces r
  | .frame f :: r => .frame f :: r
  | [] => []

/-- the ending as a (possibly empty) last frame and an `Ending` -/
def termTok : Term → List Tok × Ending
  | .fin => ([], .fin)
  | .truncated => ([], .truncated)
  | .reset c => ([], .reset c)
  | .open_ => ([], .open_)
  | .proto e => ([.bad e], .open_)

/-- a frame answered by `poll_next`, with the pieces of its payload -/
def frameTok (f : Frame) (ps : List Bytes) : Tok :=
  match f with
  | .data n => .data n ps
  | .headers b => .headers b
  | .cancelPush v => .cancelPush v
  | .settings es => .settings es
  | .pushPromise i p => .pushPromise i p
  | .goaway v => .goaway v
  | .maxPushId v => .maxPushId v
  -- not used: a `Run` has no WebTransport frame
  | .webTransport _ => .unknown 0x41 []

def decompile : List Item → Term → List Tok × Ending
  | [], t => termTok t
  -- a piece belongs to the DATA frame in front of it
  | .piece _ :: r, t => decompile r t
  | .frame f :: r, t => (frameTok f (leadPieces r) :: (decompile r t).1, (decompile r t).2)

theorem items_split (items : List Item) :
    items = (leadPieces items).map .piece ++ dropPieces items := by
  induction items with
  | nil => rfl
  | cons it r ih =>
    cases it with
    | frame f => rfl
    | piece b =>
      simp only [leadPieces, dropPieces, List.map_cons, List.cons_append]
      rw [← ih]

theorem decompile_drop (items : List Item) (t : Term) :
    decompile items t = decompile (dropPieces items) t := by
  induction items with
  | nil => rfl
  | cons it r ih =>
    cases it with
    | frame f => rfl
    | piece b => simpa [decompile, dropPieces] using ih

theorem run0_lead {items : List Item} {t : Term} (h : Run 0 items t) :
    leadPieces items = [] ∧ dropPieces items = items := by
  cases h with
  | nil0 => exact ⟨rfl, rfl⟩
  | nilD h0 _ => exact absurd rfl h0
  | frame _ _ => exact ⟨rfl, rfl⟩
  | piece h0 _ _ _ => exact absurd rfl h0

theorem compile_termTok (t : Term) : compile (termTok t).1 (termTok t).2 = ([], t) := by
  cases t <;> simp [termTok, compile, Ending.term]

theorem termTok_term (t : Term) (ht : ∀ e, t ≠ .proto e) : (termTok t).2.term = t := by
  cases t with
  | proto e => exact absurd rfl (ht e)
  | _ => rfl

/-- what `compile` makes of a frame without payload pieces -/
theorem compile_plain (f : Frame) (hd : ∀ n, f ≠ .data n) (hwt : ∀ x, f ≠ .webTransport x)
    (ts : List Tok) (e : Ending) :
    compile (frameTok f [] :: ts) e = (.frame f :: (compile ts e).1, (compile ts e).2) := by
  cases f with
  | data n => exact absurd rfl (hd n)
  | webTransport x => exact absurd rfl (hwt x)
  | _ => simp [frameTok, compile]

theorem compile_decompile {rem : Nat} {items : List Item} {t : Term} (h : Run rem items t) :
    (rem = 0 → compile (decompile items t).1 (decompile items t).2 = (items, t)) ∧
    (rem ≠ 0 → (∀ p ∈ leadPieces items, p ≠ []) ∧ (leadPieces items).flatten.length ≤ rem ∧
      ((leadPieces items).flatten.length < rem → dropPieces items = [] ∧ ∀ e, t ≠ .proto e) ∧
      ((leadPieces items).flatten.length = rem →
        compile (decompile (dropPieces items) t).1 (decompile (dropPieces items) t).2 =
          (dropPieces items, t))) ∧
    (∀ tok ∈ (decompile items t).1, TokWF tok) := by
  induction h with
  | @nil0 t =>
    refine ⟨fun _ => compile_termTok t, fun h => absurd rfl h, ?_⟩
    intro tok htok
    cases t <;> simp [decompile, termTok] at htok
    subst htok
    trivial
  | @nilD rem t h0 ht =>
    refine ⟨fun h => absurd h h0, fun _ => ⟨by simp [leadPieces], by simp [leadPieces],
      fun _ => ⟨rfl, ht⟩, fun h => ?_⟩, ?_⟩
    · simp [leadPieces] at h
      exact absurd h.symm h0
    · intro tok htok
      cases t <;> simp [decompile, termTok] at htok
      subst htok
      trivial
  | @frame f items t hwt hr ih =>
    obtain ⟨ih1, ih2, ih3⟩ := ih
    refine ⟨fun _ => ?_, fun h => absurd rfl h, ?_⟩
    · -- `compile` reads the frame and its pieces back
      show compile (frameTok f (leadPieces items) :: (decompile items t).1) (decompile items t).2 = _
      by_cases hk : kindLen f = 0
      · rw [hk] at hr
        obtain ⟨hl, _⟩ := run0_lead hr
        have hc := ih1 hk
        rw [hl]
        by_cases hd : ∀ n, f ≠ .data n
        · rw [compile_plain f hd hwt, hc]
        · have ⟨n, hn⟩ : ∃ n, f = .data n := by
            apply Classical.byContradiction
            intro hne
            exact hd (fun n hfn => hne ⟨n, hfn⟩)
          subst hn
          have hn0 : n = 0 := by simpa [kindLen, FS.frameKind] using hk
          subst hn0
          show compile (.data 0 [] :: _) _ = _
          rw [compile_data_full (by simp), hc]
          rfl
      · -- a DATA frame with payload
        have hf : ∃ n, f = .data n := by
          cases f with
          | data n => exact ⟨n, rfl⟩
          | webTransport x => exact absurd rfl (hwt x)
          | _ => exact absurd rfl hk
        obtain ⟨n, rfl⟩ := hf
        have hkn : kindLen (.data n) = n := rfl
        rw [hkn] at hk ih2
        obtain ⟨_, hB, hC, hD⟩ := ih2 hk
        show compile (.data n (leadPieces items) :: _) _ = _
        by_cases hlt : (leadPieces items).flatten.length < n
        · obtain ⟨hdrop, hnp⟩ := hC hlt
          rw [compile_data_part hlt, decompile_drop, hdrop]
          have hi : items = (leadPieces items).map .piece := by
            have := items_split items
            rw [hdrop, List.append_nil] at this
            exact this
          show (_, (termTok t).2.term) = _
          rw [termTok_term t hnp, ← hi]
        · have heq : (leadPieces items).flatten.length = n := by omega
          rw [compile_data_full hlt, decompile_drop, hD heq]
          simp only
          rw [← items_split]
    · intro tok htok
      have hmem : tok = frameTok f (leadPieces items) ∨ tok ∈ (decompile items t).1 := by
        simpa [decompile] using htok
      rcases hmem with rfl | hmem
      · cases f with
        | data n =>
          show (∀ p ∈ leadPieces items, p ≠ []) ∧ (leadPieces items).flatten.length ≤ n
          by_cases hn : n = 0
          · subst hn
            have hr0 : Run 0 items t := hr
            rw [(run0_lead hr0).1]
            simp
          · have hkn : kindLen (.data n) = n := rfl
            rw [hkn] at ih2
            exact ⟨(ih2 hn).1, (ih2 hn).2.1⟩
        | _ => trivial
      · exact ih3 tok hmem
  | @piece rem d items t h0 hd hle hr ih =>
    obtain ⟨ih1, ih2, ih3⟩ := ih
    refine ⟨fun h => absurd h h0, fun _ => ?_, ?_⟩
    · simp only [leadPieces, dropPieces, List.flatten_cons, List.length_append, List.mem_cons]
      by_cases hz : rem - d.length = 0
      · rw [hz] at hr
        obtain ⟨hl, hdp⟩ := run0_lead hr
        rw [hl, hdp]
        refine ⟨?_, ?_, ?_, fun _ => ih1 hz⟩
        · intro p hp
          rcases hp with rfl | hp
          · exact hd
          · cases hp
        · simp only [List.flatten_nil, List.length_nil]; omega
        · intro hlt
          simp only [List.flatten_nil, List.length_nil] at hlt
          omega
      · obtain ⟨hA, hB, hC, hD⟩ := ih2 hz
        refine ⟨?_, by omega, fun hlt => hC (by omega), fun heq => hD (by omega)⟩
        intro p hp
        rcases hp with rfl | hp
        · exact hd
        · exact hA p hp
    · intro tok htok
      exact ih3 tok (by simpa [decompile] using htok)

/-- a HEADERS frame of the decompiled sequence is one of the answers -/
theorem decompile_headers (b : Bytes) (t : Term) :
    ∀ items : List Item, Tok.headers b ∈ (decompile items t).1 → Item.frame (.headers b) ∈ items := by
  intro items
  induction items with
  | nil =>
    intro h
    cases t <;> simp [decompile, termTok] at h
  | cons it r ih =>
    intro h
    cases it with
    | piece d => exact List.mem_cons_of_mem _ (ih (by simpa [decompile] using h))
    | frame f =>
      have hmem : Tok.headers b = frameTok f (leadPieces r) ∨ Tok.headers b ∈ (decompile r t).1 := by
        simpa [decompile] using h
      rcases hmem with hf | hmem
      · cases f <;> simp [frameTok] at hf
        subst hf
        exact List.mem_cons_self
      · exact List.mem_cons_of_mem _ (ih hmem)

theorem frame_mem_itemToks (f : Frame) :
    ∀ items : List Item, Item.frame f ∈ items → FS.Tok.frame f ∈ itemToks items := by
  intro items
  induction items with
  | nil => intro h; cases h
  | cons it r ih =>
    intro h
    cases it with
    | piece d =>
      have : Item.frame f ∈ r := by simpa using h
      simp only [itemToks, List.mem_append]
      exact Or.inr (ih this)
    | frame g =>
      simp only [List.mem_cons, Item.frame.injEq] at h
      simp only [itemToks, List.mem_cons, FS.Tok.frame.injEq]
      rcases h with h | h
      · exact Or.inl h
      · exact Or.inr (ih h)

end H3.ReqRecv
